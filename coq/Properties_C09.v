(* Properties_C09.v -- C09: no compressed data can make any decompressor touch
   invalid memory.  In the model every array access whose index comes from
   data is a checked operation that yields [Fault]; the theorems say that the
   decoders return [Ok] for ARBITRARY input, callback chunking and code tables.
   Statements only; proofs are in P_Tree.v, P_Decoder.v (and P_Null / P_Lz5 /
   P_Lzs / P_BitReader as they are completed). *)
From Lhasa Require Import Base ListN DecBase BitReader Tree Null Lzs Lz5 Generated Decoder
  P_Tree P_Decoder P_DecoderInv P_Null P_Lz5 P_BitReader P_Lzs LhNew P_LhNew PmaCommon Pm1 Pm2 P_PmaCommon P_Pm1 P_Pm2.
From Lhasa Require Lh1 P_Lh1.
Local Open Scope N_scope.

(* --- lib/tree_decode.c, shared by the lh4-7/x, lk7 and pm2 decoders --- *)

(* For every tree array in a "closed" state (initialised, or left by earlier
   builds with any inputs) and EVERY vector of code lengths -- over-subscribed,
   incomplete, all zero -- build_tree stays inside the tree array and the
   length array, terminates, and leaves the tree closed again.
   uint16_t elements (lh4-7, lhx, lk7: tree_len 1020 / 578 / 126 / 62 / 30): *)
Theorem build_tree_safe_u16 : forall t tree_len cl num,
  closed 32768 t tree_len -> 1 <= tree_len -> tree_len <= 65536 ->
  num <= alen cl -> (forall i, i < num -> aget cl i < 256) ->
  exists t', build_tree 32768 t tree_len cl num = Ok t' /\ closed 32768 t' tree_len /\ alen t' = alen t.
Proof. exact build_tree_closed_u16. Qed.

(* uint8_t elements (pm2: tree_len 65 and 17) *)
Theorem build_tree_safe_u8 : forall t tree_len cl num,
  closed 128 t tree_len -> 1 <= tree_len -> tree_len <= 256 ->
  num <= alen cl -> (forall i, i < num -> aget cl i < 256) ->
  exists t', build_tree 128 t tree_len cl num = Ok t' /\ closed 128 t' tree_len /\ alen t' = alen t.
Proof. exact build_tree_closed_u8. Qed.

Theorem init_tree_safe : forall leaf w, leaf = 2 ^ w -> forall t tree_len, tree_len <= alen t ->
  exists t', init_tree leaf t tree_len = Ok t' /\ closed leaf t' tree_len /\ alen t' = alen t /\
    (forall j, j < tree_len -> aget t' j = leaf) /\ (forall j, tree_len <= j -> aget t' j = aget t j).
Proof. exact init_tree_closed. Qed.

(* Walking a closed tree with ANY input bits stays inside the array, moves
   strictly forward (so it ends within tree_len steps -- also for -pm1-'s
   endless zero input) and returns a symbol below the leaf bit.  The premise
   about read_bit is the bit reader's own safety lemma. *)
Theorem read_from_tree_safe : forall leaf w, leaf = 2 ^ w ->
  forall (cbs : Type) (cb : callback cbs) (bsr_wf : bsr -> Prop),
  (cb_bounded cb -> forall r c, bsr_wf r ->
     exists res r' c', read_bit cb r c = Ok (res, r', c') /\ bsr_wf r' /\ (forall v, res = Some v -> v <= 1)) ->
  forall t len r c, cb_bounded cb -> bsr_wf r -> closed leaf t len -> 1 <= len -> len < 2 ^ 20 ->
  exists res r' c', read_from_tree leaf cb t r c = Ok (res, r', c') /\ bsr_wf r' /\
    (forall v, res = Some v -> v < leaf).
Proof. exact P_Tree.read_from_tree_safe. Qed.

(* --- lib/lha_decoder.c: no read returns more bytes than were asked for, and the
   fill loop never faults or runs away, for any inner decoder whose read()
   returns at most max_read bytes --- *)
Theorem api_read_at_most_asked : forall (cbs st : Type) (dread : st -> cbs -> outcome (list N * st * cbs))
  (max_read block_size : N), dread_total dread max_read ->
  forall (d : decoder) n o ev d', d_stream_pos d <= d_stream_length d -> n < 2 ^ 62 ->
  lha_decoder_read dread max_read block_size d n = Ok (o, ev, d') -> nlen o <= n.
Proof. intros cbs st dread mr bs Hd. exact (read_at_most_asked_proof dread mr bs Hd). Qed.

Theorem api_read_total : forall (cbs st : Type) (dread : st -> cbs -> outcome (list N * st * cbs))
  (max_read block_size : N), dread_total dread max_read ->
  forall (d : decoder) n, n < 2 ^ 62 ->
  exists o ev d', lha_decoder_read dread max_read block_size d n = Ok (o, ev, d').
Proof.
  intros cbs st dread mr bs Hd d n Hn.
  destruct (read_spec dread mr bs Hd d n Hn) as (k & o & d1 & ev & d2 & _ & R & _). eauto.
Qed.

(* --- lib/bit_stream_reader.c: for ANY callback that returns at most what it is
   asked for, reading up to 32 bits never indexes outside the 4-byte local buffer,
   terminates, and keeps the reader well formed --- *)
Theorem read_bits_safe : forall cbs (cb : callback cbs), cb_bounded cb ->
  forall r c n, bsr_wf r -> n <= 32 ->
  exists res r' c', read_bits cb r c n = Ok (res, r', c') /\ bsr_wf r' /\ (forall v, res = Some v -> v < 2 ^ n).
Proof. intros cbs cb Hcb r c n. exact (P_BitReader.read_bits_safe cb Hcb r c n). Qed.

(* read_from_tree with the bit reader's lemma discharged *)
Theorem read_from_tree_never_faults : forall leaf w, leaf = 2 ^ w ->
  forall cbs (cb : callback cbs) t len r c, cb_bounded cb -> bsr_wf r -> closed leaf t len -> 1 <= len -> len < 2 ^ 20 ->
  exists res r' c', read_from_tree leaf cb t r c = Ok (res, r', c') /\ bsr_wf r' /\ (forall v, res = Some v -> v < leaf).
Proof.
  intros leaf w Hl cbs cb t len r c Hcb Hwf Hc H1 H2.
  refine (P_Tree.read_from_tree_safe leaf w Hl cb bsr_wf _ t len r c Hcb Hwf Hc H1 H2).
  intros Hcb' r0 c0 Hwf0. destruct (P_BitReader.read_bit_safe cb Hcb' r0 c0 Hwf0) as (res & r' & c' & E & W & V).
  exists res, r', c'. split; [exact E|]. split; [exact W|]. intros v Ev. specialize (V v Ev). lia.
Qed.

(* --- whole decoders: for ANY input bytes and ANY callback chunking, one read()
   returns normally with at most max_read bytes and keeps the decoder's invariant
   (ring length = its C extent, write position inside the ring, reader well formed) --- *)
Theorem null_never_faults : forall cbs (cb : callback cbs), cb_bounded cb -> dread_total (null_read cb) null_max_read.
Proof. exact P_Null.null_read_total. Qed.

Theorem lz5_never_faults : forall cbs (cb : callback cbs) junk, cb_bounded cb -> junk < 256 ->
  forall s c, lz5_inv s ->
  exists ch s' c', lz5_read cb junk s c = Ok (ch, s', c') /\ nlen ch <= lz5_max_read /\ lz5_inv s'.
Proof. exact P_Lz5.lz5_read_total. Qed.

Theorem lzs_never_faults : forall cbs (cb : callback cbs), cb_bounded cb -> forall s c, lzs_inv s ->
  exists ch s' c', lzs_read cb s c = Ok (ch, s', c') /\ nlen ch <= lzs_max_read /\ lzs_inv s'.
Proof. exact P_Lzs.lzs_read_total. Qed.

Theorem lz5_init_inv : exists s, lz5_init = Ok s /\ lz5_inv s.
Proof. exact P_Lz5.lz5_init_ok. Qed.
Theorem lzs_init_inv : exists s0, lzs_init = Ok s0 /\ lzs_inv s0.
Proof. exact P_Lzs.lzs_init_ok. Qed.

(* lh4 / lh5 / lh6 / lh7 / lhx / lk7 (lib/lh_new_decoder.c): for ANY callback -- arbitrary
   bytes, arbitrary chunking, endless or not -- one read() never reaches a Fault
   (temp/code/offset length arrays, the three trees incl. over-subscribed and
   incomplete tables and single-code forms with the largest raw values, ring
   buffer, output buffer) and, when it returns, returns at most max_read bytes and
   keeps the invariant.  params_ok collects the numeric facts about the generated
   constants (e.g. COPY_THRESHOLD + 255 <= max_read), proved by vm_compute for
   each of the six instances: a C constant changed inconsistently breaks them. *)
Theorem lhnew_never_faults : forall P, params_ok P -> forall cbs (cb : callback cbs), cb_bounded cb ->
  forall s c, lhnew_inv P s ->
  match lhnew_read cb P s c with
  | Ok (ch, s', c') => nlen ch <= p_max_read P /\ lhnew_inv P s'
  | Fault _ => False
  | OutOfFuel => True
  end.
Proof. exact lhnew_read_safe. Qed.

(* ... and it returns whenever the input ends (m measures the bytes the callback can
   still deliver; the model's loop fuel covers inputs below 2^27 bytes).  On an
   endless input of one-bits the unary length loop never ends -- in the C as in the
   model (theorem lhnew_read_not_total_for_endless_input in P_LhNew.v); through the
   library the input is always bounded by the member's compressed length. *)
Theorem lhnew_read_returns : forall P, params_ok P ->
  forall cbs (cb : callback cbs) (m : cbs -> N), cb_bounded cb -> cb_finite cb m ->
  forall s c, lhnew_inv P s -> bits (ln_bsr s) + 8 * m c < 2 ^ 30 ->
  exists ch s' c', lhnew_read cb P s c = Ok (ch, s', c') /\ nlen ch <= p_max_read P /\ lhnew_inv P s' /\
    bits (ln_bsr s') + 8 * m c' <= bits (ln_bsr s) + 8 * m c.
Proof. exact lhnew_read_total. Qed.

Theorem lhnew_params_ok_all : params_ok lh4_params /\ params_ok lh5_params /\ params_ok lh6_params /\
  params_ok lh7_params /\ params_ok lhx_params /\ params_ok lk7_params.
Proof.
  split; [exact lh4_params_ok|]. split; [exact lh5_params_ok|]. split; [exact lh6_params_ok|].
  split; [exact lh7_params_ok|]. split; [exact lhx_params_ok|exact lk7_params_ok].
Qed.

Theorem lhnew_init_inv : forall P, params_ok P -> exists s, lhnew_init P = Ok s /\ lhnew_inv P s.
Proof. exact lhnew_init_ok. Qed.

(* ... and through the API: any read on a decoder whose inner decoder keeps an
   invariant returns normally, with at most the bytes asked for *)
Theorem api_read_total_inv : forall (cbs st : Type) (dread : st -> cbs -> outcome (list N * st * cbs))
  (max_read block_size : N) (I : st -> Prop),
  (forall s c, I s -> exists ch s' c', dread s c = Ok (ch, s', c') /\ nlen ch <= max_read /\ I s') ->
  forall (d : decoder) n, I (d_inner d) -> n < 2 ^ 62 ->
  exists o ev d', lha_decoder_read dread max_read block_size d n = Ok (o, ev, d') /\ I (d_inner d').
Proof. intros cbs st dread mr bs I H. exact (read_total_inv dread mr bs I H). Qed.

(* PMarc decoders: for ANY input bytes and any chunking of them, every read on a
   state satisfying the invariant returns normally with at most max_read bytes
   and re-establishes the invariant; the initial state satisfies it. *)
Theorem pm2_never_faults : forall cbs (cb : callback cbs), cb_bounded cb -> forall s c, pm2_inv_wf s ->
  exists ch s' c', pm2_read cb s c = Ok (ch, s', c') /\ nlen ch <= pm2_max_read /\ pm2_inv_wf s'.
Proof. exact P_Pm2.pm2_never_faults. Qed.

Theorem pm2_init_inv : exists s, pm2_init = Ok s /\ pm2_inv_wf s.
Proof. exact pm2_init_wf. Qed.

Theorem pm1_never_faults : forall cbs (cb : callback cbs), cb_bounded cb -> forall s c, pm1_inv_wf s ->
  exists ch s' c', pm1_read cb s c = Ok (ch, s', c') /\ nlen ch <= pm1_max_read /\ pm1_inv_wf s'.
Proof. exact pm1_read_total. Qed.

Theorem pm1_init_inv : exists s, pm1_init = Ok s /\ pm1_inv_wf s.
Proof. exact pm1_init_wf. Qed.

(* the PMarc history list (prev/next arrays of 256 entries) always is a pair of
   inverse permutations of 0..255 *)
Theorem history_list_wf_perm : forall h, hl_wf h -> forall i, i < 256 ->
  aget (h_prev h) i < 256 /\ aget (h_next h) i < 256 /\
  aget (h_next h) (aget (h_prev h) i) = i /\ aget (h_prev h) (aget (h_next h) i) = i.
Proof. exact hl_wf_perm. Qed.

(* -lh1- (dynamic Huffman): for ANY input bytes and any chunking, every read on a state
   satisfying the invariant (tree structure, frequency order, group bookkeeping, ring
   position) returns normally and re-establishes it -- through every swap and rebuild *)
Theorem lh1_never_faults : forall cbs (cb : callback cbs), cb_bounded cb -> forall s c, P_Lh1.lh1_inv s ->
  exists ch s' c', Lh1.lh1_read cb s c = Ok (ch, s', c') /\ nlen ch <= lh1_max_read /\ P_Lh1.lh1_inv s'.
Proof. exact P_Lh1.lh1_read_total. Qed.

Theorem lh1_init_inv : exists s0, Lh1.lh1_init = Ok s0 /\ P_Lh1.lh1_inv s0.
Proof. exact P_Lh1.lh1_init_ok. Qed.

Print Assumptions build_tree_safe_u16.
Print Assumptions read_bits_safe.
Print Assumptions read_from_tree_never_faults.
Print Assumptions null_never_faults.
Print Assumptions lz5_never_faults.
Print Assumptions lzs_never_faults.
Print Assumptions lhnew_never_faults.
Print Assumptions lhnew_read_returns.
Print Assumptions lhnew_params_ok_all.
Print Assumptions lhnew_init_inv.
Print Assumptions api_read_total_inv.
Print Assumptions build_tree_safe_u8.
Print Assumptions init_tree_safe.
Print Assumptions read_from_tree_safe.
Print Assumptions api_read_at_most_asked.
Print Assumptions api_read_total.
Print Assumptions pm2_never_faults.
Print Assumptions pm2_init_inv.
Print Assumptions pm1_never_faults.
Print Assumptions pm1_init_inv.
Print Assumptions history_list_wf_perm.
Print Assumptions lh1_never_faults.
Print Assumptions lh1_init_inv.

(* P_CliKindIndepEx.v -- property C16 at the level of the tool: non-vacuity of
   P_CliKindIndep.v and the two counterexamples that show its provisos are
   necessary.

   The archive is the two-member archive of P_KindIndepEx.v ("a": 5 stored
   bytes 10..14, "b": "hi").  The filesystem is the one of the differential
   harness (CliMain.v: cli_fs_init): the archive at /arc/a.lzh, the current
   directory /root.  "lha l -", "lha t -", "lha x -" are run by vm_compute with
   standard input of all four kinds and compared with the named form; the
   theorems are instantiated on the same data. *)
From Lhasa Require Import Base ListN Loop Generated InputStream Header BasicReader Fs FsRun Reader Glob ListOut
  CliFilter CliExtract CliMain P_Sfx P_KindIndepEx P_KindIndepSfx P_CliKindIndep.
Local Open Scope N_scope.

Definition cx_strerror (b : bool) : list N := if b then [69] else [80].
Definition cx_now : N := 1000000000.
Definition cx_lha : list N := [108; 104; 97].                                   (* "lha" *)
Definition cx_name : list N := [47; 97; 114; 99; 47; 97; 46; 108; 122; 104].    (* "/arc/a.lzh" *)
Definition cx_dash : list N := [45].                                            (* "-" *)
Definition cx_sfx_name : list N := [115; 46; 101; 120; 101].                    (* "s.exe" *)
Definition cx_fs (mt : N) (setup : list op) : fs := cli_fs_init false kx_archive mt setup.

Definition cx_run (k : skind) (argv : list (list N)) (stdin : list N) (s : fs) : outcome cli_result :=
  lha_main mktime_utc 0 gmtime_utc cx_now k cx_strerror argv stdin s.

(* stdout, stderr, exit status, trace of filesystem operations (newest first) *)
Definition cx_view (r : outcome cli_result) : outcome (list N * list N * N * list fsop) :=
  match r with
  | Ok c => Ok (cr_stdout c, cr_stderr c, cr_exit c, fs_trace (cr_fs c))
  | Fault s => Fault s
  | OutOfFuel => OutOfFuel
  end.

(* " PERMSSN    UID  GID      SIZE  RATIO     STAMP           NAME\n" ... " Total         2 files       7 100.0% Sep  9 01:46\n" *)
Definition cx_l_out : list N :=
  [32; 80; 69; 82; 77; 83; 83; 78; 32; 32; 32; 32; 85; 73; 68; 32;
   32; 71; 73; 68; 32; 32; 32; 32; 32; 32; 83; 73; 90; 69; 32; 32;
   82; 65; 84; 73; 79; 32; 32; 32; 32; 32; 83; 84; 65; 77; 80; 32;
   32; 32; 32; 32; 32; 32; 32; 32; 32; 32; 78; 65; 77; 69; 10; 45;
   45; 45; 45; 45; 45; 45; 45; 45; 45; 32; 45; 45; 45; 45; 45; 45;
   45; 45; 45; 45; 45; 32; 45; 45; 45; 45; 45; 45; 45; 32; 45; 45;
   45; 45; 45; 45; 32; 45; 45; 45; 45; 45; 45; 45; 45; 45; 45; 45;
   45; 32; 45; 45; 45; 45; 45; 45; 45; 45; 45; 45; 45; 45; 45; 45;
   45; 45; 45; 45; 45; 45; 10; 91; 103; 101; 110; 101; 114; 105; 99;
   93; 32; 32; 32; 32; 32; 32; 32; 32; 32; 32; 32; 32; 32; 32; 32;
   32; 32; 32; 32; 32; 53; 32; 49; 48; 48; 46; 48; 37; 32; 32; 32;
   32; 32; 32; 32; 32; 32; 32; 32; 32; 32; 32; 97; 10; 91; 103; 101;
   110; 101; 114; 105; 99; 93; 32; 32; 32; 32; 32; 32; 32; 32; 32;
   32; 32; 32; 32; 32; 32; 32; 32; 32; 32; 32; 50; 32; 49; 48; 48;
   46; 48; 37; 32; 32; 32; 32; 32; 32; 32; 32; 32; 32; 32; 32; 32;
   32; 98; 10; 45; 45; 45; 45; 45; 45; 45; 45; 45; 45; 32; 45; 45;
   45; 45; 45; 45; 45; 45; 45; 45; 45; 32; 45; 45; 45; 45; 45; 45;
   45; 32; 45; 45; 45; 45; 45; 45; 32; 45; 45; 45; 45; 45; 45; 45;
   45; 45; 45; 45; 45; 32; 45; 45; 45; 45; 45; 45; 45; 45; 45; 45;
   45; 45; 45; 45; 45; 45; 45; 45; 45; 45; 10; 32; 84; 111; 116; 97;
   108; 32; 32; 32; 32; 32; 32; 32; 32; 32; 50; 32; 102; 105; 108;
   101; 115; 32; 32; 32; 32; 32; 32; 32; 55; 32; 49; 48; 48; 46; 48;
   37; 32; 83; 101; 112; 32; 32; 57; 32; 48; 49; 58; 52; 54; 10].

(* "\ra\t- Testing  :  .\ra\t- Testing  :  o\ra\t- Tested  \n" and the same for b *)
Definition cx_t_out : list N :=
  [13; 97; 9; 45; 32; 84; 101; 115; 116; 105; 110; 103; 32; 32; 58;
   32; 32; 46; 13; 97; 9; 45; 32; 84; 101; 115; 116; 105; 110; 103;
   32; 32; 58; 32; 32; 111; 13; 97; 9; 45; 32; 84; 101; 115; 116;
   101; 100; 32; 32; 10; 13; 98; 9; 45; 32; 84; 101; 115; 116; 105;
   110; 103; 32; 32; 58; 32; 32; 46; 13; 98; 9; 45; 32; 84; 101; 115;
   116; 105; 110; 103; 32; 32; 58; 32; 32; 111; 13; 98; 9; 45; 32;
   84; 101; 115; 116; 101; 100; 32; 32; 10].

(* "\ra\t- Melting  :  .\ra\t- Melting  :  o\ra\t- Melted  \n" and the same for b *)
Definition cx_x_out : list N :=
  [13; 97; 9; 45; 32; 77; 101; 108; 116; 105; 110; 103; 32; 32; 58;
   32; 32; 46; 13; 97; 9; 45; 32; 77; 101; 108; 116; 105; 110; 103;
   32; 32; 58; 32; 32; 111; 13; 97; 9; 45; 32; 77; 101; 108; 116;
   101; 100; 32; 32; 10; 13; 98; 9; 45; 32; 77; 101; 108; 116; 105;
   110; 103; 32; 32; 58; 32; 32; 46; 13; 98; 9; 45; 32; 77; 101; 108;
   116; 105; 110; 103; 32; 32; 58; 32; 32; 111; 13; 98; 9; 45; 32;
   77; 101; 108; 116; 101; 100; 32; 32; 10].

Definition cx_x_trace : list fsop :=
  [OpWrite [[114; 111; 111; 116]; [98]] 2; OpCreate [[114; 111; 111; 116]; [98]];
   OpWrite [[114; 111; 111; 116]; [97]] 5; OpCreate [[114; 111; 111; 116]; [97]]].

(* "a OverWrite ?(Yes/[No]/All/Skip) " *)
Definition cx_prompt : list N :=
  [97; 32; 79; 118; 101; 114; 87; 114; 105; 116; 101; 32; 63; 40; 89;
   101; 115; 47; 91; 78; 111; 93; 47; 65; 108; 108; 47; 83; 107; 105; 112; 41; 32].

(* ---- the runs: "-" through the four kinds, and the named file ---- *)
Example cx_dash_l : forall k,
  cx_view (cx_run k [cx_lha; [108]; cx_dash] kx_archive (cx_fs 0 [])) = Ok (cx_l_out, [], 0, []).
Proof. intros k. destruct k; vm_compute; reflexivity. Qed.

Example cx_named_l : forall k S,
  cx_view (cx_run k [cx_lha; [108]; cx_name] S (cx_fs 0 [])) = Ok (cx_l_out, [], 0, []).
Proof. intros k S. destruct k; vm_compute; reflexivity. Qed.

Example cx_dash_t : forall k,
  cx_view (cx_run k [cx_lha; [116]; cx_dash] kx_archive (cx_fs 5 [])) = Ok (cx_t_out, [], 0, []).
Proof. intros k. destruct k; vm_compute; reflexivity. Qed.

Example cx_named_t : forall k S,
  cx_view (cx_run k [cx_lha; [116]; cx_name] S (cx_fs 5 [])) = Ok (cx_t_out, [], 0, []).
Proof. intros k S. destruct k; vm_compute; reflexivity. Qed.

Example cx_dash_x : forall k,
  cx_view (cx_run k [cx_lha; [120]; cx_dash] kx_archive (cx_fs 5 [])) = Ok (cx_x_out, [], 0, cx_x_trace).
Proof. intros k. destruct k; vm_compute; reflexivity. Qed.

Example cx_named_x : forall k S,
  cx_view (cx_run k [cx_lha; [120]; cx_name] S (cx_fs 5 [])) = Ok (cx_x_out, [], 0, cx_x_trace).
Proof. intros k S. destruct k; vm_compute; reflexivity. Qed.

(* the whole result records, filesystem included *)
Example cx_dash_x_whole : forall k,
  cx_run k [cx_lha; [120]; cx_dash] kx_archive (cx_fs 5 []) =
  cx_run KPipe [cx_lha; [120]; cx_name] [] (cx_fs 5 []).
Proof. intros k. destruct k; vm_compute; reflexivity. Qed.

(* ---- A on this archive: any command line, any filesystem ---- *)
Example cx_thm_A : forall k1 k2 argv s, cx_run k1 argv kx_archive s = cx_run k2 argv kx_archive s.
Proof. intros. apply cli_stdin_kind_irrelevant. vm_compute. reflexivity. Qed.

(* ---- B on this archive ---- *)
Lemma cx_open mt : fs_fopen_rb (cx_fs mt []) cx_name = OpenFile kx_archive mt.
Proof. vm_compute. reflexivity. Qed.

(* t, p: any standard input S of the named run, any modification time *)
Example cx_thm_B_t : forall k k' S mt,
  cx_run k [cx_lha; [116]; cx_name] S (cx_fs mt []) = cx_run k' [cx_lha; [116]; cx_dash] kx_archive (cx_fs mt []).
Proof.
  intros. apply (cli_named_file_vs_stdin_argv mktime_utc 0 gmtime_utc cx_now cx_strerror k k' cx_lha [116] cx_name []
                   MODE_CRC_CHECK init_options S kx_archive mt).
  - reflexivity.
  - reflexivity.
  - apply cx_open.
  - vm_compute. reflexivity.
  - intros [X|X]; discriminate X.
  - intros X. discriminate X.
Qed.

Example cx_thm_B_p : forall k k' S mt,
  cx_run k [cx_lha; [112]; cx_name] S (cx_fs mt []) = cx_run k' [cx_lha; [112]; cx_dash] kx_archive (cx_fs mt []).
Proof.
  intros. apply (cli_named_file_vs_stdin_argv mktime_utc 0 gmtime_utc cx_now cx_strerror k k' cx_lha [112] cx_name []
                   MODE_PRINT init_options S kx_archive mt).
  - reflexivity.
  - reflexivity.
  - apply cx_open.
  - vm_compute. reflexivity.
  - intros [X|X]; discriminate X.
  - intros X. discriminate X.
Qed.

(* xf (no prompt), with a pattern *)
Example cx_thm_B_xf : forall k k' S mt,
  cx_run k [cx_lha; [120; 102]; cx_name; [97]] S (cx_fs mt []) =
  cx_run k' [cx_lha; [120; 102]; cx_dash; [97]] kx_archive (cx_fs mt []).
Proof.
  intros. apply (cli_named_file_vs_stdin_argv mktime_utc 0 gmtime_utc cx_now cx_strerror k k' cx_lha [120; 102] cx_name [[97]]
                   MODE_EXTRACT (set_overwrite init_options LHA_OVERWRITE_ALL) S kx_archive mt).
  - reflexivity.
  - reflexivity.
  - apply cx_open.
  - vm_compute. reflexivity.
  - intros [X|X]; discriminate X.
  - intros _ _ X. discriminate X.
Qed.

(* l, v: the archive file's time unknown (0) or equal to the current time *)
Example cx_thm_B_l : forall k k' S mt, mt = 0 \/ mt = cx_now ->
  cx_run k [cx_lha; [108]; cx_name] S (cx_fs mt []) = cx_run k' [cx_lha; [108]; cx_dash] kx_archive (cx_fs mt []).
Proof.
  intros k k' S mt Hmt.
  apply (cli_named_file_vs_stdin_argv mktime_utc 0 gmtime_utc cx_now cx_strerror k k' cx_lha [108] cx_name []
           MODE_LIST init_options S kx_archive mt).
  - reflexivity.
  - reflexivity.
  - apply cx_open.
  - vm_compute. reflexivity.
  - intros _. exact Hmt.
  - intros X. discriminate X.
Qed.

(* ---- the first proviso of B is necessary: with another modification time the
   footers of "l NAME" and "l -" differ (the model prints [now] for "-") ---- *)
Example cx_mtime_needed :
  cx_run KPipe [cx_lha; [108]; cx_name] [] (cx_fs 5 []) <> cx_run KPipe [cx_lha; [108]; cx_dash] kx_archive (cx_fs 5 []).
Proof. intros H. apply (f_equal cx_view) in H. vm_compute in H. discriminate H. Qed.

(* ---- the second proviso of B is necessary: "a" exists, the policy is
   "prompt".  By name, with "y\n" typed: the prompt, "a" replaced, "b" created.
   With "-": getchar() takes the next byte of the archive stream, which is the
   first data byte of "a" (10 = newline = "No"); the member is skipped, the
   stream is now one byte off, the next header does not parse, nothing is
   extracted, exit status 0. ---- *)
Definition cx_setup_a : list op := [OFopen [97] (Some 420) [120]].

Example cx_prompt_named :
  cx_view (cx_run KPipe [cx_lha; [120]; cx_name] [121; 10] (cx_fs 5 cx_setup_a)) =
  Ok (cx_x_out, cx_prompt, 0, cx_x_trace ++ [OpUnlink [[114; 111; 111; 116]; [97]]]).
Proof. vm_compute. reflexivity. Qed.

Example cx_prompt_dash : forall k,
  cx_view (cx_run k [cx_lha; [120]; cx_dash] kx_archive (cx_fs 5 cx_setup_a)) = Ok ([], cx_prompt, 0, []).
Proof. intros k. destruct k; vm_compute; reflexivity. Qed.

Example cx_prompt_needed :
  cx_run KPipe [cx_lha; [120]; cx_name] [121; 10] (cx_fs 5 cx_setup_a) <>
  cx_run KPipe [cx_lha; [120]; cx_dash] kx_archive (cx_fs 5 cx_setup_a).
Proof. intros H. apply (f_equal cx_view) in H. rewrite cx_prompt_named, cx_prompt_dash in H. discriminate H. Qed.

(* ... and A still holds there: the prompt on "-" behaves the same for every kind *)
Example cx_prompt_kinds : forall k1 k2,
  cx_run k1 [cx_lha; [120]; cx_dash] kx_archive (cx_fs 5 cx_setup_a) =
  cx_run k2 [cx_lha; [120]; cx_dash] kx_archive (cx_fs 5 cx_setup_a).
Proof. intros. apply cx_thm_A. Qed.

(* ---- C: s.exe = a quiet 1000-byte stub followed by the archive, in the current
   directory of the same filesystem ---- *)
Definition cx_stub : list N := lcg_bytes 1000 1.
Definition cx_setup_s : list op := [OFopen cx_sfx_name (Some 420) (cx_stub ++ kx_archive)].

Example cx_sfx_t_run :
  cx_view (cx_run KFile [cx_lha; [116]; cx_sfx_name] [] (cx_fs 0 cx_setup_s)) = Ok (cx_t_out, [], 0, []).
Proof. vm_compute. reflexivity. Qed.

Lemma cx_sfx_hyps :
  nlen cx_stub < sfx_scan_limit /\ 13 <= nlen kx_archive /\ match_at kx_archive 0 = true /\
  (forall q, q < nlen cx_stub -> match_at (cx_stub ++ kx_archive) q = false /\ marker_at (cx_stub ++ kx_archive) q = false) /\
  nlen kx_archive < 1099511627776 - sfx_scan_limit.
Proof.
  split; [vm_compute; reflexivity|]. split; [vm_compute; discriminate|]. split; [vm_compute; reflexivity|].
  split; [apply quiet_prefix_ok; vm_compute; reflexivity|vm_compute; reflexivity].
Qed.

(* every command, every option, every pattern, every standard input (prompts included) *)
Example cx_thm_C : forall k k' prog cmd mode o filters stdin,
  parse_command_line cmd = Some (mode, o) ->
  cx_run k (prog :: cmd :: cx_sfx_name :: filters) stdin (cx_fs 0 cx_setup_s) =
  cx_run k' (prog :: cmd :: cx_name :: filters) stdin (cx_fs 0 cx_setup_s).
Proof.
  intros k k' prog cmd mode o filters stdin Pc.
  destruct cx_sfx_hyps as (H1 & H2 & H3 & H4 & H5).
  apply (cli_sfx_prefix_irrelevant mktime_utc 0 gmtime_utc cx_now cx_strerror k k' _ _ mode o cx_sfx_name cx_name filters
           stdin cx_stub kx_archive 0 0); try assumption.
  - cbn [tl parse_main]. rewrite Pc. reflexivity.
  - cbn [tl parse_main]. rewrite Pc. reflexivity.
  - reflexivity.
  - reflexivity.
  - vm_compute. reflexivity.
  - vm_compute. reflexivity.
  - intros _. reflexivity.
Qed.

(* both on standard input, any two kinds, a command that cannot prompt *)
Example cx_thm_C_stdin : forall k1 k2 s,
  cx_run k1 [cx_lha; [116]; cx_dash] (cx_stub ++ kx_archive) s = cx_run k2 [cx_lha; [116]; cx_dash] kx_archive s.
Proof.
  intros k1 k2 s. destruct cx_sfx_hyps as (H1 & H2 & H3 & H4 & H5).
  apply (cli_sfx_prefix_stdin mktime_utc 0 gmtime_utc cx_now cx_strerror k1 k2 _ MODE_CRC_CHECK init_options cx_dash []);
    try assumption; try reflexivity.
  intros X. discriminate X.
Qed.

Print Assumptions cx_dash_l.
Print Assumptions cx_named_l.
Print Assumptions cx_dash_t.
Print Assumptions cx_named_t.
Print Assumptions cx_dash_x.
Print Assumptions cx_named_x.
Print Assumptions cx_dash_x_whole.
Print Assumptions cx_thm_A.
Print Assumptions cx_thm_B_t.
Print Assumptions cx_thm_B_p.
Print Assumptions cx_thm_B_xf.
Print Assumptions cx_thm_B_l.
Print Assumptions cx_mtime_needed.
Print Assumptions cx_prompt_named.
Print Assumptions cx_prompt_dash.
Print Assumptions cx_prompt_needed.
Print Assumptions cx_prompt_kinds.
Print Assumptions cx_sfx_t_run.
Print Assumptions cx_thm_C.
Print Assumptions cx_thm_C_stdin.

(* P_MacBinarySafe.v -- part of C08: lib/macbinary.c (MacBinary.v) never faults.

   macbinary_init and macbinary_read (sites 1301-1314), over any inner decoder whose
   state satisfies the invariant of P_AnyDecoder and any header with a file name:
   every mb_at stays inside the 128-byte header buffer (the header is examined only
   when all 128 bytes were read), the chunk handed to the wrapper fits its buffer.

   Site 1307 (strlen(header->filename) with filename == NULL) is excluded by the
   premise [h_filename h <> None]; P_ReaderSafe shows that the parser guarantees it
   for every header a decoder is opened for. *)
From Lhasa Require Import Base ListN DecBase Loop Generated InputStream Header BasicReader
  Lh1 AnyDecoder Decoder MacBinary P_HeaderSafe P_AnyParam P_AnyDecoder.
From Coq Require Import ZifyBool ZifyN ZifyNat.
Local Open Scope N_scope.

Section MacSafe.
  Variable lh1_inv : lh1_state -> Prop.
  Hypothesis Hlh1 : forall s c, lh1_inv s ->
    exists ch s' c', lh1_read decoder_callback s c = Ok (ch, s', c') /\ nlen ch <= lh1_max_read /\ lh1_inv s'.
  Variable junk : N.

  Notation any_inv := (any_inv lh1_inv).

  (* ---------------------------------------------------------------- *)
  (* 1. An LHADecoder over the basic reader                            *)

  (* X: the current header of the basic reader the decoder reads through *)
  Definition idec_ok (X : option header) (d : idec) : Prop :=
    any_inv (d_inner (id_dec d)) /\ any_max (d_inner (id_dec d)) <= id_max_read d /\
    br_keeps X (d_cb (id_dec d)).

  Definition JJ (X : option header) (mr : N) (s : dstate) (c : breader) : Prop :=
    any_inv s /\ any_max s <= mr /\ br_keeps X c.

  Lemma any_read_JJ X mr s c : JJ X mr s c ->
    okp True (fun '(ch, s', c') => nlen ch <= mr /\ JJ X mr s' c') (any_read decoder_callback junk s c).
  Proof.
    intros (Hi & Hm & Hk).
    pose proof (any_read_okp lh1_inv decoder_callback junk decoder_callback_len Hlh1 s c Hi) as H.
    pose proof (any_read_frame breader decoder_callback (br_keeps X)
                  (fun c0 n => decoder_callback_keeps X c0 n) junk s c) as Hf.
    destruct (any_read decoder_callback junk s c) as [[[ch s'] c']| |]; cbn [okp any_post] in *;
      [|exact H|exact I].
    destruct H as (H1 & H2 & H3). split; [lia|]. split; [exact H2|]. split; [lia|].
    apply (Hf ch s' c' Hk eq_refl).
  Qed.

  Definition inner_post (X : option header) (d : idec) (n : N) (r : list N * list (N * N) * idec) : Prop :=
    let '(o, ev, d') := r in
    idec_ok X d' /\ nlen o <= n /\ id_max_read d' = id_max_read d /\ id_block_size d' = id_block_size d /\
    d_stream_length (id_dec d') = d_stream_length (id_dec d).

  (* lha_decoder_read(inner, buf, n) *)
  Theorem inner_read_okp X d n : idec_ok X d -> okp True (inner_post X d n) (inner_read junk d n).
  Proof.
    intros (Hi & Hm & Hk). unfold inner_read.
    eapply okpT_bind.
    - apply (lha_decoder_read_okp (any_read decoder_callback junk) (id_max_read d) (id_block_size d)
               (JJ X (id_max_read d)) (any_read_JJ X (id_max_read d)) (id_dec d) n).
      split; [exact Hi|]. split; [exact Hm|exact Hk].
    - intros [[o ev] d'] ((Hi' & Hm' & Hk') & Hn & Hl). cbn [okp inner_post].
      unfold idec_ok, with_dec. cbn [id_dec id_max_read id_block_size].
      split; [split; [exact Hi'|split; [exact Hm'|exact Hk']]|].
      split; [exact Hn|]. split; [reflexivity|]. split; [reflexivity|exact Hl].
  Qed.

  (* ---------------------------------------------------------------- *)
  (* 2. Accesses to the header buffer                                  *)

  Lemma mb_at_ok site data i : nlen data = 128 -> i < 128 -> exists b, mb_at site data i = Ok b.
  Proof.
    intros Hl Hi. unfold mb_at. change mb_header_extent with 128.
    destruct (N.ltb_spec i 128) as [_|Hbad]; [|lia].
    destruct (nth_N_some data i) as [b Hb]; [lia|]. rewrite Hb. eauto.
  Qed.

  Lemma block_is_zero_S k data i :
    block_is_zero (S k) data i = (b <- mb_at 1301 data i ;; if b =? 0 then block_is_zero k data (i + 1) else Ok false).
  Proof. reflexivity. Qed.

  Lemma block_is_zero_ok n : forall data i, nlen data = 128 -> i + N.of_nat n <= 128 ->
    exists b, block_is_zero n data i = Ok b.
  Proof.
    induction n as [|k IH]; intros data i Hl Hi; [exists true; reflexivity|].
    rewrite block_is_zero_S. destruct (mb_at_ok 1301 data i Hl) as [b Hb]; [lia|]. rewrite Hb. cbn [bind].
    destruct (b =? 0); [apply IH; [exact Hl|lia]|eauto].
  Qed.

  Lemma name_matches_ok fn : forall data i, nlen data = 128 -> i + nlen fn <= 128 ->
    exists b, name_matches data i fn = Ok b.
  Proof.
    induction fn as [|c r IH]; intros data i Hl Hi; [exists true; reflexivity|].
    cbn [name_matches]. rewrite nlen_cons in Hi.
    destruct (mb_at_ok 1302 data i Hl) as [b Hb]; [lia|]. rewrite Hb. cbn [bind].
    destruct (b =? c); [apply IH; [exact Hl|lia]|eauto].
  Qed.

  Lemma be32_ok site data i : nlen data = 128 -> i + 4 <= 128 -> exists v, be32 site data i = Ok v.
  Proof.
    intros Hl Hi. unfold be32.
    destruct (mb_at_ok site data i Hl) as [b0 E0]; [lia|]. rewrite E0. cbn [bind].
    destruct (mb_at_ok site data (i + 1) Hl) as [b1 E1]; [lia|]. rewrite E1. cbn [bind].
    destruct (mb_at_ok site data (i + 2) Hl) as [b2 E2]; [lia|]. rewrite E2. cbn [bind].
    destruct (mb_at_ok site data (i + 3) Hl) as [b3 E3]; [lia|]. rewrite E3. cbn [bind].
    eauto.
  Qed.

  (* is_macbinary_header on a full header buffer: sites 1301-1310 *)
  Lemma is_macbinary_header_ok data h : nlen data = 128 -> h_filename h <> None ->
    exists b, is_macbinary_header data h = Ok b.
  Proof.
    intros Hl Hf. unfold is_macbinary_header.
    change mb_MBHDR_OFF_VERSION with 0. change mb_MBHDR_OFF_ZERO_COMPAT1 with 74.
    change mb_MBHDR_OFF_ZERO_COMPAT2 with 82. change mb_MBHDR_OFF_COMMENT_LEN with 99.
    change mb_MBHDR_LEN_MACBINARY2_DATA with 27. change mb_MBHDR_OFF_MACBINARY2_DATA with 101.
    change mb_MBHDR_OFF_FILENAME_LEN with 1. change mb_MBHDR_LEN_FILENAME with 63.
    change mb_MBHDR_OFF_FILENAME with 2. change mb_MBHDR_OFF_DATA_FORK_LEN with 83.
    change mb_MBHDR_OFF_RES_FORK_LEN with 87. change mb_MBHDR_OFF_FILE_MOD_DATE with 95.
    destruct (mb_at_ok 1303 data 0 Hl) as [v Ev]; [lia|]. rewrite Ev. cbn [bind].
    destruct (mb_at_ok 1304 data 74 Hl) as [z1 E1]; [lia|]. rewrite E1. cbn [bind].
    destruct (mb_at_ok 1305 data 82 Hl) as [z2 E2]; [lia|]. rewrite E2. cbn [bind].
    destruct (negb ((v =? 0) && (z1 =? 0) && (z2 =? 0))); [eauto|].
    destruct (block_is_zero_ok 2 data 99 Hl) as [c0 Ec0]; [lia|]. rewrite Ec0. cbn [bind].
    destruct (negb c0); [eauto|].
    destruct (block_is_zero_ok (N.to_nat 27) data 101 Hl) as [m2 Em2]; [lia|]. rewrite Em2. cbn [bind].
    destruct (negb m2); [eauto|].
    destruct (mb_at_ok 1306 data 1 Hl) as [fl Efl]; [lia|]. rewrite Efl. cbn [bind].
    destruct (N.ltb_spec 63 fl) as [Hbig|Hfl]; [eauto|].
    destruct (h_filename h) as [fn|]; [|contradiction Hf; reflexivity].
    destruct (N.eqb_spec fl (nlen fn)) as [Efn|Hne]; cbn [negb]; [|eauto].
    destruct (name_matches_ok fn data 2 Hl) as [nm Enm]; [lia|]. rewrite Enm. cbn [bind].
    destruct (negb nm); [eauto|].
    destruct (block_is_zero_ok (N.to_nat (63 - fl)) data (2 + fl) Hl) as [rest Er]; [lia|]. rewrite Er. cbn [bind].
    destruct (negb rest); [eauto|].
    destruct (be32_ok 1308 data 83 Hl) as [dfl Ed]; [lia|]. rewrite Ed. cbn [bind].
    destruct (be32_ok 1309 data 87 Hl) as [rfl Erf]; [lia|]. rewrite Erf. cbn [bind]. cbv zeta.
    match goal with |- exists b, (if ?c then _ else _) = _ => destruct c end; [eauto|].
    destruct (be32_ok 1310 data 95 Hl) as [mt Emt]; [lia|]. rewrite Emt. cbn [bind].
    match goal with |- exists b, (if ?c then _ else _) = _ => destruct c end; eauto.
  Qed.

  (* ---------------------------------------------------------------- *)
  (* 3. macbinary_decoder_init                                         *)

  Definition mw_ok (X : option header) (w : mb_world) : Prop := idec_ok X (mw_dec w).
  Definition mb_ok (s : mb_state) : Prop := nlen (mb_header s) <= 128.

  Lemma rmh_step_okp X s : mw_ok X (fst s) /\ nlen (snd s) <= 128 ->
    okp True (fun x => match x with
                       | inl s' => mw_ok X (fst s') /\ nlen (snd s') <= 128
                       | inr (ok, w, got) => mw_ok X w /\ (ok = true -> nlen got = 128)
                       end) (rmh_step junk s).
  Proof.
    destruct s as [w got]. cbn [fst snd]. intros [Hw Hg]. unfold rmh_step. change mb_MBHDR_SIZE with 128.
    destruct (N.ltb_spec (nlen got) 128) as [Hlt|Hge].
    - eapply okpT_bind; [apply (inner_read_okp X (mw_dec w) (128 - nlen got)); exact Hw|].
      intros [[o ev] d'] (Hd & Hn & _). cbv beta iota zeta.
      destruct o as [|b o']; cbn [okp fst snd]; unfold mw_ok; cbn [mw_dec].
      + split; [exact Hd|discriminate].
      + split; [exact Hd|]. rewrite nlen_app. lia.
    - cbn [okp]. split; [exact Hw|]. intros _. lia.
  Qed.

  Definition init_post (X : option header) (r : option mb_state * mb_world) : Prop :=
    let '(ms, w') := r in mw_ok X w' /\ match ms with Some m => mb_ok m | None => True end.

  Theorem macbinary_init_okp X w h : mw_ok X w -> h_filename h <> None ->
    okp True (init_post X) (macbinary_init junk w h).
  Proof.
    intros Hw Hf. unfold macbinary_init. change mb_MBHDR_SIZE with 128. cbv zeta.
    destruct (h_length h <? 128).
    { cbn [okp init_post]. split; [exact Hw|]. unfold mb_ok. cbn [mb_header]. rewrite nlen_nil. lia. }
    eapply okpT_bind.
    - apply (loop_okpT (rmh_step junk)
               (fun s => mw_ok X (fst s) /\ nlen (snd s) <= 128)
               (fun r => let '(ok, w1, got) := r in mw_ok X w1 /\ (ok = true -> nlen got = 128))).
      + intros s Hs. eapply okpT_imp; [apply rmh_step_okp; exact Hs|].
        intros [s'|[[ok w1] got]] Hx; exact Hx.
      + cbn [fst snd]. split; [exact Hw|]. rewrite nlen_nil. lia.
    - intros [[ok w1] got] [Hw1 Hg]. cbv beta iota.
      destruct ok; cbn [negb]; [|cbn [okp init_post]; split; [exact Hw1|exact I]].
      specialize (Hg eq_refl). change mb_header_extent with 128.
      destruct (N.ltb_spec 128 (nlen got)) as [Hbad|_]; [lia|].
      destruct (is_macbinary_header_ok got h Hg Hf) as [is_mb Emb]. rewrite Emb. cbn [bind].
      destruct is_mb; cbn [negb].
      + change mb_MBHDR_OFF_DATA_FORK_LEN with 83. change mb_MBHDR_OFF_RES_FORK_LEN with 87.
        destruct (be32_ok 1312 got 83 Hg) as [dfl Ed]; [lia|]. rewrite Ed. cbn [bind].
        destruct (be32_ok 1313 got 87 Hg) as [rfl Erf]; [lia|]. rewrite Erf. cbn [bind].
        cbn [okp init_post]. split; [exact Hw1|]. unfold mb_ok. cbn [mb_header]. lia.
      + cbn [okp init_post]. split; [exact Hw1|]. unfold mb_ok. cbn [mb_header]. lia.
  Qed.

  (* ---------------------------------------------------------------- *)
  (* 4. macbinary_decoder_read                                         *)

  Lemma dte_step_okp X w : mw_ok X w ->
    okp True (fun x => match x with inl w' => mw_ok X w' | inr w' => mw_ok X w' end) (dte_step junk w).
  Proof.
    intros Hw. unfold dte_step.
    eapply okpT_bind; [apply (inner_read_okp X (mw_dec w) 128); exact Hw|].
    intros [[o ev] d'] (Hd & _). cbv beta iota zeta.
    destruct o; cbn [okp]; exact Hd.
  Qed.

  Definition mread_post (X : option header) (r : list N * mb_state * mb_world) : Prop :=
    let '(o, s', w') := r in nlen o <= macbinary_max_read /\ mb_ok s' /\ mw_ok X w'.

  (* sites 1314 and (in the wrapper) 501 *)
  Theorem macbinary_read_okp X s w : mb_ok s -> mw_ok X w ->
    okp True (mread_post X) (macbinary_read junk s w).
  Proof.
    intros Hs Hw. unfold macbinary_read. change mb_OUTPUT_BUFFER_SIZE with 4096.
    set (pre := if 0 <? mb_header_bytes s then firstn_N (mb_header_bytes s) (mb_header s) else []).
    assert (Hpre : nlen pre <= 128).
    { unfold pre. destruct (0 <? mb_header_bytes s); [|rewrite nlen_nil; lia].
      rewrite nlen_firstn_N. unfold mb_ok in Hs. lia. }
    cbv zeta. destruct (N.ltb_spec 4096 (nlen pre)) as [Hbad|_]; [lia|].
    set (to_read := if mb_remaining s <? 4096 - nlen pre then mb_remaining s else 4096 - nlen pre).
    assert (Htr : to_read <= 4096 - nlen pre).
    { unfold to_read. destruct (N.ltb_spec (mb_remaining s) (4096 - nlen pre)); lia. }
    eapply okpT_bind; [apply (inner_read_okp X (mw_dec w) to_read); exact Hw|].
    intros [[o ev] d1] (Hd & Hn & _). cbv beta iota zeta.
    assert (Hout : nlen (pre ++ o) <= macbinary_max_read).
    { rewrite nlen_app. change macbinary_max_read with 4096. lia. }
    destruct (mb_remaining s - nlen o =? 0).
    - eapply okpT_bind.
      + apply (loop_okpT (dte_step junk) (mw_ok X) (mw_ok X)).
        * intros w0 Hw0. apply dte_step_okp. exact Hw0.
        * unfold mw_ok. cbn [mw_dec]. exact Hd.
      + intros w2 Hw2. cbn [okp mread_post]. split; [exact Hout|]. split; [exact Hs|exact Hw2].
    - cbn [okp mread_post]. split; [exact Hout|]. split; [exact Hs|]. unfold mw_ok. cbn [mw_dec]. exact Hd.
  Qed.

  (* ---------------------------------------------------------------- *)
  (* 5. The pass-through decoder behind lha_decoder_read                *)

  Definition odec_ok (X : option header) (o : @decoder mb_world mb_state) : Prop :=
    mb_ok (d_inner o) /\ mw_ok X (d_cb o).

  Theorem outer_read_okp X (o : @decoder mb_world mb_state) n : odec_ok X o ->
    okp True (fun '(out, ev, o') => odec_ok X o' /\ nlen out <= n)
        (lha_decoder_read (macbinary_read junk) macbinary_max_read macbinary_block_size o n).
  Proof.
    intros [Hs Hw].
    eapply okpT_imp.
    - apply (lha_decoder_read_okp (macbinary_read junk) macbinary_max_read macbinary_block_size
               (fun s w => mb_ok s /\ mw_ok X w)).
      + intros s w [Hs0 Hw0]. eapply okpT_imp; [apply (macbinary_read_okp X s w Hs0 Hw0)|].
        intros [[ch s'] w'] (A & B & C). split; [exact A|]. split; assumption.
      + split; assumption.
    - intros [[out ev] o'] (Hj & Hn & _). split; [exact Hj|exact Hn].
  Qed.
End MacSafe.

Print Assumptions inner_read_okp.
Print Assumptions macbinary_init_okp.
Print Assumptions macbinary_read_okp.
Print Assumptions outer_read_okp.

(* P_Pm1.v -- property C09 for the model of lib/pm1_decoder.c (Pm1.v):
   for ANY callback that returns at most as many bytes as asked for, all of them
   below 256 (any input, any chunking), one pm1_read returns normally -- no
   checked access fails (sites 1001-1009 of Pm1.v, 913-928 of PmaCommon.v, 101
   of the bit reader), no loop runs out of fuel -- hands back at most
   pm1_max_read bytes, and keeps the decoder invariant.

     pm1_inv P s        : ring buffer of its declared extent, ring position
                          inside it, bit reader satisfying P, history list well
                          formed, byte_decode_tree NULL or a row of the table
     pm1_read_total_cb  : the statement above for any reader predicate P kept by
                          read_bits over the zero-extending callback wrapper
     pm1_init_wf, pm1_read_total         : P = bsr_wf, callbacks returning bytes
     pm1_init_ok_ok, pm1_read_total_len  : P = bsr_ok, callbacks only known to
                          return at most as many values as asked for

   The byte decode trees are checked by evaluation (bdt_ok): from the root of
   every row that is not the all-zero row, every walk stays inside the row,
   never rests on a zero nibble (which would loop for ever) and ends on a leaf. *)
From Lhasa Require Import Base ListN DecBase BitReader Loop Sweep Generated PmaCommon Pm1
  P_BitReader P_PmaCommon.
From Coq Require Import ZifyBool ZifyN ZifyNat.
Local Open Scope N_scope.

Ltac Zify.zify_post_hook ::= Z.div_mod_to_equations.

(* ------------------------------------------------------------------ *)
(* The invariant                                                       *)

Section Gen.
(* the reader's part of the invariant is left open: bsr_wf for byte-valued input,
   bsr_ok for callbacks only known to return at most what was asked for *)
Variable P : bsr -> Prop.

Definition pm1_inv (s : pm1_state) : Prop :=
  alen (pm1_ringbuf s) = pm1_ringbuf_extent /\ pm1_ringbuf_pos s < pm1_RING_BUFFER_SIZE /\
  P (pm1_bsr s) /\ hl_wf (pm1_history_list s) /\
  (forall row, pm1_byte_decode_tree s = Some row -> row < 32).

(* the same with the value of byte_decode_tree named: nothing called by
   pm1_read_command changes it *)
Definition pm1_invk (t : option N) (s : pm1_state) : Prop :=
  alen (pm1_ringbuf s) = pm1_ringbuf_extent /\ pm1_ringbuf_pos s < pm1_RING_BUFFER_SIZE /\
  P (pm1_bsr s) /\ hl_wf (pm1_history_list s) /\
  pm1_byte_decode_tree s = t /\ (forall row, t = Some row -> row < 32).

Lemma pm1_inv_invk s : pm1_inv s -> pm1_invk (pm1_byte_decode_tree s) s.
Proof.
  intros (A & B & C & D & E). unfold pm1_invk.
  split; [exact A|]. split; [exact B|]. split; [exact C|]. split; [exact D|].
  split; [reflexivity|exact E].
Qed.

Lemma pm1_invk_inv t s : pm1_invk t s -> pm1_inv s.
Proof.
  intros (A & B & C & D & E & F). unfold pm1_inv.
  split; [exact A|]. split; [exact B|]. split; [exact C|]. split; [exact D|].
  rewrite E. exact F.
Qed.

Lemma pm1_set_bsr_invk t s r : pm1_invk t s -> P r -> pm1_invk t (pm1_set_bsr s r).
Proof.
  intros (A & B & C & D & E & F) Hr. unfold pm1_invk, pm1_set_bsr.
  cbn [pm1_ringbuf pm1_ringbuf_pos pm1_bsr pm1_history_list pm1_byte_decode_tree].
  split; [exact A|]. split; [exact B|]. split; [exact Hr|]. split; [exact D|].
  split; [exact E|exact F].
Qed.

Theorem pm1_init_ok : P bsr_init -> exists s, pm1_init = Ok s /\ pm1_inv s.
Proof.
  intros HP0.
  destruct init_history_list_wf as (h & E & Hh & _).
  unfold pm1_init. rewrite E. cbn [bind]. eexists. split; [reflexivity|].
  unfold pm1_inv. cbn [pm1_ringbuf pm1_ringbuf_pos pm1_bsr pm1_history_list pm1_byte_decode_tree].
  split; [reflexivity|]. split; [unfold pm1_RING_BUFFER_SIZE; lia|].
  split; [exact HP0|]. split; [exact Hh|]. intros row X. discriminate.
Qed.

(* ------------------------------------------------------------------ *)
(* Small facts                                                         *)

Ltac pows :=
  change (2 ^ 1) with 2 in *; change (2 ^ 2) with 4 in *; change (2 ^ 3) with 8 in *;
  change (2 ^ 4) with 16 in *; change (2 ^ 5) with 32 in *; change (2 ^ 6) with 64 in *;
  change (2 ^ 7) with 128 in *.

Lemma pm1_ring_mod_lt x : pm1_ring_mod x < pm1_RING_BUFFER_SIZE.
Proof.
  unfold pm1_ring_mod. destruct (N.ltb_spec x pm1_RING_BUFFER_SIZE) as [H|H]; [exact H|].
  apply N.mod_lt. unfold pm1_RING_BUFFER_SIZE. discriminate.
Qed.

Lemma land15_lt x : N.land x 15 < 16.
Proof. change 15 with (N.ones 4). rewrite N.land_ones. apply N.mod_lt. discriminate. Qed.

(* output buffer: the count is the number of stored bytes *)
Definition ob_wf (o : obuf) : Prop := ob_len o = nlen (ob_rev o).

Lemma ob_empty_wf : ob_wf ob_empty.
Proof. reflexivity. Qed.

Lemma ob_push_ok site max o b : ob_len o < max ->
  ob_push site max o b = Ok {| ob_rev := b :: ob_rev o; ob_len := ob_len o + 1 |}.
Proof. intros H. unfold ob_push. destruct (N.ltb_spec (ob_len o) max); [reflexivity|lia]. Qed.

Lemma ob_push_wf o b : ob_wf o -> ob_wf {| ob_rev := b :: ob_rev o; ob_len := ob_len o + 1 |}.
Proof. unfold ob_wf. cbn [ob_rev ob_len]. intros ->. rewrite nlen_cons. reflexivity. Qed.

Lemma ob_bytes_nlen o : ob_wf o -> nlen (ob_bytes o) = ob_len o.
Proof.
  unfold ob_wf, ob_bytes. intros ->. rewrite rev_append_rev, app_nil_r. apply nlen_rev.
Qed.

(* ------------------------------------------------------------------ *)
(* The constant tables                                                 *)

Lemma copy_ranges_alen_bits : alen (vl_bits pm1_copy_ranges) = 15.
Proof. vm_compute. reflexivity. Qed.

Lemma copy_ranges_alen_offset : alen (vl_offset pm1_copy_ranges) = 15.
Proof. vm_compute. reflexivity. Qed.

Lemma copy_ranges_sweep :
  sweep 4 (fun i => (15 <=? i) || (aget (vl_bits pm1_copy_ranges) i <=? 13)) 0 = true.
Proof. vm_compute. reflexivity. Qed.

Lemma copy_ranges_bits_le i : i < 15 -> aget (vl_bits pm1_copy_ranges) i <= 13.
Proof.
  intros H. pose proof (sweep_below 4 _ copy_ranges_sweep i) as X. cbv beta in X.
  change (2 ^ N.of_nat 4) with 16 in X. lia.
Qed.

Lemma byte_ranges_alen_bits : alen (vl_bits pm1_byte_ranges) = 6.
Proof. vm_compute. reflexivity. Qed.

Lemma byte_ranges_alen_offset : alen (vl_offset pm1_byte_ranges) = 6.
Proof. vm_compute. reflexivity. Qed.

Lemma byte_ranges_sweep :
  sweep 3 (fun i => (6 <=? i) || (aget (vl_bits pm1_byte_ranges) i <=? 6)) 0 = true.
Proof. vm_compute. reflexivity. Qed.

Lemma byte_ranges_bits_le i : i < 6 -> aget (vl_bits pm1_byte_ranges) i <= 6.
Proof.
  intros H. pose proof (sweep_below 3 _ byte_ranges_sweep i) as X. cbv beta in X.
  change (2 ^ N.of_nat 3) with 8 in X. lia.
Qed.

Lemma bdt_alen : alen pm1_byte_decode_trees_arr = 160.
Proof. vm_compute. reflexivity. Qed.

Lemma bdt_rows : pm1_byte_decode_trees_rows = 32.
Proof. vm_compute. reflexivity. Qed.

(* A walk of a byte decode tree from the node at [off] of row [row]: the node
   is inside the row; each nibble is a leaf (>= 10), or a nonzero offset to a
   node from which the walk is again fine. *)
Definition child_ok (rec : N -> bool) (off child : N) : bool :=
  (10 <=? child) || ((1 <=? child) && rec (off + child)).

Fixpoint bdt_ok (fuel : nat) (row off : N) : bool :=
  match fuel with
  | O => false
  | S f =>
    (off <? 5) &&
    child_ok (bdt_ok f row) off (N.land (N.shiftr (aget pm1_byte_decode_trees_arr (row * 5 + off)) 4) 15) &&
    child_ok (bdt_ok f row) off (N.land (aget pm1_byte_decode_trees_arr (row * 5 + off)) 15)
  end.

Lemma bdt_ok_S f row off : bdt_ok (S f) row off =
  (off <? 5) &&
  child_ok (bdt_ok f row) off (N.land (N.shiftr (aget pm1_byte_decode_trees_arr (row * 5 + off)) 4) 15) &&
  child_ok (bdt_ok f row) off (N.land (aget pm1_byte_decode_trees_arr (row * 5 + off)) 15).
Proof. reflexivity. Qed.

Lemma bdt_ok_off k row off : bdt_ok k row off = true -> off < 5.
Proof.
  destruct k as [|k]; [discriminate|]. rewrite bdt_ok_S. intros H.
  apply andb_true_iff in H. destruct H as [H _]. apply andb_true_iff in H. destruct H as [H _]. lia.
Qed.

Lemma trees_sweep :
  sweep 5 (fun row => (aget pm1_byte_decode_trees_arr (row * 5 + 0) =? 0) || bdt_ok 5 row 0) 0 = true.
Proof. vm_compute. reflexivity. Qed.

Lemma trees_ok row : row < 32 -> aget pm1_byte_decode_trees_arr (row * 5 + 0) <> 0 ->
  bdt_ok 5 row 0 = true.
Proof.
  intros H Hn. pose proof (sweep_below 5 _ trees_sweep row) as X. cbv beta in X.
  change (2 ^ N.of_nat 5) with 32 in X. specialize (X H).
  apply orb_true_iff in X. destruct X as [X|X]; [|exact X]. exfalso. apply Hn. lia.
Qed.

Lemma byte_decode_tree_at_ok row off : row < 32 -> off < 5 ->
  byte_decode_tree_at row off = Ok (aget pm1_byte_decode_trees_arr (row * 5 + off)).
Proof.
  intros Hr Ho. unfold byte_decode_tree_at, pm1_byte_decode_tree_row.
  destruct (N.ltb_spec off 5); [|lia]. apply rd_ok. rewrite bdt_alen. lia.
Qed.

Lemma redirect_range_index_lt ri pos : ri <= 5 -> redirect_range_index ri pos < 15.
Proof.
  intros H. unfold redirect_range_index.
  repeat match goal with |- context [if ?b then _ else _] => destruct b end; lia.
Qed.

(* unfolding lemmas for the counted loops *)
Lemma pm1_copy_loop_S k ci s o : pm1_copy_loop (S k) ci s o =
  (b <- rd 1003 (pm1_ringbuf s) ci ;;
   o' <- ob_push 1004 pm1_max_read o b ;;
   b2 <- rd 1005 (pm1_ringbuf s) ci ;;
   s' <- outputted_byte s b2 ;;
   pm1_copy_loop k (pm1_ring_mod (ci + 1)) s' o').
Proof. reflexivity. Qed.

Lemma byte_block_loop_S {cbs} (cb : callback cbs) k s c o : byte_block_loop cb (S k) s c o =
  ('(byteval, s1, c1) <- read_byte cb s c ;;
   match byteval with
   | None => Ok (false, s1, c1, o)
   | Some b =>
     o' <- ob_push 1009 pm1_max_read o (u8 b) ;;
     s2 <- outputted_byte s1 b ;;
     byte_block_loop cb k s2 c1 o'
   end).
Proof. reflexivity. Qed.

(* ------------------------------------------------------------------ *)
(* outputted_byte, the copy loop (no callback involved)                *)

Lemma outputted_byte_safe t s b : pm1_invk t s ->
  exists s', outputted_byte s b = Ok s' /\ pm1_invk t s'.
Proof.
  intros (Ha & Hp & Hr & Hh & Ht & Hrow). unfold outputted_byte. cbv zeta.
  rewrite wr_ok by (rewrite Ha; unfold pm1_ringbuf_extent, pm1_RING_BUFFER_SIZE in *; lia).
  cbn [bind].
  destruct (update_history_list_mtf (pm1_history_list s) (u8 b) Hh) as (h' & E & Hh' & _).
  rewrite E. cbn [bind]. eexists. split; [reflexivity|].
  unfold pm1_invk. cbn [pm1_ringbuf pm1_ringbuf_pos pm1_bsr pm1_history_list pm1_byte_decode_tree].
  rewrite alen_aset.
  split; [exact Ha|]. split; [apply pm1_ring_mod_lt|]. split; [exact Hr|]. split; [exact Hh'|].
  split; [exact Ht|exact Hrow].
Qed.

Lemma pm1_copy_loop_safe t n : forall ci s o,
  pm1_invk t s -> ci < pm1_RING_BUFFER_SIZE -> ob_wf o -> ob_len o + N.of_nat n <= pm1_max_read ->
  exists s' o', pm1_copy_loop n ci s o = Ok (s', o') /\ pm1_invk t s' /\ ob_wf o' /\
    ob_len o' = ob_len o + N.of_nat n.
Proof.
  induction n as [|n IH]; intros ci s o Hi Hc Hw Hl.
  - exists s, o. split; [reflexivity|]. split; [exact Hi|]. split; [exact Hw|]. cbn [N.of_nat]. lia.
  - rewrite pm1_copy_loop_S.
    assert (Hci : ci < alen (pm1_ringbuf s)).
    { destruct Hi as (Ha & _). rewrite Ha. unfold pm1_ringbuf_extent, pm1_RING_BUFFER_SIZE in *. lia. }
    rewrite rd_ok by exact Hci. cbn [bind].
    rewrite ob_push_ok by lia. cbn [bind].
    rewrite rd_ok by exact Hci. cbn [bind].
    destruct (outputted_byte_safe t s (aget (pm1_ringbuf s) ci) Hi) as (s1 & E1 & H1).
    rewrite E1. cbn [bind].
    destruct (IH (pm1_ring_mod (ci + 1)) s1
                 {| ob_rev := aget (pm1_ringbuf s) ci :: ob_rev o; ob_len := ob_len o + 1 |})
      as (s' & o' & E & H' & W' & L').
    + exact H1.
    + apply pm1_ring_mod_lt.
    + apply ob_push_wf. exact Hw.
    + cbn [ob_len]. lia.
    + exists s', o'. split; [exact E|]. split; [exact H'|]. split; [exact W'|].
      rewrite L'. cbn [ob_len]. lia.
Qed.

(* ------------------------------------------------------------------ *)
(* Everything that reads                                               *)

Section Pm1Safe.
  Context {cbs : Type}.
  Variable cb : callback cbs.
  Local Notation W := (read_callback_wrapper cb).
  Hypothesis Hrb : forall r c n, P r -> n <= 32 ->
    exists res r' c', read_bits W r c n = Ok (res, r', c') /\ P r' /\ (forall v, res = Some v -> v < 2 ^ n).


  Lemma pm1_read_bits_safe t s c n : pm1_invk t s -> n <= 32 ->
    exists v s' c', pm1_read_bits cb s c n = Ok (v, s', c') /\ pm1_invk t s' /\
      (forall x, v = Some x -> x < 2 ^ n).
  Proof.
    intros Hi Hn. unfold pm1_read_bits.
    destruct (Hrb (pm1_bsr s) c n) as (v & r & c' & E & Wf & V);
      [apply Hi|exact Hn|].
    rewrite E. cbn [bind]. exists v, (pm1_set_bsr s r), c'. split; [reflexivity|].
    split; [apply pm1_set_bsr_invk; assumption|exact V].
  Qed.

  Lemma pm1_read_bit_safe t s c : pm1_invk t s ->
    exists v s' c', pm1_read_bit cb s c = Ok (v, s', c') /\ pm1_invk t s' /\
      (forall x, v = Some x -> x < 2).
  Proof. intros Hi. apply (pm1_read_bits_safe t s c 1 Hi). lia. Qed.

  Lemma read_start_header_safe s c : pm1_invk None s ->
    exists ok s' c', read_start_header cb s c = Ok (ok, s', c') /\
      (if ok then exists row, pm1_invk (Some row) s' else pm1_invk None s').
  Proof.
    intros Hi. unfold read_start_header.
    destruct (pm1_read_bits_safe None s c 5 Hi) as (v & s1 & c1 & E & H1 & V); [lia|].
    rewrite E. cbn [bind]. destruct v as [i|].
    - specialize (V i eq_refl). pows. rewrite bdt_rows.
      destruct (N.ltb_spec i 32); [|lia].
      eexists true, _, c1. split; [reflexivity|]. exists i.
      destruct H1 as (A & B & C & D & _ & _). unfold pm1_invk.
      cbn [pm1_ringbuf pm1_ringbuf_pos pm1_bsr pm1_history_list pm1_byte_decode_tree].
      split; [exact A|]. split; [exact B|]. split; [exact C|]. split; [exact D|].
      split; [reflexivity|]. intros row X. injection X as <-. assumption.
    - exists false, s1, c1. split; [reflexivity|]. exact H1.
  Qed.

  Lemma pm1_read_plus_safe t s c n k : pm1_invk t s -> n <= 32 ->
    exists v s' c', pm1_read_plus cb s c n k = Ok (v, s', c') /\ pm1_invk t s' /\
      (forall x, v = Some x -> x < 2 ^ n + k).
  Proof.
    intros Hi Hn. unfold pm1_read_plus.
    destruct (pm1_read_bits_safe t s c n Hi Hn) as (v & s1 & c1 & E & H1 & V).
    rewrite E. cbn [bind]. destruct v as [v|].
    - eexists _, s1, c1. split; [reflexivity|]. split; [exact H1|].
      intros x Ex. injection Ex as <-. specialize (V v eq_refl). lia.
    - exists None, s1, c1. split; [reflexivity|]. split; [exact H1|]. intros x Ex. discriminate.
  Qed.

  Lemma pm1_read_plus0_safe t s c n k : pm1_invk t s -> n <= 32 ->
    exists v s' c', pm1_read_plus0 cb s c n k = Ok (v, s', c') /\ pm1_invk t s' /\ v < 2 ^ n + k.
  Proof.
    intros Hi Hn. unfold pm1_read_plus0.
    destruct (pm1_read_bits_safe t s c n Hi Hn) as (v & s1 & c1 & E & H1 & V).
    rewrite E. cbn [bind]. destruct v as [v|].
    - eexists _, s1, c1. split; [reflexivity|]. split; [exact H1|]. specialize (V v eq_refl). lia.
    - exists 0, s1, c1. split; [reflexivity|]. split; [exact H1|].
      assert (0 < 2 ^ n) by (apply N.neq_0_lt_0, N.pow_nonzero; discriminate). lia.
  Qed.

  (* the "return -1" results *)
  Ltac fin_none H :=
    eexists None, _, _; split; [reflexivity|]; split; [exact H|]; intros ? X; discriminate X.

  Lemma read_copy_byte_count_safe t s c : pm1_invk t s ->
    exists v s' c', read_copy_byte_count cb s c = Ok (v, s', c') /\ pm1_invk t s' /\
      (forall x, v = Some x -> x <= 244).
  Proof.
    intros H0. unfold read_copy_byte_count.
    destruct (pm1_read_bits_safe t s c 2 H0) as (x1 & s1 & c1 & E1 & H1 & V1); [lia|].
    rewrite E1. cbn [bind]. destruct x1 as [x1|]; [|fin_none H1].
    specialize (V1 x1 eq_refl). pows.
    destruct (N.ltb_spec x1 3) as [Hcase1|Hcase1].
    { eexists _, s1, c1. split; [reflexivity|]. split; [exact H1|].
      intros x Ex. injection Ex as <-. lia. }
    destruct (pm1_read_bits_safe t s1 c1 3 H1) as (x2 & s2 & c2 & E2 & H2 & V2); [lia|].
    rewrite E2. cbn [bind]. destruct x2 as [x2|]; [|fin_none H2].
    specialize (V2 x2 eq_refl). pows.
    destruct (N.ltb_spec x2 5) as [Hcase2|Hcase2].
    { eexists _, s2, c2. split; [reflexivity|]. split; [exact H2|].
      intros x Ex. injection Ex as <-. lia. }
    destruct (N.eqb_spec x2 5) as [Hcase3|Hcase3].
    { destruct (pm1_read_plus_safe t s2 c2 2 11 H2) as (v & s' & c' & E & H' & V); [lia|].
      exists v, s', c'. split; [exact E|]. split; [exact H'|].
      intros x Ex. specialize (V x Ex). pows. lia. }
    destruct (N.eqb_spec x2 6) as [Hcase4|Hcase4].
    { destruct (pm1_read_plus_safe t s2 c2 3 15 H2) as (v & s' & c' & E & H' & V); [lia|].
      exists v, s', c'. split; [exact E|]. split; [exact H'|].
      intros x Ex. specialize (V x Ex). pows. lia. }
    destruct (pm1_read_bits_safe t s2 c2 6 H2) as (x3 & s3 & c3 & E3 & H3 & V3); [lia|].
    rewrite E3. cbn [bind]. destruct x3 as [x3|]; [|fin_none H3].
    specialize (V3 x3 eq_refl). pows.
    destruct (N.ltb_spec x3 62) as [Hcase5|Hcase5].
    { eexists _, s3, c3. split; [reflexivity|]. split; [exact H3|].
      intros x Ex. injection Ex as <-. lia. }
    destruct (N.eqb_spec x3 62) as [Hcase6|Hcase6].
    { destruct (pm1_read_plus_safe t s3 c3 5 85 H3) as (v & s' & c' & E & H' & V); [lia|].
      exists v, s', c'. split; [exact E|]. split; [exact H'|].
      intros x Ex. specialize (V x Ex). pows. lia. }
    destruct (pm1_read_plus_safe t s3 c3 7 117 H3) as (v & s' & c' & E & H' & V); [lia|].
    exists v, s', c'. split; [exact E|]. split; [exact H'|].
    intros x Ex. specialize (V x Ex). pows. lia.
  Qed.

  Lemma read_bit_after_threshold_safe t s c th def : pm1_invk t s -> def < 2 ->
    exists v s' c', read_bit_after_threshold cb s c th def = Ok (v, s', c') /\ pm1_invk t s' /\
      (forall x, v = Some x -> x < 2).
  Proof.
    intros Hi Hd. unfold read_bit_after_threshold.
    destruct (th <=? pm1_output_stream_pos s).
    - apply pm1_read_bit_safe. exact Hi.
    - eexists _, s, c. split; [reflexivity|]. split; [exact Hi|].
      intros x Ex. injection Ex as <-. exact Hd.
  Qed.

  Lemma read_copy_type_range_safe t s c : pm1_invk t s ->
    exists v s' c', read_copy_type_range cb s c = Ok (v, s', c') /\ pm1_invk t s' /\
      (forall x, v = Some x -> x <= 5).
  Proof.
    intros H0. unfold read_copy_type_range.
    destruct (pm1_read_bit_safe t s c H0) as (x1 & s1 & c1 & E1 & H1 & V1).
    rewrite E1. cbn [bind]. destruct x1 as [x1|]; [|fin_none H1].
    destruct (x1 =? 0).
    - destruct (read_bit_after_threshold_safe t s1 c1 576 0 H1) as (x2 & s2 & c2 & E2 & H2 & V2); [lia|].
      rewrite E2. cbn [bind]. destruct x2 as [x2|]; [|fin_none H2].
      destruct (negb (x2 =? 0)).
      + eexists _, s2, c2. split; [reflexivity|]. split; [exact H2|].
        intros x Ex. injection Ex as <-. lia.
      + destruct (read_bit_after_threshold_safe t s2 c2 64 0 H2) as (x3 & s3 & c3 & E3 & H3 & V3); [lia|].
        exists x3, s3, c3. split; [exact E3|]. split; [exact H3|].
        intros x Ex. specialize (V3 x Ex). lia.
    - destruct (read_bit_after_threshold_safe t s1 c1 64 1 H1) as (x2 & s2 & c2 & E2 & H2 & V2); [lia|].
      rewrite E2. cbn [bind]. destruct x2 as [x2|]; [|fin_none H2].
      destruct (x2 =? 0).
      + eexists _, s2, c2. split; [reflexivity|]. split; [exact H2|].
        intros x Ex. injection Ex as <-. lia.
      + destruct (read_bit_after_threshold_safe t s2 c2 2624 1 H2) as (x3 & s3 & c3 & E3 & H3 & V3); [lia|].
        rewrite E3. cbn [bind]. destruct x3 as [x3|]; [|fin_none H3].
        destruct (negb (x3 =? 0)).
        * eexists _, s3, c3. split; [reflexivity|]. split; [exact H3|].
          intros x Ex. injection Ex as <-. lia.
        * eexists _, s3, c3. split; [reflexivity|]. split; [exact H3|].
          intros x Ex. injection Ex as <-. lia.
  Qed.

  (* the copy command appends at most MAX_COPY_BLOCK_LEN bytes *)
  Lemma read_copy_command_safe t s c o : pm1_invk t s -> ob_wf o ->
    ob_len o + pm1_MAX_COPY_BLOCK_LEN <= pm1_max_read ->
    exists cnt s' c' o', read_copy_command cb s c o = Ok (cnt, s', c', o') /\ pm1_invk t s' /\
      ob_wf o' /\ ob_len o' <= ob_len o + pm1_MAX_COPY_BLOCK_LEN.
  Proof.
    intros H0 Hw Hl. unfold read_copy_command.
    destruct (read_copy_type_range_safe t s c H0) as (ri & s1 & c1 & E1 & H1 & V1).
    rewrite E1. cbn [bind]. destruct ri as [ri|].
    2:{ eexists 0, s1, c1, o. split; [reflexivity|]. split; [exact H1|]. split; [exact Hw|]. lia. }
    specialize (V1 ri eq_refl).
    assert (Hcnt : exists cnt s2 c2,
               (if ri <? 2 then Ok (Some 2, s1, c1) else read_copy_byte_count cb s1 c1) = Ok (cnt, s2, c2) /\
               pm1_invk t s2 /\ (forall x, cnt = Some x -> x <= 244)).
    { destruct (ri <? 2).
      - eexists _, s1, c1. split; [reflexivity|]. split; [exact H1|].
        intros x Ex. injection Ex as <-. lia.
      - apply read_copy_byte_count_safe. exact H1. }
    destruct Hcnt as (cnt & s2 & c2 & E2 & H2 & V2).
    rewrite E2. cbn [bind]. destruct cnt as [cnt|].
    2:{ eexists 0, s2, c2, o. split; [reflexivity|]. split; [exact H2|]. split; [exact Hw|]. lia. }
    specialize (V2 cnt eq_refl). cbv zeta.
    pose proof (redirect_range_index_lt ri (pm1_output_stream_pos s2) V1) as Hri.
    destruct (decode_variable_length_gen W P Hrb pm1_copy_ranges (pm1_bsr s2) c2
                (redirect_range_index ri (pm1_output_stream_pos s2)))
      as (hd & r3 & c3 & E3 & W3 & _).
    { apply H2. }
    { rewrite copy_ranges_alen_bits. exact Hri. }
    { rewrite copy_ranges_alen_bits, copy_ranges_alen_offset. reflexivity. }
    { pose proof (copy_ranges_bits_le _ Hri). lia. }
    rewrite E3. cbn [bind].
    pose proof (pm1_set_bsr_invk t s2 r3 H2 W3) as H3.
    destruct hd as [hd|].
    2:{ eexists 0, _, c3, o. split; [reflexivity|]. split; [exact H3|]. split; [exact Hw|]. lia. }
    destruct (pm1_output_stream_pos (pm1_set_bsr s2 r3) <=? hd).
    { eexists 0, _, c3, o. split; [reflexivity|]. split; [exact H3|]. split; [exact Hw|]. lia. }
    match goal with |- context [pm1_copy_loop _ ?ci _ _] => set (cidx := ci) end.
    destruct (pm1_copy_loop_safe t (N.to_nat cnt) cidx (pm1_set_bsr s2 r3) o H3) as (s4 & o' & E4 & H4 & W4 & L4).
    { apply pm1_ring_mod_lt. }
    { exact Hw. }
    { unfold pm1_MAX_COPY_BLOCK_LEN in Hl. lia. }
    rewrite E4. cbn [bind]. exists cnt, s4, c3, o'. split; [reflexivity|]. split; [exact H4|].
    split; [exact W4|]. rewrite L4. unfold pm1_MAX_COPY_BLOCK_LEN. lia.
  Qed.

  (* ---------------------------------------------------------------- *)
  (* the byte decode tree walk                                         *)

  Definition bdt_I (row : N) (st : N * pm1_state * cbs) : Prop :=
    let '(off, s, c) := st in pm1_invk (Some row) s /\ exists k, bdt_ok k row off = true.
  Definition bdt_Q (row : N) (res : option N * pm1_state * cbs) : Prop :=
    let '(v, s, c) := res in pm1_invk (Some row) s /\ forall x, v = Some x -> x < 6.
  Definition bdt_m (st : N * pm1_state * cbs) : N := let '(off, _, _) := st in 5 - off.

  Lemma byte_decode_step_ok row : row < 32 -> forall st, bdt_I row st ->
    exists x, byte_decode_step cb row st = Ok x /\
      match x with inl st' => bdt_I row st' /\ bdt_m st' < bdt_m st | inr r => bdt_Q row r end.
  Proof.
    intros Hrow [[off s] c] (Hi & k & Hk). unfold byte_decode_step. cbv beta iota.
    destruct (pm1_read_bit_safe (Some row) s c Hi) as (bit & s1 & c1 & E1 & H1 & V1).
    rewrite E1. cbn [bind]. destruct bit as [bv|].
    2:{ eexists. split; [reflexivity|]. cbv beta iota. unfold bdt_Q.
        split; [exact H1|]. intros x X. discriminate. }
    pose proof (bdt_ok_off k row off Hk) as Hoff.
    rewrite byte_decode_tree_at_ok by assumption. cbn [bind]. cbv zeta.
    destruct k as [|k]; [discriminate Hk|]. rewrite bdt_ok_S in Hk.
    apply andb_true_iff in Hk. destruct Hk as [Hk Hlo].
    apply andb_true_iff in Hk. destruct Hk as [_ Hhi].
    set (v := aget pm1_byte_decode_trees_arr (row * 5 + off)) in *.
    set (child := if bv =? 0 then N.land (N.shiftr v 4) 15 else N.land v 15).
    assert (Hc : child_ok (bdt_ok k row) off child = true).
    { unfold child. destruct (bv =? 0); assumption. }
    assert (Hc16 : child < 16).
    { unfold child. destruct (bv =? 0); apply land15_lt. }
    clearbody child. unfold child_ok in Hc.
    destruct (N.leb_spec 10 child) as [Hge|Hlt].
    - eexists. split; [reflexivity|]. cbv beta iota. unfold bdt_Q.
      split; [exact H1|]. intros x X. injection X as <-. lia.
    - eexists. split; [reflexivity|]. cbv beta iota. unfold bdt_I, bdt_m.
      cbn [orb] in Hc. apply andb_true_iff in Hc. destruct Hc as [Hc1 Hc2].
      pose proof (bdt_ok_off k row (off + child) Hc2) as Hoff'.
      split; [split; [exact H1|exists k; exact Hc2]|]. lia.
  Qed.

  Lemma read_byte_decode_index_safe row s c : pm1_invk (Some row) s ->
    exists v s' c', read_byte_decode_index cb s c = Ok (v, s', c') /\ pm1_invk (Some row) s' /\
      (forall x, v = Some x -> x < 6).
  Proof.
    intros Hi. pose proof Hi as (_ & _ & _ & _ & Ht & Hr). specialize (Hr row eq_refl).
    unfold read_byte_decode_index. rewrite Ht.
    rewrite byte_decode_tree_at_ok by lia. cbn [bind].
    destruct (N.eqb_spec (aget pm1_byte_decode_trees_arr (row * 5 + 0)) 0) as [Ez|Enz].
    - eexists _, s, c. split; [reflexivity|]. split; [exact Hi|].
      intros x X. injection X as <-. lia.
    - destruct (loop_total_ok (byte_decode_step cb row) (bdt_I row) (bdt_Q row) bdt_m 8
                  (byte_decode_step_ok row Hr) (0, s, c)) as ([[v s'] c'] & E & Q).
      + unfold bdt_I. split; [exact Hi|]. exists 5%nat. apply trees_ok; assumption.
      + unfold bdt_m. change (2 ^ N.of_nat 8) with 256. lia.
      + exists v, s', c'. split; [exact E|]. exact Q.
  Qed.

  Lemma read_byte_safe row s c : pm1_invk (Some row) s ->
    exists v s' c', read_byte cb s c = Ok (v, s', c') /\ pm1_invk (Some row) s'.
  Proof.
    intros H0. unfold read_byte.
    destruct (read_byte_decode_index_safe row s c H0) as (idx & s1 & c1 & E1 & H1 & V1).
    rewrite E1. cbn [bind]. destruct idx as [idx|].
    2:{ eexists None, s1, c1. split; [reflexivity|exact H1]. }
    specialize (V1 idx eq_refl).
    destruct (decode_variable_length_gen W P Hrb pm1_byte_ranges (pm1_bsr s1) c1 idx)
      as (cnt & r2 & c2 & E2 & W2 & _).
    { apply H1. }
    { rewrite byte_ranges_alen_bits. exact V1. }
    { rewrite byte_ranges_alen_bits, byte_ranges_alen_offset. reflexivity. }
    { pose proof (byte_ranges_bits_le _ V1). lia. }
    rewrite E2. cbn [bind]. cbv zeta.
    pose proof (pm1_set_bsr_invk (Some row) s1 r2 H1 W2) as H2.
    destruct cnt as [cnt|].
    2:{ eexists None, _, c2. split; [reflexivity|exact H2]. }
    assert (Hh : hl_wf (pm1_history_list (pm1_set_bsr s1 r2))) by apply H2.
    destruct (find_in_history_list_nth _ cnt Hh) as [Ef _].
    rewrite Ef. cbn [bind]. eexists _, _, c2. split; [reflexivity|exact H2].
  Qed.

  Lemma read_byte_block_count_safe t s c : pm1_invk t s ->
    exists v s' c', read_byte_block_count cb s c = Ok (v, s', c') /\ pm1_invk t s' /\
      v <= pm1_MAX_BYTE_BLOCK_LEN.
  Proof.
    intros H0. unfold read_byte_block_count, pm1_MAX_BYTE_BLOCK_LEN.
    destruct (pm1_read_bits_safe t s c 2 H0) as (x1 & s1 & c1 & E1 & H1 & V1); [lia|].
    rewrite E1. cbn [bind]. destruct x1 as [x1|].
    2:{ exists 0, s1, c1. split; [reflexivity|]. split; [exact H1|lia]. }
    specialize (V1 x1 eq_refl). pows.
    destruct (N.ltb_spec x1 3) as [Hcase7|Hcase7].
    { eexists _, s1, c1. split; [reflexivity|]. split; [exact H1|lia]. }
    destruct (pm1_read_bits_safe t s1 c1 3 H1) as (x2 & s2 & c2 & E2 & H2 & V2); [lia|].
    rewrite E2. cbn [bind]. destruct x2 as [x2|].
    2:{ exists 0, s2, c2. split; [reflexivity|]. split; [exact H2|lia]. }
    specialize (V2 x2 eq_refl). pows.
    destruct (N.ltb_spec x2 7) as [Hcase8|Hcase8].
    { eexists _, s2, c2. split; [reflexivity|]. split; [exact H2|lia]. }
    destruct (pm1_read_bits_safe t s2 c2 4 H2) as (x3 & s3 & c3 & E3 & H3 & V3); [lia|].
    rewrite E3. cbn [bind]. destruct x3 as [x3|].
    2:{ exists 0, s3, c3. split; [reflexivity|]. split; [exact H3|lia]. }
    specialize (V3 x3 eq_refl). pows.
    destruct (N.ltb_spec x3 14) as [Hcase9|Hcase9].
    { eexists _, s3, c3. split; [reflexivity|]. split; [exact H3|lia]. }
    destruct (N.eqb_spec x3 14) as [Hcase10|Hcase10].
    { destruct (pm1_read_plus0_safe t s3 c3 6 25 H3) as (v & s' & c' & E & H' & V); [lia|].
      exists v, s', c'. split; [exact E|]. split; [exact H'|]. pows. lia. }
    destruct (pm1_read_plus0_safe t s3 c3 7 89 H3) as (v & s' & c' & E & H' & V); [lia|].
    exists v, s', c'. split; [exact E|]. split; [exact H'|]. pows. lia.
  Qed.

  Lemma byte_block_loop_safe row n : forall s c o,
    pm1_invk (Some row) s -> ob_wf o -> ob_len o + N.of_nat n <= pm1_max_read ->
    exists ok s' c' o', byte_block_loop cb n s c o = Ok (ok, s', c', o') /\ pm1_invk (Some row) s' /\
      ob_wf o' /\ ob_len o' <= ob_len o + N.of_nat n.
  Proof.
    induction n as [|n IH]; intros s c o Hi Hw Hl.
    - exists true, s, c, o. split; [reflexivity|]. split; [exact Hi|]. split; [exact Hw|]. lia.
    - rewrite byte_block_loop_S.
      destruct (read_byte_safe row s c Hi) as (bv & s1 & c1 & E1 & H1).
      rewrite E1. cbn [bind]. destruct bv as [b|].
      2:{ exists false, s1, c1, o. split; [reflexivity|]. split; [exact H1|]. split; [exact Hw|]. lia. }
      rewrite ob_push_ok by lia. cbn [bind].
      destruct (outputted_byte_safe (Some row) s1 b H1) as (s2 & E2 & H2).
      rewrite E2. cbn [bind].
      destruct (IH s2 c1 {| ob_rev := u8 b :: ob_rev o; ob_len := ob_len o + 1 |})
        as (ok & s' & c' & o' & E & H' & W' & L').
      + exact H2.
      + apply ob_push_wf. exact Hw.
      + cbn [ob_len]. lia.
      + exists ok, s', c', o'. split; [exact E|]. split; [exact H'|]. split; [exact W'|].
        cbn [ob_len] in L'. lia.
  Qed.

  Lemma nil_le_max : nlen (@nil N) <= pm1_max_read.
  Proof. rewrite nlen_nil. unfold pm1_max_read. lia. Qed.

  Lemma read_byte_block_safe row s c : pm1_invk (Some row) s ->
    exists ch s' c', read_byte_block cb s c = Ok (ch, s', c') /\ nlen ch <= pm1_max_read /\
      pm1_invk (Some row) s'.
  Proof.
    intros H0. unfold read_byte_block.
    destruct (read_byte_block_count_safe (Some row) s c H0) as (bl & s1 & c1 & E1 & H1 & V1).
    rewrite E1. cbn [bind].
    destruct (N.eqb_spec bl 0) as [Ez|Enz].
    { exists [], s1, c1. split; [reflexivity|]. split; [exact nil_le_max|exact H1]. }
    destruct (byte_block_loop_safe row (N.to_nat bl) s1 c1 ob_empty H1 ob_empty_wf)
      as (ok & s2 & c2 & o & E2 & H2 & W2 & L2).
    { cbn [ob_empty ob_len]. unfold pm1_MAX_BYTE_BLOCK_LEN in V1. unfold pm1_max_read. lia. }
    rewrite E2. cbn [bind]. cbn [ob_empty ob_len] in L2.
    destruct ok; cbn [negb].
    2:{ exists [], s2, c2. split; [reflexivity|]. split; [exact nil_le_max|exact H2]. }
    destruct (N.eqb_spec bl pm1_MAX_BYTE_BLOCK_LEN) as [Em|Enm].
    { exists (ob_bytes o), s2, c2. split; [reflexivity|]. split; [|exact H2].
      rewrite ob_bytes_nlen by exact W2. unfold pm1_MAX_BYTE_BLOCK_LEN in V1. unfold pm1_max_read. lia. }
    destruct (read_copy_command_safe (Some row) s2 c2 o H2 W2) as (r2 & s3 & c3 & o' & E3 & H3 & W3 & L3).
    { unfold pm1_MAX_BYTE_BLOCK_LEN, pm1_MAX_COPY_BLOCK_LEN, pm1_max_read in *. lia. }
    rewrite E3. cbn [bind].
    destruct (r2 =? 0).
    { exists [], s3, c3. split; [reflexivity|]. split; [exact nil_le_max|exact H3]. }
    exists (ob_bytes o'), s3, c3. split; [reflexivity|]. split; [|exact H3].
    rewrite ob_bytes_nlen by exact W3.
    unfold pm1_MAX_BYTE_BLOCK_LEN, pm1_MAX_COPY_BLOCK_LEN, pm1_max_read in *. lia.
  Qed.

  Lemma pm1_read_command_safe row s c : pm1_invk (Some row) s ->
    exists ch s' c', pm1_read_command cb s c = Ok (ch, s', c') /\ nlen ch <= pm1_max_read /\
      pm1_invk (Some row) s'.
  Proof.
    intros H0. unfold pm1_read_command.
    destruct (pm1_read_bit_safe (Some row) s c H0) as (ct & s1 & c1 & E1 & H1 & _).
    rewrite E1. cbn [bind].
    destruct ct as [[|p]|]; try (apply read_byte_block_safe; exact H1).
    destruct (read_copy_command_safe (Some row) s1 c1 ob_empty H1 ob_empty_wf)
      as (cnt & s2 & c2 & o & E2 & H2 & W2 & L2).
    { cbn [ob_empty ob_len]. unfold pm1_MAX_COPY_BLOCK_LEN, pm1_max_read. lia. }
    rewrite E2. cbn [bind]. cbn [ob_empty ob_len] in L2.
    destruct (cnt =? 0).
    { exists [], s2, c2. split; [reflexivity|]. split; [exact nil_le_max|exact H2]. }
    exists (ob_bytes o), s2, c2. split; [reflexivity|]. split; [|exact H2].
    rewrite ob_bytes_nlen by exact W2. unfold pm1_MAX_COPY_BLOCK_LEN, pm1_max_read in *. lia.
  Qed.

  Lemma pm1_read_total_cb s c : pm1_inv s ->
    exists ch s' c', pm1_read cb s c = Ok (ch, s', c') /\ nlen ch <= pm1_max_read /\ pm1_inv s'.
  Proof.
    intros Hi. apply pm1_inv_invk in Hi. unfold pm1_read.
    destruct (pm1_byte_decode_tree s) as [row|].
    - destruct (pm1_read_command_safe row s c Hi) as (ch & s' & c' & E & L & H').
      exists ch, s', c'. split; [exact E|]. split; [exact L|]. exact (pm1_invk_inv _ _ H').
    - destruct (read_start_header_safe s c Hi) as (ok & s1 & c1 & E1 & H1).
      rewrite E1. cbn [bind]. destruct ok.
      + destruct H1 as (row & H1).
        destruct (pm1_read_command_safe row s1 c1 H1) as (ch & s' & c' & E & L & H').
        exists ch, s', c'. split; [exact E|]. split; [exact L|]. exact (pm1_invk_inv _ _ H').
      + exists [], s1, c1. split; [reflexivity|]. split; [exact nil_le_max|].
        exact (pm1_invk_inv _ _ H1).
  Qed.
End Pm1Safe.
End Gen.

(* ------------------------------------------------------------------ *)
(* The two instances                                                   *)

(* the wrapper hands zero bytes out when the callback reports the end of the input *)
Lemma wrapper_bounded {cbs} (cb : callback cbs) : cb_bounded cb -> cb_bounded (read_callback_wrapper cb).
Proof.
  intros Hcb c n. unfold read_callback_wrapper.
  pose proof (Hcb c n) as [Hlen Hby].
  destruct (cb c n) as [bs c'] eqn:Ecb. cbn [fst] in Hlen, Hby.
  destruct bs as [|b rest].
  - cbn [fst]. split.
    + unfold nlen. rewrite repeat_length. lia.
    + apply Forall_forall. intros x Hx. apply repeat_spec in Hx. subst x. lia.
  - cbn [fst]. split; assumption.
Qed.

Lemma wrapper_len_bounded {cbs} (cb : callback cbs) : cb_len_bounded cb ->
  cb_len_bounded (read_callback_wrapper cb).
Proof.
  intros Hcb c n. unfold read_callback_wrapper.
  pose proof (Hcb c n) as Hlen.
  destruct (cb c n) as [bs c'] eqn:Ecb. cbn [fst] in Hlen.
  destruct bs as [|b rest].
  - cbn [fst]. unfold nlen. rewrite repeat_length. lia.
  - cbn [fst]. exact Hlen.
Qed.

Definition pm1_inv_wf : pm1_state -> Prop := pm1_inv bsr_wf.
Definition pm1_inv_ok : pm1_state -> Prop := pm1_inv bsr_ok.

Theorem pm1_init_wf : exists s, pm1_init = Ok s /\ pm1_inv_wf s.
Proof. apply pm1_init_ok. exact bsr_init_wf. Qed.

Theorem pm1_init_ok_ok : exists s, pm1_init = Ok s /\ pm1_inv_ok s.
Proof. apply pm1_init_ok. apply bsr_wf_ok. exact bsr_init_wf. Qed.

(* for ANY input bytes and any chunking of the input: no fault, no fuel
   exhaustion, at most pm1_max_read bytes, invariant kept *)
Theorem pm1_read_total : forall cbs (cb : callback cbs), cb_bounded cb -> forall s c, pm1_inv_wf s ->
  exists ch s' c', pm1_read cb s c = Ok (ch, s', c') /\ nlen ch <= pm1_max_read /\ pm1_inv_wf s'.
Proof.
  intros cbs cb Hcb s c Hi. apply (pm1_read_total_cb bsr_wf cb); [|exact Hi].
  intros r0 c0 n. apply (read_bits_safe _ (wrapper_bounded cb Hcb)).
Qed.

(* ... and for callbacks only known to return at most as many values as asked for *)
Theorem pm1_read_total_len : forall cbs (cb : callback cbs), cb_len_bounded cb -> forall s c, pm1_inv_ok s ->
  exists ch s' c', pm1_read cb s c = Ok (ch, s', c') /\ nlen ch <= pm1_max_read /\ pm1_inv_ok s'.
Proof.
  intros cbs cb Hcb s c Hi. apply (pm1_read_total_cb bsr_ok cb); [|exact Hi].
  intros r0 c0 n. apply (read_bits_ok _ (wrapper_len_bounded cb Hcb)).
Qed.

Print Assumptions pm1_init_wf.
Print Assumptions pm1_read_total.
Print Assumptions pm1_init_ok_ok.
Print Assumptions pm1_read_total_len.
Print Assumptions pm1_read_total_cb.

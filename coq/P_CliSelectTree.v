(* P_CliSelectTree.v -- C06, wildcard arguments together with extraction, for an
   archive WITH directory entries (the forest of P_CliTree / P_CliTreeGen):
   "lha x archive PATTERN..." (also under w=DIR once DIR exists).

   What the model does, entry by entry (src/filter.c, src/extract.c, lib/lha_reader.c):
   - a member is passed over by lha_filter_next_file iff no pattern matches its
     stored path ++ name (wildcards_select_exactly); the basic reader skips its data;
   - a selected file or safe link is extracted with its contents, mode and time;
     if its directory does not exist (its directory entry -- and those of some
     ancestors -- were not selected) make_parent_directories creates every missing
     ancestor with mode 0755 & ~umask; such a directory keeps that mode and the
     time of its last modification by the kernel ([now]): nothing ever applies
     the recorded mode or time stamp of a directory entry that was not selected;
   - a selected directory entry is created 0700/0777 & ~umask (its missing
     ancestors as above), pushed on the reader's directory stack, and when the
     first entry outside it (or the end) is reached -- the members inside it that
     no pattern matches having been passed over -- the reader presents it again
     (the filter selects it again: same header) and its recorded mode and time
     are applied; a selected directory none of whose contents is selected is
     an empty directory with the recorded mode and time;
   - a directory entry that is not selected and has no selected descendant
     leaves no trace.
   [sbuilds] is that tree; [extract_archive_selected_tree] says that the target
   directory holds its old entries followed by exactly [sbuilds its]. *)
From Lhasa Require Import Base ListN DecBase Loop Generated Crc16 InputStream Header BasicReader
  AnyDecoder Decoder MacBinary Fs FsRun Reader Glob ListOut P_ListOut CliFilter CliExtract
  P_ReaderCheck P_FsExtract P_ReaderExtract P_CliExtract P_CliTree P_FsReplace P_CliOverwrite P_CliExtractGen
  P_CliTreeGen P_CliFlat P_CliWdir P_CliWdirN P_CliFilterSkip P_CliSelectFlat.
From Coq Require Import ZifyBool ZifyN ZifyNat.
Local Open Scope N_scope.

Set Default Timeout 120.

(* ------------------------------------------------------------------ *)
(* the chain of directories made by make_parent_directories, as a node *)
Section Wrap.
  Variable u : N.
  Notation dm := (mkdir_mode u 493).

  (* the entries X of the directory P/miss, seen from P: inside the chain of new directories *)
  Definition wrap (miss : list name) (X : list (name * node)) : list (name * node) :=
    match miss with [] => X | d1 :: rest => [(d1, nest dm rest X)] end.
  (* owner flag, mode and older entries of the directory P/miss when P has (o, pm, ents) *)
  Definition cown (miss : list name) (o : bool) : bool := match miss with [] => o | _ => true end.
  Definition cpm (miss : list name) (pm : N) : N := match miss with [] => pm | _ => dm end.
  Definition cbase (miss : list name) (ents : list (name * node)) : list (name * node) :=
    match miss with [] => ents | _ => [] end.
  Definition pend_fresh (miss : list name) (ents : list (name * node)) : Prop :=
    match miss with [] => True | d1 :: _ => lookup ents d1 = None end.

  Lemma nest_snoc c X : forall rest, nest dm (rest ++ [c]) X = nest dm rest [(c, Dir true dm now X)].
  Proof. induction rest as [|d r IH]; [reflexivity|]. cbn [app nest]. rewrite IH. reflexivity. Qed.

  Lemma wrap_snoc miss c X : wrap (miss ++ [c]) X = wrap miss [(c, Dir true dm now X)].
  Proof. destruct miss as [|d1 rest]; [reflexivity|]. cbn [app wrap]. rewrite nest_snoc. reflexivity. Qed.

  Lemma cown_snoc miss c o : cown (miss ++ [c]) o = true.
  Proof. destruct miss; reflexivity. Qed.
  Lemma cpm_snoc miss c pm : cpm (miss ++ [c]) pm = dm.
  Proof. destruct miss; reflexivity. Qed.
  Lemma cbase_snoc miss c ents : cbase (miss ++ [c]) ents = [].
  Proof. destruct miss; reflexivity. Qed.

  Lemma cpm_nosgid miss pm : N.land pm 1024 = 0 -> N.land (cpm miss pm) 1024 = 0.
  Proof. intros H. destruct miss; [exact H|apply mkdir_mode_nosgid]. Qed.

  Lemma update_nest Z : forall rest X,
    update_at (nest dm rest X) rest (const_some (Dir true dm now Z)) = nest dm rest Z.
  Proof.
    induction rest as [|d r IH]; intros X; [reflexivity|].
    cbn [nest]. destruct r as [|c2 r2].
    - rewrite update_at_one_const. change [(d, nest dm [] X)] with ([] ++ [(d, nest dm [] X)]).
      rewrite (set_ent_last [] d _ _ eq_refl). reflexivity.
    - rewrite update_at_more. change [(d, nest dm (c2 :: r2) X)] with ([] ++ [(d, nest dm (c2 :: r2) X)]).
      rewrite (lookup_last [] d _ eq_refl), (set_ent_last [] d _ _ eq_refl), IH. reflexivity.
  Qed.

  Lemma node_at_nest X : forall rest, node_at (nest dm rest X) rest = Some (Dir true dm now X).
  Proof.
    induction rest as [|d r IH]; [reflexivity|].
    cbn [nest]. rewrite node_at_cons. change [(d, nest dm r X)] with ([] ++ [(d, nest dm r X)]).
    rewrite (lookup_last [] d _ eq_refl). exact IH.
  Qed.

  (* replacing the entries of P/miss, seen from P *)
  Lemma update_wrap o pm ents miss X Z : pend_fresh miss ents ->
    update_at (Dir o pm now (ents ++ wrap miss X)) miss
      (const_some (Dir (cown miss o) (cpm miss pm) now (cbase miss ents ++ Z))) =
    Dir o pm now (ents ++ wrap miss Z).
  Proof.
    intros Hf. destruct miss as [|d1 rest]; [reflexivity|].
    cbn [wrap cown cpm cbase app pend_fresh] in *. destruct rest as [|c2 r2].
    - rewrite update_at_one_const, (set_ent_last _ _ _ _ Hf). reflexivity.
    - rewrite update_at_more, (lookup_last _ _ _ Hf), (set_ent_last _ _ _ _ Hf), update_nest. reflexivity.
  Qed.

  Lemma node_at_wrap o pm ents miss X : pend_fresh miss ents ->
    node_at (Dir o pm now (ents ++ wrap miss X)) miss =
    Some (Dir (cown miss o) (cpm miss pm) now (cbase miss ents ++ X)).
  Proof.
    intros Hf. destruct miss as [|d1 rest]; [reflexivity|].
    cbn [wrap cown cpm cbase app pend_fresh] in *.
    rewrite node_at_cons, (lookup_last _ _ _ Hf). apply node_at_nest.
  Qed.

  (* the same below a root *)
  Lemma refold R P m0 o pm ents miss X Z : node_at R P = Some m0 -> pend_fresh miss ents ->
    update_at (update_at R P (const_some (Dir o pm now (ents ++ wrap miss X)))) (P ++ miss)
      (const_some (Dir (cown miss o) (cpm miss pm) now (cbase miss ents ++ Z))) =
    update_at R P (const_some (Dir o pm now (ents ++ wrap miss Z))).
  Proof.
    intros Hn Hf. destruct miss as [|d1 rest] eqn:Em.
    - rewrite app_nil_r. cbn [wrap cown cpm cbase]. apply update_const_twice.
    - rewrite <- Em in *. rewrite (update_const_below _ _ P R m0 miss ltac:(rewrite Em; discriminate) Hn).
      rewrite (update_wrap o pm ents miss X Z Hf). reflexivity.
  Qed.

  Lemma node_at_G R P m0 o pm ents miss X : node_at R P = Some m0 -> pend_fresh miss ents ->
    node_at (update_at R P (const_some (Dir o pm now (ents ++ wrap miss X)))) (P ++ miss) =
    Some (Dir (cown miss o) (cpm miss pm) now (cbase miss ents ++ X)).
  Proof.
    intros Hn Hf. rewrite (node_at_update_const _ P R m0 miss Hn). apply node_at_wrap. exact Hf.
  Qed.

  (* replacing the child c of P/miss *)
  Lemma refold_child R P m0 o pm ents miss c D0 D : node_at R P = Some m0 -> pend_fresh miss ents ->
    lookup (cbase miss ents) c = None ->
    update_at (update_at R P (const_some (Dir o pm now (ents ++ wrap miss [(c, D0)])))) ((P ++ miss) ++ [c]) (const_some D) =
    update_at R P (const_some (Dir o pm now (ents ++ wrap miss [(c, D)]))).
  Proof.
    intros Hn Hf Hl.
    rewrite (update_loc_to_parent _ (P ++ miss) _ _ _ _ c D (node_at_G R P m0 o pm ents miss _ Hn Hf)).
    rewrite (set_ent_last _ _ _ _ Hl). apply (refold R P m0 o pm ents miss _ _ Hn Hf).
  Qed.
End Wrap.

(* ------------------------------------------------------------------ *)
(* one selected entry whose directory P/miss may be missing from miss on *)
Section Entry.
  Variable junk : N.
  Variable u : N.
  Hypothesis Humask : umask_ok u.
  Notation dm := (mkdir_mode u 493).
  Notation wrap := (wrap u).
  Notation cpm := (cpm u).

  (* the state once make_parent_directories has made the missing directories *)
  Definition prep (st : cli_state) (P miss : list name) : cli_state :=
    match miss with [] => st | _ => set_fs st (mk_chain (cs_fs st) P miss) end.
  Definition ctm (miss : list name) (t : N) : N := match miss with [] => t | _ => now end.

  (* which entry: a regular member, a link, a directory (tail = "/") *)
  Definition entry_kind (h : header) (tail : list N) : Prop :=
    (is_dir_method h = false /\ h_symlink_target h = None /\ tail = []) \/
    ((exists tg, h_symlink_target h = Some tg) /\ tail = []) \/
    (is_dir_method h = true /\ h_symlink_target h = None /\ tail = [47]).

  Lemma prep_ok h st P miss c tail o pm t ents :
    let s := cs_fs st in
    let st0 := prep st P miss in
    dir_ready s P o pm t ents -> N.land pm 1024 = 0 -> fs_umask s = u ->
    Forall good_name miss -> pend_fresh miss ents -> good_name c ->
    nlen (dirstr (P ++ miss) ++ c ++ tail) <= 4095 ->
    file_full_path h (cs_opts st) = dirstr (P ++ miss) ++ c ++ tail -> o_use_path (cs_opts st) = true ->
    entry_kind h tail ->
    extract_archived_file junk h st = extract_archived_file junk h st0 /\
    cs_reader st0 = cs_reader st /\ cs_opts st0 = cs_opts st /\ same_env s (cs_fs st0) /\
    dir_ready (cs_fs st0) (P ++ miss) (cown miss o) (cpm miss pm) (ctm miss t) (cbase miss ents) /\
    forall X, update_at (fs_root (cs_fs st0)) (fs_cwd s ++ P ++ miss)
                (const_some (Dir (cown miss o) (cpm miss pm) now (cbase miss ents ++ X))) =
              update_at (fs_root s) (fs_cwd s ++ P) (const_some (Dir o pm now (ents ++ wrap miss X))).
  Proof.
    intros s st0 Hready Hsg Hum Hgm Hpf Hc Hlen Hfn Hu Hkind.
    destruct miss as [|d1 rest].
    - unfold st0. cbn [prep cown cpm ctm cbase wrap]. rewrite !app_nil_r.
      split; [reflexivity|]. split; [reflexivity|]. split; [reflexivity|]. split; [apply same_env_refl|].
      split; [exact Hready|]. intros X. reflexivity.
    - cbn [pend_fresh] in Hpf.
      assert (Hlenbl : nlen (dirstr (P ++ d1 :: rest)) <= 4095).
      { rewrite nlen_app in Hlen. eapply N.le_trans; [apply N.le_add_r|exact Hlen]. }
      assert (Hlenc : nlen (dirstr (P ++ d1 :: rest) ++ c) <= 4095).
      { rewrite app_assoc, nlen_app in Hlen. eapply N.le_trans; [apply N.le_add_r|exact Hlen]. }
      destruct (chain_spec u Humask rest d1 P o pm t ents s Hready Hpf Hsg Hum Hgm Hlenbl) as (Henv & Hready_k & Hfold).
      unfold st0. cbn [prep cown cpm ctm cbase wrap]. fold s. set (sk := mk_chain s P (d1 :: rest)) in *.
      pose proof Hready_k as (Hgbl & _).
      assert (Hpar : forall a d b, P ++ d1 :: rest = a ++ d :: b -> arch_exists sk (dirstr a ++ d) = FT_DIRECTORY).
      { eapply parents_exist; [exact Hready_k|exact Hlenbl]. }
      assert (Htail : tail = [] \/ tail = [47]).
      { destruct Hkind as [(_ & _ & E)|[(_ & E)|(_ & _ & E)]]; auto. }
      split; [|split; [reflexivity|]; split; [reflexivity|]; split; [exact Henv|]; split; [exact Hready_k|exact Hfold]].
      eapply (eaf_same_after_mkparent junk h st (set_fs st sk) (dirstr (P ++ d1 :: rest) ++ c ++ tail)); cbn [cs_opts set_fs]; auto.
      + destruct Hkind as [(Hdm & Hsl & ->)|[((tg & Hsl) & ->)|(Hdm & Hsl & ->)]].
        * rewrite (decide_regular h _ (conj Hdm Hsl)), Hfn, app_nil_r.
          rewrite file_exists_none; [reflexivity|]. fold s. eapply exists_through_missing; eauto.
        * unfold eaf_decide. rewrite Hsl. cbn [negb andb]. rewrite andb_false_r. reflexivity.
        * unfold eaf_decide. rewrite Hsl. change (is_dir_type h) with (is_dir_method h). rewrite Hdm. reflexivity.
      + destruct Hkind as [(Hdm & Hsl & ->)|[((tg & Hsl) & ->)|(Hdm & Hsl & ->)]].
        * rewrite (decide_regular h _ (conj Hdm Hsl)). cbn [cs_opts set_fs]. rewrite Hfn, app_nil_r.
          rewrite file_exists_none; [reflexivity|]. cbn [cs_fs set_fs].
          assert (Hat : at_path sk (dirstr (P ++ d1 :: rest) ++ c) (P ++ d1 :: rest) c) by (eapply at_path_in_dir; eauto).
          eapply (exists_none sk _ (P ++ d1 :: rest) c Hat). destruct Hready_k as (_ & _ & Hn & _).
          rewrite (child_lookup _ _ _ _ _ _ c Hn). reflexivity.
        * unfold eaf_decide. rewrite Hsl. cbn [negb andb]. rewrite andb_false_r. reflexivity.
        * unfold eaf_decide. rewrite Hsl. change (is_dir_type h) with (is_dir_method h). rewrite Hdm. reflexivity.
      + eapply (mpd_first u Humask P d1 rest Hgm Hlenbl st c tail); eauto.
      + destruct Htail as [->| ->].
        * rewrite app_nil_r. apply mpd_file; auto.
        * rewrite <- dirstr_snoc. apply mpd_dir; auto.
  Qed.

  Lemma file_mode_env s s' h : same_env s s' -> file_mode s' h = file_mode s h.
  Proof. intros (_ & _ & E). unfold file_mode, apply_umask. rewrite E. reflexivity. Qed.

  (* a selected regular member *)
  Lemma two_file h st P miss c o pm t ents bs r2 :
    let s := cs_fs st in
    file_full_path h (cs_opts st) = dirstr (P ++ miss) ++ c -> o_use_path (cs_opts st) = true ->
    dir_ready s P o pm t ents -> N.land pm 1024 = 0 -> fs_umask s = u ->
    Forall good_name miss -> pend_fresh miss ents ->
    good_name c -> nlen (dirstr (P ++ miss) ++ c) <= 4095 -> lookup (cbase miss ents) c = None ->
    is_dir_method h = false -> h_symlink_target h = None -> (h_os_type h =? OS_TYPE_MACOS) = false ->
    rd_type (cs_reader st) = CT_NORMAL -> rd_curr (cs_reader st) = Some h ->
    member_ok junk (cs_reader st) h bs r2 ->
    (fs_uid0 s = true \/ drop_setid (file_mode s h) = file_mode s h) ->
    let D := File true (file_mode s h) (h_timestamp h) bs in
    exists st', extract_archived_file junk h st = Ok (RVal true, st') /\
      cs_reader st' = r2 /\ cs_opts st' = cs_opts st /\ same_env s (cs_fs st') /\
      fs_root (cs_fs st') = update_at (fs_root s) (fs_cwd s ++ P) (const_some (Dir o pm now (ents ++ wrap miss [(c, D)]))) /\
      dir_ready (cs_fs st') (P ++ miss) (cown miss o) (cpm miss pm) now (cbase miss ents ++ [(c, D)]).
  Proof.
    intros s Hfn Hu Hready Hsg Hum Hgm Hpf Hc Hlen Hl Hdm Hsl Hos Hty Hcur Hmem Hmode D.
    destruct (prep_ok h st P miss c [] o pm t ents) as (Eeaf & Erd & Eopts & Henv0 & Hready0 & Hfold); auto.
    { rewrite app_nil_r. exact Hlen. } { rewrite app_nil_r. exact Hfn. } { left. auto. }
    set (st0 := prep st P miss) in *. fold s in Henv0, Hfold.
    destruct (gen_file junk h st0 (P ++ miss) c (cown miss o) (cpm miss pm) (ctm miss t) (cbase miss ents) bs r2)
      as (st' & Hex & Hrd & Hopts & Henv & Hroot); auto.
    { rewrite Eopts. exact Hfn. } { rewrite Erd. exact Hty. } { rewrite Erd. exact Hcur. } { rewrite Erd. exact Hmem. }
    { rewrite (file_mode_env s _ h Henv0). destruct Henv0 as (_ & E & _). rewrite E. exact Hmode. }
    rewrite (file_mode_env s _ h Henv0) in Hroot. fold D in Hroot.
    assert (Hcwd0 : fs_cwd (cs_fs st0) = fs_cwd s) by apply Henv0.
    exists st'. split; [rewrite Eeaf; exact Hex|]. split; [exact Hrd|]. split; [congruence|].
    split; [exact (same_env_trans _ _ _ Henv0 Henv)|].
    split; [rewrite Hroot, Hcwd0; apply Hfold|].
    eapply dir_ready_update; [exact Hready0|exact Henv|exact Hroot].
  Qed.

  (* a selected safe symbolic link *)
  Lemma two_link h st P miss c o pm t ents tgt :
    let s := cs_fs st in
    let r := cs_reader st in
    file_full_path h (cs_opts st) = dirstr (P ++ miss) ++ c -> o_use_path (cs_opts st) = true ->
    dir_ready s P o pm t ents -> N.land pm 1024 = 0 -> fs_umask s = u ->
    Forall good_name miss -> pend_fresh miss ents ->
    good_name c -> nlen (dirstr (P ++ miss) ++ c) <= 4095 -> lookup (cbase miss ents) c = None ->
    is_dir_method h = true -> h_symlink_target h = Some tgt -> is_dangerous_symlink h = false ->
    tgt <> [] -> nlen tgt <= 4095 -> rd_type r = CT_NORMAL -> rd_curr r = Some h ->
    exists st', extract_archived_file junk h st = Ok (RVal true, st') /\
      cs_opts st' = cs_opts st /\ cs_reader st' = r /\ same_env s (cs_fs st') /\
      fs_root (cs_fs st') = update_at (fs_root s) (fs_cwd s ++ P) (const_some (Dir o pm now (ents ++ wrap miss [(c, Link tgt)]))) /\
      dir_ready (cs_fs st') (P ++ miss) (cown miss o) (cpm miss pm) now (cbase miss ents ++ [(c, Link tgt)]).
  Proof.
    intros s r Hfn Hu Hready Hsg Hum Hgm Hpf Hc Hlen Hl Hdm Hsl Hsafe Htne Htlen Hty Hcur.
    destruct (prep_ok h st P miss c [] o pm t ents) as (Eeaf & Erd & Eopts & Henv0 & Hready0 & Hfold); auto.
    { rewrite app_nil_r. exact Hlen. } { rewrite app_nil_r. exact Hfn. } { right. left. eauto. }
    set (st0 := prep st P miss) in *. fold s in Henv0, Hfold.
    destruct (gen_link junk h st0 (P ++ miss) c (cown miss o) (cpm miss pm) (ctm miss t) (cbase miss ents) tgt)
      as (st' & Hex & Hopts & Hrd & Henv & Hroot); auto.
    { rewrite Eopts. exact Hfn. } { rewrite Erd. exact Hty. } { rewrite Erd. exact Hcur. }
    assert (Hcwd0 : fs_cwd (cs_fs st0) = fs_cwd s) by apply Henv0.
    exists st'. split; [rewrite Eeaf; exact Hex|]. split; [congruence|]. split; [unfold r; congruence|].
    split; [exact (same_env_trans _ _ _ Henv0 Henv)|].
    split; [rewrite Hroot, Hcwd0; apply Hfold|].
    eapply dir_ready_update; [exact Hready0|exact Henv|exact Hroot].
  Qed.

  (* a selected directory entry *)
  Lemma two_dir h st P miss c o pm t ents :
    let s := cs_fs st in
    let r := cs_reader st in
    file_full_path h (cs_opts st) = dirstr ((P ++ miss) ++ [c]) -> o_use_path (cs_opts st) = true ->
    dir_ready s P o pm t ents -> N.land pm 1024 = 0 -> fs_umask s = u ->
    Forall good_name miss -> pend_fresh miss ents ->
    good_name c -> nlen (dirstr ((P ++ miss) ++ [c])) <= 4095 -> lookup (cbase miss ents) c = None ->
    is_dir_method h = true -> h_symlink_target h = None ->
    rd_type r = CT_NORMAL -> rd_curr r = Some h -> rd_policy r = DIR_END_OF_DIR -> rd_linked r = false ->
    let D := Dir true (dir_first_mode u h) now [] in
    exists st', extract_archived_file junk h st = Ok (RVal true, st') /\
      cs_opts st' = cs_opts st /\ same_env s (cs_fs st') /\
      cs_reader st' = {| rd_br := rd_br r; rd_curr := rd_curr r; rd_type := rd_type r; rd_decoder := rd_decoder r;
                         rd_inner := rd_inner r; rd_policy := rd_policy r; rd_dir_stack := h :: rd_dir_stack r;
                         rd_deferred := rd_deferred r; rd_linked := true |} /\
      fs_root (cs_fs st') = update_at (fs_root s) (fs_cwd s ++ P) (const_some (Dir o pm now (ents ++ wrap miss [(c, D)]))) /\
      dir_ready (cs_fs st') (P ++ miss) (cown miss o) (cpm miss pm) now (cbase miss ents ++ [(c, D)]).
  Proof.
    intros s r Hfn Hu Hready Hsg Hum Hgm Hpf Hc Hlen Hl Hdm Hsl Hty Hcur Hpol Hlk D.
    destruct (prep_ok h st P miss c [47] o pm t ents) as (Eeaf & Erd & Eopts & Henv0 & Hready0 & Hfold); auto.
    { rewrite <- dirstr_snoc. exact Hlen. } { rewrite <- dirstr_snoc. exact Hfn. } { right. right. auto. }
    set (st0 := prep st P miss) in *. fold s in Henv0, Hfold.
    destruct (gen_dir junk h st0 (P ++ miss) c (cown miss o) (cpm miss pm) (ctm miss t) (cbase miss ents))
      as (st' & Hex & Hopts & Henv & Hrd & Hroot); auto.
    { rewrite Eopts. exact Hfn. } { rewrite Eopts. exact Hu. } { apply cpm_nosgid. exact Hsg. }
    { rewrite Erd. exact Hty. } { rewrite Erd. exact Hcur. } { rewrite Erd. exact Hpol. } { rewrite Erd. exact Hlk. }
    assert (Hum0 : fs_umask (cs_fs st0) = u) by (destruct Henv0 as (_ & _ & E); congruence).
    rewrite Hum0 in Hroot. fold D in Hroot.
    assert (Hcwd0 : fs_cwd (cs_fs st0) = fs_cwd s) by apply Henv0.
    exists st'. split; [rewrite Eeaf; exact Hex|]. split; [congruence|].
    split; [exact (same_env_trans _ _ _ Henv0 Henv)|].
    split; [rewrite Hrd, Erd; reflexivity|].
    split; [rewrite Hroot, Hcwd0; apply Hfold|].
    eapply dir_ready_update; [exact Hready0|exact Henv|exact Hroot].
  Qed.
End Entry.

(* ------------------------------------------------------------------ *)
(* the reader under a filter: members passed over, the directory stack *)
Section SelectTree.
  Variable mktime : N -> N -> N -> N -> Z -> N -> N.
  Variable junk : N.
  Variable f : lha_filter.
  Variables (u : N) (uid0 : bool).
  Hypothesis Humask : umask_ok u.
  Variable bl : list name.

  Notation sel := (matches_filter f).
  Notation step := (extract_archive_step mktime junk f).
  Notation skips := (skips mktime f).
  Notation positionedS := (positionedS mktime junk).
  Notation upcomingS := (upcomingS mktime junk).
  Notation dm := (mkdir_mode u 493).
  Notation wrap := (wrap u).
  Notation cpm := (cpm u).

  (* presenting h does not pop the directory on top of the stack *)
  Definition nopop (stk : list header) (h : header) : Prop :=
    stk = [] \/ exists top rest tp ip, stk = top :: rest /\ h_path top = Some tp /\ h_path h = Some ip /\ is_prefix tp ip = true.
  (* a member the filter passes over while the stack is stk *)
  Definition noise (stk : list header) (m : member) : Prop := sel (hdr m) = false /\ nopop stk (hdr m).
  (* the directory on top of the stack encloses dl *)
  Definition stack_in (stk : list header) (dl : list name) : Prop :=
    stk = [] \/ exists top rest al x, stk = top :: rest /\ al <> [] /\ dl = al ++ x /\ h_path top = Some (dirstr al).

  Lemma nopop_in stk dl h ip : stack_in stk dl -> (h_path h = Some ip \/ dl = []) ->
    is_prefix (dirstr dl) ip = true -> nopop stk h.
  Proof.
    intros [->|(top & rest & al & x & -> & Hne & -> & Htop)] Hp Hpre; [left; reflexivity|right].
    destruct Hp as [Hp|Hp]; [|apply app_eq_nil in Hp; destruct Hp; contradiction].
    exists top, rest, (dirstr al), ip. repeat split; auto.
    rewrite dirstr_app in Hpre. eapply is_prefix_weaken. exact Hpre.
  Qed.

  Lemma stack_in_snoc stk dl c : stack_in stk dl -> stack_in stk (dl ++ [c]).
  Proof.
    intros [->|(top & rest & al & x & -> & Hne & -> & Htop)]; [left; reflexivity|right].
    exists top, rest, al, (x ++ [c]). rewrite app_assoc. auto.
  Qed.

  Lemma rinv_mk_k br1 c stk lk : rinv (mk_reader br1 c CT_NORMAL stk lk) stk.
  Proof. repeat split. discriminate. Qed.
  Lemma rinv_mk_fake br1 c stk lk : rinv (mk_reader br1 c CT_FAKE_DIR stk lk) stk.
  Proof. repeat split. discriminate. Qed.

  Lemma present_Sk r stk m ms : rinv r stk -> upcomingS r (m :: ms) -> nopop stk (hdr m) ->
    exists br1, positionedS br1 (m :: ms) /\
      lha_reader_next_file mktime r = Ok (Some (hdr m), mk_reader br1 (Some (hdr m)) CT_NORMAL stk false) /\
      upcomingS (mk_reader br1 (Some (hdr m)) CT_NORMAL stk false) ms.
  Proof.
    intros (Hpol & Hdef & Hstk & Hty) (br1 & Hf & Hpos) Hnp. exists br1. split; [exact Hpos|].
    assert (Hcur : br_curr br1 = Some (hdr m)) by (inversion Hpos; subst; assumption).
    split.
    - rewrite (next_file_eq mktime r Hty), Hf. cbn [bind].
      rewrite (present_real r br1 false (hdr m) stk Hpol Hstk Hcur Hnp), Hdef. reflexivity.
    - inversion Hpos as [|br0 h bs ms0 Hc Hdec (x & br' & Hbn & Hp')|br0 h ms0 x br' Hc Hbn Hp']; subst;
        (exists br'; split; [unfold fetch; cbn [mk_reader rd_type rd_br]; rewrite Hbn; reflexivity|exact Hp']).
  Qed.

  Lemma skip_noise_k stk : forall nz r ms, rinv r stk -> upcomingS r (nz ++ ms) -> Forall (noise stk) nz ->
    exists r', rinv r' stk /\ upcomingS r' ms /\ forall x, skips r' [] x -> skips r (map hdr nz) x.
  Proof.
    induction nz as [|m nz IH]; intros r ms Hrinv Hup Hall.
    - exists r. auto.
    - inversion Hall as [|m0 l0 (Hm & Hnp) Hrest]; subst. cbn [app] in Hup.
      destruct (present_Sk r stk m (nz ++ ms) Hrinv Hup Hnp) as (br1 & _ & Hnext & Hup1).
      destruct (IH _ ms (rinv_mk_k br1 _ stk false) Hup1 Hrest) as (r' & Hr' & Hup' & Hsk).
      exists r'. split; [exact Hr'|]. split; [exact Hup'|]. intros x Hx. cbn [map].
      eapply sk_skip; [exact Hnext|exact Hm|]. apply Hsk. exact Hx.
  Qed.

  (* the directory on top of the stack is presented again *)
  Lemma present_fake_S r h stk tp ms :
    rinv r (h :: stk) -> h_path h = Some tp -> upcomingS r ms ->
    match ms with [] => True | m :: _ => is_prefix tp (pstr m) = false end ->
    exists br1, positionedS br1 ms /\
      lha_reader_next_file mktime r = Ok (Some h, mk_reader br1 (Some h) CT_FAKE_DIR stk false).
  Proof.
    intros (Hpol & Hdef & Hstk & Hty) Hp (br1 & Hf & Hpos) Hout.
    exists br1. split; [exact Hpos|].
    rewrite (next_file_eq mktime r Hty), Hf. cbn [bind].
    rewrite (present_pop r br1 false h stk tp Hpol Hstk Hp).
    - rewrite Hdef. reflexivity.
    - destruct ms as [|m ms']; [left; inversion Hpos; subst; assumption|right].
      exists (hdr m). split; [inversion Hpos; subst; assumption|exact Hout].
  Qed.

  Lemma upcomingS_fake br1 c stk ms : positionedS br1 ms -> upcomingS (mk_reader br1 c CT_FAKE_DIR stk false) ms.
  Proof. intros H. exists br1. split; [reflexivity|exact H]. Qed.

  (* ---- the tree that results ---- *)
  Fixpoint sbuild (it : item) : list (name * node) :=
    match it with
    | IFile c h bs => if sel h then [(c, File true (fmode u h) (h_timestamp h) bs)] else []
    | ILink c h tgt => if sel h then [(c, Link tgt)] else []
    | IDir c h sub =>
      let inner := flat_map sbuild sub in
      if sel h then [(c, Dir true (dir_final_mode u h) (h_timestamp h) inner)]
      else match inner with [] => [] | _ :: _ => [(c, Dir true dm now inner)] end
    end.
  Definition sbuilds (its : list item) : list (name * node) := flat_map sbuild its.

  (* iterations of the loop of extract_archive: selected entries; a selected directory twice *)
  Fixpoint ssize (it : item) : nat :=
    match it with
    | IFile _ h _ => if sel h then 1%nat else 0%nat
    | ILink _ h _ => if sel h then 1%nat else 0%nat
    | IDir _ h sub => ((if sel h then 2 else 0) + fold_right (fun x a => ssize x + a) O sub)%nat
    end.
  Definition ssizes (its : list item) : nat := fold_right (fun x a => ssize x + a)%nat O its.

  (* a directory made for its contents / given by the run below it is ready *)
  Lemma ready_parent s s' P miss o pm t ents X :
    dir_ready s P o pm t ents -> same_env s s' ->
    fs_root s' = update_at (fs_root s) (fs_cwd s ++ P) (const_some (Dir o pm now (ents ++ wrap miss X))) ->
    pend_fresh miss ents -> Forall good_name miss ->
    chain (fs_root s') (fs_uid0 s') (fs_cwd s') (P ++ miss) ->
    dir_ready s' (P ++ miss) (cown miss o) (cpm miss pm) now (cbase miss ents ++ X).
  Proof.
    intros (Hg & Hch & Hn & Hw) (E1 & E2 & E3) Hr Hpf Hgm Hch'.
    split; [apply Forall_app; split; assumption|]. split; [exact Hch'|].
    split.
    - rewrite Hr, E1, app_assoc. eapply node_at_G; eauto.
    - destruct miss as [|d1 rest]; [rewrite E2; exact Hw|].
      cbn [cown cpm]. apply (mkdir_mode_owner u 493 (fs_uid0 s') now _ Humask eq_refl eq_refl).
  Qed.

  Lemma dir_ready_same s s' dl o pm t e : dir_ready s dl o pm t e -> same_env s s' -> fs_root s' = fs_root s ->
    dir_ready s' dl o pm t e.
  Proof. intros (Hg & Hch & Hn & Hw) (E1 & E2 & E3) Hr. split; [exact Hg|]. rewrite Hr, E1, E2. auto. Qed.

  Lemma sizes_cons it more : sizes (it :: more) = (size it + sizes more)%nat.
  Proof. reflexivity. Qed.
  Lemma ssizes_cons it more : ssizes (it :: more) = (ssize it + ssizes more)%nat.
  Proof. reflexivity. Qed.
  Lemma sbuilds_cons it more : sbuilds (it :: more) = sbuild it ++ sbuilds more.
  Proof. reflexivity. Qed.

  Lemma fresh_after (cb : list (name * node)) c D more :
    (forall c', In c' (c :: map iname more) -> lookup cb c' = None) -> ~ In c (map iname more) ->
    forall c', In c' (map iname more) -> lookup (cb ++ [(c, D)]) c' = None.
  Proof.
    intros Hfresh Hnin c' Hin. rewrite lookup_app_none by (apply Hfresh; right; exact Hin). cbn [lookup].
    rewrite name_eqb_neq; [reflexivity|]. intros E. subst c'. contradiction.
  Qed.

  (* the loop of extract_archive over the items of the directory dl = pl ++ miss of the archive:
     bl/pl exists (o, pm, ents), the directories miss below it do not exist yet (first of them not in ents);
     nz: members already met that the filter will pass over before the next selected entry *)
  Lemma sel_run : forall n its, (sizes its <= n)%nat -> forall dl rest nz st b pl miss o pm t ents stk,
    Forall (wf_item u uid0 dl) its -> Forall (fits bl dl) its -> NoDup (map iname its) ->
    dl = pl ++ miss -> Forall good_name miss -> pend_fresh miss ents ->
    (forall c, In c (map iname its) -> lookup (cbase miss ents) c = None) ->
    pfx_opts bl (cs_opts st) -> fs_umask (cs_fs st) = u -> fs_uid0 (cs_fs st) = uid0 ->
    dir_ready (cs_fs st) (bl ++ pl) o pm t ents -> N.land pm 1024 = 0 ->
    rinv (cs_reader st) stk -> stack_in stk dl ->
    upcomingS (cs_reader st) (nz ++ flat_map ser its ++ rest) -> outside dl rest ->
    Forall (noise stk) nz ->
    N.of_nat (length nz + length (flat_map ser its)) < 2 ^ 40 ->
    exists st' nz', iters step (ssizes its) (b, st) (b, st') /\
      cs_opts st' = cs_opts st /\ same_env (cs_fs st) (cs_fs st') /\
      rinv (cs_reader st') stk /\ upcomingS (cs_reader st') (nz' ++ rest) /\
      Forall (noise stk) nz' /\ (length nz' <= length nz + length (flat_map ser its))%nat /\
      match sbuilds its with
      | [] => cs_fs st' = cs_fs st
      | X => fs_root (cs_fs st') = update_at (fs_root (cs_fs st)) (fs_cwd (cs_fs st) ++ bl ++ pl)
               (const_some (Dir o pm now (ents ++ wrap miss X))) /\
             dir_ready (cs_fs st') (bl ++ dl) (cown miss o) (cpm miss pm) now (cbase miss ents ++ X)
      end.
  Proof.
    induction n as [|n IHn]; intros its Hsz dl rest nz st b pl miss o pm t ents stk
      Hwf Hfit Hnd Edl Hgm Hpf Hfresh Hopts Hum Huid Hready Hsg Hrinv Hso Hup Hout Hnz Hk.
    - destruct its as [|it more].
      + exists st, nz. cbn [flat_map app length] in *. split; [constructor|]. split; [reflexivity|].
        split; [apply same_env_refl|]. split; [exact Hrinv|]. split; [exact Hup|]. split; [exact Hnz|]. split; [lia|reflexivity].
      + exfalso. rewrite sizes_cons in Hsz. destruct it; cbn [size] in Hsz; lia.
    - destruct its as [|it more].
      + exists st, nz. cbn [flat_map app length] in *. split; [constructor|]. split; [reflexivity|].
        split; [apply same_env_refl|]. split; [exact Hrinv|]. split; [exact Hup|]. split; [exact Hnz|]. split; [lia|reflexivity].
      + inversion Hwf as [|it0 more0 Hit Hmore]; subst it0 more0.
        inversion Hfit as [|it1 more1 Hfi Hfm]; subst it1 more1.
        cbn [map] in Hnd, Hfresh. inversion Hnd as [|c0 l0 Hnin Hnd']; subst c0 l0.
        assert (Hsz1 : (1 <= size it)%nat) by (destruct it; cbn [size]; lia).
        rewrite sizes_cons in Hsz.
        assert (Hszm : (sizes more <= n)%nat) by lia.
        set (P := bl ++ pl).
        assert (EP : P ++ miss = bl ++ dl) by (unfold P; rewrite Edl, app_assoc; reflexivity).
        set (R := fs_root (cs_fs st)). set (cw := fs_cwd (cs_fs st)).
        set (co := cown miss o). set (cp := cpm miss pm). set (cb := cbase miss ents).
        pose proof Hready as (Hgp & _ & Hn0 & _). fold R cw P in Hn0.
        assert (Hgdl : Forall good_name dl).
        { rewrite Edl. apply Forall_app. split; [|exact Hgm]. apply Forall_app in Hgp. apply Hgp. }
        assert (Hlenser : length (flat_map ser (it :: more)) = (length (ser it) + length (flat_map ser more))%nat).
        { cbn [flat_map]. apply app_length. }
        rewrite Hlenser in Hk.
        pose proof Hopts as (Hu & Hdry & Hfull).
        (* the tail after a head item that left something *)
        match goal with |- ?G => assert (Htail : forall st1 nz1 D, sbuild it = [(iname it, D)] ->
          iters step (ssize it) (b, st) (b, st1) -> cs_opts st1 = cs_opts st -> same_env (cs_fs st) (cs_fs st1) ->
          rinv (cs_reader st1) stk -> upcomingS (cs_reader st1) (nz1 ++ flat_map ser more ++ rest) ->
          Forall (noise stk) nz1 -> (length nz1 <= length nz + length (ser it))%nat ->
          fs_root (cs_fs st1) = update_at R (cw ++ P) (const_some (Dir o pm now (ents ++ wrap miss [(iname it, D)]))) ->
          dir_ready (cs_fs st1) (bl ++ dl) co cp now (cb ++ [(iname it, D)]) -> G) end.
        { intros st1 nz1 D Hsb Hit1 Hopts1 Henv1 Hrinv1 Hup1 Hnz1 Hlen1 Hroot1 Hready1.
          assert (Hopts1' : pfx_opts bl (cs_opts st1)) by (rewrite Hopts1; exact Hopts).
          assert (Hum1 : fs_umask (cs_fs st1) = u) by (destruct Henv1 as (_ & _ & E); congruence).
          assert (Huid1 : fs_uid0 (cs_fs st1) = uid0) by (destruct Henv1 as (_ & E & _); congruence).
          assert (Hcwd1 : fs_cwd (cs_fs st1) = cw) by apply Henv1.
          assert (Hk1 : N.of_nat (length nz1 + length (flat_map ser more)) < 2 ^ 40) by (clear - Hk Hlen1; lia).
          destruct (IHn more Hszm dl rest nz1 st1 b dl [] co cp now (cb ++ [(iname it, D)]) stk Hmore Hfm Hnd'
                      (eq_sym (app_nil_r dl)) (Forall_nil _) I (fresh_after cb (iname it) D more Hfresh Hnin)
                      Hopts1' Hum1 Huid1 Hready1 (cpm_nosgid u miss pm Hsg) Hrinv1 Hso Hup1 Hout Hnz1 Hk1)
            as (st' & nz' & Hit' & Hopts' & Henv' & Hrinv' & Hup' & Hnz' & Hlen' & Hres').
          exists st', nz'. split; [rewrite ssizes_cons; eapply iters_app; eauto|].
          split; [congruence|]. split; [exact (same_env_trans _ _ _ Henv1 Henv')|].
          split; [exact Hrinv'|]. split; [exact Hup'|]. split; [exact Hnz'|].
          split; [rewrite Hlenser; clear - Hlen' Hlen1; lia|].
          rewrite sbuilds_cons, Hsb. cbn [app]. cbn [wrap cown cpm cbase] in Hres'.
          destruct (sbuilds more) as [|x xs].
          - rewrite Hres'. split; [exact Hroot1|exact Hready1].
          - destruct Hres' as [Hr' Hd']. split.
            + rewrite Hr', Hroot1, Hcwd1. replace (cw ++ bl ++ dl) with ((cw ++ P) ++ miss) by (rewrite <- EP, app_assoc; reflexivity).
              rewrite <- (app_assoc cb).
              apply (refold u R (cw ++ P) _ o pm ents miss [(iname it, D)] ((iname it, D) :: x :: xs) Hn0 Hpf).
            + rewrite <- (app_assoc cb) in Hd'. exact Hd'. }
        (* the tail after a head item that left nothing *)
        match goal with |- ?G => assert (Hskip : forall st1 nz1, sbuild it = [] ->
          iters step (ssize it) (b, st) (b, st1) -> cs_opts st1 = cs_opts st -> cs_fs st1 = cs_fs st ->
          rinv (cs_reader st1) stk -> upcomingS (cs_reader st1) (nz1 ++ flat_map ser more ++ rest) ->
          Forall (noise stk) nz1 -> (length nz1 <= length nz + length (ser it))%nat -> G) end.
        { intros st1 nz1 Hsb Hit1 Hopts1 Hfs1 Hrinv1 Hup1 Hnz1 Hlen1.
          assert (Hopts1' : pfx_opts bl (cs_opts st1)) by (rewrite Hopts1; exact Hopts).
          assert (Hk1 : N.of_nat (length nz1 + length (flat_map ser more)) < 2 ^ 40) by (clear - Hk Hlen1; lia).
          assert (Hfresh' : forall c, In c (map iname more) -> lookup (cbase miss ents) c = None) by (intros c Hin; apply Hfresh; right; exact Hin).
          rewrite <- Hfs1 in Hum, Huid, Hready.
          destruct (IHn more Hszm dl rest nz1 st1 b pl miss o pm t ents stk Hmore Hfm Hnd' Edl Hgm Hpf Hfresh'
                      Hopts1' Hum Huid Hready Hsg Hrinv1 Hso Hup1 Hout Hnz1 Hk1)
            as (st' & nz' & Hit' & Hopts' & Henv' & Hrinv' & Hup' & Hnz' & Hlen' & Hres').
          rewrite Hfs1 in Henv', Hres'.
          exists st', nz'. split; [rewrite ssizes_cons; eapply iters_app; eauto|].
          split; [congruence|]. split; [exact Henv'|].
          split; [exact Hrinv'|]. split; [exact Hup'|]. split; [exact Hnz'|].
          split; [rewrite Hlenser; clear - Hlen' Hlen1; lia|].
          rewrite sbuilds_cons, Hsb. cbn [app]. exact Hres'. }
        pose proof Hrinv as (Hpol & Hdef & Hstk & Htyne).
        destruct it as [c h bs|c h tgt|c h sub]; cbn [wf_item] in Hit; cbn [fits] in Hfi; cbn [iname] in *;
          cbn [flat_map ser app] in Hup.
        * (* a regular file *)
          destruct Hit as (Hc & Hlen & (Hp & Hf & Hdm & Hsl & Hos) & Hmode).
          assert (Hnp : nopop stk h).
          { eapply (nopop_in stk dl h (dirstr dl)); [exact Hso|apply hpath_some; exact Hp|apply is_prefix_refl]. }
          destruct (sel h) eqn:Es.
          -- destruct (skip_noise_k stk nz _ _ Hrinv Hup Hnz) as (r' & Hr' & Hup' & Hsk).
             destruct (present_Sk r' stk (MFile h bs) _ Hr' Hup' Hnp) as (br1 & Hpos & Hnext & _). cbn [hdr] in Hnext.
             set (r1 := mk_reader br1 (Some h) CT_NORMAL stk false) in *.
             inversion Hpos as [|br0 h0 bs0 ms0 Hcur Hdec _|]; subst br0 h0 bs0 ms0.
             destruct (Hdec r1 eq_refl eq_refl eq_refl) as (r2 & Hmem & x & br' & Hbn & Hpos').
             assert (Hskips : skips (cs_reader st) (map hdr nz) (Some h, r1)) by (apply Hsk; apply sk_hit; [exact Hnext|exact Es]).
             assert (Hfn : file_full_path h (cs_opts st) = dirstr (P ++ miss) ++ c).
             { rewrite EP, (Hfull h dl Hgdl Hp), Hf, (skip_slashes_name c Hc). reflexivity. }
             assert (Hmode' : fs_uid0 (cs_fs st) = true \/ drop_setid (file_mode (cs_fs st) h) = file_mode (cs_fs st) h).
             { change (file_mode (cs_fs st) h) with (fmode (fs_umask (cs_fs st)) h). rewrite Hum.
               destruct Hmode as [Hmo|Hmo]; [left; congruence|right; exact Hmo]. }
             destruct (two_file junk u Humask h (set_reader st r1) P miss c o pm t ents bs r2)
               as (st2 & Hex & Hrd2 & Hopts2 & Henv2 & Hroot2 & Hready2); auto.
             { rewrite EP. exact Hfi. } { apply Hfresh. left. reflexivity. }
             cbn [cs_fs set_reader cs_opts] in Hopts2, Henv2, Hroot2, Hready2.
             change (file_mode (cs_fs st) h) with (fmode (fs_umask (cs_fs st)) h) in Hroot2, Hready2. rewrite Hum in Hroot2, Hready2.
             rewrite EP in Hready2.
             pose proof (member_ok_book junk r1 h bs r2 Hmem) as Hbook. unfold book in Hbook.
             cbn [r1 mk_reader rd_curr rd_type rd_policy rd_dir_stack rd_deferred rd_linked] in Hbook.
             injection Hbook as B1 B2 B3 B4 B5 B6.
             apply (Htail st2 [] (File true (fmode u h) (h_timestamp h) bs)).
             ++ cbn [sbuild]. rewrite Es. reflexivity.
             ++ cbn [ssize]. rewrite Es. econstructor; [|constructor].
                eapply step_entry_sel; [exact Hskips|rewrite map_length; clear - Hk; lia|exact Hex].
             ++ exact Hopts2.
             ++ exact Henv2.
             ++ rewrite Hrd2. split; [exact B3|]. split; [exact B5|]. split; [exact B4|]. rewrite B2. discriminate.
             ++ rewrite Hrd2. exists br'. split; [unfold fetch; rewrite B2, Hbn; reflexivity|exact Hpos'].
             ++ constructor.
             ++ apply Nat.le_0_l.
             ++ exact Hroot2.
             ++ exact Hready2.
          -- apply (Hskip st (nz ++ [MFile h bs])).
             ++ cbn [sbuild]. rewrite Es. reflexivity.
             ++ cbn [ssize]. rewrite Es. constructor.
             ++ reflexivity.
             ++ reflexivity.
             ++ exact Hrinv.
             ++ rewrite <- app_assoc. exact Hup.
             ++ apply Forall_app. split; [exact Hnz|]. constructor; [split; [exact Es|exact Hnp]|constructor].
             ++ rewrite app_length. cbn [length ser]. clear. lia.
        * (* a safe symbolic link *)
          destruct Hit as (Hc & Hlen & (Hp & Hf & Hdm & Hsl & Hsafe & Htne & Htlen)).
          assert (Hnp : nopop stk h).
          { eapply (nopop_in stk dl h (dirstr dl)); [exact Hso|apply hpath_some; exact Hp|apply is_prefix_refl]. }
          destruct (sel h) eqn:Es.
          -- destruct (skip_noise_k stk nz _ _ Hrinv Hup Hnz) as (r' & Hr' & Hup' & Hsk).
             destruct (present_Sk r' stk (MOther h) _ Hr' Hup' Hnp) as (br1 & Hpos & Hnext & Hup1). cbn [hdr] in Hnext, Hup1.
             set (r1 := mk_reader br1 (Some h) CT_NORMAL stk false) in *.
             assert (Hskips : skips (cs_reader st) (map hdr nz) (Some h, r1)) by (apply Hsk; apply sk_hit; [exact Hnext|exact Es]).
             assert (Hfn : file_full_path h (cs_opts st) = dirstr (P ++ miss) ++ c).
             { rewrite EP, (Hfull h dl Hgdl Hp), Hf, (skip_slashes_name c Hc). reflexivity. }
             destruct (two_link junk u Humask h (set_reader st r1) P miss c o pm t ents tgt)
               as (st2 & Hex & Hopts2 & Hrd2 & Henv2 & Hroot2 & Hready2); auto.
             { rewrite EP. exact Hfi. } { apply Hfresh. left. reflexivity. }
             cbn [cs_fs set_reader cs_opts cs_reader] in Hopts2, Henv2, Hroot2, Hready2, Hrd2.
             rewrite EP in Hready2.
             apply (Htail st2 [] (Link tgt)).
             ++ cbn [sbuild]. rewrite Es. reflexivity.
             ++ cbn [ssize]. rewrite Es. econstructor; [|constructor].
                eapply step_entry_sel; [exact Hskips|rewrite map_length; clear - Hk; lia|exact Hex].
             ++ exact Hopts2.
             ++ exact Henv2.
             ++ rewrite Hrd2. apply rinv_mk_k.
             ++ rewrite Hrd2. exact Hup1.
             ++ constructor.
             ++ apply Nat.le_0_l.
             ++ exact Hroot2.
             ++ exact Hready2.
          -- apply (Hskip st (nz ++ [MOther h])).
             ++ cbn [sbuild]. rewrite Es. reflexivity.
             ++ cbn [ssize]. rewrite Es. constructor.
             ++ reflexivity.
             ++ reflexivity.
             ++ exact Hrinv.
             ++ rewrite <- app_assoc. exact Hup.
             ++ apply Forall_app. split; [exact Hnz|]. constructor; [split; [exact Es|exact Hnp]|constructor].
             ++ rewrite app_length. cbn [length ser]. clear. lia.
        * (* a directory *)
          destruct Hit as (Hc & Hlen & (Hp & Hf & Hdm & Hsl) & Hndsub & Hwfsub). apply wf_all in Hwfsub.
          destruct Hfi as (Hlenb & Hfitsub). apply fits_all in Hfitsub.
          assert (Hps : opt_str (h_path h) = dirstr (dl ++ [c])) by (rewrite Hp; reflexivity).
          assert (Hgdlc : Forall good_name (dl ++ [c])) by (apply Forall_app; split; [exact Hgdl|constructor; [exact Hc|constructor]]).
          assert (Hnp : nopop stk h).
          { eapply (nopop_in stk dl h (dirstr (dl ++ [c]))); [exact Hso|left; exact Hp|rewrite dirstr_app; apply is_prefix_app]. }
          assert (Hszsub : (sizes sub <= n)%nat) by (clear - Hsz; cbn [size] in Hsz; unfold sizes in *; lia).
          assert (Hlc : lookup cb c = None) by (apply Hfresh; left; reflexivity).
          assert (Hout' : outside (dl ++ [c]) (flat_map ser more ++ rest)) by (apply (outside_child u uid0); auto).
          assert (Hup0 : upcomingS (cs_reader st) (nz ++ MOther h :: flat_map ser sub ++ flat_map ser more ++ rest)).
          { rewrite <- app_assoc in Hup. exact Hup. }
          assert (Hlser : length (ser (IDir c h sub)) = S (length (flat_map ser sub))) by reflexivity.
          rewrite Hlser in *.
          destruct (sel h) eqn:Es.
          -- (* selected: the entry, the contents, the entry again *)
             destruct (skip_noise_k stk nz _ _ Hrinv Hup0 Hnz) as (r' & Hr' & Hup' & Hsk).
             destruct (present_Sk r' stk (MOther h) _ Hr' Hup' Hnp) as (br1 & Hpos & Hnext & Hup1). cbn [hdr] in Hnext, Hup1.
             set (r1 := mk_reader br1 (Some h) CT_NORMAL stk false) in *.
             assert (Hskips : skips (cs_reader st) (map hdr nz) (Some h, r1)) by (apply Hsk; apply sk_hit; [exact Hnext|exact Es]).
             assert (Hfn : file_full_path h (cs_opts st) = dirstr ((P ++ miss) ++ [c])).
             { rewrite EP, (Hfull h (dl ++ [c]) Hgdlc Hps), Hf, app_nil_r, app_assoc. reflexivity. }
             destruct (two_dir junk u Humask h (set_reader st r1) P miss c o pm t ents)
               as (st2 & Hex & Hopts2 & Henv2 & Hrd2 & Hroot2 & Hready2); auto.
             { rewrite EP. exact Hlenb. }
             cbn [cs_fs set_reader cs_opts cs_reader r1 mk_reader rd_br rd_curr rd_type rd_decoder rd_inner rd_policy rd_dir_stack rd_deferred]
               in Hopts2, Henv2, Hroot2, Hready2, Hrd2.
             rewrite EP in Hready2. set (m1 := dir_first_mode u h) in *.
             fold R cw co cp cb in Hroot2, Hready2.
             destruct (dir_req_bits h) as [R6 R7].
             destruct (mkdir_mode_owner u (dir_req h) (fs_uid0 (cs_fs st2)) now [] Humask R6 R7) as [Hsrch Hwrt].
             assert (Hready2' : dir_ready (cs_fs st2) (bl ++ dl ++ [c]) true m1 now []).
             { rewrite app_assoc. eapply dir_ready_enter; eauto. }
             assert (Hopts2' : pfx_opts bl (cs_opts st2)) by (rewrite Hopts2; exact Hopts).
             assert (Hum2 : fs_umask (cs_fs st2) = u) by (destruct Henv2 as (_ & _ & E); congruence).
             assert (Huid2 : fs_uid0 (cs_fs st2) = uid0) by (destruct Henv2 as (_ & E & _); congruence).
             assert (Hcwd2 : fs_cwd (cs_fs st2) = cw) by apply Henv2.
             assert (Hrinv2 : rinv (cs_reader st2) (h :: stk)) by (rewrite Hrd2; repeat split; discriminate).
             assert (Hso2 : stack_in (h :: stk) (dl ++ [c])).
             { right. exists h, stk, (dl ++ [c]), []. rewrite app_nil_r. repeat split; auto. destruct dl; discriminate. }
             assert (Hup2 : upcomingS (cs_reader st2) ([] ++ flat_map ser sub ++ flat_map ser more ++ rest)).
             { rewrite Hrd2. destruct Hup1 as (br' & Hf' & Hp'). exists br'. split; [exact Hf'|exact Hp']. }
             assert (Hk2 : N.of_nat (length (@nil member) + length (flat_map ser sub)) < 2 ^ 40) by (clear - Hk; cbn [length]; lia).
             destruct (IHn sub Hszsub (dl ++ [c]) (flat_map ser more ++ rest) [] st2 b (dl ++ [c]) [] true m1 now [] (h :: stk)
                         Hwfsub Hfitsub Hndsub (eq_sym (app_nil_r _)) (Forall_nil _) I (fun c' _ => eq_refl) Hopts2' Hum2 Huid2
                         Hready2' (mkdir_mode_nosgid _ _) Hrinv2 Hso2 Hup2 Hout' (Forall_nil _) Hk2)
               as (st3 & nz3 & Hit3 & Hopts3 & Henv3 & Hrinv3 & Hup3 & Hnz3 & Hlen3 & Hres3).
             set (Xs := sbuilds sub) in *.
             set (D0 := Dir true m1 now []) in *. set (D3 := Dir true m1 now Xs).
             assert (Henv23 : same_env (cs_fs st) (cs_fs st3)) by exact (same_env_trans _ _ _ Henv2 Henv3).
             assert (Hcwd3 : fs_cwd (cs_fs st3) = cw) by apply Henv23.
             assert (Eloc : cw ++ bl ++ dl = (cw ++ P) ++ miss) by (rewrite <- (app_assoc cw P miss), EP; reflexivity).
             assert (H3 : fs_root (cs_fs st3) = update_at R (cw ++ P) (const_some (Dir o pm now (ents ++ wrap miss [(c, D3)]))) /\
                          dir_ready (cs_fs st3) (bl ++ dl) co cp now (cb ++ [(c, D3)])).
             { cbn [wrap cown cpm cbase app] in Hres3. unfold D3. destruct Xs as [|x xs].
               - rewrite Hres3. split; [exact Hroot2|exact Hready2].
               - destruct Hres3 as [Hr3 _]. rewrite Hcwd2 in Hr3.
                 replace (cw ++ bl ++ dl ++ [c]) with ((cw ++ bl ++ dl) ++ [c]) in Hr3 by (rewrite <- !app_assoc; reflexivity).
                 split.
                 + rewrite Hr3, Hroot2, Eloc. apply (refold_child u R (cw ++ P) _ o pm ents miss c D0 _ Hn0 Hpf Hlc).
                 + eapply (dir_ready_update (cs_fs st2) (cs_fs st3)); [exact Hready2|exact Henv3|].
                   destruct Hready2 as (_ & _ & Hn2 & _). rewrite Hcwd2 in *.
                   rewrite Hr3, (update_loc_to_parent _ _ _ _ _ _ c _ Hn2), (set_ent_last _ _ _ _ Hlc). reflexivity. }
             destruct (skip_noise_k (h :: stk) nz3 _ _ Hrinv3 Hup3 Hnz3) as (r3' & Hr3' & Hup3' & Hsk3).
             destruct (present_fake_S r3' h stk (dirstr (dl ++ [c])) (flat_map ser more ++ rest) Hr3' Hp Hup3' Hout')
               as (br3 & Hpos3 & Hnext3).
             set (r4 := mk_reader br3 (Some h) CT_FAKE_DIR stk false) in *.
             assert (Hskips3 : skips (cs_reader st3) (map hdr nz3) (Some h, r4)) by (apply Hsk3; apply sk_hit; [exact Hnext3|exact Es]).
             destruct H3 as [Hr3 Hd3].
             destruct (gen_fake junk h (set_reader st3 r4) (bl ++ dl) c co cp now (cb ++ [(c, D3)]) m1 Xs)
               as (st5 & Hex5 & Hopts5 & Hrd5 & Hmeta); auto.
             { cbn [cs_opts set_reader]. rewrite Hopts3, Hopts2, Hfn, EP. reflexivity. }
             { cbn [cs_opts set_reader]. rewrite Hopts3, Hopts2. exact Hu. }
             { apply lookup_last. exact Hlc. }
             cbn [cs_fs set_reader cs_opts cs_reader] in Hopts5, Hrd5, Hmeta.
             destruct Hmeta as (Henv5 & _ & ents5 & Hn5 & Hl5 & Hcase).
             set (final := Dir true (dir_final_mode u h) (h_timestamp h) Xs).
             assert (H5 : fs_root (cs_fs st5) = update_at R (cw ++ P) (const_some (Dir o pm now (ents ++ wrap miss [(c, final)]))) /\
                          dir_ready (cs_fs st5) (bl ++ dl) co cp now (cb ++ [(c, final)])).
             { destruct Hcase as [[Hr5 He5]|[Hr5 He5]].
               - subst ents5. rewrite (lookup_last _ _ _ Hlc) in Hl5. injection Hl5 as E1 E2.
                 assert (ED : D3 = final) by (unfold D3, final, dir_final_mode; fold m1; congruence).
                 rewrite <- ED. split; [rewrite Hr5; exact Hr3|]. eapply dir_ready_same; eauto.
               - rewrite (set_ent_last _ _ _ _ Hlc) in Hr5. split.
                 + rewrite Hr5, Hr3, Hcwd3, Eloc. apply (refold u R (cw ++ P) _ o pm ents miss _ _ Hn0 Hpf).
                 + eapply dir_ready_update; [exact Hd3|exact Henv5|exact Hr5]. }
             destruct H5 as [Hr5 Hd5].
             apply (Htail st5 [] final).
             ++ cbn [sbuild]. rewrite Es. reflexivity.
             ++ cbn [ssize]. rewrite Es.
                replace (2 + fold_right (fun x a => ssize x + a) 0 sub)%nat with (1 + (ssizes sub + 1))%nat by (unfold ssizes; clear; lia).
                eapply iters_app; [econstructor; [|constructor]; eapply step_entry_sel; [exact Hskips|rewrite map_length; clear - Hk; lia|exact Hex]|].
                eapply iters_app; [exact Hit3|]. econstructor; [|constructor].
                eapply step_entry_sel; [exact Hskips3|rewrite map_length; clear - Hk Hlen3; cbn [length] in *; lia|exact Hex5].
             ++ congruence.
             ++ exact (same_env_trans _ _ _ Henv23 Henv5).
             ++ rewrite Hrd5. apply rinv_mk_fake.
             ++ rewrite Hrd5. apply upcomingS_fake. exact Hpos3.
             ++ constructor.
             ++ apply Nat.le_0_l.
             ++ exact Hr5.
             ++ exact Hd5.
          -- (* not selected: its contents may still be *)
             assert (Hpf' : pend_fresh (miss ++ [c]) ents) by (destruct miss as [|d1 r]; [exact Hlc|exact Hpf]).
             assert (Edl' : dl ++ [c] = pl ++ miss ++ [c]) by (rewrite Edl, app_assoc; reflexivity).
             assert (Hgm' : Forall good_name (miss ++ [c])) by (apply Forall_app; split; [exact Hgm|constructor; [exact Hc|constructor]]).
             assert (Hfs : forall c', In c' (map iname sub) -> lookup (cbase (miss ++ [c]) ents) c' = None).
             { intros c' _. rewrite cbase_snoc. reflexivity. }
             assert (Hupn : upcomingS (cs_reader st) ((nz ++ [MOther h]) ++ flat_map ser sub ++ flat_map ser more ++ rest)).
             { rewrite <- app_assoc. exact Hup0. }
             assert (Hnzn : Forall (noise stk) (nz ++ [MOther h])).
             { apply Forall_app. split; [exact Hnz|]. constructor; [split; [exact Es|exact Hnp]|constructor]. }
             assert (Hkn : N.of_nat (length (nz ++ [MOther h]) + length (flat_map ser sub)) < 2 ^ 40).
             { clear - Hk. rewrite app_length. cbn [length]. lia. }
             destruct (IHn sub Hszsub (dl ++ [c]) (flat_map ser more ++ rest) (nz ++ [MOther h]) st b pl (miss ++ [c]) o pm t ents stk
                         Hwfsub Hfitsub Hndsub Edl' Hgm' Hpf' Hfs Hopts Hum Huid Hready Hsg Hrinv (stack_in_snoc stk dl c Hso)
                         Hupn Hout' Hnzn Hkn)
               as (st3 & nz3 & Hit3 & Hopts3 & Henv3 & Hrinv3 & Hup3 & Hnz3 & Hlen3 & Hres3).
             assert (Hlen3' : (length nz3 <= length nz + S (length (flat_map ser sub)))%nat).
             { clear - Hlen3. rewrite app_length in Hlen3. cbn [length] in Hlen3. lia. }
             destruct (sbuilds sub) as [|x xs] eqn:EX.
             ++ apply (Hskip st3 nz3); auto.
                ** cbn [sbuild]. rewrite Es. change (flat_map sbuild sub) with (sbuilds sub). rewrite EX. reflexivity.
                ** cbn [ssize]. rewrite Es. exact Hit3.
             ++ destruct Hres3 as [Hr3 Hd3]. rewrite (wrap_snoc u) in Hr3.
                apply (Htail st3 nz3 (Dir true dm now (x :: xs))); auto.
                ** cbn [sbuild]. rewrite Es. change (flat_map sbuild sub) with (sbuilds sub). rewrite EX. reflexivity.
                ** cbn [ssize]. rewrite Es. exact Hit3.
                ** rewrite <- EP. eapply (ready_parent (cs_fs st) (cs_fs st3) P miss o pm t ents); eauto.
                   destruct Hd3 as (_ & Hch3 & _). rewrite EP. rewrite app_assoc in Hch3. eapply chain_prefix. exact Hch3.
  Qed.

  Lemma sizes_bounds : forall n its, (sizes its <= n)%nat ->
    (ssizes its <= sizes its)%nat /\ (length (flat_map ser its) <= sizes its)%nat.
  Proof.
    induction n as [|n IHn]; intros its Hsz.
    - destruct its as [|it more]; [split; apply Nat.le_0_l|].
      exfalso. rewrite sizes_cons in Hsz. destruct it; cbn [size] in Hsz; lia.
    - destruct its as [|it more]; [split; apply Nat.le_0_l|].
      rewrite sizes_cons in Hsz. assert (H1 : (1 <= size it)%nat) by (destruct it; cbn [size]; lia).
      destruct (IHn more ltac:(lia)) as [A B].
      rewrite sizes_cons, ssizes_cons. cbn [flat_map]. rewrite app_length.
      destruct it as [c h bs|c h tgt|c h sub]; cbn [ssize size ser length] in *.
      + destruct (sel h); lia.
      + destruct (sel h); lia.
      + destruct (IHn sub ltac:(unfold sizes; lia)) as [C D]. unfold ssizes, sizes in *. destruct (sel h); lia.
  Qed.

  (* "lha x archive PATTERN..." on an archive with directory entries *)
  Theorem extract_archive_selected_tree its st o pm t ents :
    let s := cs_fs st in
    Forall (wf_item u uid0 []) its -> Forall (fits bl []) its -> NoDup (map iname its) ->
    (forall c, In c (map iname its) -> lookup ents c = None) ->
    pfx_opts bl (cs_opts st) -> fs_umask s = u -> fs_uid0 s = uid0 ->
    dir_ready s bl o pm t ents -> N.land pm 1024 = 0 ->
    rinv (cs_reader st) [] -> upcomingS (cs_reader st) (flat_map ser its) ->
    N.of_nat (sizes its) < 2 ^ 40 ->
    exists st', extract_archive mktime junk f st = Ok (RVal true, st') /\
      same_env s (cs_fs st') /\ cs_opts st' = cs_opts st /\
      match sbuilds its with
      | [] => cs_fs st' = s
      | X => fs_root (cs_fs st') = update_at (fs_root s) (fs_cwd s ++ bl) (const_some (Dir o pm now (ents ++ X)))
      end.
  Proof.
    intros s Hwf Hfit Hnd Hfresh Hopts Hum Huid Hready Hsg Hrinv Hup Hsz.
    destruct (sizes_bounds (sizes its) its (le_n _)) as [Hb1 Hb2].
    rewrite <- (app_nil_r (flat_map ser its)) in Hup. rewrite <- (app_nil_r bl) in Hready.
    assert (Hk : N.of_nat (length (@nil member) + length (flat_map ser its)) < 2 ^ 40) by (cbn [length]; lia).
    destruct (sel_run (sizes its) its (le_n _) [] [] [] st true [] [] o pm t ents []
                Hwf Hfit Hnd eq_refl (Forall_nil _) I Hfresh Hopts Hum Huid Hready Hsg Hrinv (or_introl eq_refl) Hup I
                (Forall_nil _) Hk)
      as (st1 & nz' & Hit & Hopts1 & Henv1 & Hrinv1 & Hup1 & Hnz1 & Hlen1 & Hres1).
    destruct (skip_noise_k [] nz' _ [] Hrinv1 Hup1 Hnz1) as (r' & (Hpol' & Hdef' & Hstk' & Hty') & (br1 & Hf1 & Hpos1) & Hsk).
    assert (Hcur1 : br_curr br1 = None) by (inversion Hpos1; assumption).
    assert (Hnext : exists r'', lha_reader_next_file mktime r' = Ok (None, r'')).
    { rewrite (next_file_eq mktime _ Hty'), Hf1. cbn [bind]. rewrite (present_end _ br1 false Hstk' Hdef' Hcur1). eauto. }
    destruct Hnext as [r'' Hnext].
    assert (Hend : step (true, st1) = Ok (inr (RVal true, set_reader st1 r''))).
    { eapply step_end_sel; [apply Hsk; apply sk_end; exact Hnext|]. rewrite map_length. cbn [length] in Hlen1. lia. }
    exists (set_reader st1 r''). split.
    - unfold extract_archive. destruct Hopts as (_ & Hd & _). rewrite Hd.
      eapply loop_complete_N; [eapply loops_after_iters; [exact Hit|constructor; exact Hend]|].
      rewrite Nat.add_0_r. lia.
    - cbn [cs_fs set_reader cs_opts]. split; [exact Henv1|]. split; [exact Hopts1|].
      cbn [wrap] in Hres1. rewrite app_nil_r in Hres1.
      destruct (sbuilds its) as [|x xs]; [exact Hres1|apply Hres1].
  Qed.

  (* ---- reading [sbuilds] ---- *)
  Definition selected (h : header) : Prop :=
    f_filters f = [] \/ exists g, In g (f_filters f) /\ matches g (opt_str (h_path h) ++ opt_str (h_filename h)).

  Lemma sel_selected h : sel h = true <-> selected h.
  Proof. apply selected_iff. Qed.

  Lemma sel_not_selected h : sel h = false <-> ~ selected h.
  Proof.
    rewrite <- sel_selected. destruct (sel h); split; intros H; try reflexivity; try discriminate.
    contradiction H. reflexivity.
  Qed.

  (* the entries of the result, level by level: a selected file / link with its contents, mode,
     time / target; a selected directory with its recorded mode and time; a directory that is not
     selected but has something selected below it: made by make_parent_directories, mode
     0755 & ~umask, time of creation; nothing else *)
  Theorem sbuilds_exactly its c nd :
    In (c, nd) (sbuilds its) <->
    exists it, In it its /\ iname it = c /\
      match it with
      | IFile _ h bs => selected h /\ nd = File true (fmode u h) (h_timestamp h) bs
      | ILink _ h tgt => selected h /\ nd = Link tgt
      | IDir _ h sub =>
        (selected h /\ nd = Dir true (dir_final_mode u h) (h_timestamp h) (sbuilds sub)) \/
        (~ selected h /\ sbuilds sub <> [] /\ nd = Dir true dm now (sbuilds sub))
      end.
  Proof.
    unfold sbuilds at 1. rewrite in_flat_map. split.
    - intros (it & Hin & H). exists it. split; [exact Hin|].
      destruct it as [c0 h bs|c0 h tgt|c0 h sub]; cbn [sbuild iname] in *.
      + destruct (sel h) eqn:Es; [|destruct H]. destruct H as [H|[]]. inversion H; subst.
        split; [reflexivity|]. split; [apply sel_selected; exact Es|reflexivity].
      + destruct (sel h) eqn:Es; [|destruct H]. destruct H as [H|[]]. inversion H; subst.
        split; [reflexivity|]. split; [apply sel_selected; exact Es|reflexivity].
      + change (flat_map sbuild sub) with (sbuilds sub) in H. destruct (sel h) eqn:Es.
        * destruct H as [H|[]]. inversion H; subst. split; [reflexivity|]. left.
          split; [apply sel_selected; exact Es|reflexivity].
        * destruct (sbuilds sub) as [|x xs] eqn:EX; [destruct H|]. destruct H as [H|[]]. inversion H; subst.
          split; [reflexivity|]. right. split; [apply sel_not_selected; exact Es|]. split; [discriminate|reflexivity].
    - intros (it & Hin & Hn & H). exists it. split; [exact Hin|].
      destruct it as [c0 h bs|c0 h tgt|c0 h sub]; cbn [sbuild iname] in *; subst c0.
      + destruct H as [Hs ->]. apply sel_selected in Hs. rewrite Hs. left. reflexivity.
      + destruct H as [Hs ->]. apply sel_selected in Hs. rewrite Hs. left. reflexivity.
      + change (flat_map sbuild sub) with (sbuilds sub).
        destruct H as [[Hs ->]|(Hs & Hne & ->)].
        * apply sel_selected in Hs. rewrite Hs. left. reflexivity.
        * apply sel_not_selected in Hs. rewrite Hs. destruct (sbuilds sub) as [|x xs]; [contradiction Hne; reflexivity|].
          left. reflexivity.
  Qed.


  (* every entry of the result is found at its name (and so on inside the directories:
     node_at (Dir o p t (sbuilds sub)) [c] = lookup (sbuilds sub) c) *)
  Lemma sbuild_one it c nd : In (c, nd) (sbuild it) -> c = iname it /\ sbuild it = [(c, nd)].
  Proof.
    destruct it as [c0 h bs|c0 h tgt|c0 h sub]; cbn [sbuild iname].
    - destruct (sel h); [|intros []]. intros [H|[]]. inversion H; subst. auto.
    - destruct (sel h); [|intros []]. intros [H|[]]. inversion H; subst. auto.
    - destruct (sel h).
      + intros [H|[]]. inversion H; subst. auto.
      + destruct (flat_map sbuild sub); [intros []|]. intros [H|[]]. inversion H; subst. auto.
  Qed.

  Lemma sbuilds_names its c nd : In (c, nd) (sbuilds its) -> In c (map iname its).
  Proof.
    unfold sbuilds. rewrite in_flat_map. intros (it & Hin & H). apply sbuild_one in H. destruct H as [-> _].
    apply in_map. exact Hin.
  Qed.

  Lemma lookup_sbuilds : forall its, NoDup (map iname its) -> forall c nd, In (c, nd) (sbuilds its) ->
    lookup (sbuilds its) c = Some nd.
  Proof.
    induction its as [|x r IH]; intros Hnd c nd Hin; [destruct Hin|].
    cbn [map] in Hnd. inversion Hnd as [|c0 l0 Hnin Hnd']; subst c0 l0.
    rewrite sbuilds_cons in *. apply in_app_or in Hin. destruct Hin as [Hin|Hin].
    - destruct (sbuild_one x c nd Hin) as [-> E]. rewrite E. cbn [app lookup]. rewrite name_eqb_refl. reflexivity.
    - assert (Hne : iname x <> c) by (intros E; apply Hnin; rewrite E; eapply sbuilds_names; eauto).
      destruct (sbuild x) as [|[c1 n1] l] eqn:E; [exact (IH Hnd' c nd Hin)|].
      destruct (sbuild_one x c1 n1) as [-> E']; [rewrite E; left; reflexivity|].
      rewrite E in E'. inversion E'; subst l. cbn [app lookup]. rewrite (name_eqb_neq _ _ Hne). exact (IH Hnd' c nd Hin).
  Qed.

  Corollary selected_top its root cwd o pm ents m0 : node_at root cwd = Some m0 ->
    NoDup (map iname its) -> (forall c, In c (map iname its) -> lookup ents c = None) ->
    forall c nd, In (c, nd) (sbuilds its) ->
    node_at (update_at root cwd (const_some (Dir o pm now (ents ++ sbuilds its)))) (cwd ++ [c]) = Some nd.
  Proof.
    intros H0 Hnd Hfresh c nd Hin. rewrite (node_at_child _ _ _ _ _ _ _ _ _ H0).
    rewrite lookup_app_none by (apply Hfresh; eapply sbuilds_names; eauto).
    rewrite (lookup_sbuilds its Hnd c nd Hin). reflexivity.
  Qed.

  (* something is built iff some member (at any depth) is selected *)
  Lemma sbuilds_nil_iff : forall n its, (sizes its <= n)%nat ->
    (sbuilds its = [] <-> Forall (fun m => sel (hdr m) = false) (flat_map ser its)).
  Proof.
    induction n as [|n IHn]; intros its Hsz.
    - destruct its as [|it more]; [split; [constructor|reflexivity]|].
      exfalso. rewrite sizes_cons in Hsz. destruct it; cbn [size] in Hsz; lia.
    - destruct its as [|it more]; [split; [constructor|reflexivity]|].
      rewrite sizes_cons in Hsz. assert (H1 : (1 <= size it)%nat) by (destruct it; cbn [size]; lia).
      rewrite sbuilds_cons. cbn [flat_map]. rewrite Forall_app, <- (IHn more ltac:(lia)).
      assert (Hit : sbuild it = [] <-> Forall (fun m => sel (hdr m) = false) (ser it)).
      { destruct it as [c h bs|c h tgt|c h sub]; cbn [sbuild ser].
        - destruct (sel h) eqn:Es; split; intros H; try discriminate; try reflexivity.
          + inversion H; subst. cbn [hdr] in *. congruence.
          + constructor; [exact Es|constructor].
        - destruct (sel h) eqn:Es; split; intros H; try discriminate; try reflexivity.
          + inversion H; subst. cbn [hdr] in *. congruence.
          + constructor; [exact Es|constructor].
        - change (flat_map sbuild sub) with (sbuilds sub).
          pose proof (IHn sub ltac:(cbn [size] in Hsz; unfold sizes in *; lia)) as Hsub.
          destruct (sel h) eqn:Es; split; intros H; try discriminate.
          + inversion H; subst. cbn [hdr] in *. congruence.
          + constructor; [exact Es|]. apply Hsub. destruct (sbuilds sub); [reflexivity|discriminate].
          + inversion H as [|m0 l0 _ Hrest]; subst. apply Hsub in Hrest. rewrite Hrest. reflexivity. }
      rewrite <- Hit. split.
      + intros H. apply app_eq_nil in H. exact H.
      + intros [-> ->]. reflexivity.
  Qed.

  Theorem sbuilds_nil its : sbuilds its = [] <-> forall m, In m (flat_map ser its) -> ~ selected (hdr m).
  Proof.
    rewrite (sbuilds_nil_iff (sizes its) its (le_n _)), Forall_forall.
    split; intros H m Hin; [apply sel_not_selected|apply sel_not_selected]; auto.
  Qed.

  (* without patterns this is the tree of the forest theorems *)
  Lemma sbuilds_all : forall n its, (sizes its <= n)%nat -> f_filters f = [] -> sbuilds its = builds u its.
  Proof.
    induction n as [|n IHn]; intros its Hsz Hnf.
    - destruct its as [|it more]; [reflexivity|].
      exfalso. rewrite sizes_cons in Hsz. destruct it; cbn [size] in Hsz; lia.
    - destruct its as [|it more]; [reflexivity|].
      rewrite sizes_cons in Hsz. assert (H1 : (1 <= size it)%nat) by (destruct it; cbn [size]; lia).
      rewrite sbuilds_cons, (IHn more ltac:(lia) Hnf). cbn [builds map].
      assert (Hs : forall h, sel h = true) by (intros h; unfold matches_filter; rewrite Hnf; reflexivity).
      destruct it as [c h bs|c h tgt|c h sub]; cbn [sbuild iname build]; rewrite Hs; [reflexivity|reflexivity|].
      change (flat_map sbuild sub) with (sbuilds sub).
      rewrite (IHn sub ltac:(cbn [size] in Hsz; unfold sizes in *; lia) Hnf). reflexivity.
  Qed.

  Theorem sbuilds_nofilter its : f_filters f = [] -> sbuilds its = builds u its.
  Proof. apply (sbuilds_all (sizes its) its (le_n _)). Qed.
End SelectTree.

Print Assumptions sel_run.
Print Assumptions extract_archive_selected_tree.
Print Assumptions sbuilds_exactly.
Print Assumptions sbuilds_nil.
Print Assumptions sbuilds_nofilter.
Print Assumptions selected_top.

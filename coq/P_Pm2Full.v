(* P_Pm2Full.v -- the -pm2- half of C04: the full round trip.

   pm2_roundtrip : for EVERY well-formed stream description d of S_Pm.v
       (literals, copies of every length and distance class, any number of
       segments with table re-reads at 1024, 2048, 4096, 8192 and every 4096
       after -- also in the middle of a copy --, kept or re-read tables,
       single-code and general code tables, offset tables of all forms), the
       decoder model started on pm2_serialise d followed by any tail returns,
       through the public read API and for any read schedule asking for at
       least the declared length, exactly pm2_denote d.

   pm2_chunks    : the inner decoder yields one chunk per command. *)
From Lhasa Require Import Base ListN DecBase BitReader Loop Sweep Tree PmaCommon Generated Pm2
  S_Larc S_Pm Decoder P_Decoder P_DecoderInv P_BitReader P_Tree P_PmaCommon P_Pm2 P_Pm2Rt P_TreeCanonPm
  P_Pm2Lens P_Pm2Off P_Pm2Copy P_Pm2Cmd P_Pm2Seg P_Pm2Sim.
From Coq Require Import ZifyBool ZifyN ZifyNat.
Local Open Scope N_scope.

(* ------------------------------------------------------------------ *)
(* the serialisation, in reading order                                 *)

Lemma pm2_bits_fwd d : pm2_bits d = p2_first d :: segs_fwd 0 None [] pst0 (p2_segs d).
Proof.
  unfold pm2_bits. rewrite pm2_segs_bits_fwd, rev_append_rev, app_nil_r, rev_app_distr, rev_involutive.
  reflexivity.
Qed.

(* ------------------------------------------------------------------ *)
(* what the stream denotes: the chunks, concatenated                   *)

Lemma ph_copy_bytes n : forall st dist acc,
  ph_copy 8192 32 n (ps_h st) dist acc =
  (ps_h (pst_copy 8192 32 n st dist), rev (copy_bytes n st dist) ++ acc).
Proof.
  induction n as [|n IH]; intros st dist acc; [reflexivity|].
  cbn [ph_copy pst_copy copy_bytes]. cbv zeta.
  change (ph_push (ps_h st) (ph_back 8192 32 (ps_h st) dist))
    with (ps_h (pst_out st (ph_back 8192 32 (ps_h st) dist))).
  rewrite IH. cbn [rev]. rewrite <- app_assoc. reflexivity.
Qed.

Lemma pm_cmd_bytes st acc cmd :
  pm_cmd 8192 32 (ps_h st, acc) cmd = (ps_h (pst_cmd pm2_window st cmd), rev (cmd_bytes st cmd) ++ acc).
Proof.
  destruct cmd as [v|dist len]; [reflexivity|].
  cbn [pm_cmd cmd_bytes pst_cmd]. change (pm_fill pm2_window) with 32. change pm2_window with 8192.
  apply ph_copy_bytes.
Qed.

Lemma fold_pm_cmd : forall cmds st acc,
  fold_left (pm_cmd 8192 32) cmds (ps_h st, acc) =
  (ps_h (cmds_st st cmds), rev (concat (cmds_chunks st cmds)) ++ acc).
Proof.
  induction cmds as [|c r IH]; intros st acc; [reflexivity|].
  cbn [fold_left cmds_chunks concat]. rewrite pm_cmd_bytes, IH.
  unfold cmds_st. cbn [fold_left]. rewrite rev_app_distr, <- app_assoc. reflexivity.
Qed.

Lemma cmds_chunks_app a : forall b st,
  cmds_chunks st (a ++ b) = cmds_chunks st a ++ cmds_chunks (cmds_st st a) b.
Proof.
  induction a as [|c r IH]; intros b st; [reflexivity|].
  cbn [app cmds_chunks]. rewrite IH. reflexivity.
Qed.

Lemma segs_chunks_flat : forall segs st, segs_chunks st segs = cmds_chunks st (flat_map sg_cmds segs).
Proof.
  induction segs as [|sg r IH]; intros st; [reflexivity|].
  cbn [segs_chunks flat_map]. rewrite cmds_chunks_app, IH. reflexivity.
Qed.

Lemma pm2_denote_chunks d : pm2_denote d = concat (segs_chunks pst0 (p2_segs d)).
Proof.
  unfold pm2_denote, pm2_cmds, pm_expand, pm_expand_fill. rewrite segs_chunks_flat.
  change (pm_fill pm2_window) with 32. change pm2_window with 8192.
  change ph_empty with (ps_h pst0). rewrite fold_pm_cmd. cbn [snd].
  rewrite rev_append_rev, !app_nil_r. apply rev_involutive.
Qed.

(* ------------------------------------------------------------------ *)
(* the initial state                                                   *)

Lemma pm2_init_data : exists s0, pm2_init = Ok s0 /\
  pm2_bsr s0 = bsr_init /\ pm2_tree_state s0 = PM2_REBUILD_UNBUILT /\
  data_ok s0 pst0 /\ tree_safe s0.
Proof.
  unfold pm2_init, pm2_TREE_NODE_LEAF.
  destruct (N.leb_spec pm2_RING_BUFFER_SIZE pm2_ringbuf_extent) as [_|H];
    [|unfold pm2_RING_BUFFER_SIZE, pm2_ringbuf_extent in H; lia].
  destruct init_history_list_wf as (h & Eh & Wh & Lh). rewrite Eh. cbn [bind].
  destruct (init_tree_closed 128 7 eq_refl (mk_arr pm2_code_tree_extent 0) pm2_CODE_TREE_ELEMENTS)
    as (ct & Ect & Cct & _); [cbn [mk_arr alen]; unfold pm2_code_tree_extent, pm2_CODE_TREE_ELEMENTS; lia|].
  rewrite Ect. cbn [bind].
  destruct (init_tree_closed 128 7 eq_refl (mk_arr pm2_offset_tree_extent 0) pm2_OFFSET_TREE_ELEMENTS)
    as (ot & Eot & Cot & _ & G1 & G2);
    [cbn [mk_arr alen]; unfold pm2_offset_tree_extent, pm2_OFFSET_TREE_ELEMENTS; lia|].
  rewrite Eot. cbn [bind].
  eexists. split; [reflexivity|].
  cbn [pm2_bsr pm2_tree_state]. split; [reflexivity|]. split; [reflexivity|]. split.
  - unfold data_ok. cbn [pm2_ringbuf pm2_ringbuf_pos pm2_history_list].
    split; [reflexivity|]. split; [reflexivity|].
    split.
    { intros j Hj. rewrite aget_mk. change (ph_n (ps_h pst0)) with 0.
      destruct (N.ltb_spec j 0); [lia|reflexivity]. }
    split; [intros i; rewrite aget_mk; lia|]. split; [exact Wh|exact Lh].
  - unfold tree_safe. cbn [pm2_code_tree pm2_offset_tree].
    split; [exact Cct|]. split; [exact Cot|].
    intros i. destruct (N.lt_ge_cases i pm2_OFFSET_TREE_ELEMENTS) as [Hi|Hi].
    + rewrite (G1 i Hi). intros _. vm_compute. reflexivity.
    + rewrite (G2 i Hi), aget_mk. apply leaf_lt_small. lia.
Qed.

Lemma off_decodes_nil t : off_decodes t [].
Proof.
  intros cls code r c rest H. unfold off_code, canon_code, nth_N in H.
  change (count_nz [] =? 1) with false in H. cbv iota in H.
  destruct (N.to_nat cls); discriminate.
Qed.

(* the first pm2_read: the ignored bit and the header of segment 0 *)
Lemma prelude f sg0 s0 (c : src) rest :
  pm2_bsr s0 = bsr_init -> pm2_tree_state s0 = PM2_REBUILD_UNBUILT -> data_ok s0 pst0 -> tree_safe s0 ->
  src_ok c -> wf_pm2_hdr 0 None sg0 = true ->
  pending bsr_init c = f :: pm2_hdr_bits 0 sg0 ++ rest ->
  exists s1 c1 ct, seg_ct None sg0 = Some ct /\
    ('(_, r, c') <- read_bit src_cb (pm2_bsr s0) c ;; rebuild_tree src_cb (pm2_set_bsr s0 r) c') = Ok (s1, c1) /\
    sim 0 ct (seg_ot [] sg0) pst0 s1 c1 rest.
Proof.
  intros E0 Est Hd Hts Hc Hwf Hp. rewrite E0.
  destruct (read_bit_src bsr_init c f _ bsr_init_wf Hc Hp) as (r & c' & Eb & Wr & Sc & Pr).
  rewrite Eb. cbn [bind]. cbv beta iota.
  destruct (rebuild_hdr 0 None [] sg0 (pm2_set_bsr s0 r) c' pst0 rest)
    as (s1 & c1 & ct & Ect & Er & W1 & S1 & P1 & T1 & Ts1 & St1 & R1 & F1); try assumption.
  - split; [exact I|apply off_decodes_nil].
  - exists s1, c1, ct. split; [exact Ect|]. split; [exact Er|].
    unfold sim. split; [apply (data_ok_frame (pm2_set_bsr s0 r) s1 _ F1); exact Hd|].
    split; [exact Ts1|]. split; [exact W1|]. split; [exact S1|]. split; [exact P1|]. split; [exact T1|].
    split; [exact St1|]. split; [reflexivity|]. rewrite R1. reflexivity.
Qed.

(* ------------------------------------------------------------------ *)
(* the chunks of a whole stream                                        *)

Lemma match_some {A} (o : option A) (f : A -> bool) :
  match o with Some x => f x | None => false end = true -> exists x, o = Some x /\ f x = true.
Proof. destruct o as [x|]; [intros H; exists x; auto|discriminate]. Qed.

Theorem pm2_chunks d tail s0 : wf_pm2 d = true -> Forall (fun b => b < 256) tail -> pm2_init = Ok s0 ->
  chunks_from (pm2_read src_cb) pm2_max_read s0
    {| src_data := pm2_serialise d ++ tail; src_chunks := [] |} (segs_chunks pst0 (p2_segs d)).
Proof.
  intros Hwf Htail Hinit.
  destruct pm2_init_data as (s0' & E0 & I1 & I2 & I3 & I4). rewrite Hinit in E0. injection E0 as <-.
  unfold pm2_serialise.
  destruct (pending_pm_pack (pm2_bits d) tail Htail) as (pad & _ & Hsrc & Hpend).
  set (src0 := {| src_data := pm_pack (pm2_bits d) ++ tail; src_chunks := [] |}) in *.
  rewrite pm2_bits_fwd in Hpend. unfold wf_pm2 in Hwf.
  destruct (p2_segs d) as [|sg0 r]; [constructor|].
  cbn [wf_pm2_segs] in Hwf. apply andb_true_iff in Hwf. destruct Hwf as [Hhdr Hwf].
  cbn [segs_fwd] in Hpend. rewrite <- app_comm_cons, <- !app_assoc in Hpend.
  destruct (prelude (p2_first d) sg0 s0 src0 _ I1 I2 I3 I4 Hsrc Hhdr Hpend) as (s1 & c1 & ct & Ect & E1 & Hsim).
  rewrite Ect in Hsim, Hwf. fold (is_nil r) in Hwf.
  destruct (match_some _ (fun st' => wf_pm2_segs (0 + 1) (Some ct) (seg_ot [] sg0) st' r) Hwf)
    as (st_end & Ewf & Hwf').
  clear Hwf. rename Hwf' into Hwf.
  pose proof (wf_cmds_st _ _ _ _ _ _ _ Ewf) as Est. rewrite <- Est in Hsim.
  pose proof (run_segs r 0 ct (seg_ot [] sg0) (sg_cmds sg0) pst0 st_end s1 c1 _ Hsim Ewf Hwf) as Hbody.
  cbn [segs_chunks]. rewrite <- Est.
  destruct (cmds_chunks pst0 (sg_cmds sg0) ++ segs_chunks st_end r) as [|ch rest]; [constructor|].
  destruct Hbody as (s' & c' & E & Hne & Hl & Hrest).
  apply (chunks_cons _ _ s0 src0 ch s' c' rest); try assumption.
  rewrite pm2_read_eq, I2, E1. cbn [bind]. exact E.
Qed.

(* ------------------------------------------------------------------ *)
(* the round trip through the public read API                          *)

Theorem pm2_roundtrip : forall d tail s0 ks,
  wf_pm2 d = true -> Forall (fun b => b < 256) tail -> pm2_init = Ok s0 ->
  nlen (pm2_denote d) <= sum_N ks -> sum_N ks < 2 ^ 62 ->
  exists os d',
    run_reads (pm2_read src_cb) pm2_max_read pm2_block_size
      (lha_decoder_new s0 {| src_data := pm2_serialise d ++ tail; src_chunks := [] |} (nlen (pm2_denote d))) ks
      = Ok (os, d') /\
    concat os = pm2_denote d.
Proof.
  intros d tail s0 ks Hwf Htail Hinit HL Hs.
  pose proof (pm2_chunks d tail s0 Hwf Htail Hinit) as Hch.
  set (src := {| src_data := pm2_serialise d ++ tail; src_chunks := [] |}) in *.
  assert (Hi : pm2_inv_ok s0).
  { destruct pm2_init_ok_ok as (s & E & Hi). rewrite Hinit in E. injection E as <-. exact Hi. }
  destruct (run_reads_inv_ok (pm2_read src_cb) pm2_max_read pm2_block_size pm2_inv_ok
              (pm2_never_faults_len DecBase.src src_cb src_cb_len_bounded_pm) ks s0 src
              (nlen (pm2_denote d)) Hi Hs) as (os & d' & E).
  exists os, d'. split; [exact E|].
  rewrite (decode_of_chunks_inv (pm2_read src_cb) pm2_max_read pm2_block_size pm2_inv_ok
             (pm2_never_faults_len DecBase.src src_cb src_cb_len_bounded_pm)
             (segs_chunks pst0 (p2_segs d)) s0 src (nlen (pm2_denote d)) ks os d' Hi Hch); try assumption.
  - rewrite <- pm2_denote_chunks. apply firstn_N_all. lia.
  - rewrite <- pm2_denote_chunks. lia.
Qed.

(* ------------------------------------------------------------------ *)
(* non-vacuity                                                         *)

(* a small stream with literals, an overlapping copy, a two-byte copy and a
   copy reaching before the start of the output (space fill) *)
Definition ex_cmds : list pcmd :=
  [PByte 65; PByte 66; PByte 67; PCopy 2 5; PByte 68; PCopy 0 3; PCopy 1 2; PCopy 40 4].

Example pm2_roundtrip_ex_small :
  let d := pm2_auto 0 ex_cmds in
  wf_pm2 d = true /\
  pm2_denote d = [65; 66; 67; 65; 66; 67; 65; 66; 68; 68; 68; 68; 68; 68; 32; 32; 32; 32] /\
  exists s0, pm2_init = Ok s0 /\
  exists os d',
    run_reads (pm2_read src_cb) pm2_max_read pm2_block_size
      (lha_decoder_new s0 {| src_data := pm2_serialise d ++ [255; 1]; src_chunks := [] |}
                       (nlen (pm2_denote d))) [5; 100] = Ok (os, d') /\
    concat os = pm2_denote d.
Proof.
  intros d. split; [vm_compute; reflexivity|]. split; [vm_compute; reflexivity|].
  destruct pm2_init_data as (s0 & E0 & _). exists s0. split; [exact E0|].
  apply pm2_roundtrip.
  - vm_compute. reflexivity.
  - repeat constructor.
  - exact E0.
  - vm_compute. discriminate.
  - vm_compute. reflexivity.
Qed.

(* a stream of three segments (re-reads at 1024 and 2048) in which the offset
   1024 is reached in the middle of a 256-byte copy; every variant of the
   auto-builder (skewed / balanced lengths, global / per-segment tables,
   tight / loose headers) is well formed, so the theorem applies to each *)
Definition ex_cmds_long : list pcmd :=
  [PByte 1; PByte 2; PByte 3; PByte 250] ++ repeat (PCopy 3 256) 8 ++ [PByte 7; PCopy 700 200; PCopy 0 256].

Example pm2_roundtrip_ex_segments :
  forallb (fun v => wf_pm2 (pm2_auto v ex_cmds_long)) (nrange 0 16) = true /\
  nlen (p2_segs (pm2_auto 0 ex_cmds_long)) = 3 /\
  nlen (pm2_denote (pm2_auto 0 ex_cmds_long)) = 2509.
Proof. vm_compute. repeat split. Qed.

Corollary pm2_roundtrip_ex_segments_applies : forall v tail s0 ks, v < 16 ->
  Forall (fun b => b < 256) tail -> pm2_init = Ok s0 ->
  let d := pm2_auto v ex_cmds_long in
  nlen (pm2_denote d) <= sum_N ks -> sum_N ks < 2 ^ 62 ->
  exists os d',
    run_reads (pm2_read src_cb) pm2_max_read pm2_block_size
      (lha_decoder_new s0 {| src_data := pm2_serialise d ++ tail; src_chunks := [] |} (nlen (pm2_denote d))) ks
      = Ok (os, d') /\
    concat os = pm2_denote d.
Proof.
  intros v tail s0 ks Hv Htail Hinit d HL Hs.
  destruct pm2_roundtrip_ex_segments as (Hall & _ & _).
  rewrite forallb_forall in Hall.
  assert (Hwf : wf_pm2 d = true) by (apply Hall; apply nrange_In; lia).
  exact (pm2_roundtrip d tail s0 ks Hwf Htail Hinit HL Hs).
Qed.

Print Assumptions pm2_chunks.
Print Assumptions pm2_roundtrip.
Print Assumptions pm2_roundtrip_ex_small.
Print Assumptions pm2_roundtrip_ex_segments.
Print Assumptions pm2_roundtrip_ex_segments_applies.

(* ListOut.v -- model of src/list.c (all of it), src/safe.c (safe_output /
   safe_printf) and the command-line parsing of src/main.c: the exact bytes
   the tool writes to stdout for the commands l, lv, v, vv.

   Output of a C function = the byte list it printf's.  The columns of the
   four lists (names, widths, which handler and footer function, identity of
   the column object), the month names and the OS names are the compiler's
   values from Generated.v (probe of src/list.c in tools/gen_more.py); the
   printf format strings of the handlers are transcribed here.

   Fault sites 2101-2120: a table index that leaves its table (month number
   from localtime outside 0..11; a column / handler / footer / OS-name entry
   of Generated.v that this model does not know). *)
From Coq Require Import Floats.SpecFloat.
From Lhasa Require Import Base Generated Header Printf Glob.
Local Open Scope N_scope.

(* ================================================================== *)
(* src/safe.c                                                          *)

(* safe_output: every byte of the C string < 0x20 or >= 0x7f becomes '?' *)
Definition safe_char (b : N) : N := if (b <? 32) || (127 <=? b) then 63 else b.
Definition safe_output (str : list N) : list N := map safe_char (cstr str).
(* safe_printf(fmt, ...) = safe_output of the formatted text *)
Definition safe_printf (formatted : list N) : list N := safe_output formatted.

(* ================================================================== *)
(* src/main.c: options                                                 *)

Inductive program_mode :=
| MODE_UNKNOWN | MODE_LIST | MODE_LIST_VERBOSE | MODE_CRC_CHECK | MODE_EXTRACT | MODE_PRINT.

Inductive overwrite_policy := LHA_OVERWRITE_PROMPT | LHA_OVERWRITE_SKIP | LHA_OVERWRITE_ALL.

Record lha_options := {
  o_overwrite_policy : overwrite_policy;
  o_quiet : N;
  o_verbose : bool;
  o_dry_run : bool;
  o_extract_path : option (list N);
  o_use_path : bool
}.

Definition init_options : lha_options :=
  {| o_overwrite_policy := LHA_OVERWRITE_PROMPT; o_quiet := 0; o_verbose := false; o_dry_run := false;
     o_extract_path := None; o_use_path := true |}.

Definition set_overwrite o v := {| o_overwrite_policy := v; o_quiet := o_quiet o; o_verbose := o_verbose o;
  o_dry_run := o_dry_run o; o_extract_path := o_extract_path o; o_use_path := o_use_path o |}.
Definition set_quiet o v := {| o_overwrite_policy := o_overwrite_policy o; o_quiet := v; o_verbose := o_verbose o;
  o_dry_run := o_dry_run o; o_extract_path := o_extract_path o; o_use_path := o_use_path o |}.
Definition set_verbose o v := {| o_overwrite_policy := o_overwrite_policy o; o_quiet := o_quiet o; o_verbose := v;
  o_dry_run := o_dry_run o; o_extract_path := o_extract_path o; o_use_path := o_use_path o |}.
Definition set_dry_run o v := {| o_overwrite_policy := o_overwrite_policy o; o_quiet := o_quiet o; o_verbose := o_verbose o;
  o_dry_run := v; o_extract_path := o_extract_path o; o_use_path := o_use_path o |}.
Definition set_extract_path o v := {| o_overwrite_policy := o_overwrite_policy o; o_quiet := o_quiet o; o_verbose := o_verbose o;
  o_dry_run := o_dry_run o; o_extract_path := v; o_use_path := o_use_path o |}.
Definition set_use_path o v := {| o_overwrite_policy := o_overwrite_policy o; o_quiet := o_quiet o; o_verbose := o_verbose o;
  o_dry_run := o_dry_run o; o_extract_path := o_extract_path o; o_use_path := v |}.

(* mode_for_char; an empty string is the character NUL *)
Definition mode_for_char (c : N) : program_mode :=
  if c =? 108 then MODE_LIST                       (* l *)
  else if c =? 118 then MODE_LIST_VERBOSE          (* v *)
  else if c =? 116 then MODE_CRC_CHECK             (* t *)
  else if (c =? 101) || (c =? 120) then MODE_EXTRACT   (* e x *)
  else if c =? 112 then MODE_PRINT                 (* p *)
  else MODE_UNKNOWN.

(* parse_options: None = return 0 *)
Fixpoint parse_options (arg : list N) (o : lha_options) : option lha_options :=
  match arg with
  | [] => Some o
  | c :: r =>
    if c =? 102 then parse_options r (set_overwrite o LHA_OVERWRITE_ALL)          (* f *)
    else if c =? 105 then parse_options r (set_use_path o false)                  (* i *)
    else if c =? 110 then parse_options r (set_dry_run o true)                    (* n *)
    else if c =? 113 then                                                         (* q[digit] *)
      match r with
      | d :: r' =>
        if (48 <=? d) && (d <=? 57)
        then parse_options r' (set_overwrite (set_quiet o (d - 48)) LHA_OVERWRITE_ALL)
        else parse_options r (set_overwrite (set_quiet o 2) LHA_OVERWRITE_ALL)
      | [] => parse_options r (set_overwrite (set_quiet o 2) LHA_OVERWRITE_ALL)
      end
    else if c =? 118 then parse_options r (set_verbose o true)                    (* v *)
    else if c =? 119 then                                                         (* w[=]dir: rest of the argument *)
      match r with
      | 61 :: r' => Some (set_extract_path o (Some r'))
      | _ => Some (set_extract_path o (Some r))
      end
    else None
  end.

(* parse_command_line *)
Definition parse_command_line (cmd : list N) : option (program_mode * lha_options) :=
  let cmd := match cmd with 45 :: r => r | _ => cmd end in
  let c := match cmd with [] => 0 | c :: _ => c end in
  let mode := mode_for_char c in
  match mode with
  | MODE_UNKNOWN => None
  | _ => match parse_options (tl cmd) init_options with
         | Some o => Some (mode, o)
         | None => None
         end
  end.

(* main: args = argv[1..argc-1].  Result: the command that is run (mode,
   options, archive file name, filters) or None for the help page. *)
Definition parse_main (args : list (list N)) : option (program_mode * lha_options * list N * list (list N)) :=
  match args with
  | cmd :: file :: filters =>
    match parse_command_line cmd with
    | Some (mode, o) => Some (mode, o, file, filters)
    | None => None
    end
  | [file] => Some (MODE_LIST, init_options, file, [])
  | [] => None
  end.

(* ================================================================== *)
(* src/list.c                                                          *)

(* struct tm as far as it is used (tm_year counts from 1900, tm_mon from 0) *)
Record tm := { tm_sec : Z; tm_min : Z; tm_hour : Z; tm_mday : Z; tm_mon : Z; tm_year : Z }.

Record file_statistics := {
  st_num_files : N;            (* unsigned int *)
  st_compressed_length : N;    (* size_t *)
  st_length : N;               (* size_t *)
  st_timestamp : N             (* unsigned int *)
}.

Record list_column := {
  c_id : N;                    (* which ListColumn object (pointer identity) *)
  c_name : list N;
  c_width : N;
  c_handler : N;               (* which handler function *)
  c_footer : N                 (* which footer function; 98 = NULL *)
}.

Fixpoint concat_map_o {A} (f : A -> outcome (list N)) (l : list A) : outcome (list N) :=
  match l with
  | [] => Ok []
  | x :: r => a <- f x ;; b <- concat_map_o f r ;; Ok (a ++ b)
  end.

Definition str_lhd : list N := [45; 108; 104; 100; 45].          (* "-lhd-" *)

(* os_type_to_string: the switch, as evaluated by the compiler for all 256 values *)
Definition os_name_strings : list (list N) :=
  [list_os_name_0; list_os_name_32; list_os_name_50; list_os_name_51; list_os_name_57; list_os_name_65;
   list_os_name_67; list_os_name_70; list_os_name_72; list_os_name_74; list_os_name_75; list_os_name_77;
   list_os_name_82; list_os_name_84; list_os_name_85; list_os_name_87; list_os_name_97; list_os_name_109;
   list_os_name_119].

Definition os_type_to_string (os_type : N) : outcome (list N) :=
  match first_index list_os_known (u8 os_type) 0 with
  | None => Ok list_os_name_default
  | Some k => match nth_N os_name_strings k with Some s => Ok s | None => Fault 2101 end
  end.

(* for (i = 0; i < n; ++i) word & (1U << (n - 1 - i)) ? chars[i] : '-' *)
Fixpoint perm_chars (chars : list N) (nbits : N) (word : N) : list N :=
  match chars with
  | [] => []
  | c :: r => (if N.testbit word (nbits - 1) then c else 45) :: perm_chars r (nbits - 1) word
  end.

(* unix_permissions_print *)
Definition unix_permissions_print (h : header) : list N :=
  (if negb (method_is h COMPRESS_TYPE_DIR) then [45]
   else match h_symlink_target h with Some _ => [108] | None => [100] end)
  ++ perm_chars [114; 119; 120; 114; 119; 120; 114; 119; 120] 9 (h_unix_perms h).   (* "rwxrwxrwx" *)

(* os9_permissions_print *)
Definition os9_permissions_print (h : header) : list N :=
  (if negb (method_is h COMPRESS_TYPE_DIR) then [45] else [100])
  ++ perm_chars [115; 101; 119; 114; 101; 119; 114] 7 (h_os9_perms h)               (* "sewrewr" *)
  ++ [32; 32].

(* permission_column_print *)
Definition permission_column_print (h : header) : outcome (list N) :=
  if have_extra h FILE_OS9_PERMS then Ok (os9_permissions_print h)
  else if have_extra h FILE_UNIX_PERMS then Ok (unix_permissions_print h)
  else s <- os_type_to_string (h_os_type h) ;; Ok (fmt_s true 10 s).                 (* "%-10s" *)

Definition permission_column_footer (st : file_statistics) : list N :=
  [32; 84; 111; 116; 97; 108; 32; 32; 32; 32].                                       (* " Total    " *)

(* unix_uid_gid_column_print: "%5i/%-5i" of two unsigned ints *)
Definition unix_uid_gid_column_print (h : header) : list N :=
  if have_extra h FILE_UNIX_UID_GID
  then fmt_d false false 5 (as_int (h_unix_uid h)) ++ [47] ++ fmt_d true false 5 (as_int (h_unix_gid h))
  else rep 32 11.

(* unix_uid_gid_column_footer: "%5i file " / "%5i files" *)
Definition unix_uid_gid_column_footer (st : file_statistics) : list N :=
  if st_num_files st =? 1
  then fmt_d false false 5 (as_int (st_num_files st)) ++ [32; 102; 105; 108; 101; 32]
  else fmt_d false false 5 (as_int (st_num_files st)) ++ [32; 102; 105; 108; 101; 115].

(* packed / size columns: "%7lu" *)
Definition packed_column_print (h : header) : list N := fmt_u false false 7 (as_ulong (h_compressed_length h)).
Definition packed_column_footer (st : file_statistics) : list N := fmt_u false false 7 (as_ulong (st_compressed_length st)).
Definition size_column_print (h : header) : list N := fmt_u false false 7 (as_ulong (h_length h)).
Definition size_column_footer (st : file_statistics) : list N := fmt_u false false 7 (as_ulong (st_length st)).

(* compression_percent: single precision *)
Definition compression_percent (compressed uncompressed : N) : spec_float :=
  if 0 <? uncompressed
  then f32_div (f32_mul (f32_of_N compressed) f32_100) (f32_of_N uncompressed)
  else f32_100.

Definition stars6 : list N := [42; 42; 42; 42; 42; 42].
(* "%5.1f%%" *)
Definition fmt_percent (x : spec_float) : list N := fmt_f1 false false 5 x ++ [37].

Definition ratio_column_print (h : header) : list N :=
  if method_is h str_lhd then stars6
  else fmt_percent (compression_percent (h_compressed_length h) (h_length h)).

Definition ratio_column_footer (st : file_statistics) : list N :=
  if st_length st =? 0 then stars6
  else fmt_percent (compression_percent (st_compressed_length st) (st_length st)).

(* method_crc_column_print: safe_printf("%-5s %04x", compress_method, crc) *)
Definition method_crc_column_print (h : header) : list N :=
  safe_printf (fmt_s true 5 (cstr (h_method h)) ++ [32] ++ fmt_x false true 4 (h_crc h)).

Definition month_names : list (list N) :=
  [list_month_0; list_month_1; list_month_2; list_month_3; list_month_4; list_month_5;
   list_month_6; list_month_7; list_month_8; list_month_9; list_month_10; list_month_11].

Section WithClock.
  (* libc localtime applied to a time_t in 0 .. 2^32-1 *)
  Variable localtime : N -> tm.
  (* get_now_time(): time(NULL), or TEST_NOW_TIME in a test build *)
  Variable now : N.

  (* months[ts->tm_mon] *)
  Definition month_name (mon : Z) : outcome (list N) :=
    match mon with
    | Zneg _ => Fault 2102
    | _ => match nth_N month_names (Z.to_N mon) with Some s => Ok s | None => Fault 2102 end
    end.

  (* output_timestamp.  (time_t) timestamp > tmp - 6 * 30 * 24 * 60 * 60 in
     signed 64-bit arithmetic; timestamp is an unsigned int, so never negative. *)
  Definition output_timestamp (timestamp : N) : outcome (list N) :=
    if timestamp =? 0 then Ok (rep 32 12) else
    let ts := localtime timestamp in
    m <- month_name (tm_mon ts) ;;
    let date := m ++ [32] ++ fmt_d false false 2 (tm_mday ts) ++ [32] in             (* "%s %2d " *)
    if (Z.of_N now - 15552000 <? Z.of_N timestamp)%Z
    then Ok (date ++ fmt_d false true 2 (tm_hour ts) ++ [58] ++ fmt_d false true 2 (tm_min ts))   (* "%02i:%02i" *)
    else Ok (date ++ [32] ++ fmt_d false true 4 (tm_year ts + 1900)%Z).              (* " %04i" *)

  (* output_full_timestamp: "%04i-%02i-%02i %02i:%02i:%02i" *)
  Definition output_full_timestamp (timestamp : N) : list N :=
    if timestamp =? 0 then rep 32 19 else
    let ts := localtime timestamp in
    fmt_d false true 4 (tm_year ts + 1900)%Z ++ [45] ++ fmt_d false true 2 (tm_mon ts + 1)%Z ++ [45]
    ++ fmt_d false true 2 (tm_mday ts) ++ [32] ++ fmt_d false true 2 (tm_hour ts) ++ [58]
    ++ fmt_d false true 2 (tm_min ts) ++ [58] ++ fmt_d false true 2 (tm_sec ts).

  Definition timestamp_column_print (h : header) : outcome (list N) := output_timestamp (h_timestamp h).
  Definition full_timestamp_column_print (h : header) : list N := output_full_timestamp (h_timestamp h).
  Definition timestamp_column_footer (st : file_statistics) : outcome (list N) := output_timestamp (st_timestamp st).
  Definition full_timestamp_column_footer (st : file_statistics) : list N := output_full_timestamp (st_timestamp st).

  (* name_column_print *)
  Definition opt_print (prefix : list N) (o : option (list N)) : list N :=
    match o with Some s => safe_printf (prefix ++ s) | None => [] end.

  Definition name_column_print (h : header) : list N :=
    opt_print [] (h_path h) ++ opt_print [] (h_filename h)
    ++ opt_print [32; 45; 62; 32] (h_symlink_target h).                               (* " -> %s" *)

  (* whole_line_name_column_print *)
  Definition whole_line_name_column_print (h : header) : list N :=
    opt_print [] (h_path h) ++ opt_print [] (h_filename h)
    ++ opt_print [124] (h_symlink_target h) ++ [10].                                  (* "|%s" "\n" *)

  (* header_level_column_print: "[%i]" *)
  Definition header_level_column_print (h : header) : list N :=
    [91] ++ fmt_d false false 0 (Z.of_N (u8 (h_level h))) ++ [93].

  (* columns[i]->handler(header) *)
  Definition column_handler (c : list_column) (h : header) : outcome (list N) :=
    match c_handler c with
    | 0 => permission_column_print h
    | 1 => Ok (unix_uid_gid_column_print h)
    | 2 => Ok (packed_column_print h)
    | 3 => Ok (size_column_print h)
    | 4 => Ok (ratio_column_print h)
    | 5 => Ok (method_crc_column_print h)
    | 6 => timestamp_column_print h
    | 7 => Ok (full_timestamp_column_print h)
    | 8 => Ok (name_column_print h)
    | 9 => Ok (whole_line_name_column_print h)
    | 10 => Ok (header_level_column_print h)
    | _ => Fault 2103
    end.

  (* columns[i]->footer: None = NULL *)
  Definition has_footer (c : list_column) : bool := negb (c_footer c =? 98).

  Definition column_footer (c : list_column) (st : file_statistics) : outcome (list N) :=
    match c_footer c with
    | 0 => Ok (permission_column_footer st)
    | 1 => Ok (unix_uid_gid_column_footer st)
    | 2 => Ok (packed_column_footer st)
    | 3 => Ok (size_column_footer st)
    | 4 => Ok (ratio_column_footer st)
    | 6 => timestamp_column_footer st
    | 7 => Ok (full_timestamp_column_footer st)
    | _ => Fault 2104
    end.

  (* last_column: the last column with width != 0 (None = NULL) *)
  Fixpoint last_column_from (cols : list list_column) (last : option N) : option N :=
    match cols with
    | [] => last
    | c :: r => last_column_from r (if negb (c_width c =? 0) then Some (c_id c) else last)
    end.
  Definition last_column (cols : list list_column) : option N := last_column_from cols None.

  (* columns[i] != last *)
  Definition not_last (c : list_column) (last : option N) : bool :=
    match last with Some id => negb (c_id c =? id) | None => true end.

  (* print_list_headings *)
  Definition print_list_headings (cols : list list_column) : list N :=
    let last := last_column cols in
    flat_map (fun c =>
      let j := nlen (c_name c) in
      c_name c ++ (if (0 <? c_width c) && not_last c last then rep 32 (c_width c + 1 - j) else [])) cols
    ++ [10].

  (* print_list_separators *)
  Definition print_list_separators (cols : list list_column) : list N :=
    let last := last_column cols in
    flat_map (fun c =>
      rep 45 (c_width c) ++ (if negb (c_width c =? 0) && not_last c last then [32] else [])) cols
    ++ [10].

  (* print_columns *)
  Definition print_columns (cols : list list_column) (h : header) : outcome (list N) :=
    let last := last_column cols in
    row <- concat_map_o (fun c =>
             t <- column_handler c h ;;
             Ok (t ++ (if negb (c_width c =? 0) && not_last c last then [32] else []))) cols ;;
    Ok (row ++ [10]).

  (* print_footers *)
  (* while (num_columns > 0 && columns[num_columns-1]->footer == NULL) --num_columns,
     on the reversed list *)
  Fixpoint drop_no_footer (rcols : list list_column) : list list_column :=
    match rcols with
    | [] => []
    | c :: r => if has_footer c then rcols else drop_no_footer r
    end.

  (* the loop over i < num_columns; "i + 1 < num_columns" = there is a column after this one *)
  Fixpoint print_footers_loop (cols : list list_column) (st : file_statistics) : outcome (list N) :=
    match cols with
    | [] => Ok []
    | c :: r =>
      let more := match r with [] => false | _ => true end in
      t <- (if has_footer c then column_footer c st
            else if more then Ok (rep 32 (nlen (c_name c)))
            else Ok []) ;;
      rest <- print_footers_loop r st ;;
      Ok (t ++ (if negb (c_width c =? 0) && more then [32] else []) ++ rest)
    end.

  Definition print_footers (cols : list list_column) (st : file_statistics) : outcome (list N) :=
    t <- print_footers_loop (rev (drop_no_footer (rev cols))) st ;;
    Ok (t ++ [10]).

  (* the for (;;) loop of list_file_contents: the headers are those the
     reader delivers, in order; lha_filter_next_file skips the ones that
     do not match.  Returns the rows (one byte list per printed row, so that
     no append ever walks the whole output) and the statistics. *)
  Definition add_u32 (a b : N) : N := u32 (a + b).
  Definition add_size_t (a b : N) : N := as_ulong (a + b).

  Fixpoint list_rows (cols : list list_column) (f : lha_filter) (hs : list header) (st : file_statistics)
    : outcome (list (list N) * file_statistics) :=
    match hs with
    | [] => Ok ([], st)
    | h :: r =>
      if matches_filter f h then
        row <- print_columns cols h ;;
        let st' := {| st_num_files := add_u32 (st_num_files st) 1;
                      st_compressed_length := add_size_t (st_compressed_length st) (h_compressed_length h);
                      st_length := add_size_t (st_length st) (h_length h);
                      st_timestamp := st_timestamp st |} in
        '(rows, st'') <- list_rows cols f r st' ;;
        Ok (row :: rows, st'')
      else list_rows cols f r st
    end.

  (* list_file_contents; mtime = st_mtime of the archive file (read_file_timestamp) *)
  Definition list_file_contents (f : lha_filter) (mtime : N) (o : lha_options) (cols : list list_column)
             (hs : list header) : outcome (list N) :=
    let head := if o_quiet o <? 2 then print_list_headings cols ++ print_list_separators cols else [] in
    let st0 := {| st_num_files := 0; st_compressed_length := 0; st_length := 0; st_timestamp := u32 mtime |} in
    '(rows, st) <- list_rows cols f hs st0 ;;
    foot <- (if o_quiet o <? 2
             then ft <- print_footers cols st ;; Ok (print_list_separators cols ++ ft)
             else Ok []) ;;
    Ok (concat (head :: rows ++ [foot])).
End WithClock.

(* ---- the four column arrays, from Generated.v ---- *)
Fixpoint zip_columns (ids : list N) (names : list (list N)) (widths handlers footers : list N) : list list_column :=
  match ids, names, widths, handlers, footers with
  | i :: ir, n :: nr, w :: wr, h :: hr, f :: fr =>
    {| c_id := i; c_name := n; c_width := w; c_handler := h; c_footer := f |} :: zip_columns ir nr wr hr fr
  | _, _, _, _, _ => []
  end.

Definition mk_columns (count : N) (ids : list N) (names : list (list N)) (widths handlers footers : list N)
  : outcome (list list_column) :=
  if (nlen ids =? count) && (nlen names =? count) && (nlen widths =? count)
     && (nlen handlers =? count) && (nlen footers =? count)
  then Ok (zip_columns ids names widths handlers footers) else Fault 2105.

Definition normal_column_headers : outcome (list list_column) :=
  mk_columns list_cols_l_count list_cols_l_ids
    [list_cols_l_name_0; list_cols_l_name_1; list_cols_l_name_2; list_cols_l_name_3; list_cols_l_name_4;
     list_cols_l_name_5]
    list_cols_l_widths list_cols_l_handlers list_cols_l_footers.

Definition normal_column_headers_verbose : outcome (list list_column) :=
  mk_columns list_cols_lv_count list_cols_lv_ids
    [list_cols_lv_name_0; list_cols_lv_name_1; list_cols_lv_name_2; list_cols_lv_name_3; list_cols_lv_name_4;
     list_cols_lv_name_5; list_cols_lv_name_6]
    list_cols_lv_widths list_cols_lv_handlers list_cols_lv_footers.

Definition verbose_column_headers : outcome (list list_column) :=
  mk_columns list_cols_v_count list_cols_v_ids
    [list_cols_v_name_0; list_cols_v_name_1; list_cols_v_name_2; list_cols_v_name_3; list_cols_v_name_4;
     list_cols_v_name_5; list_cols_v_name_6; list_cols_v_name_7]
    list_cols_v_widths list_cols_v_handlers list_cols_v_footers.

Definition verbose_column_headers_verbose : outcome (list list_column) :=
  mk_columns list_cols_vv_count list_cols_vv_ids
    [list_cols_vv_name_0; list_cols_vv_name_1; list_cols_vv_name_2; list_cols_vv_name_3; list_cols_vv_name_4;
     list_cols_vv_name_5; list_cols_vv_name_6; list_cols_vv_name_7; list_cols_vv_name_8]
    list_cols_vv_widths list_cols_vv_handlers list_cols_vv_footers.

Section Commands.
  Variable localtime : N -> tm.

  (* list_file_basic (lha l / lv) *)
  Definition list_file_basic (f : lha_filter) (o : lha_options) (now mtime : N) (hs : list header) : outcome (list N) :=
    cols <- (if o_verbose o then normal_column_headers_verbose else normal_column_headers) ;;
    list_file_contents localtime now f mtime o cols hs.

  (* list_file_verbose (lha v / vv) *)
  Definition list_file_verbose (f : lha_filter) (o : lha_options) (now mtime : N) (hs : list header) : outcome (list N) :=
    cols <- (if o_verbose o then verbose_column_headers_verbose else verbose_column_headers) ;;
    list_file_contents localtime now f mtime o cols hs.

  (* do_command for the two list modes (MODE_UNKNOWN prints nothing; the other
     commands are not part of this file and yield no output here).
     options = what parse_command_line produced; patterns = argv + 3;
     now = get_now_time(); mtime = st_mtime of the archive;
     hs = the headers lha_reader_next_file delivers, in archive order (while
     listing nothing is extracted, so the reader has no deferred directories
     or symbolic links and delivers exactly the basic reader's headers). *)
  Definition options : Type := program_mode * lha_options.

  Definition list_output (opts : options) (patterns : list (list N)) (now mtime : N) (hs : list header)
    : outcome (list N) :=
    let '(mode, o) := opts in
    let f := lha_filter_init patterns in
    match mode with
    | MODE_LIST => list_file_basic f o now mtime hs
    | MODE_LIST_VERBOSE => list_file_verbose f o now mtime hs
    | _ => Ok []
    end.

  (* from the command argument (argv[1]) as main does; None = help page *)
  Definition list_output_cmd (cmd : list N) (patterns : list (list N)) (now mtime : N) (hs : list header)
    : option (outcome (list N)) :=
    match parse_command_line cmd with
    | Some opts => Some (list_output opts patterns now mtime hs)
    | None => None
    end.
End Commands.

(* "%5.1f%%" of compression_percent, for direct comparison with C *)
Definition ratio_string (compressed uncompressed : N) : list N :=
  fmt_percent (compression_percent compressed uncompressed).

(* ---- executable localtime for TZ=UTC: civil date from day number ---- *)
Local Open Scope Z_scope.
Definition civil_from_days (z0 : Z) : Z * Z * Z :=
  let z := z0 + 719468 in
  let era := (if 0 <=? z then z else z - 146096) / 146097 in
  let doe := z - era * 146097 in
  let yoe := (doe - doe / 1460 + doe / 36524 - doe / 146096) / 365 in
  let y := yoe + era * 400 in
  let doy := doe - (365 * yoe + yoe / 4 - yoe / 100) in
  let mp := (5 * doy + 2) / 153 in
  let d := doy - (153 * mp + 2) / 5 + 1 in
  let m := if mp <? 10 then mp + 3 else mp - 9 in
  ((if m <=? 2 then y + 1 else y), m, d).

Definition gmtime_utc (t : N) : tm :=
  let t := Z.of_N t in
  let days := t / 86400 in
  let rem := t mod 86400 in
  let '(y, m, d) := civil_from_days days in
  {| tm_sec := rem mod 60; tm_min := (rem / 60) mod 60; tm_hour := rem / 3600;
     tm_mday := d; tm_mon := m - 1; tm_year := y - 1900 |}.

(* S_Header.v -- specification for property C05: a reference ENCODER of LHA file
   headers of levels 0-3 from a field record, and the reference statement of
   what the parser must hand to the caller (normalise).  Both mirror
   harness/py/lhabuild.py (build_header / normalise), which were written from
   the format description.  Definitions and vm_compute examples only. *)
From Lhasa Require Import Base ListN Generated Crc16 InputStream Header.
Local Open Scope N_scope.

(* ------------------------------------------------------------------ *)
(* The field record                                                    *)

Record fields := {
  f_level  : N;                    (* 0..3 *)
  f_method : list N;               (* 5 bytes *)
  f_clen   : N;                    (* length of the member's compressed data *)
  f_length : N;                    (* original length *)
  f_time   : N;                    (* raw DOS stamp (levels 0/1), Unix time (levels 2/3) *)
  f_attr   : N;
  f_os     : N;                    (* levels 1-3 *)
  f_crc    : N;
  f_name   : list N;               (* in-header name, levels 0/1 *)
  f_exts   : list (N * list N);    (* extended headers (type, payload), levels 1-3 *)
  f_area   : list N                (* level-0 extended area *)
}.

(* ------------------------------------------------------------------ *)
(* Little-endian integers                                              *)

Fixpoint le_bytes (k : nat) (v : N) : list N :=
  match k with
  | O => []
  | S k' => v mod 256 :: le_bytes k' (v / 256)
  end.

Fixpoint le_val (l : list N) : N :=
  match l with
  | [] => 0
  | b :: r => b + 256 * le_val r
  end.

(* bytes [i, i+n) of l  (Python l[i:i+n]) *)
Definition sub (l : list N) (i n : N) : list N := firstn_N n (skipn_N i l).

(* ------------------------------------------------------------------ *)
(* The encoder (build_header)                                          *)

Definition ext_size (fs : nat) (e : N * list N) : N := 1 + nlen (snd e) + N.of_nat fs.

Definition first_size (fs : nat) (exts : list (N * list N)) : N :=
  match exts with
  | [] => 0
  | e :: _ => ext_size fs e
  end.

(* _ext_chain: each record = type, payload, size of the NEXT record (fs bytes) *)
Fixpoint ext_chain (fs : nat) (exts : list (N * list N)) : list N :=
  match exts with
  | [] => []
  | (t, p) :: r => t :: p ++ le_bytes fs (first_size fs r) ++ ext_chain fs r
  end.

(* _patch_common_crc: the first two payload bytes of every common-CRC header
   (type 0, payload of 2 bytes or more) are replaced by the two bytes given *)
Definition is_ccrc (e : N * list N) : bool := (fst e =? 0) && (2 <=? nlen (snd e)).

Definition patch_ccrc (b0 b1 : N) (exts : list (N * list N)) : list (N * list N) :=
  map (fun e => if is_ccrc e then (fst e, b0 :: b1 :: skipn_N 2 (snd e)) else e) exts.

Definition OS9_68K : N := 75.

(* the header bytes with the extended headers exactly as given *)
Definition encode_with (f : fields) (exts : list (N * list N)) : list N :=
  match f_level f with
  | 0 =>
    let body := f_method f ++ le_bytes 4 (f_clen f) ++ le_bytes 4 (f_length f) ++ le_bytes 4 (f_time f)
                ++ [f_attr f; 0; nlen (f_name f)] ++ f_name f ++ le_bytes 2 (f_crc f) ++ f_area f in
    [nlen body mod 256; sum_N body mod 256] ++ body
  | 1 =>
    let chain := ext_chain 2 exts in
    let base := f_method f ++ le_bytes 4 ((f_clen f + nlen chain) mod 4294967296) ++ le_bytes 4 (f_length f)
                ++ le_bytes 4 (f_time f) ++ [f_attr f; 1; nlen (f_name f)] ++ f_name f ++ le_bytes 2 (f_crc f)
                ++ [f_os f] ++ le_bytes 2 (first_size 2 exts) in
    [nlen base mod 256; sum_N base mod 256] ++ base ++ chain
  | 2 =>
    let chain := ext_chain 2 exts in
    let fixed := f_method f ++ le_bytes 4 (f_clen f) ++ le_bytes 4 (f_length f) ++ le_bytes 4 (f_time f)
                 ++ [f_attr f; 2] ++ le_bytes 2 (f_crc f) ++ [f_os f] ++ le_bytes 2 (first_size 2 exts) in
    let total := 2 + nlen fixed + nlen chain in
    (* OS-9/68k writes a length that is two bytes short *)
    le_bytes 2 (if f_os f =? OS9_68K then total - 2 else total) ++ fixed ++ chain
  | 3 =>
    let chain := ext_chain 4 exts in
    let fixed := f_method f ++ le_bytes 4 (f_clen f) ++ le_bytes 4 (f_length f) ++ le_bytes 4 (f_time f)
                 ++ [f_attr f; 3] ++ le_bytes 2 (f_crc f) ++ [f_os f] in
    let total := 2 + nlen fixed + 4 + 4 + nlen chain in
    le_bytes 2 4 ++ fixed ++ le_bytes 4 total ++ le_bytes 4 (first_size 4 exts) ++ chain
  | _ => []
  end.

(* the header with every common-CRC field zero: what the CRC is computed over *)
Definition encode_zeroed (f : fields) : list N := encode_with f (patch_ccrc 0 0 (f_exts f)).

Definition common_crc_of (f : fields) : N := crc_bitwise 0 (encode_zeroed f).

Definition encode_header (f : fields) : list N :=
  let c := common_crc_of f in
  encode_with f (patch_ccrc (c mod 256) (c / 256) (f_exts f)).

(* ------------------------------------------------------------------ *)
(* Well-formed field records: every value fits the field that holds it *)

Definition bytes_ok (l : list N) : bool := forallb (fun b => b <? 256) l.

Definition ext_ok (fs : nat) (limit : N) (e : N * list N) : bool :=
  (fst e <? 256) && bytes_ok (snd e) && (ext_size fs e <? limit).

Definition wf_fields (f : fields) : bool :=
  (nlen (f_method f) =? 5) && bytes_ok (f_method f)
  && (f_clen f <? 4294967296) && (f_length f <? 4294967296) && (f_time f <? 4294967296)
  && (f_attr f <? 256) && (f_os f <? 256) && (f_crc f <? 65536)
  && bytes_ok (f_name f) && bytes_ok (f_area f)
  && match f_level f with
     | 0 => (22 + nlen (f_name f) + nlen (f_area f) <=? 255)
            && match f_exts f with [] => true | _ => false end
     | 1 => (25 + nlen (f_name f) <=? 255)
            && forallb (ext_ok 2 65536) (f_exts f)
            && (f_clen f + nlen (ext_chain 2 (f_exts f)) <? 4294967296)
            (* the model walks at most 2^22 extended headers (its stated loop bound); at
               levels 2 and 3 the size limits already imply this *)
            && (nlen (f_exts f) <? 4194304)
            (* the whole header is shorter than 4 GiB (the parser's offset is an unsigned int) *)
            && (27 + nlen (f_name f) + nlen (ext_chain 2 (f_exts f)) <? 4294967296)
     | 2 => forallb (ext_ok 2 65536) (f_exts f)
            && (26 + nlen (ext_chain 2 (f_exts f)) <? 65536)
            (* the length as written by OS-9/68k must still be a level-2 length (>= 26) *)
            && (negb (f_os f =? OS9_68K) || (28 <=? 26 + nlen (ext_chain 2 (f_exts f))))
     | 3 => forallb (ext_ok 4 4294967296) (f_exts f)
            && (32 + nlen (ext_chain 4 (f_exts f)) <=? 1048576)
     | _ => false
     end.

(* ------------------------------------------------------------------ *)
(* The stream a header is read from: at a member boundary, past the    *)
(* self-extractor scan.  [reads] counts the read requests made so far. *)

Definition stream_at (reads : N) (bytes : list N) : istream :=
  {| is_src := {| so_kind := KCbSkip; so_data := bytes; so_reads := reads; so_skips := 0 |};
     is_state := IS_READING; is_leadin := [] |}.

Definition ready_stream (bytes : list N) : istream :=
  {| is_src := mk_source KCbSkip bytes; is_state := IS_READING; is_leadin := [] |}.

(* number of read requests the parser makes for this header: the common 22
   bytes, the rest of the base header, and per level: one per extended header
   (1), the two extra OS-9/68k bytes (2), the extended headers in one piece (3) *)
Definition header_reads (f : fields) : N :=
  match f_level f with
  | 1 => 2 + nlen (f_exts f)
  | 2 => if f_os f =? OS9_68K then 3 else 2
  | 3 => match f_exts f with [] => 2 | _ => 3 end
  | _ => 2
  end.

(* the stream after the header: the member's data, untouched *)
Definition ready_stream_after (f : fields) (data : list N) : istream :=
  stream_at (header_reads f) data.

(* ------------------------------------------------------------------ *)
(* Path clean-up (collapse): remove empty, "." and ".." components of a
   '/'-separated path, keeping one leading '/'.  [out] is the stack of kept
   components (most recent first), [cur] the component being read. *)

Fixpoint collapse_go (s : list N) (out : list (list N)) (cur : list N) : list N :=
  match s with
  | [] => concat (map (fun c => c ++ [47]) (rev out)) ++ cur
  | c :: r =>
    if c =? 47 then
      if (nlen cur =? 0) || bytes_eqb cur [46] then collapse_go r out []          (* "" and "." *)
      else if bytes_eqb cur [46; 46] then collapse_go r (tl out) []               (* ".." *)
      else collapse_go r (cur :: out) []
    else collapse_go r out (cur ++ [c])
  end.

Definition collapse (p : list N) : list N :=
  match p with
  | c :: rest => if c =? 47 then 47 :: collapse_go rest [] [] else collapse_go p [] []
  | [] => []
  end.

(* ------------------------------------------------------------------ *)
(* normalise                                                           *)

Definition replace_byte (a b : N) (l : list N) : list N := map (fun x => if x =? a then b else x) l.

(* split_name: (text up to and including the last '/', text after it) *)
Definition split_name (s : list N) : option (list N) * list N :=
  match last_index s 47 0 None with
  | None => (None, s)
  | Some i => (Some (firstn_N (i + 1) s), skipn_N (i + 1) s)
  end.

Definition has_lower (o : option (list N)) : bool :=
  match o with Some s => existsb is_lower s | None => false end.

Definition is_some {A} (o : option A) : bool := match o with Some _ => true | None => false end.

Definition has_flag (h : header) (flag : N) : bool := negb (N.land (h_extra_flags h) flag =? 0).

Definition F_PERMS : N := 1.
Definition F_UIDGID : N := 2.
Definition F_CCRC : N := 4.
Definition F_WINTS : N := 8.
Definition F_OS9 : N := 16.

Definition lhd : list N := [45; 108; 104; 100; 45].    (* "-lhd-" *)

Section WithTime.
  Variable mktime : N -> N -> N -> N -> Z -> N -> N.

  (* ftime_to_unix: the DOS stamp's bit fields handed to mktime *)
  Definition ftime_to_unix (raw : N) : N :=
    if raw =? 0 then 0 else
    let sec := N.land (N.shiftl raw 1) 62 in
    let mi := N.land (N.shiftr raw 5) 63 in
    let h := N.land (N.shiftr raw 11) 31 in
    let d := N.land (N.shiftr raw 16) 31 in
    let mon := (Z.of_N (N.land (N.shiftr raw 21) 15) - 1)%Z in
    let y := 80 + N.land (N.shiftr raw 25) 127 in
    N.land (mktime sec mi h d mon y) 4294967295.

  (* the fixed fields *)
  Definition norm_fixed (f : fields) : header :=
    let lv := f_level f in
    {| h_raw := encode_zeroed f; h_level := lv; h_method := f_method f;
       h_compressed_length := f_clen f; h_length := f_length f;
       h_timestamp := if lv <=? 1 then ftime_to_unix (f_time f) else f_time f;
       h_os_type := if 0 <? lv then f_os f else 0;
       h_crc := f_crc f; h_filename := None; h_path := None; h_symlink_target := None;
       h_extra_flags := 0; h_unix_perms := 0; h_unix_uid := 0; h_unix_gid := 0; h_os9_perms := 0;
       h_unix_username := None; h_unix_group := None; h_common_crc := 0;
       h_win_creation_time := 0; h_win_modification_time := 0; h_win_access_time := 0 |}.

  (* in-header name, levels 0 and 1 *)
  Definition norm_name (f : fields) (h : header) : header :=
    if (f_level f <=? 1) && negb (nlen (f_name f) =? 0) then
      let '(p, fn) := split_name (cstr (replace_byte 92 47 (f_name f))) in
      set_filename (set_path h p) (Some fn)
    else h.

  (* level-0 extended area *)
  Definition norm_area (f : fields) (h : header) : header :=
    let area := f_area f in
    if (f_level f =? 0) && negb (nlen area =? 0) && negb (bytes_eqb (firstn 3 (f_method f)) [45; 112; 109]) then
      let a0 := nth 0 area 0 in
      if ((a0 =? 85) || (a0 =? 75)) && (12 <=? nlen area) && (nth 1 area 0 =? 0) then
        let n := nlen area in
        add_flag (add_flag
          (set_unix_gid (set_unix_uid (set_unix_perms (set_timestamp (set_os_type h a0) (le_val (sub area 2 4)))
             (le_val (sub area (n - 6) 2))) (le_val (sub area (n - 4) 2))) (le_val (sub area (n - 2) 2)))
          F_PERMS) F_UIDGID
      else if (a0 =? 57) && (22 <=? nlen area) && (nth 9 area 0 =? 204)
              && (nth 1 area 0 =? nth 17 area 0) && (nth 2 area 0 =? nth 18 area 0) then
        add_flag (set_os9_perms (set_os_type h 57) (le_val (sub area 1 2))) F_OS9
      else h
    else h.

  (* one extended header; [cc] is the value of the common CRC *)
  Definition norm_ext (cc : N) (h : header) (e : N * list N) : header :=
    let '(t, p) := e in
    let n := nlen p in
    if (t =? 0) && (2 <=? n) then set_common_crc (add_flag h F_CCRC) cc
    else if (t =? 1) && (1 <=? n) then set_filename h (Some (replace_byte 47 95 (cstr p)))
    else if (t =? 2) && (1 <=? n) then
      let q := if last p 0 =? 255 then p else p ++ [255] in
      set_path h (Some (cstr (replace_byte 255 47 q)))
    else if (t =? 65) && (24 <=? n) then
      set_win_times (add_flag h F_WINTS) (le_val (sub p 0 8)) (le_val (sub p 8 8)) (le_val (sub p 16 8))
    else if (t =? 80) && (2 <=? n) then set_unix_perms (add_flag h F_PERMS) (le_val (sub p 0 2))
    else if (t =? 81) && (4 <=? n) then
      set_unix_uid (set_unix_gid (add_flag h F_UIDGID) (le_val (sub p 0 2))) (le_val (sub p 2 2))
    else if (t =? 82) && (1 <=? n) then set_unix_group h (Some (cstr p))
    else if (t =? 83) && (1 <=? n) then set_unix_username h (Some (cstr p))
    else if (t =? 84) && (4 <=? n) then set_timestamp h (le_val (sub p 0 4))
    else if (t =? 204) && (12 <=? n) then add_flag (set_os9_perms h (le_val (sub p 7 2))) F_OS9
    else h.

  (* everything that is read off the header bytes *)
  Definition norm_decoded (f : fields) : header :=
    fold_left (norm_ext (common_crc_of f)) (f_exts f) (norm_area f (norm_name f (norm_fixed f))).

  (* Amiga directories stored as -lh0- *)
  Definition norm_amiga (h : header) : header :=
    if (h_os_type h =? 65) && bytes_eqb (cstr (h_method h)) [45; 108; 104; 48; 45] && (h_length h =? 0)
       && negb (is_some (h_filename h))
    then set_method h lhd else h.

  (* files need a name, directories a path; directories with symlink
     permissions are symbolic links "name|target" *)
  Definition norm_kind (h : header) : option header :=
    if negb (bytes_eqb (cstr (h_method h)) lhd) then
      (if is_some (h_filename h) then Some h else None)
    else if has_flag h F_PERMS && (is_some (h_path h) || is_some (h_filename h))
            && (N.land (h_unix_perms h) 61440 =? 40960) then
      let full := opt_str (h_path h) ++ opt_str (h_filename h) in
      match first_index full 124 0 with
      | None => None
      | Some i =>
        let '(p, fn) := split_name (firstn_N i full) in
        Some (set_filename (set_path (set_symlink_target h (Some (skipn_N (i + 1) full))) p) (Some fn))
      end
    else (if is_some (h_path h) then Some h else None).

  (* names from DOS-like systems without any lower-case letter are lower-cased *)
  Definition norm_case (h : header) : header :=
    let os := h_os_type h in
    if ((os =? 0) || (os =? 77) || (os =? 97) || (os =? 32) || (os =? 50))
       && negb (has_lower (h_path h)) && negb (has_lower (h_filename h))
    then set_filename (set_path h (option_map (map to_lower) (h_path h))) (option_map (map to_lower) (h_filename h))
    else h.

  Definition norm_collapse (h : header) : header := set_path h (option_map collapse (h_path h)).

  (* OS-9/68k stores OS-9 permissions in the Unix field; OS-9 permissions are mapped to Unix bits *)
  Definition norm_os9 (h : header) : header :=
    let h1 := if (h_os_type h =? OS9_68K) && has_flag h F_PERMS
              then add_flag (set_os9_perms h (h_unix_perms h)) F_OS9 else h in
    if has_flag h1 F_OS9 then
      let o := h_os9_perms h1 in
      let b m := if N.land o m =? 0 then 0 else 1 in
      let up := N.lor (N.lor (N.lor (N.lor (N.lor (N.lor (N.lor (N.lor (N.lor
                  (N.shiftl (b 128) 14) (N.shiftl (b 1) 8)) (N.shiftl (b 2) 7)) (N.shiftl (b 4) 6))
                  (N.shiftl (b 8) 5)) (N.shiftl (b 16) 4)) (N.shiftl (b 32) 3))
                  (N.shiftl (b 8) 2)) (N.shiftl (b 16) 1)) (b 32) in
      set_unix_perms (add_flag h1 F_PERMS) up
    else h1.

  (* LHARK's -lh7- is reported as -lk7- *)
  Definition norm_lhark (h : header) : header :=
    if (h_level h =? 1) && (h_os_type h =? 32) && bytes_eqb (firstn 5 (cstr (h_method h))) [45; 108; 104; 55; 45]
    then set_method h [45; 108; 107; 55; 45] else h.

  Definition normalise (f : fields) : option header :=
    match norm_kind (norm_amiga (norm_decoded f)) with
    | None => None
    | Some h => Some (norm_lhark (norm_os9 (norm_collapse (norm_case h))))
    end.

End WithTime.

(* ------------------------------------------------------------------ *)
(* Machine-checked instances of the C05 statement, one per level       *)

(* level 0, Unix extended area, a path with '\' separators and upper-case letters *)
Definition ex_l0 : fields :=
  {| f_level := 0; f_method := [45; 108; 104; 53; 45]; f_clen := 300; f_length := 70000; f_time := 662668474;
     f_attr := 32; f_os := 0; f_crc := 48879;
     f_name := [68; 73; 82; 92; 46; 92; 83; 85; 66; 92; 46; 46; 92; 82; 69; 65; 68; 77; 69];   (* DIR\.\SUB\..\README *)
     f_exts := [];
     f_area := [85; 0; 120; 86; 52; 18; 164; 129; 232; 3; 100; 0] |}.

(* level 1, LHARK -lh7-, file name and path headers, an unknown header, common CRC, OS-9 permissions *)
Definition ex_l1 : fields :=
  {| f_level := 1; f_method := [45; 108; 104; 55; 45]; f_clen := 9; f_length := 4294967295; f_time := 33;
     f_attr := 32; f_os := 32; f_crc := 4660;
     f_name := [79; 76; 68; 46; 84; 88; 84];
     f_exts := [ (1, [78; 69; 87; 47; 78; 65; 77; 69]);                    (* NEW/NAME -> NEW_NAME *)
                 (2, [65; 255; 46; 46; 255; 66; 255; 67]);                 (* A\xff..\xffB\xffC *)
                 (57, [1; 2; 3]);
                 (0, [0; 0; 7]);
                 (204, [0; 0; 0; 0; 0; 0; 0; 173; 0; 0; 0; 0]);
                 (84, [4; 3; 2; 1]) ];
     f_area := [] |}.

(* level 2, OS-9/68k (length two short), a symbolic link, uid/gid, user and group names, common CRC twice *)
Definition ex_l2 : fields :=
  {| f_level := 2; f_method := [45; 108; 104; 100; 45]; f_clen := 0; f_length := 0; f_time := 2147483648;
     f_attr := 16; f_os := 75; f_crc := 0;
     f_name := [];
     f_exts := [ (0, [0; 0]);
                 (80, [255; 161]);                                          (* 0120777 = 0xA1FF *)
                 (2, [117; 115; 114; 255; 108; 105; 98; 255]);             (* usr/lib/ *)
                 (1, [108; 110; 107; 124; 46; 46; 47; 116; 103; 116]);     (* lnk|../tgt *)
                 (81, [10; 0; 20; 0]);
                 (83, [114; 111; 111; 116; 0; 120]);
                 (82, [119; 104; 101; 101; 108]);
                 (0, [1; 2; 3; 4]) ];
     f_area := [] |}.

(* level 3, Windows time stamps, Unix permissions, a directory entry, a short (ignored) uid/gid header *)
Definition ex_l3 : fields :=
  {| f_level := 3; f_method := [45; 108; 104; 100; 45]; f_clen := 0; f_length := 0; f_time := 4294967295;
     f_attr := 16; f_os := 77; f_crc := 0;
     f_name := [];
     f_exts := [ (65, [1; 2; 3; 4; 5; 6; 7; 8; 9; 10; 11; 12; 13; 14; 15; 16; 17; 18; 19; 20; 21; 22; 23; 24; 25]);
                 (2, [47; 255; 255; 84; 79; 80; 255; 46; 255; 83; 85; 66]);   (* /\xff\xffTOP\xff.\xffSUB *)
                 (81, [1; 2; 3]);
                 (80, [237; 65]);
                 (0, [9; 9]) ];
     f_area := [] |}.

Definition ex_data : list N := [1; 2; 3; 4; 5; 6; 7; 8; 9].

Example ex_l0_wf : wf_fields ex_l0 = true. Proof. vm_compute. reflexivity. Qed.
Example ex_l1_wf : wf_fields ex_l1 = true. Proof. vm_compute. reflexivity. Qed.
Example ex_l2_wf : wf_fields ex_l2 = true. Proof. vm_compute. reflexivity. Qed.
Example ex_l3_wf : wf_fields ex_l3 = true. Proof. vm_compute. reflexivity. Qed.

Example ex_accepted :
  map (fun f => is_some (normalise mktime_utc f)) [ex_l0; ex_l1; ex_l2; ex_l3] = [true; true; true; true].
Proof. vm_compute. reflexivity. Qed.

Example ex_l0_roundtrip :
  lha_file_header_read mktime_utc (ready_stream (encode_header ex_l0 ++ ex_data)) =
  Ok (normalise mktime_utc ex_l0, ready_stream_after ex_l0 ex_data).
Proof. vm_compute. reflexivity. Qed.

Example ex_l1_roundtrip :
  lha_file_header_read mktime_utc (ready_stream (encode_header ex_l1 ++ ex_data)) =
  Ok (normalise mktime_utc ex_l1, ready_stream_after ex_l1 ex_data).
Proof. vm_compute. reflexivity. Qed.

Example ex_l2_roundtrip :
  lha_file_header_read mktime_utc (ready_stream (encode_header ex_l2 ++ ex_data)) =
  Ok (normalise mktime_utc ex_l2, ready_stream_after ex_l2 ex_data).
Proof. vm_compute. reflexivity. Qed.

Example ex_l3_roundtrip :
  lha_file_header_read mktime_utc (ready_stream (encode_header ex_l3 ++ ex_data)) =
  Ok (normalise mktime_utc ex_l3, ready_stream_after ex_l3 ex_data).
Proof. vm_compute. reflexivity. Qed.

(* P_CliTreeAny.v -- C06: the forest theorem of P_CliTreeGen.v for archives that
   may hold members from MacLHA.  The archive abstraction [positionedA] asks of a
   regular member only that it tests good (lha_reader_check = true) and that
   the bytes bs of the description are the bytes its run hands out; for a plain
   member these have the header's length and CRC (P_MacExtract.good_run_plain),
   for a MacOS member they are the fork inside the MacBinary envelope, or the
   bytes as they are without a valid envelope (P_MacExtract.good_run_mac). *)
From Lhasa Require Import Base ListN DecBase Loop Generated Crc16 InputStream Header BasicReader
  AnyDecoder Decoder MacBinary Fs FsRun Reader Glob ListOut CliFilter CliExtract
  P_ReaderCheck P_FsExtract P_ReaderExtract P_CliExtract P_CliTree P_FsReplace P_CliOverwrite P_CliExtractGen
  P_CliTreeGen P_DecoderTrace P_MacContent P_MacExtract.
From Coq Require Import ZifyBool ZifyN ZifyNat.
Local Open Scope N_scope.

Set Default Timeout 120.

(* a regular member c of the directory dl, of any origin *)
Definition file_hdrA (dl : list name) (c : name) (h : header) : Prop :=
  opt_str (h_path h) = dirstr dl /\ h_filename h = Some c /\ is_dir_method h = false /\ h_symlink_target h = None.


Fixpoint wf_itemA (u : N) (uid0 : bool) (dl : list name) (it : item) : Prop :=
  match it with
  | IFile c h bs => good_name c /\ nlen (dirstr dl ++ c) <= 4095 /\ file_hdrA dl c h /\
                    (uid0 = true \/ drop_setid (fmode u h) = fmode u h)
  | ILink c h tgt => good_name c /\ nlen (dirstr dl ++ c) <= 4095 /\ link_hdr dl c h tgt
  | IDir c h sub => good_name c /\ nlen (dirstr (dl ++ [c])) <= 4095 /\ dir_hdr dl c h /\
                    NoDup (map iname sub) /\
                    (fix all (l : list item) : Prop :=
                       match l with [] => True | x :: r => wf_itemA u uid0 (dl ++ [c]) x /\ all r end) sub
  end.

Lemma wf_allA u uid0 dl : forall l,
  (fix all (l : list item) : Prop := match l with [] => True | x :: r => wf_itemA u uid0 dl x /\ all r end) l <->
  Forall (wf_itemA u uid0 dl) l.
Proof.
  induction l as [|x r IH].
  - split; intros H; [constructor|exact I].
  - split; intros H.
    + destruct H as [H1 H2]. constructor; [exact H1|apply IH; exact H2].
    + inversion H; subst. split; [assumption|]. apply IH. assumption.
Qed.


(* the path string of the first member of an item of dl *)
Lemma ser_head_pstrA u uid0 dl it : wf_itemA u uid0 dl it ->
  exists m tl, ser it = m :: tl /\ hdr m = ihdr it /\
    (pstr m = dirstr dl \/ pstr m = dirstr (dl ++ [iname it])).
Proof.
  destruct it as [c h bs|c h tgt|c h sub]; cbn [wf_itemA ser].
  - intros (_ & _ & (Hp & _) & _). eexists _, _. split; [reflexivity|]. split; [reflexivity|]. left. exact Hp.
  - intros (_ & _ & (Hp & _)). eexists _, _. split; [reflexivity|]. split; [reflexivity|]. left. exact Hp.
  - intros (_ & _ & (Hp & _) & _). eexists _, _. split; [reflexivity|]. split; [reflexivity|]. right.
    unfold pstr. cbn [hdr iname]. rewrite Hp. reflexivity.
Qed.


Section TreeAny.
  Variable mktime : N -> N -> N -> N -> Z -> N -> N.
  Variable junk : N.
  Variable f : lha_filter.
  Hypothesis Hnofilter : f_filters f = [].

  (* [positionedA br ms]: the basic reader br has just delivered the header of the
     first member of ms (none at the end of the archive); a regular member
     decodes -- whatever the reader's bookkeeping -- to its bytes, and the next
     header is read after that *)
  Inductive positionedA : breader -> list member -> Prop :=
  | posA_end br : br_curr br = None -> positionedA br []
  | posA_file br h bs ms : br_curr br = Some h ->
      (forall r, rd_br r = br -> rd_type r = CT_NORMAL -> rd_curr r = Some h ->
         exists r2 chunks, member_good junk r r2 /\ good_run junk r h r2 chunks /\ concat chunks = bs /\
           exists x br', lha_basic_reader_next_file mktime (rd_br r2) = Ok (x, br') /\ positionedA br' ms) ->
      positionedA br (MFile h bs :: ms)
  | posA_other br h ms x br' : br_curr br = Some h ->
      lha_basic_reader_next_file mktime br = Ok (x, br') -> positionedA br' ms ->
      positionedA br (MOther h :: ms).

  Definition upcomingA (r : reader) (ms : list member) : Prop :=
    exists br1, fetch mktime r = Ok (br1, false) /\ positionedA br1 ms.

  Lemma present_entryA r stk dl ms m ip :
    rinv r stk -> stack_ok stk dl -> upcomingA r (m :: ms) ->
    (h_path (hdr m) = Some ip \/ dl = []) -> pstr m = ip -> is_prefix (dirstr dl) ip = true ->
    exists br1, positionedA br1 (m :: ms) /\
      lha_reader_next_file mktime r = Ok (Some (hdr m), mk_reader br1 (Some (hdr m)) CT_NORMAL stk false).
  Proof.
    intros (Hpol & Hdef & Hstk & Hty) Hso (br1 & Hf & Hpos) Hp Hs Hpre.
    exists br1. split; [exact Hpos|].
    rewrite (next_file_eq mktime r Hty), Hf. cbn [bind].
    assert (Hcur : br_curr br1 = Some (hdr m)) by (inversion Hpos; subst; assumption).
    rewrite (present_real r br1 false (hdr m) stk Hpol Hstk Hcur (nopop_in_dir stk dl (hdr m) ip Hso Hp Hs Hpre)).
    rewrite Hdef. reflexivity.
  Qed.

  Lemma present_fakeA r h stk dl c ms :
    rinv r (h :: stk) -> h_path h = Some (dirstr (dl ++ [c])) -> upcomingA r ms -> outside (dl ++ [c]) ms ->
    exists br1, positionedA br1 ms /\
      lha_reader_next_file mktime r = Ok (Some h, mk_reader br1 (Some h) CT_FAKE_DIR stk false).
  Proof.
    intros (Hpol & Hdef & Hstk & Hty) Hp (br1 & Hf & Hpos) Hout.
    exists br1. split; [exact Hpos|].
    rewrite (next_file_eq mktime r Hty), Hf. cbn [bind].
    rewrite (present_pop r br1 false h stk (dirstr (dl ++ [c])) Hpol Hstk Hp).
    - rewrite Hdef. reflexivity.
    - destruct ms as [|m ms']; [left; inversion Hpos; subst; assumption|right].
      exists (hdr m). split; [inversion Hpos; subst; assumption|exact Hout].
  Qed.

  Lemma upcoming_mkA br1 c stk ms : positionedA br1 ms -> upcomingA (mk_reader br1 c CT_FAKE_DIR stk false) ms.
  Proof. intros H. exists br1. split; [reflexivity|exact H]. Qed.

  (* the run of a member determines its chunks *)
  Lemma good_run_det r h r2 c1 r2' c2 : good_run junk r h r2 c1 -> good_run junk r h r2' c2 -> c1 = c2.
  Proof.
    intros (ev1 & r1 & Hop & Hrun & _) (ev1' & r1' & Hop' & Hrun' & _).
    rewrite Hop in Hop'. inversion Hop'; subst ev1' r1'.
    destruct (dd_run_det junk _ _ _ _ _ _ Hrun _ _ _ Hrun') as (E & _). exact E.
  Qed.
End TreeAny.

Section ForestAny.
  Variable mktime : N -> N -> N -> N -> Z -> N -> N.
  Variable junk : N.
  Variable f : lha_filter.
  Hypothesis Hnofilter : f_filters f = [].
  Variables (u : N) (uid0 : bool).
  Hypothesis Humask : umask_ok u.
  Variable bl : list name.

  Notation step := (extract_archive_step mktime junk f).
  Notation upcomingA := (upcomingA mktime junk).
  Notation positionedA := (positionedA mktime junk).
  Notation iters_one := (iters_one mktime junk f).

  (* the first entry after the contents of the directory c of dl is outside it *)
  Lemma outside_childA dl c more rest :
    good_name c -> Forall (wf_itemA u uid0 dl) more -> ~ In c (map iname more) -> outside dl rest ->
    outside (dl ++ [c]) (flat_map ser more ++ rest).
  Proof.
    intros Hc Hwf Hnin Hout. destruct more as [|x more'].
    - cbn [flat_map app]. destruct rest as [|m rest']; [exact I|]. cbn [outside] in *.
      destruct (is_prefix (dirstr (dl ++ [c])) (pstr m)) eqn:E; [|reflexivity].
      rewrite dirstr_app in E. apply is_prefix_weaken in E. congruence.
    - inversion Hwf as [|x0 m0 Hx Hm]; subst x0 m0.
      destruct (ser_head_pstrA u uid0 dl x Hx) as (m & tl & Es & _ & Hps).
      cbn [flat_map]. rewrite Es. cbn [app outside].
      rewrite dirstr_snoc. destruct Hps as [Hps|Hps]; rewrite Hps.
      + rewrite <- (app_nil_r (dirstr dl)) at 2. rewrite is_prefix_cancel. apply is_prefix_nil_r.
        destruct c; discriminate.
      + rewrite dirstr_snoc, is_prefix_cancel.
        destruct (is_prefix (c ++ [47]) (iname x ++ [47])) eqn:E; [|reflexivity].
        exfalso. apply Hnin. left. symmetry. apply is_prefix_names; [apply Hc| |exact E].
        destruct x as [c' h' bs'|c' h' t'|c' h' sub']; cbn [wf_itemA iname] in *; apply Hx.
  Qed.

  Lemma forest_run_any : forall n its, (sizes its <= n)%nat -> forall dl rest st b o pm t ents stk,
    Forall (wf_itemA u uid0 dl) its -> Forall (fits bl dl) its -> NoDup (map iname its) -> (forall c, In c (map iname its) -> lookup ents c = None) ->
    pfx_opts bl (cs_opts st) -> fs_umask (cs_fs st) = u -> fs_uid0 (cs_fs st) = uid0 ->
    dir_ready (cs_fs st) (bl ++ dl) o pm t ents -> N.land pm 1024 = 0 ->
    rinv (cs_reader st) stk -> stack_ok stk dl ->
    upcomingA (cs_reader st) (flat_map ser its ++ rest) -> outside dl rest ->
    exists st', iters step (sizes its) (b, st) (b, st') /\
      cs_opts st' = cs_opts st /\ same_env (cs_fs st) (cs_fs st') /\
      rinv (cs_reader st') stk /\ upcomingA (cs_reader st') rest /\
      match its with
      | [] => st' = st
      | _ => fs_root (cs_fs st') = update_at (fs_root (cs_fs st)) (fs_cwd (cs_fs st) ++ bl ++ dl)
                                     (const_some (Dir o pm now (ents ++ builds u its)))
      end.
  Proof.
    induction n as [|n IHn]; intros its Hsz dl rest st b o pm t ents stk Hwf Hfit Hnd Hfresh Hopts Hum Huid Hready Hsg Hrinv Hso Hup Hout.
    - destruct its as [|it more].
      + exists st. split; [constructor|]. split; [reflexivity|]. split; [apply same_env_refl|]. auto.
      + exfalso. cbn [sizes fold_right] in Hsz. destruct it; cbn [size] in Hsz; lia.
    - destruct its as [|it more].
      + exists st. split; [constructor|]. split; [reflexivity|]. split; [apply same_env_refl|]. auto.
      + inversion Hwf as [|it0 more0 Hit Hmore]; subst it0 more0. inversion Hfit as [|it1 more1 Hfi Hfm]; subst it1 more1. cbn [map] in Hnd. inversion Hnd as [|c0 l0 Hnin Hnd']; subst c0 l0.
        assert (Hsz1 : (1 <= size it)%nat) by (destruct it; cbn [size]; lia).
        assert (Hszs : sizes (it :: more) = (size it + sizes more)%nat) by reflexivity.
        (* after the head item, the tail *)
        assert (Htail : forall st1, iters step (size it) (b, st) (b, st1) ->
                  cs_opts st1 = cs_opts st -> same_env (cs_fs st) (cs_fs st1) -> rinv (cs_reader st1) stk ->
                  upcomingA (cs_reader st1) (flat_map ser more ++ rest) ->
                  fs_root (cs_fs st1) = update_at (fs_root (cs_fs st)) (fs_cwd (cs_fs st) ++ bl ++ dl)
                                          (const_some (Dir o pm now (ents ++ [(iname it, build u it)]))) ->
                  exists st', iters step (sizes (it :: more)) (b, st) (b, st') /\
                    cs_opts st' = cs_opts st /\ same_env (cs_fs st) (cs_fs st') /\
                    rinv (cs_reader st') stk /\ upcomingA (cs_reader st') rest /\
                    fs_root (cs_fs st') = update_at (fs_root (cs_fs st)) (fs_cwd (cs_fs st) ++ bl ++ dl)
                                            (const_some (Dir o pm now (ents ++ builds u (it :: more))))).
        { intros st1 Hit1 Hopts1 Henv1 Hrinv1 Hup1 Hroot1.
          assert (Hready1 : dir_ready (cs_fs st1) (bl ++ dl) o pm now (ents ++ [(iname it, build u it)])).
          { eapply dir_ready_update; eauto. }
          destruct (IHn more ltac:(lia) dl rest st1 b o pm now (ents ++ [(iname it, build u it)]) stk) as
              (st' & Hit' & Hopts' & Henv' & Hrinv' & Hup' & Hroot'); auto.
          { intros c Hin. rewrite lookup_app_none by (apply Hfresh; right; exact Hin). cbn [lookup].
            rewrite name_eqb_neq; [reflexivity|]. intros E. subst c. contradiction. }
          { rewrite Hopts1. exact Hopts. }
          { destruct Henv1 as (_ & _ & E). congruence. }
          { destruct Henv1 as (_ & E & _). congruence. }
          exists st'. split; [rewrite Hszs; eapply iters_app; eauto|].
          split; [congruence|]. split; [exact (same_env_trans _ _ _ Henv1 Henv')|].
          split; [exact Hrinv'|]. split; [exact Hup'|].
          destruct more as [|x more'].
          - subst st'. rewrite Hroot1. reflexivity.
          - rewrite Hroot', Hroot1. destruct Henv1 as (Ec & _ & _). rewrite Ec, update_const_twice.
            cbn [builds map]. rewrite <- app_assoc. reflexivity. }
        pose proof Hrinv as (Hpol & Hdef & Hstk & Htyne).
        pose proof Hopts as (Hu & Hdry & Hfull).
        assert (Hgdl : Forall good_name dl) by (destruct Hready as (Hg0 & _); apply Forall_app in Hg0; apply Hg0).
        destruct it as [c h bs|c h tgt|c h sub]; cbn [wf_itemA] in Hit; cbn [fits] in Hfi; cbn [iname build] in Htail; cbn [iname] in Hnin;
          cbn [flat_map ser app] in Hup.
        * (* a regular file *)
          destruct Hit as (Hc & Hlen & Hfh & Hmode). destruct Hfh as (Hp & Hf & Hdm & Hsl).
          assert (Hfn : file_full_path h (cs_opts st) = dirstr (bl ++ dl) ++ c) by (rewrite (Hfull h dl Hgdl Hp), Hf, (skip_slashes_name c Hc); reflexivity).
          destruct (present_entryA mktime junk (cs_reader st) stk dl _ (MFile h bs) (dirstr dl) Hrinv Hso Hup)
            as (br1 & Hpos & Hnext); [apply hpath_some; exact Hp|exact Hp|apply is_prefix_refl|].
          cbn [hdr] in Hnext. set (r1 := mk_reader br1 (Some h) CT_NORMAL stk false) in *.
          inversion Hpos as [|br0 h0 bs0 ms0 Hcur Hdec|]; subst br0 h0 bs0 ms0.
          destruct (Hdec r1 eq_refl eq_refl eq_refl) as (r2 & chunks0 & Hmem & Hgr0 & Hbs & x & br' & Hbn & Hpos').
          assert (Hl0 : lookup ents c = None) by (apply Hfresh; left; reflexivity).
          assert (Hmode' : fs_uid0 (cs_fs st) = true \/ drop_setid (file_mode (cs_fs st) h) = file_mode (cs_fs st) h).
          { rewrite file_mode_fmode, Hum. destruct Hmode as [Hm|Hm]; [left; congruence|right; exact Hm]. }
          destruct (gen_file_good junk h (set_reader st r1) (bl ++ dl) c o pm t ents r2) as (st2 & chunks & Hex & Hrd2 & Hopts2 & Henv2 & Hroot2 & Hgr); auto.
          cbn [cs_fs set_reader cs_opts cs_reader] in *.
          assert (Ech : chunks = chunks0) by (eapply good_run_det; eauto). subst chunks. rewrite Hbs in Hroot2.
          pose proof (good_book junk r1 r2 Hmem eq_refl h eq_refl Hdm) as Hbook. unfold book in Hbook. cbn [r1 mk_reader rd_curr rd_type rd_policy rd_dir_stack rd_deferred rd_linked] in Hbook.
          injection Hbook as B1 B2 B3 B4 B5 B6.
          apply (Htail st2).
          { apply iters_one. eapply step_entry; eauto. }
          { exact Hopts2. } { exact Henv2. }
          { rewrite Hrd2. split; [exact B3|]. split; [exact B5|]. split; [exact B4|]. rewrite B2. discriminate. }
          { rewrite Hrd2. exists br'. split; [|exact Hpos']. unfold fetch. rewrite B2, Hbn. reflexivity. }
          { rewrite Hroot2, file_mode_fmode, Hum. reflexivity. }
        * (* a safe symbolic link *)
          destruct Hit as (Hc & Hlen & Hlh). destruct Hlh as (Hp & Hf & Hdm & Hsl & Hsafe & Htne & Htlen).
          assert (Hfn : file_full_path h (cs_opts st) = dirstr (bl ++ dl) ++ c) by (rewrite (Hfull h dl Hgdl Hp), Hf, (skip_slashes_name c Hc); reflexivity).
          destruct (present_entryA mktime junk (cs_reader st) stk dl _ (MOther h) (dirstr dl) Hrinv Hso Hup)
            as (br1 & Hpos & Hnext); [apply hpath_some; exact Hp|exact Hp|apply is_prefix_refl|].
          cbn [hdr] in Hnext. set (r1 := mk_reader br1 (Some h) CT_NORMAL stk false) in *.
          inversion Hpos as [| |br0 h0 ms0 x br' Hcur Hbn Hpos']; subst br0 h0 ms0.
          assert (Hl0 : lookup ents c = None) by (apply Hfresh; left; reflexivity).
          destruct (gen_link junk h (set_reader st r1) (bl ++ dl) c o pm t ents tgt) as (st2 & Hex & Hopts2 & Hrd2 & Henv2 & Hroot2); auto.
          cbn [cs_fs set_reader cs_opts cs_reader] in *.
          apply (Htail st2).
          { apply iters_one. eapply step_entry; eauto. }
          { exact Hopts2. } { exact Henv2. }
          { rewrite Hrd2. repeat split; discriminate. }
          { rewrite Hrd2. exists br'. split; [|exact Hpos']. unfold fetch. cbn [r1 mk_reader rd_type rd_br]. rewrite Hbn. reflexivity. }
          { exact Hroot2. }
        * (* a directory, its contents, its fake entry *)
          destruct Hit as (Hc & Hlen & Hdh & Hndsub & Hwfsub). apply wf_allA in Hwfsub. destruct Hdh as (Hp & Hf & Hdm & Hsl).
          destruct Hfi as (Hlenb & Hfitsub). apply fits_all in Hfitsub.
          assert (Hps : opt_str (h_path h) = dirstr (dl ++ [c])) by (rewrite Hp; reflexivity).
          assert (Hgdlc : Forall good_name (dl ++ [c])) by (apply Forall_app; split; [exact Hgdl|constructor; [exact Hc|constructor]]).
          assert (Hfn : file_full_path h (cs_opts st) = dirstr ((bl ++ dl) ++ [c])) by (rewrite (Hfull h (dl ++ [c]) Hgdlc Hps), Hf, app_nil_r, app_assoc; reflexivity).
          destruct (present_entryA mktime junk (cs_reader st) stk dl _ (MOther h) (dirstr (dl ++ [c])) Hrinv Hso Hup)
            as (br1 & Hpos & Hnext); [left; exact Hp|exact Hps|rewrite dirstr_app; apply is_prefix_app|].
          cbn [hdr] in Hnext. set (r1 := mk_reader br1 (Some h) CT_NORMAL stk false) in *.
          inversion Hpos as [| |br0 h0 ms0 x br' Hcur Hbn Hpos']; subst br0 h0 ms0.
          assert (Hl0 : lookup ents c = None) by (apply Hfresh; left; reflexivity).
          destruct (gen_dir junk h (set_reader st r1) (bl ++ dl) c o pm t ents) as (st2 & Hex & Hopts2 & Henv2 & Hrd2 & Hroot2); auto.
          cbn [cs_fs set_reader cs_opts cs_reader r1 mk_reader rd_br rd_curr rd_type rd_decoder rd_inner rd_policy rd_dir_stack rd_deferred] in *.
          rewrite Hum in Hroot2. set (m := dir_first_mode u h) in *.
          assert (Hready2 : dir_ready (cs_fs st2) (bl ++ dl) o pm now (ents ++ [(c, Dir true m now [])])).
          { eapply (dir_ready_update (cs_fs st) (cs_fs st2)); [exact Hready|exact Henv2|exact Hroot2]. }
          destruct (dir_req_bits h) as [R6 R7].
          destruct (mkdir_mode_owner u (dir_req h) (fs_uid0 (cs_fs st2)) now [] Humask R6 R7) as [Hsrch Hwrt].
          assert (Hready2' : dir_ready (cs_fs st2) (bl ++ dl ++ [c]) true m now []).
          { rewrite app_assoc. eapply dir_ready_enter; eauto. }
          rewrite <- app_assoc in Hpos'.
          destruct (IHn sub ltac:(cbn [sizes fold_right size] in Hsz; unfold sizes; lia) (dl ++ [c]) (flat_map ser more ++ rest) st2 b
                        true m now [] (h :: stk)) as (st3 & Hit3 & Hopts3 & Henv3 & Hrinv3 & Hup3 & Hroot3); auto.
          { rewrite Hopts2. exact Hopts. }
          { destruct Henv2 as (_ & _ & E). congruence. }
          { destruct Henv2 as (_ & E & _). congruence. }
          { apply mkdir_mode_nosgid. }
          { rewrite Hrd2. repeat split; discriminate. }
          { right. split; [destruct dl; discriminate|]. exists h, stk. split; [reflexivity|exact Hp]. }
          { rewrite Hrd2. exists br'. split; [|exact Hpos']. unfold fetch. cbn [rd_type rd_br]. rewrite Hbn. reflexivity. }
          { apply outside_childA; auto. }
          (* the state after the contents, in terms of the state before the directory entry *)
          assert (Hcwd2 : fs_cwd (cs_fs st2) = fs_cwd (cs_fs st)) by apply Henv2.
          assert (Hroot3' : fs_root (cs_fs st3) = update_at (fs_root (cs_fs st)) (fs_cwd (cs_fs st) ++ bl ++ dl)
                              (const_some (Dir o pm now (ents ++ [(c, Dir true m now (builds u sub))])))).
          { destruct sub as [|y sub'].
            - subst st3. exact Hroot2.
            - rewrite Hroot3, Hcwd2, (app_assoc bl), app_assoc.
              destruct Hready2 as (_ & _ & Hn2 & _). rewrite Hcwd2 in Hn2.
              rewrite (update_loc_to_parent _ _ o pm now _ c _ Hn2), (set_ent_last _ _ _ _ Hl0), Hroot2.
              apply update_const_twice. }
          assert (Henv23 : same_env (cs_fs st) (cs_fs st3)) by exact (same_env_trans _ _ _ Henv2 Henv3).
          assert (Hready3 : dir_ready (cs_fs st3) (bl ++ dl) o pm now (ents ++ [(c, Dir true m now (builds u sub))])).
          { eapply (dir_ready_update (cs_fs st) (cs_fs st3)); [exact Hready|exact Henv23|exact Hroot3']. }
          (* the fake entry *)
          destruct (present_fakeA mktime junk (cs_reader st3) h stk dl c (flat_map ser more ++ rest) Hrinv3 Hp Hup3)
            as (br3 & Hpos3 & Hnext3); [apply outside_childA; auto|].
          set (r4 := mk_reader br3 (Some h) CT_FAKE_DIR stk false) in *.
          assert (Hfn3 : file_full_path h (cs_opts (set_reader st3 r4)) = dirstr ((bl ++ dl) ++ [c])).
          { cbn [cs_opts set_reader]. rewrite Hopts3, Hopts2. exact Hfn. }
          assert (Hu3 : o_use_path (cs_opts (set_reader st3 r4)) = true).
          { cbn [cs_opts set_reader]. rewrite Hopts3, Hopts2. exact Hu. }
          assert (Hl3 : lookup (ents ++ [(c, Dir true m now (builds u sub))]) c = Some (Dir true m now (builds u sub))).
          { apply lookup_last. exact Hl0. }
          destruct (gen_fake junk h (set_reader st3 r4) (bl ++ dl) c o pm now (ents ++ [(c, Dir true m now (builds u sub))]) m (builds u sub))
            as (st5 & Hex5 & Hopts5 & Hrd5 & Hmeta); auto.
          cbn [cs_fs set_reader cs_opts cs_reader] in *.
          destruct Hmeta as (Henv5 & _ & ents5 & Hn5 & Hl5 & Hcase).
          apply (Htail st5).
          { replace (size (IDir c h sub)) with (1 + (sizes sub + 1))%nat by (cbn [size]; unfold sizes; lia).
            eapply iters_app; [apply iters_one; eapply step_entry; eauto|].
            eapply iters_app; [exact Hit3|]. apply iters_one. eapply step_entry; eauto. }
          { congruence. }
          { exact (same_env_trans _ _ _ Henv23 Henv5). }
          { rewrite Hrd5. repeat split; discriminate. }
          { rewrite Hrd5. apply upcoming_mkA. exact Hpos3. }
          { assert (Hcwd3 : fs_cwd (cs_fs st3) = fs_cwd (cs_fs st)) by apply Henv23.
            unfold dir_final_mode. fold m.
            destruct Hcase as [[Hr5 He5]|[Hr5 He5]].
            - subst ents5. rewrite (lookup_last _ _ _ Hl0) in Hl5. injection Hl5 as E1 E2.
              rewrite Hr5, Hroot3'. unfold builds. congruence.
            - rewrite Hr5, Hcwd3, Hroot3', update_const_twice, (set_ent_last _ _ _ _ Hl0). reflexivity. }
  Qed.

  (* the whole command, below bl (which exists) *)
  Theorem extract_archive_below_any its st o pm t ents :
    let s := cs_fs st in
    Forall (wf_itemA u uid0 []) its -> Forall (fits bl []) its -> NoDup (map iname its) ->
    (forall c, In c (map iname its) -> lookup ents c = None) ->
    pfx_opts bl (cs_opts st) -> fs_umask s = u -> fs_uid0 s = uid0 ->
    dir_ready s bl o pm t ents -> N.land pm 1024 = 0 ->
    rinv (cs_reader st) [] -> upcomingA (cs_reader st) (flat_map ser its) ->
    N.of_nat (sizes its) < 2 ^ 40 ->
    exists st', extract_archive mktime junk f st = Ok (RVal true, st') /\
      same_env s (cs_fs st') /\ cs_opts st' = cs_opts st /\
      match its with
      | [] => cs_fs st' = s
      | _ => fs_root (cs_fs st') = update_at (fs_root s) (fs_cwd s ++ bl) (const_some (Dir o pm now (ents ++ builds u its)))
      end.
  Proof.
    intros s Hwf Hfit Hnd Hfresh Hopts Hum Huid Hready Hsg Hrinv Hup Hsz.
    rewrite <- (app_nil_r (flat_map ser its)) in Hup. rewrite <- (app_nil_r bl) in Hready.
    destruct (forest_run_any (sizes its) its (le_n _) [] [] st true o pm t ents []
                Hwf Hfit Hnd Hfresh Hopts Hum Huid Hready Hsg Hrinv (or_introl eq_refl) Hup I)
      as (st1 & Hit & Hopts1 & Henv1 & Hrinv1 & Hup1 & Hroot1).
    destruct Hrinv1 as (Hpol1 & Hdef1 & Hstk1 & Hty1). destruct Hup1 as (br1 & Hf1 & Hpos1).
    assert (Hcur1 : br_curr br1 = None) by (inversion Hpos1; assumption).
    assert (Hnext : exists r', lha_reader_next_file mktime (cs_reader st1) = Ok (None, r')).
    { rewrite (next_file_eq mktime _ Hty1), Hf1. cbn [bind]. rewrite (present_end _ br1 false Hstk1 Hdef1 Hcur1). eauto. }
    destruct Hnext as [r' Hnext].
    pose proof (step_end mktime junk f Hnofilter true st1 r' Hnext) as Hend.
    assert (Hloops : loops (extract_archive_step mktime junk f) (sizes its + 0) (true, st) (RVal true, set_reader st1 r')).
    { eapply loops_after_iters; [exact Hit|]. constructor. exact Hend. }
    exists (set_reader st1 r'). split.
    - unfold extract_archive. destruct Hopts as (_ & Hd & _). rewrite Hd.
      eapply loop_complete_N; [exact Hloops|]. rewrite Nat.add_0_r. exact Hsz.
    - cbn [cs_fs set_reader cs_opts]. split; [exact Henv1|]. split; [exact Hopts1|].
      destruct its as [|it more]; [subst st1; reflexivity|].
      rewrite Hroot1, !app_nil_r. reflexivity.
  Qed.

End ForestAny.

Print Assumptions forest_run_any.
Print Assumptions extract_archive_below_any.

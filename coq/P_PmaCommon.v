(* P_PmaCommon.v -- proofs about the model of lib/pma_common.c (PmaCommon.v):
   the history linked list (a doubly linked circular list over the 256 byte
   values, stored in two uint8_t arrays) IS the move-to-front list of S_Pm.v.

     hl_list h          : the list read off by following [prev] from the head
                          256 times (the direction find_in_history_list walks
                          for small counts: newest first)
     hl_wf h            : both arrays have 256 entries and there is a
                          duplicate-free list of all 256 byte values along which
                          prev steps forward and next steps backward, cyclically
     init_history_list  : wf, hl_list = pm_mtf0
     find_in_history_list h count = nth count (hl_list h)
     update_history_list h b : wf again, hl_list = mtf_front (hl_list h) b
     decode_variable_length never faults for a table index inside the table.

   Method for update_history_list: the code only compares, reads and
   writes node indices, so it commutes with any relabelling sigma of the 256
   indices.  Every wf list is the relabelling (k |-> k-th element) of the
   canonical list 0,1,...,255, on which all 256 possible updates are checked
   by evaluation. *)
From Lhasa Require Import Base ListN DecBase BitReader Sweep Generated PmaCommon S_Pm P_BitReader.
From Coq Require Import ZifyBool ZifyN ZifyNat.
Local Open Scope N_scope.

Ltac Zify.zify_post_hook ::= Z.div_mod_to_equations.

(* ------------------------------------------------------------------ *)
(* uint8_t conversions                                                 *)

Lemma u8_mod x : u8 x = x mod 256.
Proof. unfold u8. change 255 with (N.ones 8). rewrite N.land_ones. reflexivity. Qed.

Lemma u8_lt x : u8 x < 256.
Proof. rewrite u8_mod. apply N.mod_lt. lia. Qed.

Lemma u8_small x : x < 256 -> u8 x = x.
Proof. intros H. rewrite u8_mod. apply N.mod_small. exact H. Qed.

(* ------------------------------------------------------------------ *)
(* small list facts                                                    *)

Definition nthN (l : list N) (k : N) : N := nth (N.to_nat k) l 0.

Lemma skipn_nth_cons {A} (d : A) : forall k (l : list A), (k < length l)%nat ->
  skipn k l = nth k l d :: skipn (S k) l.
Proof.
  induction k as [|k IH]; intros [|x l] H; simpl in H; try lia.
  - reflexivity.
  - cbn [skipn nth]. rewrite (IH l) by lia. reflexivity.
Qed.

Lemma nrange_length a n : length (nrange a n) = N.to_nat n.
Proof. unfold nrange. rewrite map_length, seq_length. reflexivity. Qed.

Lemma nrange_nth a n k d : (k < N.to_nat n)%nat -> nth k (nrange a n) d = a + N.of_nat k.
Proof.
  intros H. unfold nrange.
  rewrite (nth_indep _ d (a + N.of_nat 0)) by (rewrite map_length, seq_length; exact H).
  rewrite (map_nth (fun i => a + N.of_nat i)). rewrite seq_nth by exact H. reflexivity.
Qed.

Lemma nrange_In a n x : In x (nrange a n) <-> a <= x < a + n.
Proof.
  unfold nrange. rewrite in_map_iff. split.
  - intros (i & E & Hi). apply in_seq in Hi. lia.
  - intros H. exists (N.to_nat (x - a)). split; [lia|]. apply in_seq. lia.
Qed.

Lemma nthN_nrange k : k < 256 -> nthN (nrange 0 256) k = k.
Proof. intros H. unfold nthN. rewrite nrange_nth by lia. lia. Qed.

(* a duplicate-free list of 256 byte values contains every byte value *)
Lemma all_bytes_in l : length l = 256%nat -> NoDup l -> Forall (fun v => v < 256) l ->
  forall v, v < 256 -> exists k, k < 256 /\ nthN l k = v.
Proof.
  intros Hlen Hnd Hall v Hv.
  assert (Hin : In v l).
  { apply (NoDup_length_incl Hnd (l' := nrange 0 256)).
    - rewrite nrange_length, Hlen. reflexivity.
    - intros x Hx. rewrite Forall_forall in Hall. apply nrange_In. specialize (Hall x Hx). lia.
    - apply nrange_In. lia. }
  destruct (In_nth l v 0 Hin) as (n & Hn & E).
  exists (N.of_nat n). split; [lia|]. unfold nthN. rewrite Nat2N.id. exact E.
Qed.

Lemma map_inj_NoDup (f : N -> N) l :
  (forall x y, In x l -> In y l -> f x = f y -> x = y) -> NoDup l -> NoDup (map f l).
Proof.
  induction l as [|x l IH]; intros Hinj Hnd; [constructor|].
  inversion Hnd as [|? ? Hx Hl]; subst. cbn [map]. constructor.
  - intros Hin. apply in_map_iff in Hin. destruct Hin as (y & E & Hy).
    assert (y = x) by (apply Hinj; [right; exact Hy|left; reflexivity|exact E]). subst. contradiction.
  - apply IH; [|exact Hl]. intros a b Ha Hb. apply Hinj; right; assumption.
Qed.

Lemma filter_map_inj (f : N -> N) v l :
  (forall x, In x l -> f x = f v -> x = v) ->
  filter (fun x => negb (x =? f v)) (map f l) = map f (filter (fun x => negb (x =? v)) l).
Proof.
  induction l as [|x l IH]; intros Hinj; [reflexivity|].
  cbn [map filter]. rewrite IH by (intros y Hy; apply Hinj; right; exact Hy).
  destruct (N.eqb_spec (f x) (f v)) as [E|E]; destruct (N.eqb_spec x v) as [E'|E']; cbn [negb]; try reflexivity.
  - exfalso. apply E'. apply Hinj; [left; reflexivity|exact E].
  - subst. contradiction.
Qed.

(* ------------------------------------------------------------------ *)
(* Abstraction and invariant                                           *)

(* x, a[x], a[a[x]], ... (n entries) *)
Fixpoint walk (a : arr) (n : nat) (x : N) : list N :=
  match n with
  | O => []
  | S k => x :: walk a k (aget a x)
  end.

(* newest first: the head, then what [prev] leads to *)
Definition hl_list (h : hlist) : list N := walk (h_prev h) 256 (h_head h).

Definition hl_rep (h : hlist) (l : list N) : Prop :=
  length l = 256%nat /\ NoDup l /\ Forall (fun v => v < 256) l /\
  h_head h = nthN l 0 /\
  forall k, k < 256 ->
    aget (h_prev h) (nthN l k) = nthN l ((k + 1) mod 256) /\
    aget (h_next h) (nthN l ((k + 1) mod 256)) = nthN l k.

Definition hl_wf (h : hlist) : Prop :=
  alen (h_prev h) = 256 /\ alen (h_next h) = 256 /\ exists l, hl_rep h l.

Lemma rep_nth_lt h l k : hl_rep h l -> k < 256 -> nthN l k < 256.
Proof.
  intros (Hlen & _ & Hall & _) Hk. rewrite Forall_forall in Hall. apply Hall.
  unfold nthN. apply nth_In. lia.
Qed.

Lemma rep_nth_inj h l i j : hl_rep h l -> i < 256 -> j < 256 -> nthN l i = nthN l j -> i = j.
Proof.
  intros (Hlen & Hnd & _) Hi Hj E. unfold nthN in E.
  rewrite NoDup_nth in Hnd. specialize (Hnd (N.to_nat i) (N.to_nat j)).
  assert (N.to_nat i = N.to_nat j) by (apply Hnd; try lia; exact E). lia.
Qed.

Lemma walk_rep h l : hl_rep h l -> forall n k, k + N.of_nat n <= 256 ->
  walk (h_prev h) n (nthN l k) = firstn n (skipn (N.to_nat k) l).
Proof.
  intros Hrep. pose proof Hrep as (Hlen & _ & _ & _ & Hp).
  induction n as [|n IH]; intros k Hk; [reflexivity|].
  cbn [walk]. rewrite (skipn_nth_cons 0) by lia. cbn [firstn]. f_equal.
  destruct n as [|n]; [reflexivity|].
  destruct (Hp k) as [E _]; [lia|]. rewrite E.
  rewrite N.mod_small by lia. rewrite IH by lia. f_equal. f_equal. lia.
Qed.

(* the list is determined by the arrays: it is what the walk reads *)
Theorem hl_rep_list h l : hl_rep h l -> hl_list h = l.
Proof.
  intros Hrep. pose proof Hrep as (Hlen & _ & _ & Hh & _).
  unfold hl_list. rewrite Hh. rewrite (walk_rep h l Hrep) by lia.
  change (N.to_nat 0) with O. cbn [skipn]. apply firstn_all2. lia.
Qed.

Corollary hl_wf_rep h : hl_wf h -> hl_rep h (hl_list h).
Proof. intros (_ & _ & l & Hrep). rewrite (hl_rep_list h l Hrep). exact Hrep. Qed.

Corollary hl_list_length h : hl_wf h -> length (hl_list h) = 256%nat.
Proof. intros H. apply (hl_wf_rep h H). Qed.

Corollary hl_list_NoDup h : hl_wf h -> NoDup (hl_list h).
Proof. intros H. apply (hl_wf_rep h H). Qed.

Corollary hl_list_bytes h : hl_wf h -> Forall (fun v => v < 256) (hl_list h).
Proof. intros H. apply (hl_wf_rep h H). Qed.

(* every byte value is a node of the list *)
Lemma rep_surj h l v : hl_rep h l -> v < 256 -> exists k, k < 256 /\ nthN l k = v.
Proof. intros (Hlen & Hnd & Hall & _) Hv. apply all_bytes_in; assumption. Qed.

(* "prev and next are inverse permutations of the byte values" *)
Theorem hl_wf_perm h : hl_wf h -> forall i, i < 256 ->
  aget (h_prev h) i < 256 /\ aget (h_next h) i < 256 /\
  aget (h_next h) (aget (h_prev h) i) = i /\ aget (h_prev h) (aget (h_next h) i) = i.
Proof.
  intros Hwf i Hi. pose proof (hl_wf_rep h Hwf) as Hrep.
  set (l := hl_list h) in *.
  destruct (rep_surj h l i Hrep Hi) as (k & Hk & E).
  pose proof Hrep as (_ & _ & _ & _ & Hp).
  destruct (Hp k Hk) as [E1 E2].
  set (k' := (k + 255) mod 256).
  assert (Hk' : k' < 256) by (unfold k'; lia).
  assert (Ek : (k' + 1) mod 256 = k) by (unfold k'; lia).
  destruct (Hp k' Hk') as [E3 E4]. rewrite Ek in E3, E4.
  rewrite <- E. split; [rewrite E1; apply (rep_nth_lt h l _ Hrep); lia|].
  split; [rewrite E4; apply (rep_nth_lt h l _ Hrep); lia|].
  split; [rewrite E1; exact E2|rewrite E4; exact E3].
Qed.

Lemma hl_wf_head h : hl_wf h -> h_head h < 256.
Proof.
  intros Hwf. pose proof (hl_wf_rep h Hwf) as Hrep.
  pose proof Hrep as (_ & _ & _ & Hh & _). rewrite Hh. apply (rep_nth_lt h _ _ Hrep). lia.
Qed.

(* ------------------------------------------------------------------ *)
(* A boolean checker for hl_rep (used on concrete lists only)          *)

Fixpoint nodup_b (l : list N) : bool :=
  match l with
  | [] => true
  | x :: r => negb (existsb (N.eqb x) r) && nodup_b r
  end.

Lemma nodup_b_sound l : nodup_b l = true -> NoDup l.
Proof.
  induction l as [|x r IH]; intros H; [constructor|].
  cbn [nodup_b] in H. apply andb_true_iff in H. destruct H as [H1 H2].
  constructor; [|apply IH; exact H2].
  intros Hin. apply negb_true_iff in H1.
  assert (existsb (N.eqb x) r = true) by (apply existsb_exists; exists x; split; [exact Hin|apply N.eqb_refl]).
  congruence.
Qed.

Definition rep_b (h : hlist) (l : list N) : bool :=
  (N.of_nat (length l) =? 256) && nodup_b l && forallb (fun v => v <? 256) l &&
  (h_head h =? nthN l 0) &&
  sweep 8 (fun k =>
    (aget (h_prev h) (nthN l k) =? nthN l ((k + 1) mod 256)) &&
    (aget (h_next h) (nthN l ((k + 1) mod 256)) =? nthN l k)) 0.

Lemma rep_b_sound h l : rep_b h l = true -> hl_rep h l.
Proof.
  unfold rep_b. intros H.
  apply andb_true_iff in H. destruct H as [H H5].
  apply andb_true_iff in H. destruct H as [H H4].
  apply andb_true_iff in H. destruct H as [H H3].
  apply andb_true_iff in H. destruct H as [H1 H2].
  split; [apply N.eqb_eq in H1; lia|].
  split; [apply nodup_b_sound; exact H2|].
  split.
  { apply Forall_forall. intros x Hx. rewrite forallb_forall in H3. specialize (H3 x Hx). lia. }
  split; [apply N.eqb_eq; exact H4|].
  intros k Hk. pose proof (sweep_below 8 _ H5 k Hk) as E. cbv beta in E.
  apply andb_true_iff in E. destruct E as [E1 E2]. split; apply N.eqb_eq; assumption.
Qed.

(* ------------------------------------------------------------------ *)
(* init_history_list                                                   *)

Definition hl_dummy : hlist := {| h_prev := mk_arr 0 0; h_next := mk_arr 0 0; h_head := 0 |}.
Definition hl_init : hlist := match init_history_list with Ok h => h | _ => hl_dummy end.

Lemma init_history_list_eq : init_history_list = Ok hl_init.
Proof. vm_compute. reflexivity. Qed.

Lemma hl_init_rep : hl_rep hl_init pm_mtf0.
Proof. apply rep_b_sound. vm_compute. reflexivity. Qed.

Theorem init_history_list_wf :
  exists h, init_history_list = Ok h /\ hl_wf h /\ hl_list h = pm_mtf0.
Proof.
  exists hl_init. split; [exact init_history_list_eq|]. split.
  - split; [vm_compute; reflexivity|]. split; [vm_compute; reflexivity|].
    exists pm_mtf0. exact hl_init_rep.
  - apply hl_rep_list. exact hl_init_rep.
Qed.

(* ------------------------------------------------------------------ *)
(* find_in_history_list                                                *)

Lemma history_walk_S site n a code :
  history_walk site (S n) a code = (code' <- rd site a code ;; history_walk site n a code').
Proof. reflexivity. Qed.

Lemma history_walk_prev h l : hl_rep h l -> alen (h_prev h) = 256 ->
  forall n k, k + N.of_nat n <= 255 ->
  history_walk 913 n (h_prev h) (nthN l k) = Ok (nthN l (k + N.of_nat n)).
Proof.
  intros Hrep Hal. pose proof Hrep as (_ & _ & _ & _ & Hp).
  induction n as [|n IH]; intros k Hk.
  - cbn [history_walk]. f_equal. f_equal. lia.
  - rewrite history_walk_S. rewrite rd_ok by (rewrite Hal; apply (rep_nth_lt h l k Hrep); lia).
    cbn [bind]. destruct (Hp k) as [E _]; [lia|]. rewrite E. rewrite N.mod_small by lia.
    rewrite IH by lia. f_equal. f_equal. lia.
Qed.

Lemma history_walk_next h l : hl_rep h l -> alen (h_next h) = 256 ->
  forall n k, N.of_nat n <= k -> k < 256 ->
  history_walk 914 n (h_next h) (nthN l k) = Ok (nthN l (k - N.of_nat n)).
Proof.
  intros Hrep Hal. pose proof Hrep as (_ & _ & _ & _ & Hp).
  induction n as [|n IH]; intros k Hk Hk2.
  - cbn [history_walk]. f_equal. f_equal. lia.
  - rewrite history_walk_S. rewrite rd_ok by (rewrite Hal; apply (rep_nth_lt h l k Hrep); lia).
    cbn [bind]. destruct (Hp (k - 1)) as [_ E]; [lia|].
    replace ((k - 1 + 1) mod 256) with k in E by lia. rewrite E.
    rewrite IH by lia. f_equal. f_equal. lia.
Qed.

(* the node [count] steps from the head, whichever way round it is reached;
   no access outside the arrays *)
Theorem find_in_history_list_nth h count : hl_wf h ->
  find_in_history_list h count = Ok (nthN (hl_list h) (u8 count)) /\
  nthN (hl_list h) (u8 count) < 256.
Proof.
  intros Hwf. pose proof (hl_wf_rep h Hwf) as Hrep. destruct Hwf as (Hap & Han & _).
  set (l := hl_list h) in *.
  pose proof (u8_lt count) as Hc.
  split; [|apply (rep_nth_lt h l _ Hrep); exact Hc].
  pose proof Hrep as (_ & _ & _ & Hh & Hp).
  unfold find_in_history_list. cbv zeta.
  destruct (N.ltb_spec (u8 count) 128) as [Hlt|Hge].
  - rewrite Hh. rewrite (history_walk_prev h l Hrep Hap) by lia. f_equal. f_equal. lia.
  - replace (N.to_nat (256 - u8 count)) with (S (N.to_nat (255 - u8 count))) by lia.
    rewrite history_walk_S.
    rewrite rd_ok by (rewrite Han; apply hl_wf_head; split; [exact Hap|split; [exact Han|exists l; exact Hrep]]).
    cbn [bind]. rewrite Hh.
    destruct (Hp 255) as [_ E]; [lia|]. change ((255 + 1) mod 256) with 0 in E. rewrite E.
    rewrite (history_walk_next h l Hrep Han) by lia. f_equal. f_equal. lia.
Qed.

(* ------------------------------------------------------------------ *)
(* update_history_list: pure form                                      *)

Definition u8arr (a : arr) : Prop := alen a = 256 /\ forall i, i < 256 -> aget a i < 256.

Lemma u8arr_aset a i v : u8arr a -> v < 256 -> u8arr (aset a i v).
Proof.
  intros [Hl Hv] H. split; [rewrite alen_aset; exact Hl|].
  intros j Hj. rewrite aget_aset. destruct (i =? j); [exact H|apply Hv; exact Hj].
Qed.

Definition upd_pure (l : hlist) (b : N) : hlist :=
  let head := h_head l in
  if head =? b then l
  else
    let p := h_prev l in
    let nx := h_next l in
    let p1 := aset p (aget nx b) (aget p b) in
    let nx1 := aset nx (aget p1 b) (aget nx b) in
    let p2 := aset p1 b head in
    let nx2 := aset nx1 b (aget nx1 head) in
    let p3 := aset p2 (aget nx2 head) b in
    let nx3 := aset nx2 head b in
    {| h_prev := p3; h_next := nx3; h_head := b |}.

Definition hbnd (h : hlist) : Prop := u8arr (h_prev h) /\ u8arr (h_next h) /\ h_head h < 256.

Lemma update_history_list_pure h b : hbnd h -> b < 256 ->
  update_history_list h b = Ok (upd_pure h b) /\ hbnd (upd_pure h b).
Proof.
  intros (Hp & Hn & Hh) Hb. unfold update_history_list, upd_pure. cbv zeta.
  rewrite (u8_small b Hb).
  destruct (N.eqb_spec (h_head h) b) as [E|E]; [split; [reflexivity|split; [exact Hp|split; [exact Hn|exact Hh]]]|].
  pose proof Hp as [Lp Vp]. pose proof Hn as [Ln Vn].
  rewrite (rd_ok 915) by lia. cbn [bind]. rewrite (rd_ok 916) by lia. cbn [bind].
  assert (B1 : aget (h_next h) b < 256) by (apply Vn; exact Hb).
  assert (B2 : aget (h_prev h) b < 256) by (apply Vp; exact Hb).
  rewrite (wr_ok 917) by lia. cbn [bind].
  set (p1 := aset (h_prev h) (aget (h_next h) b) (aget (h_prev h) b)).
  assert (Hp1 : u8arr p1) by (apply u8arr_aset; assumption).
  pose proof Hp1 as [Lp1 Vp1].
  rewrite (rd_ok 918) by lia. cbn [bind]. rewrite (rd_ok 919) by lia. cbn [bind].
  assert (B3 : aget p1 b < 256) by (apply Vp1; exact Hb).
  rewrite (wr_ok 920) by lia. cbn [bind].
  set (nx1 := aset (h_next h) (aget p1 b) (aget (h_next h) b)).
  assert (Hn1 : u8arr nx1) by (apply u8arr_aset; assumption).
  pose proof Hn1 as [Ln1 Vn1].
  rewrite (wr_ok 921) by lia. cbn [bind].
  set (p2 := aset p1 b (h_head h)).
  assert (Hp2 : u8arr p2) by (apply u8arr_aset; assumption).
  pose proof Hp2 as [Lp2 Vp2].
  rewrite (rd_ok 922) by lia. cbn [bind].
  assert (B4 : aget nx1 (h_head h) < 256) by (apply Vn1; exact Hh).
  rewrite (wr_ok 923) by lia. cbn [bind].
  set (nx2 := aset nx1 b (aget nx1 (h_head h))).
  assert (Hn2 : u8arr nx2) by (apply u8arr_aset; assumption).
  pose proof Hn2 as [Ln2 Vn2].
  rewrite (rd_ok 924) by lia. cbn [bind].
  assert (B5 : aget nx2 (h_head h) < 256) by (apply Vn2; exact Hh).
  rewrite (wr_ok 925) by lia. cbn [bind].
  rewrite (wr_ok 926) by lia. cbn [bind].
  split; [reflexivity|].
  split; cbn [h_prev h_next h_head]; [apply u8arr_aset; assumption|].
  split; [apply u8arr_aset; assumption|exact Hb].
Qed.

(* ------------------------------------------------------------------ *)
(* relabelling                                                         *)

Definition relabel (sg : N -> N) : Prop :=
  (forall i, i < 256 -> sg i < 256) /\
  (forall i j, i < 256 -> j < 256 -> sg i = sg j -> i = j).

(* a' is a with every index and every stored value relabelled *)
Definition img (sg : N -> N) (a a' : arr) : Prop :=
  forall i, i < 256 -> aget a' (sg i) = sg (aget a i).

Lemma img_aset sg a a' i v : relabel sg -> img sg a a' -> i < 256 ->
  img sg (aset a i v) (aset a' (sg i) (sg v)).
Proof.
  intros [_ Hinj] Him Hi k Hk. rewrite !aget_aset.
  destruct (N.eqb_spec i k) as [E|E]; destruct (N.eqb_spec (sg i) (sg k)) as [E'|E']; try reflexivity.
  - subst. contradiction.
  - exfalso. apply E. apply Hinj; assumption.
  - apply Him. exact Hk.
Qed.

Definition hrel (sg : N -> N) (h0 h : hlist) : Prop :=
  img sg (h_prev h0) (h_prev h) /\ img sg (h_next h0) (h_next h) /\ h_head h = sg (h_head h0).

Lemma upd_pure_rel sg h0 h j : relabel sg -> hbnd h0 -> hrel sg h0 h -> j < 256 ->
  hrel sg (upd_pure h0 j) (upd_pure h (sg j)).
Proof.
  intros Hsg (Hp & Hn & Hh) (Ip & In_ & Eh) Hj. pose proof Hsg as [Hrng Hinj].
  unfold upd_pure. cbv zeta. rewrite Eh.
  destruct (N.eqb_spec (h_head h0) j) as [E|E]; destruct (N.eqb_spec (sg (h_head h0)) (sg j)) as [E'|E'].
  - split; [exact Ip|split; [exact In_|exact Eh]].
  - subst. contradiction.
  - exfalso. apply E. apply Hinj; assumption.
  - pose proof Hp as [Lp Vp]. pose proof Hn as [Ln Vn].
    assert (B1 : aget (h_next h0) j < 256) by (apply Vn; exact Hj).
    assert (B2 : aget (h_prev h0) j < 256) by (apply Vp; exact Hj).
    rewrite (In_ j Hj). rewrite (Ip j Hj).
    set (p1 := aset (h_prev h0) (aget (h_next h0) j) (aget (h_prev h0) j)).
    set (p1' := aset (h_prev h) (sg (aget (h_next h0) j)) (sg (aget (h_prev h0) j))).
    assert (I1 : img sg p1 p1') by (apply img_aset; assumption).
    assert (Hp1 : u8arr p1) by (apply u8arr_aset; assumption).
    pose proof Hp1 as [Lp1 Vp1].
    assert (B3 : aget p1 j < 256) by (apply Vp1; exact Hj).
    rewrite (I1 j Hj).
    set (nx1 := aset (h_next h0) (aget p1 j) (aget (h_next h0) j)).
    set (nx1' := aset (h_next h) (sg (aget p1 j)) (sg (aget (h_next h0) j))).
    assert (J1 : img sg nx1 nx1') by (apply img_aset; assumption).
    assert (Hn1 : u8arr nx1) by (apply u8arr_aset; assumption).
    pose proof Hn1 as [Ln1 Vn1].
    set (p2 := aset p1 j (h_head h0)).
    set (p2' := aset p1' (sg j) (sg (h_head h0))).
    assert (I2 : img sg p2 p2') by (apply img_aset; assumption).
    assert (B4 : aget nx1 (h_head h0) < 256) by (apply Vn1; exact Hh).
    rewrite (J1 _ Hh).
    set (nx2 := aset nx1 j (aget nx1 (h_head h0))).
    set (nx2' := aset nx1' (sg j) (sg (aget nx1 (h_head h0)))).
    assert (J2 : img sg nx2 nx2') by (apply img_aset; assumption).
    assert (Hn2 : u8arr nx2) by (apply u8arr_aset; assumption).
    pose proof Hn2 as [Ln2 Vn2].
    assert (B5 : aget nx2 (h_head h0) < 256) by (apply Vn2; exact Hh).
    rewrite (J2 _ Hh).
    split; cbn [h_prev h_next h_head]; [apply img_aset; assumption|].
    split; [apply img_aset; assumption|reflexivity].
Qed.

(* the canonical list 0, 1, ..., 255 *)
Definition hl_can : hlist :=
  {| h_prev := aset_list (mk_arr 256 0) 0 (map (fun i => (i + 1) mod 256) (nrange 0 256));
     h_next := aset_list (mk_arr 256 0) 0 (map (fun i => (i + 255) mod 256) (nrange 0 256));
     h_head := 0 |}.

Lemma hl_can_sweep :
  sweep 8 (fun i => (aget (h_prev hl_can) i =? (i + 1) mod 256) &&
                    (aget (h_next hl_can) i =? (i + 255) mod 256)) 0 = true.
Proof. vm_compute. reflexivity. Qed.

Lemma hl_can_get i : i < 256 ->
  aget (h_prev hl_can) i = (i + 1) mod 256 /\ aget (h_next hl_can) i = (i + 255) mod 256.
Proof.
  intros Hi. pose proof (sweep_below 8 _ hl_can_sweep i Hi) as E. cbv beta in E.
  apply andb_true_iff in E. destruct E as [E1 E2]. split; apply N.eqb_eq; assumption.
Qed.

Lemma hl_can_bnd : hbnd hl_can.
Proof.
  split; [|split; [|cbn [hl_can h_head]; lia]].
  - split; [vm_compute; reflexivity|]. intros i Hi. destruct (hl_can_get i Hi) as [E _]. rewrite E. lia.
  - split; [vm_compute; reflexivity|]. intros i Hi. destruct (hl_can_get i Hi) as [_ E]. rewrite E. lia.
Qed.

(* all 256 updates of the canonical list, by evaluation *)
Lemma hl_can_upd_sweep :
  sweep 8 (fun j => rep_b (upd_pure hl_can j) (mtf_front (nrange 0 256) j)) 0 = true.
Proof. vm_compute. reflexivity. Qed.

Lemma hl_can_upd j : j < 256 -> hl_rep (upd_pure hl_can j) (mtf_front (nrange 0 256) j).
Proof. intros Hj. apply rep_b_sound. exact (sweep_below 8 _ hl_can_upd_sweep j Hj). Qed.

(* a wf list is a relabelling of the canonical one *)
Lemma rep_relabel h l : hl_rep h l -> relabel (nthN l).
Proof.
  intros Hrep. split.
  - intros i Hi. apply (rep_nth_lt h l i Hrep Hi).
  - intros i j Hi Hj. apply (rep_nth_inj h l i j Hrep Hi Hj).
Qed.

Lemma rep_hrel h l : hl_rep h l -> hrel (nthN l) hl_can h.
Proof.
  intros Hrep. pose proof Hrep as (_ & _ & _ & Hh & Hp).
  split; [|split; [|exact Hh]].
  - intros i Hi. destruct (hl_can_get i Hi) as [E _]. rewrite E. apply Hp. exact Hi.
  - intros i Hi. destruct (hl_can_get i Hi) as [_ E]. rewrite E.
    destruct (Hp ((i + 255) mod 256)) as [_ E2]; [lia|].
    replace (((i + 255) mod 256 + 1) mod 256) with i in E2 by lia. exact E2.
Qed.

Lemma map_nthN_nrange l : length l = 256%nat -> map (nthN l) (nrange 0 256) = l.
Proof.
  intros Hlen. apply (nth_ext _ _ 0 0).
  - rewrite map_length, nrange_length, Hlen. reflexivity.
  - intros n Hn. rewrite map_length, nrange_length in Hn.
    rewrite (nth_indep _ 0 (nthN l 0)) by (rewrite map_length, nrange_length; exact Hn).
    rewrite (map_nth (nthN l)). rewrite nrange_nth by exact Hn.
    unfold nthN. f_equal. lia.
Qed.

Lemma nthN_map sg l k : (N.to_nat k < length l)%nat -> nthN (map sg l) k = sg (nthN l k).
Proof.
  intros H. unfold nthN. rewrite (nth_indep _ 0 (sg 0)) by (rewrite map_length; exact H).
  apply map_nth.
Qed.

(* a relabelled representation is a representation *)
Lemma rep_transfer sg h0 h l0 : relabel sg -> hrel sg h0 h -> hl_rep h0 l0 -> hl_rep h (map sg l0).
Proof.
  intros [Hrng Hinj] (Ip & In_ & Eh) Hrep. pose proof Hrep as (Hlen & Hnd & Hall & Hh & Hp).
  rewrite Forall_forall in Hall.
  split; [rewrite map_length; exact Hlen|].
  split; [apply map_inj_NoDup; [|exact Hnd]; intros x y Hx Hy; apply Hinj; apply Hall; assumption|].
  split; [apply Forall_forall; intros y Hy; apply in_map_iff in Hy; destruct Hy as (x & <- & Hx);
          apply Hrng, Hall, Hx|].
  split; [rewrite Eh, Hh; symmetry; apply nthN_map; lia|].
  intros k Hk.
  assert (Hk1 : (k + 1) mod 256 < 256) by lia.
  rewrite !nthN_map by lia.
  destruct (Hp k Hk) as [E1 E2].
  rewrite Ip by (apply (rep_nth_lt h0 l0 _ Hrep); exact Hk).
  rewrite In_ by (apply (rep_nth_lt h0 l0 _ Hrep); exact Hk1).
  rewrite E1, E2. split; reflexivity.
Qed.

Lemma rep_hbnd h l : alen (h_prev h) = 256 -> alen (h_next h) = 256 -> hl_rep h l -> hbnd h.
Proof.
  intros Hap Han Hrep.
  assert (Hwf : hl_wf h) by (split; [exact Hap|split; [exact Han|exists l; exact Hrep]]).
  split; [|split; [|apply hl_wf_head; exact Hwf]].
  - split; [exact Hap|]. intros i Hi. apply (hl_wf_perm h Hwf i Hi).
  - split; [exact Han|]. intros i Hi. apply (hl_wf_perm h Hwf i Hi).
Qed.

Lemma upd_pure_alen h b : alen (h_prev (upd_pure h b)) = alen (h_prev h) /\
                          alen (h_next (upd_pure h b)) = alen (h_next h).
Proof.
  unfold upd_pure. cbv zeta. destruct (h_head h =? b); [split; reflexivity|].
  cbn [h_prev h_next]. rewrite !alen_aset. split; reflexivity.
Qed.

(* ------------------------------------------------------------------ *)
(* update_history_list is move-to-front                                *)

Lemma map_mtf_front (sg : N -> N) r j : (forall x, In x r -> sg x = sg j -> x = j) ->
  map sg (mtf_front r j) = mtf_front (map sg r) (sg j).
Proof.
  intros Hinj. unfold mtf_front. rewrite filter_map_inj by exact Hinj. reflexivity.
Qed.

Lemma upd_pure_rep h l j : hl_rep h l -> j < 256 ->
  hl_rep (upd_pure h (nthN l j)) (mtf_front l (nthN l j)).
Proof.
  intros Hrep Hj.
  pose proof (rep_relabel h l Hrep) as Hsg.
  pose proof (upd_pure_rel (nthN l) hl_can h j Hsg hl_can_bnd (rep_hrel h l Hrep) Hj) as Hrel.
  pose proof (rep_transfer _ _ _ _ Hsg Hrel (hl_can_upd j Hj)) as Hrep'.
  rewrite map_mtf_front in Hrep'.
  - destruct Hrep as (Hlen & _). rewrite (map_nthN_nrange l Hlen) in Hrep'. exact Hrep'.
  - intros x Hx. apply nrange_In in Hx. destruct Hsg as [_ Hinj]. apply Hinj; lia.
Qed.

Lemma update_history_list_rep h l b :
  alen (h_prev h) = 256 -> alen (h_next h) = 256 -> hl_rep h l ->
  exists h', update_history_list h b = Ok h' /\ alen (h_prev h') = 256 /\ alen (h_next h') = 256 /\ hl_rep h' (mtf_front l (u8 b)).
Proof.
  intros Hap Han Hrep.
  pose proof (rep_hbnd h l Hap Han Hrep) as Hb.
  assert (Eu : update_history_list h b = update_history_list h (u8 b)).
  { unfold update_history_list. rewrite (u8_small (u8 b)) by apply u8_lt. reflexivity. }
  destruct (update_history_list_pure h (u8 b) Hb (u8_lt b)) as [E _].
  exists (upd_pure h (u8 b)). split; [rewrite Eu; exact E|].
  destruct (upd_pure_alen h (u8 b)) as [A1 A2].
  split; [rewrite A1; exact Hap|]. split; [rewrite A2; exact Han|].
  destruct (rep_surj h l (u8 b) Hrep (u8_lt b)) as (j & Hj & Ej).
  rewrite <- Ej. apply upd_pure_rep; assumption.
Qed.

Theorem update_history_list_mtf h b : hl_wf h ->
  exists h', update_history_list h b = Ok h' /\ hl_wf h' /\ hl_list h' = mtf_front (hl_list h) (u8 b).
Proof.
  intros Hwf. pose proof (hl_wf_rep h Hwf) as Hrep. pose proof Hwf as (Hap & Han & _).
  destruct (update_history_list_rep h _ b Hap Han Hrep) as (h' & E & A1 & A2 & Hrep').
  exists h'. split; [exact E|]. split.
  - split; [exact A1|]. split; [exact A2|]. eexists; exact Hrep'.
  - apply hl_rep_list. exact Hrep'.
Qed.

(* The refinement, in one statement: started from init_history_list, after any
   sequence of updates the linked list reads as the specification's
   move-to-front list after the same sequence, and a lookup returns the byte
   at that position of the list. *)
Definition hl_run (h : hlist) (bs : list N) : outcome hlist :=
  fold_left (fun acc b => h' <- acc ;; update_history_list h' b) bs (Ok h).

Lemma hl_run_cons h b bs : hl_run h (b :: bs) =
  (h' <- update_history_list h b ;; hl_run h' bs).
Proof.
  unfold hl_run. cbn [fold_left bind].
  destruct (update_history_list h b) as [h'| |]; cbn [bind]; [reflexivity| |].
  - induction bs as [|x r IH]; [reflexivity|]. cbn [fold_left bind]. exact IH.
  - induction bs as [|x r IH]; [reflexivity|]. cbn [fold_left bind]. exact IH.
Qed.

Lemma bind_Ok {A B} (a : A) (f : A -> outcome B) : bind (Ok a) f = f a.
Proof. reflexivity. Qed.

Lemma fold_left_cons_eq {A B} (f : A -> B -> A) b bs a : fold_left f (b :: bs) a = fold_left f bs (f a b).
Proof. reflexivity. Qed.

Theorem history_list_is_mtf bs : Forall (fun b => b < 256) bs ->
  forall h, hl_wf h ->
  exists h', hl_run h bs = Ok h' /\ hl_wf h' /\
    hl_list h' = fold_left mtf_front bs (hl_list h) /\
    forall count, count < 256 ->
      find_in_history_list h' count = Ok (nthN (fold_left mtf_front bs (hl_list h)) count).
Proof.
  induction bs as [|b bs IH]; intros Hall h Hwf.
  - exists h. split; [reflexivity|]. split; [exact Hwf|]. split; [reflexivity|].
    intros count Hc. destruct (find_in_history_list_nth h count Hwf) as [E _].
    rewrite E, (u8_small count Hc). reflexivity.
  - inversion Hall as [|? ? Hb Hbs]; subst.
    destruct (update_history_list_mtf h b Hwf) as (h1 & E1 & W1 & L1).
    rewrite (u8_small b Hb) in L1.
    destruct (IH Hbs h1 W1) as (h' & E & W & L & F).
    exists h'. rewrite hl_run_cons, E1. rewrite bind_Ok. rewrite !fold_left_cons_eq. rewrite <- L1.
    split; [exact E|]. split; [exact W|]. split; [exact L|exact F].
Qed.

Corollary history_list_is_mtf_from_init bs : Forall (fun b => b < 256) bs ->
  exists h0 h', init_history_list = Ok h0 /\ hl_run h0 bs = Ok h' /\ hl_wf h' /\
    hl_list h' = fold_left mtf_front bs pm_mtf0.
Proof.
  intros Hall. destruct init_history_list_wf as (h0 & E0 & W0 & L0).
  destruct (history_list_is_mtf bs Hall h0 W0) as (h' & E & W & L & _).
  exists h0, h'. rewrite <- L0. auto.
Qed.

(* the position the specification codes a byte as is where a lookup finds it *)
Lemma mtf_index_from_nth l v : forall i p, mtf_index_from l v i = Some p ->
  i <= p /\ nth (N.to_nat (p - i)) l 0 = v /\ (N.to_nat (p - i) < length l)%nat.
Proof.
  induction l as [|x r IH]; intros i p H; cbn [mtf_index_from] in H; [discriminate|].
  destruct (N.eqb_spec x v) as [E|E].
  - injection H as <-. replace (N.to_nat (i - i)) with O by lia. cbn [nth length]. split; [lia|]. split; [exact E|lia].
  - destruct (IH _ _ H) as (H1 & H2 & H3). split; [lia|].
    replace (N.to_nat (p - i)) with (S (N.to_nat (p - (i + 1)))) by lia. cbn [nth length].
    split; [exact H2|lia].
Qed.

Theorem find_mtf_index h v p : hl_wf h -> mtf_index (hl_list h) v = Some p ->
  p < 256 /\ find_in_history_list h p = Ok v.
Proof.
  intros Hwf H. unfold mtf_index in H. destruct (mtf_index_from_nth _ _ _ _ H) as (_ & E & Hp).
  rewrite N.sub_0_r in E, Hp. rewrite (hl_list_length h Hwf) in Hp.
  split; [lia|]. destruct (find_in_history_list_nth h p Hwf) as [F _].
  rewrite F, u8_small by lia. f_equal. exact E.
Qed.

(* ------------------------------------------------------------------ *)
(* decode_variable_length                                              *)

Lemma alen_aset_list l : forall a i, alen (aset_list a i l) = alen a.
Proof.
  induction l as [|x l IH]; intros a i; cbn [aset_list]; [reflexivity|].
  rewrite IH. apply alen_aset.
Qed.

Lemma alen_arr_of_list d l : alen (arr_of_list d l) = nlen l.
Proof. unfold arr_of_list. rewrite alen_aset_list. reflexivity. Qed.

Section Dvl.
  Context {cbs : Type}.
  Variable cb : callback cbs.

  (* for any reader predicate kept by read_bits *)
  Section Gen.
    Variable P : bsr -> Prop.
    Hypothesis Hrb : forall r c n, P r -> n <= 32 ->
      exists res r' c', read_bits cb r c n = Ok (res, r', c') /\ P r' /\ (forall v, res = Some v -> v < 2 ^ n).

    (* a table whose bit counts are all at most 32, indexed inside its extent *)
    Theorem decode_variable_length_gen (table : vltable) r c header :
      P r -> header < alen (vl_bits table) -> alen (vl_bits table) = alen (vl_offset table) ->
      aget (vl_bits table) header <= 32 ->
      exists res r' c', decode_variable_length cb table r c header = Ok (res, r', c') /\ P r' /\
        (forall v, res = Some v ->
           aget (vl_offset table) header <= v < aget (vl_offset table) header + 2 ^ aget (vl_bits table) header).
    Proof.
      intros Hr Hh Hl Hb. unfold decode_variable_length.
      rewrite rd_ok by exact Hh. cbn [bind].
      destruct (Hrb r c _ Hr Hb) as (res & r' & c' & E & W & V).
      rewrite E. cbn [bind]. cbv beta iota. destruct res as [v|].
      - rewrite rd_ok by lia. cbn [bind]. eexists _, r', c'. split; [reflexivity|]. split; [exact W|].
        intros x Ex. injection Ex as <-. specialize (V v eq_refl). lia.
      - eexists _, r', c'. split; [reflexivity|]. split; [exact W|]. intros x Ex. discriminate.
    Qed.
  End Gen.

  Hypothesis Hcb : cb_bounded cb.

  Theorem decode_variable_length_safe (table : vltable) r c header :
    bsr_wf r -> header < alen (vl_bits table) -> alen (vl_bits table) = alen (vl_offset table) ->
    aget (vl_bits table) header <= 32 ->
    exists res r' c', decode_variable_length cb table r c header = Ok (res, r', c') /\ bsr_wf r' /\
      (forall v, res = Some v ->
         aget (vl_offset table) header <= v < aget (vl_offset table) header + 2 ^ aget (vl_bits table) header).
  Proof. apply decode_variable_length_gen. intros r0 c0 n. apply (read_bits_safe cb Hcb). Qed.
End Dvl.

Print Assumptions init_history_list_wf.
Print Assumptions find_in_history_list_nth.
Print Assumptions update_history_list_mtf.
Print Assumptions history_list_is_mtf.
Print Assumptions history_list_is_mtf_from_init.
Print Assumptions find_mtf_index.
Print Assumptions hl_wf_perm.
Print Assumptions decode_variable_length_gen.
Print Assumptions decode_variable_length_safe.

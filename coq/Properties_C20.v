(* Properties_C20.v -- C20: freeing a reader releases everything, on any call
   history.  Statements over the ownership ledger ReaderMem.v: header ids with
   reference counts (add_ref / free at the C's call sites), live decoder objects
   with the two reader pointers, temporary strings, FILE handles and the three
   structs, driven by an ARBITRARY sequence of decisions (what the archive and
   the filesystem made the C do), hence for every archive.  The ledger is tied to
   the C on every run: in lock step with Reader.v it predicts the allocator's
   live block count after every API call and at exit (check C20 compares it with
   the wrapped allocator of the real library).  The second half of the property (any single
   allocation failure) is stated over the ledger with failing requests ReaderMemFail.v
   (16 allocation sites in the C's order, each followed along the C's error path; tied to
   the C on every run: with request k failing the ledger predicts every result, live-block
   count and request count after every call and the balance at exit), proofs in
   P_ReaderMemFail.v; the premise wf_decisions of the ledger-level theorems (the per-header
   allocation steps come in an order the parser can produce) is discharged by parse_steps_wf,
   so C20_fail_released_archive / C20_fail_reported_run hold directly over the lock-step run
   from ANY archive bytes, stream kind and directory policy. *)
From Lhasa Require Import Base Reader ReaderMem P_ReaderMem.
From Lhasa Require ReaderMemFail P_ReaderMemFail P_ReaderMemFailSteps.
Local Open Scope N_scope.

(* within the protocol (per entry: a check or an extract only as the first decode
   operation; any number of reads; any prefix = abandoning at any point) the C never
   releases or uses a released header, never frees a decoder twice, never overwrites a
   pointer to a live decoder and never links an entry into a list twice *)
Theorem ledger_never_faults : forall (plain : bool) (l : list (op * decision)),
  protocol (map fst l) = true ->
  exists m, m_run (mem_new plain) l = Ok m /\ d_overwrote (m_d m) = false.
Proof. exact C20_ledger_never_faults. Qed.

(* after lha_reader_free and the stream's free nothing is held: every reference
   count is 0, no decoder, temporary, FILE or struct is live -- whatever entry is
   current (archive member, re-presented directory, deferred symlink, none) *)
Theorem everything_released : forall (plain : bool) (l : list (op * decision)),
  protocol (map fst l) = true ->
  exists m m', m_run (mem_new plain) l = Ok m /\ m_free_reader m = Ok m' /\
    ledger_empty (m_free_stream m') /\ live_blocks (m_free_stream m') = 0%nat /\ m_files (m_free_stream m') = 0%nat.
Proof.
  intros plain l Hp. destruct (C20_everything_released plain l Hp) as (m & m' & E & F & L).
  exists m, m'. destruct (ledger_empty_no_blocks _ L) as [B Fz]. split; [exact E|]. split; [exact F|]. split; [exact L|]. split; assumption.
Qed.

(* the property's own wording of the protocol implies the one used above *)
Theorem property_protocol_is_covered : forall l, protocol_strict l = true -> protocol l = true.
Proof. exact protocol_strict_protocol. Qed.

(* every prefix of a protocol-respecting history is one *)
Theorem abandoning_is_covered : forall l k, protocol l = true -> protocol (firstn k l) = true.
Proof. intros l k H. apply (proto_prefix true (firstn k l) (skipn k l)). rewrite firstn_skipn. exact H. Qed.

(* ---- any single failing allocation request (index k) ----
   C20_fail_released: for every k, protocol-respecting history and decision sequence the
     run returns, no pointer to a live decoder is overwritten, no block is freed twice or
     used after release (such a step is a ledger fault -- cf. C20_fail_mutation_would_fault:
     freeing the old file name before allocating the new one ends in a fault), and after
     lha_reader_free and the stream's free the ledger is empty;
   C20_fail_reported: the call in which request k falls returns a failure value (next_file:
     NULL or a re-presented entry; read: 0 bytes; check / extract: 0). *)
Theorem C20_fail_released : ltac:(let t := type of P_ReaderMemFail.C20_fail_released in exact t).
Proof. exact P_ReaderMemFail.C20_fail_released. Qed.
Theorem C20_fail_reported : ltac:(let t := type of P_ReaderMemFail.C20_fail_reported in exact t).
Proof. exact P_ReaderMemFail.C20_fail_reported. Qed.
Theorem C20_fail_mutation_would_fault : ltac:(let t := type of P_ReaderMemFail.C20_fail_mutation_would_fault in exact t).
Proof. exact P_ReaderMemFail.C20_fail_mutation_would_fault. Qed.

Theorem parse_steps_wf : ltac:(let t := type of P_ReaderMemFailSteps.parse_steps_wf in exact t).
Proof. exact P_ReaderMemFailSteps.parse_steps_wf. Qed.
Theorem C20_fail_released_run : ltac:(let t := type of P_ReaderMemFailSteps.C20_fail_released_run in exact t).
Proof. exact P_ReaderMemFailSteps.C20_fail_released_run. Qed.
Theorem C20_fail_released_archive : ltac:(let t := type of P_ReaderMemFailSteps.C20_fail_released_archive in exact t).
Proof. exact P_ReaderMemFailSteps.C20_fail_released_archive. Qed.
Theorem C20_fail_reported_run : ltac:(let t := type of P_ReaderMemFailSteps.C20_fail_reported_run in exact t).
Proof. exact P_ReaderMemFailSteps.C20_fail_reported_run. Qed.

Print Assumptions ledger_never_faults.
Print Assumptions everything_released.
Print Assumptions property_protocol_is_covered.
Print Assumptions abandoning_is_covered.
Print Assumptions C20_fail_released.
Print Assumptions C20_fail_reported.
Print Assumptions C20_fail_mutation_would_fault.
Print Assumptions parse_steps_wf.
Print Assumptions C20_fail_released_run.
Print Assumptions C20_fail_released_archive.
Print Assumptions C20_fail_reported_run.

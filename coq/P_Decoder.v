(* P_Decoder.v -- proofs about the model of lha_decoder_read (Decoder.v):
   termination of the fill loop, a big-step characterisation [pull], the
   composition of reads, length/CRC bookkeeping, the declared-length clamp. *)
From Lhasa Require Import Base ListN DecBase Loop Crc16 P_Crc16 Decoder.
From Coq Require Import ZifyBool ZifyN ZifyNat.
Local Open Scope N_scope.

Section DecoderProofs.
  Context {cbs st : Type}.
  Variable dread : st -> cbs -> outcome (list N * st * cbs).
  Variable max_read block_size : N.

  Notation dec := (@decoder cbs st).
  Notation rstep := (read_step dread max_read).
  Notation dec_read := (lha_decoder_read dread max_read block_size).

  (* The inner decoder always returns, with a chunk that fits the output buffer. *)
  Definition dread_total : Prop :=
    forall s c, exists ch s' c', dread s c = Ok (ch, s', c') /\ nlen ch <= max_read.

  (* ---------------------------------------------------------------- *)
  (* Big-step description of the fill loop: [pull k w d] delivers up to w
     bytes from decoder d using at most k loop iterations.             *)

  Fixpoint pull (k : nat) (w : N) (d : dec) : option (list N * dec) :=
    if w =? 0 then Some ([], d) else
    match k with
    | O => None
    | S k' =>
      let take := firstn_N w (d_outbuf d) in
      let rest := skipn_N w (d_outbuf d) in
      if d_failed d then Some (take, set_buf d (d_inner d) (d_cb d) rest true)
      else
        match rest with
        | [] =>
          match dread (d_inner d) (d_cb d) with
          | Ok (chunk, inner', c') =>
            if max_read <? nlen chunk then None else
            match chunk with
            | [] => Some (take, set_buf d inner' c' [] true)
            | _ =>
              match pull k' (w - nlen take) (set_buf d inner' c' chunk false) with
              | Some (o, d') => Some (take ++ o, d')
              | None => None
              end
            end
          | _ => None
          end
        | _ =>
          match pull k' (w - nlen take) (set_buf d (d_inner d) (d_cb d) rest false) with
          | Some (o, d') => Some (take ++ o, d')
          | None => None
          end
        end
    end.

  Lemma pull_0 k d : pull k 0 d = Some ([], d).
  Proof. destruct k; reflexivity. Qed.

  Lemma pull_S k w d : pull (S k) w d =
    if w =? 0 then Some ([], d) else
      let take := firstn_N w (d_outbuf d) in
      let rest := skipn_N w (d_outbuf d) in
      if d_failed d then Some (take, set_buf d (d_inner d) (d_cb d) rest true)
      else
        match rest with
        | [] =>
          match dread (d_inner d) (d_cb d) with
          | Ok (chunk, inner', c') =>
            if max_read <? nlen chunk then None else
            match chunk with
            | [] => Some (take, set_buf d inner' c' [] true)
            | _ =>
              match pull k (w - nlen take) (set_buf d inner' c' chunk false) with
              | Some (o, d') => Some (take ++ o, d')
              | None => None
              end
            end
          | _ => None
          end
        | _ =>
          match pull k (w - nlen take) (set_buf d (d_inner d) (d_cb d) rest false) with
          | Some (o, d') => Some (take ++ o, d')
          | None => None
          end
        end.
  Proof. reflexivity. Qed.

  Lemma pull_mono k : forall w d x, pull k w d = Some x -> pull (S k) w d = Some x.
  Proof.
    induction k as [|k IH]; intros w d x H.
    - simpl in H. destruct (w =? 0) eqn:E; [|discriminate].
      apply N.eqb_eq in E. subst. rewrite pull_0. exact H.
    - cbn [pull] in H. cbn [pull]. destruct (w =? 0) eqn:E; [exact H|].
      destruct (d_failed d); [exact H|].
      destruct (skipn_N w (d_outbuf d)) as [|y ys] eqn:Er.
      + destruct (dread (d_inner d) (d_cb d)) as [[[chunk inner'] c']| |]; try discriminate.
        destruct (max_read <? nlen chunk); [discriminate|].
        destruct chunk as [|z zs]; [exact H|].
        destruct (pull k (w - nlen (firstn_N w (d_outbuf d))) _) as [[o d']|] eqn:Ep; [|discriminate].
        apply IH in Ep. cbn [pull] in Ep. rewrite Ep. exact H.
      + destruct (pull k (w - nlen (firstn_N w (d_outbuf d))) _) as [[o d']|] eqn:Ep; [|discriminate].
        apply IH in Ep. cbn [pull] in Ep. rewrite Ep. exact H.
  Qed.

  Lemma pull_mono_le k k' w d x : (k <= k')%nat -> pull k w d = Some x -> pull k' w d = Some x.
  Proof.
    intros Hle H. induction Hle as [|m Hle IH]; [exact H|]. apply pull_mono. exact IH.
  Qed.

  Lemma pull_det k k' w d x y : pull k w d = Some x -> pull k' w d = Some y -> x = y.
  Proof.
    intros H1 H2.
    destruct (Nat.le_ge_cases k k') as [Hle|Hle].
    - apply (pull_mono_le _ _ _ _ _ Hle) in H1. congruence.
    - apply (pull_mono_le _ _ _ _ _ Hle) in H2. congruence.
  Qed.

  (* set_buf bookkeeping *)
  Lemma set_buf_fields (d : dec) i c ob f :
    d_stream_pos (set_buf d i c ob f) = d_stream_pos d /\
    d_stream_length (set_buf d i c ob f) = d_stream_length d /\
    d_crc (set_buf d i c ob f) = d_crc d /\
    d_monitor (set_buf d i c ob f) = d_monitor d /\
    d_last_block (set_buf d i c ob f) = d_last_block d /\
    d_total_blocks (set_buf d i c ob f) = d_total_blocks d.
  Proof. repeat split. Qed.

  Lemma set_buf_set_buf (d : dec) i c ob f i' c' ob' f' :
    set_buf (set_buf d i c ob f) i' c' ob' f' = set_buf d i' c' ob' f'.
  Proof. reflexivity. Qed.

  (* passenger fields are untouched by pull *)
  Definition same_passengers (d d' : dec) : Prop :=
    d_stream_pos d' = d_stream_pos d /\ d_stream_length d' = d_stream_length d /\
    d_crc d' = d_crc d /\ d_monitor d' = d_monitor d /\
    d_last_block d' = d_last_block d /\ d_total_blocks d' = d_total_blocks d.

  Lemma same_passengers_refl d : same_passengers d d.
  Proof. repeat split. Qed.

  Lemma same_passengers_trans a b c : same_passengers a b -> same_passengers b c -> same_passengers a c.
  Proof. unfold same_passengers. intuition congruence. Qed.

  Lemma pull_passengers k : forall w d o d', pull k w d = Some (o, d') -> same_passengers d d'.
  Proof.
    induction k as [|k IH]; intros w d o d' H.
    - simpl in H. destruct (w =? 0); inversion H; subst. apply same_passengers_refl.
    - cbn [pull] in H. destruct (w =? 0); [inversion H; subst; apply same_passengers_refl|].
      destruct (d_failed d); [inversion H; subst; repeat split|].
      destruct (skipn_N w (d_outbuf d)) as [|y ys].
      + destruct (dread (d_inner d) (d_cb d)) as [[[chunk inner'] c']| |]; try discriminate.
        destruct (max_read <? nlen chunk); [discriminate|].
        destruct chunk as [|z zs]; [inversion H; subst; repeat split|].
        destruct (pull k _ _) as [[o1 d1]|] eqn:Ep; [|discriminate]. inversion H; subst.
        apply IH in Ep. eapply same_passengers_trans; [|exact Ep]. repeat split.
      + destruct (pull k _ _) as [[o1 d1]|] eqn:Ep; [|discriminate]. inversion H; subst.
        apply IH in Ep. eapply same_passengers_trans; [|exact Ep]. repeat split.
  Qed.

  (* length of what pull delivers; delivering less than asked means the
     decoder has failed and its buffer is empty *)
  Lemma pull_length k : forall w d o d', pull k w d = Some (o, d') ->
    nlen o <= w /\ (nlen o < w -> d_failed d' = true /\ d_outbuf d' = []).
  Proof.
    induction k as [|k IH]; intros w d o d' H.
    - simpl in H. destruct (w =? 0) eqn:E; inversion H; subst. apply N.eqb_eq in E. subst.
      split; [unfold nlen; simpl; lia|]. unfold nlen; simpl; lia.
    - cbn [pull] in H. destruct (w =? 0) eqn:E.
      { inversion H; subst. apply N.eqb_eq in E. subst. unfold nlen; simpl. split; lia. }
      apply N.eqb_neq in E.
      pose proof (nlen_firstn_N w (d_outbuf d)) as Lt.
      pose proof (nlen_skipn_N w (d_outbuf d)) as Ls.
      destruct (d_failed d) eqn:Ef.
      { inversion H; subst. split; [lia|]. intros Hlt. split; [reflexivity|].
        cbn [set_buf d_outbuf]. apply skipn_N_nil_iff. lia. }
      destruct (skipn_N w (d_outbuf d)) as [|y ys] eqn:Er.
      + destruct (dread (d_inner d) (d_cb d)) as [[[chunk inner'] c']| |]; try discriminate.
        destruct (max_read <? nlen chunk); [discriminate|].
        destruct chunk as [|z zs].
        { inversion H; subst. split; [lia|]. intros _. split; reflexivity. }
        destruct (pull k _ _) as [[o1 d1]|] eqn:Ep; [|discriminate]. inversion H; subst.
        apply IH in Ep. destruct Ep as [L1 L2]. rewrite nlen_app. split; [lia|].
        intros Hlt. apply L2. lia.
      + destruct (pull k _ _) as [[o1 d1]|] eqn:Ep; [|discriminate]. inversion H; subst.
        apply IH in Ep. destruct Ep as [L1 L2]. rewrite nlen_app. split; [lia|].
        intros Hlt. apply L2. lia.
  Qed.

  (* a failed decoder with an empty buffer delivers nothing and does not change *)
  Lemma pull_dead k w (d : dec) : d_failed d = true -> d_outbuf d = [] -> (0 < k)%nat \/ w = 0 ->
    pull k w d = Some ([], set_buf d (d_inner d) (d_cb d) [] true).
  Proof.
    intros Hf Ho Hk. destruct (N.eq_dec w 0) as [->|Hw].
    - rewrite pull_0. f_equal. f_equal. destruct d; cbn in *. subst. reflexivity.
    - destruct k as [|k]; [lia|]. cbn [pull]. destruct (w =? 0) eqn:E; [apply N.eqb_eq in E; lia|].
      rewrite Hf, Ho. reflexivity.
  Qed.

  Lemma set_buf_id (d : dec) : d_failed d = true -> d_outbuf d = [] ->
    set_buf d (d_inner d) (d_cb d) [] true = d.
  Proof. intros Hf Ho. destruct d; cbn in *. subst. reflexivity. Qed.

  (* ---------------------------------------------------------------- *)
  (* Composition: asking for w1 + w2 is asking for w1 and then for w2. *)

  Lemma pull_compose k : forall w1 w2 d o d', pull k (w1 + w2) d = Some (o, d') ->
    exists o1 d1 o2, pull k w1 d = Some (o1, d1) /\ pull (S k) w2 d1 = Some (o2, d') /\ o = o1 ++ o2.
  Proof.
    induction k as [|k IH]; intros w1 w2 d o d' H.
    - simpl in H. destruct (w1 + w2 =? 0) eqn:E; [|discriminate]. apply N.eqb_eq in E.
      assert (w1 = 0) by lia. assert (w2 = 0) by lia. subst. inversion H; subst.
      exists [], d', []. rewrite !pull_0. auto.
    - destruct (N.eq_dec w1 0) as [->|Hw1].
      { exists [], d, o. rewrite pull_0. rewrite N.add_0_l in H. split; [reflexivity|].
        split; [apply pull_mono; exact H|reflexivity]. }
      destruct (N.eq_dec w2 0) as [->|Hw2].
      { exists o, d', []. rewrite N.add_0_r in H. rewrite pull_0, app_nil_r. auto. }
      rewrite pull_S in H. cbv zeta in H.
      destruct (w1 + w2 =? 0) eqn:E; [apply N.eqb_eq in E; lia|]. clear E.
      pose proof (nlen_firstn_N w1 (d_outbuf d)) as Lt1.
      pose proof (nlen_skipn_N w1 (d_outbuf d)) as Ls1.
      pose proof (nlen_firstn_N (w1 + w2) (d_outbuf d)) as Lt12.
      pose proof (nlen_skipn_N (w1 + w2) (d_outbuf d)) as Ls12.
      pose proof (firstn_N_add w1 w2 (d_outbuf d)) as Fa.
      pose proof (skipn_N_add w1 w2 (d_outbuf d)) as Sa.
      assert (E1 : (w1 =? 0) = false) by (apply N.eqb_neq; exact Hw1).
      assert (E2 : (w2 =? 0) = false) by (apply N.eqb_neq; exact Hw2).
      rewrite (pull_S k w1 d). cbv zeta. rewrite E1.
      destruct (d_failed d) eqn:Ef.
      { (* failed: one copy, then exit *)
        inversion H; subst; clear H.
        eexists _, _, _. split; [reflexivity|]. split; [|exact Fa].
        rewrite pull_S. cbv zeta. rewrite E2.
        cbn [set_buf d_failed d_outbuf d_inner d_cb]. rewrite Sa. reflexivity. }
      destruct (skipn_N_cases (w1 + w2) (d_outbuf d)) as [[L12 Er12]|[L12 (y12 & ys12 & Er12)]]; rewrite Er12 in H.
      + (* the buffer is used up within w1 + w2 *)
        destruct (dread (d_inner d) (d_cb d)) as [[[chunk inner'] c']| |] eqn:Edr; try discriminate.
        destruct (max_read <? nlen chunk) eqn:Emr; [discriminate|].
        destruct (skipn_N_cases w1 (d_outbuf d)) as [[L1 Er1]|[L1 (y1 & ys1 & Er1)]]; rewrite Er1.
        * (* ... and already within w1 *)
          assert (Ft : firstn_N (w1 + w2) (d_outbuf d) = firstn_N w1 (d_outbuf d)).
          { rewrite !firstn_N_all by lia. reflexivity. }
          destruct chunk as [|z zs].
          { inversion H; subst; clear H.
            eexists _, _, []. split; [reflexivity|]. split; [|rewrite app_nil_r; exact Ft].
            rewrite pull_dead by (auto; lia). f_equal. }
          destruct (pull k (w1 + w2 - nlen (firstn_N (w1 + w2) (d_outbuf d))) _) as [[oo dd]|] eqn:Ep; [|discriminate].
          inversion H; subst; clear H.
          replace (w1 + w2 - nlen (firstn_N (w1 + w2) (d_outbuf d)))
            with ((w1 - nlen (firstn_N w1 (d_outbuf d))) + w2) in Ep by lia.
          apply IH in Ep. destruct Ep as (o1 & d1 & o2 & P1 & P2 & Eo).
          rewrite P1. eexists _, _, _. split; [reflexivity|]. split; [apply pull_mono; exact P2|].
          subst. rewrite Ft. now rewrite app_assoc.
        * (* w1 < |buffer| <= w1 + w2 : the first read stops inside the buffer *)
          rewrite <- Er1.
          replace (w1 - nlen (firstn_N w1 (d_outbuf d))) with 0 by lia. rewrite pull_0.
          assert (Fr : firstn_N w2 (skipn_N w1 (d_outbuf d)) = skipn_N w1 (d_outbuf d)).
          { apply firstn_N_all. rewrite Ls1. lia. }
          assert (U : forall o2, pull (S (S k)) w2 (set_buf d (d_inner d) (d_cb d) (skipn_N w1 (d_outbuf d)) false)
                        = Some (o2, d') -> o = (firstn_N w1 (d_outbuf d) ++ []) ++ o2 ->
                      exists o1 d1 o2, Some (firstn_N w1 (d_outbuf d) ++ [], set_buf d (d_inner d) (d_cb d) (skipn_N w1 (d_outbuf d)) false) = Some (o1, d1) /\
                         pull (S (S k)) w2 d1 = Some (o2, d') /\ o = o1 ++ o2).
          { intros o2 A B. eexists _, _, o2. split; [reflexivity|]. split; [exact A|exact B]. }
          rewrite (pull_S (S k)) in U. cbv zeta in U. rewrite E2 in U.
          cbn [set_buf d_failed d_outbuf d_inner d_cb] in U.
          rewrite <- Sa, Er12 in U. rewrite Edr, Emr in U.
          destruct chunk as [|z zs].
          { inversion H; subst; clear H. rewrite set_buf_set_buf in U. eapply U; [reflexivity|]. rewrite Fa, Fr, ?app_nil_r. reflexivity. }
          destruct (pull k (w1 + w2 - nlen (firstn_N (w1 + w2) (d_outbuf d))) _) as [[oo dd]|] eqn:Ep; [|discriminate].
          inversion H; subst; clear H.
          apply pull_mono in Ep.
          replace (w2 - nlen (firstn_N w2 (skipn_N w1 (d_outbuf d))))
            with (w1 + w2 - nlen (firstn_N (w1 + w2) (d_outbuf d))) in U by (rewrite Fr; lia).
          rewrite set_buf_set_buf in U. rewrite Ep in U. eapply U; [reflexivity|]. rewrite Fa, Fr, ?app_nil_r. now rewrite app_assoc.
      + (* the buffer holds more than w1 + w2 *)
        replace (w1 + w2 - nlen (firstn_N (w1 + w2) (d_outbuf d))) with 0 in H by lia.
        rewrite pull_0 in H. inversion H; subst; clear H.
        destruct (skipn_N_cases w1 (d_outbuf d)) as [[L1 Er1]|[L1 (y1 & ys1 & Er1)]]; [lia|].
        rewrite Er1. rewrite <- Er1.
        replace (w1 - nlen (firstn_N w1 (d_outbuf d))) with 0 by lia. rewrite pull_0.
        exists (firstn_N w1 (d_outbuf d) ++ []),
               (set_buf d (d_inner d) (d_cb d) (skipn_N w1 (d_outbuf d)) false),
               (firstn_N w2 (skipn_N w1 (d_outbuf d)) ++ []).
        split; [reflexivity|]. split.
        * rewrite pull_S. cbv zeta. rewrite E2.
          cbn [set_buf d_failed d_outbuf d_inner d_cb].
          rewrite <- Sa, Er12.
          replace (w2 - nlen (firstn_N w2 (skipn_N w1 (d_outbuf d)))) with 0
            by (rewrite nlen_firstn_N, Ls1; lia).
          rewrite pull_0. reflexivity.
        * rewrite Fa, !app_nil_r. reflexivity.
  Qed.

  (* ---------------------------------------------------------------- *)
  (* The loop of the model computes [pull].                            *)

  Lemma loops_pull k : forall B s r, loops (rstep B) k s r -> rl_filled s <= B ->
    exists o, pull (S k) (B - rl_filled s) (rl_d s) = Some (o, rl_d r) /\
              rl_out_rev r = rev o ++ rl_out_rev s /\ rl_filled r = rl_filled s + nlen o.
  Proof.
    induction k as [|k IH]; intros B s r Hl Hle; inversion Hl; subst.
    - (* exit at once *)
      match goal with E : rstep B s = Ok (inr r) |- _ => rename E into Es end.
      unfold read_step in Es.
      destruct (rl_filled s <? B) eqn:Elt.
      + cbn [pull]. destruct (B - rl_filled s =? 0) eqn:E0; [apply N.eqb_eq in E0; lia|].
        destruct (d_failed (rl_d s)).
        { inversion Es; subst; clear Es. eexists. split; [reflexivity|]. cbn [rl_d rl_out_rev rl_filled].
          rewrite rev_append_rev. auto. }
        destruct (skipn_N (B - rl_filled s) (d_outbuf (rl_d s))).
        * destruct (dread _ _) as [[[chunk inner'] c']| |]; try discriminate. cbn [bind] in Es.
          destruct (max_read <? nlen chunk); [discriminate|].
          destruct chunk; [|discriminate].
          inversion Es; subst; clear Es. eexists. split; [reflexivity|]. cbn [rl_d rl_out_rev rl_filled].
          rewrite rev_append_rev. auto.
        * discriminate.
      + inversion Es; subst; clear Es. replace (B - rl_filled r) with 0 by lia. rewrite pull_0.
        exists []. cbn. split; [reflexivity|]. split; [reflexivity|]. unfold nlen; simpl; lia.
    - match goal with E : rstep B s = Ok (inl ?x) |- _ => rename E into Es; rename x into s' end.
      match goal with L : loops _ k s' r |- _ => rename L into Hl' end.
      unfold read_step in Es.
      destruct (rl_filled s <? B) eqn:Elt; [|discriminate].
      pose proof (nlen_firstn_N (B - rl_filled s) (d_outbuf (rl_d s))) as Lt.
      remember (S k) as k1. cbn [pull]. subst k1.
      destruct (B - rl_filled s =? 0) eqn:E0; [apply N.eqb_eq in E0; lia|].
      destruct (d_failed (rl_d s)); [discriminate|].
      destruct (skipn_N (B - rl_filled s) (d_outbuf (rl_d s))) as [|y ys] eqn:Er.
      * destruct (dread _ _) as [[[chunk inner'] c']| |]; try discriminate. cbn [bind] in Es.
        destruct (max_read <? nlen chunk); [discriminate|].
        destruct chunk as [|z zs]; [discriminate|].
        inversion Es; subst; clear Es.
        apply IH in Hl'; [|cbn [rl_filled]; lia].
        destruct Hl' as (o & P & Eo & Ef). cbn [rl_d rl_out_rev rl_filled] in *.
        replace (B - (rl_filled s + nlen (firstn_N (B - rl_filled s) (d_outbuf (rl_d s)))))
          with (B - rl_filled s - nlen (firstn_N (B - rl_filled s) (d_outbuf (rl_d s)))) in P by lia.
        rewrite P. eexists. split; [reflexivity|]. rewrite Eo, Ef, rev_append_rev, rev_app_distr, nlen_app.
        rewrite app_assoc. split; [reflexivity|lia].
      * inversion Es; subst; clear Es.
        apply IH in Hl'; [|cbn [rl_filled]; lia].
        destruct Hl' as (o & P & Eo & Ef). cbn [rl_d rl_out_rev rl_filled] in *.
        replace (B - (rl_filled s + nlen (firstn_N (B - rl_filled s) (d_outbuf (rl_d s)))))
          with (B - rl_filled s - nlen (firstn_N (B - rl_filled s) (d_outbuf (rl_d s)))) in P by lia.
        rewrite P. eexists. split; [reflexivity|]. rewrite Eo, Ef, rev_append_rev, rev_app_distr, nlen_app.
        rewrite app_assoc. split; [reflexivity|lia].
  Qed.

  (* Termination of the loop (needs the inner decoder to return) *)
  Hypothesis Hd : dread_total.

  Definition rl_measure (B : N) (s : @rl cbs st) : N :=
    2 * (B - rl_filled s) + (match d_outbuf (rl_d s) with [] => 1 | _ => 0 end) + 1.

  Lemma read_loop_total B s : rl_filled s <= B -> B < 2 ^ 62 ->
    exists r, loop (rstep B) 64 s = Ok r.
  Proof.
    intros Hle HB.
    destruct (loop_total_ok (rstep B) (fun s => rl_filled s <= B) (fun _ => True) (rl_measure B) 64) with (s := s)
      as (r & Hr & _); [| exact Hle | | eauto].
    - clear s Hle. intros s Hle. unfold read_step.
      destruct (rl_filled s <? B) eqn:Elt; [|eexists; split; [reflexivity|exact I]].
      pose proof (nlen_firstn_N (B - rl_filled s) (d_outbuf (rl_d s))) as Lt.
      pose proof (nlen_skipn_N (B - rl_filled s) (d_outbuf (rl_d s))) as Ls.
      destruct (d_failed (rl_d s)); [eexists; split; [reflexivity|exact I]|].
      destruct (skipn_N (B - rl_filled s) (d_outbuf (rl_d s))) as [|y ys] eqn:Er.
      + destruct (Hd (d_inner (rl_d s)) (d_cb (rl_d s))) as (ch & s' & c' & E & Hlen).
        rewrite E. cbn [bind]. destruct (max_read <? nlen ch) eqn:Em; [lia|].
        destruct ch as [|z zs]; [eexists; split; [reflexivity|exact I]|].
        eexists; split; [reflexivity|]. cbn [rl_filled rl_d]. split; [lia|].
        unfold rl_measure. cbn [rl_filled rl_d set_buf d_outbuf].
        assert (nlen (d_outbuf (rl_d s)) <= B - rl_filled s) by (apply skipn_N_nil_iff; exact Er).
        destruct (d_outbuf (rl_d s)) as [|q qs] eqn:Eo.
        * unfold nlen in Lt; simpl in Lt. lia.
        * rewrite nlen_cons in *. lia.
      + eexists; split; [reflexivity|]. cbn [rl_filled rl_d]. split; [lia|].
        unfold rl_measure. cbn [rl_filled rl_d set_buf d_outbuf].
        rewrite nlen_cons in Ls.
        destruct (d_outbuf (rl_d s)) as [|q qs] eqn:Eo; [unfold nlen in Ls; simpl in Ls; lia|].
        rewrite nlen_cons in *. lia.
    - unfold rl_measure. change (N.of_nat 64) with 64.
      assert (2 ^ 64 = 4 * 2 ^ 62) by reflexivity.
      destruct (d_outbuf (rl_d s)); lia.
  Qed.

  (* ---------------------------------------------------------------- *)
  (* lha_decoder_read in terms of pull                                 *)

  Definition clamp (d : dec) (n : N) : N :=
    if d_stream_length d <? d_stream_pos d + n then d_stream_length d - d_stream_pos d else n.

  Definition finish (d1 : dec) (out : list N) : dec :=
    {| d_inner := d_inner d1; d_cb := d_cb d1; d_outbuf := d_outbuf d1;
       d_stream_pos := d_stream_pos d1 + nlen out;
       d_stream_length := d_stream_length d1; d_failed := d_failed d1;
       d_crc := lha_crc16_buf (d_crc d1) out;
       d_monitor := d_monitor d1; d_last_block := d_last_block d1;
       d_total_blocks := d_total_blocks d1 |}.

  Lemma read_spec d n : n < 2 ^ 62 ->
    exists k o d1 ev d2, pull k (clamp d n) d = Some (o, d1) /\
      dec_read d n = Ok (o, ev, d2) /\
      (d_monitor d = false -> d2 = finish d1 o /\ ev = []) /\
      (d_monitor d = true -> (d2, ev) = check_progress block_size (finish d1 o)).
  Proof.
    intros Hn. unfold lha_decoder_read. fold (clamp d n).
    assert (Hc : clamp d n < 2 ^ 62)
      by (unfold clamp; destruct (N.ltb_spec (d_stream_length d) (d_stream_pos d + n)); lia).
    destruct (read_loop_total (clamp d n) {| rl_d := d; rl_out_rev := []; rl_filled := 0 |}) as [r Hr];
      [cbn; lia|exact Hc|].
    rewrite Hr. cbn [bind]. rewrite <- !rev_alt.
    apply loop_sound in Hr. destruct Hr as (k & Hl & _).
    apply loops_pull in Hl; [|cbn; lia].
    destruct Hl as (o & P & Eo & Ef). cbn [rl_d rl_out_rev rl_filled] in *.
    rewrite N.sub_0_r in P. rewrite app_nil_r in Eo. rewrite N.add_0_l in Ef.
    rewrite Eo, rev_involutive, Ef.
    pose proof (pull_passengers _ _ _ _ _ P) as Hp. destruct Hp as (_ & _ & _ & Hm & _ & _).
    fold (finish (rl_d r) o).
    assert (Em : d_monitor (finish (rl_d r) o) = d_monitor d) by (cbn; exact Hm).
    destruct (d_monitor (finish (rl_d r) o)) eqn:Emon.
    - destruct (check_progress block_size (finish (rl_d r) o)) as [d3 ev] eqn:Ecp.
      exists (S k), o, (rl_d r), ev, d3. split; [exact P|]. split; [reflexivity|].
      split; [congruence|]. intros _. symmetry. exact Ecp.
    - exists (S k), o, (rl_d r), [], (finish (rl_d r) o). split; [exact P|]. split; [reflexivity|].
      split; [auto|]. congruence.
  Qed.

  (* ---------------------------------------------------------------- *)
  (* pull does not look at the position / CRC bookkeeping              *)

  Definition repass (d : dec) (pos crc : N) : dec :=
    {| d_inner := d_inner d; d_cb := d_cb d; d_outbuf := d_outbuf d;
       d_stream_pos := pos; d_stream_length := d_stream_length d; d_failed := d_failed d;
       d_crc := crc; d_monitor := d_monitor d; d_last_block := d_last_block d;
       d_total_blocks := d_total_blocks d |}.

  Lemma pull_repass k : forall w d p c,
    pull k w (repass d p c) =
    match pull k w d with Some (o, d') => Some (o, repass d' p c) | None => None end.
  Proof.
    induction k as [|k IH]; intros w d p c.
    - simpl. destruct (w =? 0); reflexivity.
    - rewrite !pull_S. cbv zeta. destruct (w =? 0); [reflexivity|].
      cbn [repass d_failed d_outbuf d_inner d_cb].
      destruct (d_failed d); [reflexivity|].
      destruct (skipn_N w (d_outbuf d)) as [|y ys].
      + destruct (dread (d_inner d) (d_cb d)) as [[[chunk inner'] c']| |]; try reflexivity.
        destruct (max_read <? nlen chunk); [reflexivity|].
        destruct chunk as [|z zs]; [reflexivity|].
        change (set_buf (repass d p c) inner' c' (z :: zs) false) with (repass (set_buf d inner' c' (z :: zs) false) p c).
        rewrite IH. destruct (pull k _ _) as [[o d']|]; reflexivity.
      + change (set_buf (repass d p c) (d_inner d) (d_cb d) (y :: ys) false)
          with (repass (set_buf d (d_inner d) (d_cb d) (y :: ys) false) p c).
        rewrite IH. destruct (pull k _ _) as [[o d']|]; reflexivity.
  Qed.

  Lemma finish_repass d o :
    finish d o = repass d (d_stream_pos d + nlen o) (lha_crc16_buf (d_crc d) o).
  Proof. reflexivity. Qed.

  (* the read loop's state well-formedness *)
  Definition pos_ok (d : dec) : Prop := d_stream_pos d <= d_stream_length d.

  Lemma clamp_le d n : pos_ok d -> d_stream_pos d + clamp d n <= d_stream_length d /\ clamp d n <= n.
  Proof.
    unfold pos_ok, clamp. intros H.
    destruct (N.ltb_spec (d_stream_length d) (d_stream_pos d + n)); lia.
  Qed.

  (* One read, monitor off, in terms of pull. *)
  Lemma read_spec_off d n : n < 2 ^ 62 -> d_monitor d = false ->
    exists k o d1, pull k (clamp d n) d = Some (o, d1) /\ dec_read d n = Ok (o, [], finish d1 o).
  Proof.
    intros Hn Hm. destruct (read_spec d n Hn) as (k & o & d1 & ev & d2 & P & R & Hoff & _).
    destruct (Hoff Hm) as [-> ->]. eauto.
  Qed.

  (* ---------------------------------------------------------------- *)
  (* Sequences of reads                                                *)

  Fixpoint run_reads (d : dec) (ks : list N) : outcome (list (list N) * dec) :=
    match ks with
    | [] => Ok ([], d)
    | k :: r =>
      '(o, _, d1) <- dec_read d k ;;
      '(os, d2) <- run_reads d1 r ;;
      Ok (o :: os, d2)
    end.

  Lemma finish_nil d : finish d [] = d.
  Proof. destruct d. unfold finish. cbn. f_equal. unfold nlen; simpl. lia. Qed.

  Lemma read_zero d : pos_ok d -> d_monitor d = false -> dec_read d 0 = Ok ([], [], d).
  Proof.
    intros Hp Hm. destruct (read_spec_off d 0) as (k & o & d1 & P & R); [lia|exact Hm|].
    assert (clamp d 0 = 0) by (destruct (clamp_le d 0 Hp); lia).
    rewrite H, pull_0 in P. inversion P; subst. rewrite finish_nil in R. exact R.
  Qed.

  Lemma finish_monitor d o : d_monitor (finish d o) = d_monitor d.
  Proof. reflexivity. Qed.

  (* Two consecutive reads are one read of the sum. *)
  Lemma read_read d n1 n2 o1 d1 o2 d2 :
    pos_ok d -> d_monitor d = false -> n1 + n2 < 2 ^ 62 ->
    dec_read d n1 = Ok (o1, [], d1) -> dec_read d1 n2 = Ok (o2, [], d2) ->
    dec_read d (n1 + n2) = Ok (o1 ++ o2, [], d2) /\ pos_ok d1 /\ d_monitor d1 = false.
  Proof.
    intros Hp Hm Hn R1 R2.
    destruct (read_spec_off d n1) as (k1 & a1 & e1 & P1 & R1'); [lia|exact Hm|].
    rewrite R1 in R1'. inversion R1'; subst o1 d1; clear R1'.
    pose proof (pull_passengers _ _ _ _ _ P1) as (Pp & Pl & Pc & Pm & _).
    pose proof (pull_length _ _ _ _ _ P1) as [Len1 Short1].
    destruct (clamp_le d n1 Hp) as [C1a C1b].
    assert (Hp1 : pos_ok (finish e1 a1)).
    { unfold pos_ok. cbn [finish d_stream_pos d_stream_length]. lia. }
    assert (Hm1 : d_monitor (finish e1 a1) = false) by (rewrite finish_monitor; congruence).
    split; [|split; assumption].
    destruct (read_spec_off (finish e1 a1) n2) as (k2 & a2 & e2 & P2 & R2'); [lia|exact Hm1|].
    rewrite R2 in R2'. inversion R2'; subst o2 d2; clear R2'.
    destruct (read_spec_off d (n1 + n2)) as (k3 & a3 & e3 & P3 & R3); [lia|exact Hm|].
    rewrite R3. clear R1 R2 R3.
    destruct (clamp_le d (n1 + n2) Hp) as [C3a C3b].
    (* split the big pull *)
    assert (Esplit : clamp d (n1 + n2) = clamp d n1 + (clamp d (n1 + n2) - clamp d n1)).
    { unfold clamp in *.
      destruct (N.ltb_spec (d_stream_length d) (d_stream_pos d + n1));
      destruct (N.ltb_spec (d_stream_length d) (d_stream_pos d + (n1 + n2))); lia. }
    rewrite Esplit in P3. apply pull_compose in P3.
    destruct P3 as (b1 & f1 & b2 & Q1 & Q2 & Eo).
    assert (Eq1 := pull_det _ _ _ _ _ _ P1 Q1). inversion Eq1; subst b1 f1; clear Eq1 Q1.
    rewrite finish_repass in P2. rewrite pull_repass in P2.
    destruct (N.eq_dec (nlen a1) (clamp d n1)) as [Efull|Eshort].
    - (* the first read was served in full: the clamps add up *)
      assert (Ec : clamp (repass e1 (d_stream_pos e1 + nlen a1) (lha_crc16_buf (d_crc e1) a1)) n2
                   = clamp d (n1 + n2) - clamp d n1).
      { unfold clamp in *. cbn [repass d_stream_pos d_stream_length]. rewrite Pp, Pl, Efull.
        destruct (N.ltb_spec (d_stream_length d) (d_stream_pos d + n1));
        destruct (N.ltb_spec (d_stream_length d) (d_stream_pos d + (n1 + n2)));
        destruct (N.ltb_spec (d_stream_length d) (d_stream_pos d + (d_stream_length d - d_stream_pos d) + n2));
        destruct (N.ltb_spec (d_stream_length d) (d_stream_pos d + n1 + n2)); lia. }
      rewrite Ec in P2.
      destruct (pull k2 _ e1) as [[x dx]|] eqn:Ex; [|discriminate].
      inversion P2; subst a2 e2; clear P2.
      assert (Eq2 := pull_det _ _ _ _ _ _ Ex Q2). inversion Eq2; subst x dx; clear Eq2.
      subst a3. f_equal. f_equal.
      pose proof (pull_passengers _ _ _ _ _ Q2) as (Qp & Ql & Qc & Qm & Qb & Qt).
      unfold finish, repass. cbn. rewrite nlen_app, crc16_split_proof.
      f_equal; try congruence; try lia.
    - (* short delivery: the decoder is dead; everything after returns nothing *)
      destruct (Short1 ltac:(lia)) as [Df Do].
      rewrite (pull_dead _ _ e1 Df Do) in Q2 by (left; lia).
      inversion Q2; subst b2 e3; clear Q2.
      destruct k2 as [|k2].
      + simpl in P2. destruct (_ =? 0) eqn:E0; [|discriminate]. inversion P2; subst a2 e2; clear P2.
        subst a3. rewrite app_nil_r. rewrite (set_buf_id e1 Df Do). rewrite finish_nil. reflexivity.
      + rewrite (pull_dead _ _ e1 Df Do) in P2 by (left; lia).
        inversion P2; subst a2 e2; clear P2.
        subst a3. rewrite app_nil_r. rewrite (set_buf_id e1 Df Do).
        rewrite <- finish_repass. rewrite finish_nil. reflexivity.
  Qed.

  Theorem reads_compose_proof : forall ks d, pos_ok d -> d_monitor d = false -> sum_N ks < 2 ^ 62 ->
    exists os d', run_reads d ks = Ok (os, d') /\
                  dec_read d (sum_N ks) = Ok (concat os, [], d') /\ pos_ok d' /\ d_monitor d' = false.
  Proof.
    induction ks as [|k r IH]; intros d Hp Hm Hs.
    - exists [], d. cbn [run_reads concat]. split; [reflexivity|].
      split; [apply read_zero; assumption|]. split; assumption.
    - rewrite sum_N_cons in Hs.
      destruct (read_spec_off d k) as (k1 & a1 & e1 & P1 & R1); [lia|exact Hm|].
      cbn [run_reads]. rewrite R1. cbn [bind].
      pose proof (pull_passengers _ _ _ _ _ P1) as (Pp & Pl & Pc & Pm & _).
      pose proof (pull_length _ _ _ _ _ P1) as [Len1 _].
      destruct (clamp_le d k Hp) as [C1a C1b].
      assert (Hp1 : pos_ok (finish e1 a1)).
      { unfold pos_ok. cbn [finish d_stream_pos d_stream_length]. lia. }
      assert (Hm1 : d_monitor (finish e1 a1) = false) by (rewrite finish_monitor; congruence).
      destruct (IH (finish e1 a1) Hp1 Hm1) as (os & d' & Rr & Rs & Hp' & Hm'); [lia|].
      rewrite Rr. cbn [bind]. exists (a1 :: os), d'. split; [reflexivity|].
      rewrite sum_N_cons. cbn [concat].
      destruct (read_read d k (sum_N r) a1 (finish e1 a1) (concat os) d' Hp Hm ltac:(lia) R1 Rs) as (Rb & _ & _).
      split; [exact Rb|]. split; assumption.
  Qed.

  Lemma run_reads_det d ks a b : run_reads d ks = Ok a -> run_reads d ks = Ok b -> a = b.
  Proof. congruence. Qed.

  Theorem reads_length_crc_proof ks d os d' :
    pos_ok d -> d_monitor d = false -> sum_N ks < 2 ^ 62 -> run_reads d ks = Ok (os, d') ->
    d_stream_pos d' = d_stream_pos d + nlen (concat os) /\
    d_crc d' = lha_crc16_buf (d_crc d) (concat os) /\
    d_stream_length d' = d_stream_length d /\
    d_stream_pos d + nlen (concat os) <= d_stream_length d.
  Proof.
    intros Hp Hm Hs Hr.
    destruct (reads_compose_proof ks d Hp Hm Hs) as (os0 & d0 & R0 & Rs & Hp' & _).
    rewrite Hr in R0. inversion R0; subst os0 d0; clear R0.
    destruct (read_spec_off d (sum_N ks) Hs Hm) as (k & o & d1 & P & R).
    rewrite Rs in R. inversion R; subst; clear R.
    pose proof (pull_passengers _ _ _ _ _ P) as (Pp & Pl & Pc & _).
    pose proof (pull_length _ _ _ _ _ P) as [Len _].
    destruct (clamp_le d (sum_N ks) Hp).
    cbn [finish d_stream_pos d_crc d_stream_length]. rewrite Pp, Pl, Pc.
    repeat split; try reflexivity. lia.
  Qed.

  (* At the declared length a read returns nothing and the decoder -- inner
     decoder and input callback state included -- is unchanged. *)
  Theorem read_at_end_proof d n : d_stream_pos d = d_stream_length d -> d_monitor d = false -> n < 2 ^ 62 ->
    dec_read d n = Ok ([], [], d).
  Proof.
    intros He Hm Hn.
    destruct (read_spec_off d n Hn Hm) as (k & o & d1 & P & R).
    assert (clamp d n = 0).
    { unfold clamp. destruct (N.ltb_spec (d_stream_length d) (d_stream_pos d + n)); lia. }
    rewrite H, pull_0 in P. inversion P; subst. rewrite finish_nil in R. exact R.
  Qed.

  (* A single read never returns more than asked. *)
  Theorem read_at_most_asked_proof d n o ev d' : pos_ok d -> n < 2 ^ 62 ->
    dec_read d n = Ok (o, ev, d') -> nlen o <= n.
  Proof.
    intros Hp Hn R. destruct (read_spec d n Hn) as (k & o1 & d1 & ev1 & d2 & P & R1 & _).
    rewrite R in R1. inversion R1; subst.
    pose proof (pull_length _ _ _ _ _ P) as [Len _]. destruct (clamp_le d n Hp). lia.
  Qed.

  (* ---------------------------------------------------------------- *)
  (* From the chunks an inner decoder yields to what the API returns.  *)

  (* the inner decoder, started in (s, c), yields these non-empty chunks in order *)
  Inductive chunks_from : st -> cbs -> list (list N) -> Prop :=
  | chunks_nil s c : chunks_from s c []
  | chunks_cons s c ch s' c' rest :
      dread s c = Ok (ch, s', c') -> ch <> [] -> nlen ch <= max_read ->
      chunks_from s' c' rest -> chunks_from s c (ch :: rest).

  Lemma pull_chunks chs : forall s c (d : dec) w,
    chunks_from s c chs -> d_inner d = s -> d_cb d = c -> d_failed d = false ->
    w <= nlen (d_outbuf d ++ concat chs) ->
    exists k d', pull k w d = Some (firstn_N w (d_outbuf d ++ concat chs), d').
  Proof.
    induction chs as [|ch rest IH]; intros s c d w Hc Hi Hcb Hf Hw.
    - (* no more chunks known: w is within the buffer *)
      cbn [concat] in *. rewrite app_nil_r in *.
      destruct (N.eq_dec w 0) as [->|Hw0].
      { exists O, d. rewrite pull_0, firstn_N_0. reflexivity. }
      assert (E0 : (w =? 0) = false) by (apply N.eqb_neq; exact Hw0).
      destruct (skipn_N_cases w (d_outbuf d)) as [[L Es]|[L (y & ys & Es)]].
      + destruct (Hd (d_inner d) (d_cb d)) as (ch & s' & c' & E & Hlen).
        assert (Em : (max_read <? nlen ch) = false) by (apply N.ltb_ge; exact Hlen).
        exists 2%nat. rewrite pull_S. cbv zeta. rewrite E0, Hf, Es, E, Em.
        destruct ch as [|z zs]; [eauto|].
        replace (w - nlen (firstn_N w (d_outbuf d))) with 0 by (rewrite nlen_firstn_N; lia).
        rewrite pull_0, app_nil_r. eauto.
      + exists 2%nat. rewrite pull_S. cbv zeta. rewrite E0, Hf, Es.
        replace (w - nlen (firstn_N w (d_outbuf d))) with 0 by (rewrite nlen_firstn_N; lia).
        rewrite pull_0, app_nil_r. eauto.
    - inversion Hc as [|? ? ? s' c' ? Edr Hne Hlen Hrest]; subst.
      cbn [concat] in *.
      destruct (N.eq_dec w 0) as [->|Hw0].
      { exists O, d. rewrite pull_0, firstn_N_0. reflexivity. }
      assert (E0 : (w =? 0) = false) by (apply N.eqb_neq; exact Hw0).
      destruct (skipn_N_cases w (d_outbuf d)) as [[L Es]|[L (y & ys & Es)]].
      + (* the buffer is used up: the next chunk is fetched *)
        assert (Em : (max_read <? nlen ch) = false) by (apply N.ltb_ge; exact Hlen).
        destruct (IH s' c' (set_buf d s' c' ch false) (w - nlen (d_outbuf d)) Hrest) as (k & d' & P);
          try reflexivity.
        { cbn [set_buf d_outbuf]. rewrite !nlen_app in *. lia. }
        cbn [set_buf d_outbuf] in P.
        exists (S k), d'. rewrite pull_S. cbv zeta. rewrite E0, Hf, Es, Edr, Em.
        destruct ch as [|z zs]; [congruence|].
        rewrite (firstn_N_all w (d_outbuf d)) by lia. rewrite P.
        rewrite (firstn_N_app_r w (d_outbuf d)) by lia. reflexivity.
      + exists 2%nat. rewrite pull_S. cbv zeta. rewrite E0, Hf, Es.
        replace (w - nlen (firstn_N w (d_outbuf d))) with 0 by (rewrite nlen_firstn_N; lia).
        rewrite pull_0, app_nil_r. rewrite firstn_N_app_l by lia. eauto.
  Qed.

  (* What the API returns for an inner decoder that yields the chunks [chs]:
     any read schedule whose sizes add up to at least the declared length L
     returns exactly the first L bytes of the chunks, provided they hold L bytes. *)
  Theorem decode_of_chunks_proof : forall chs s c L ks os d',
    chunks_from s c chs -> L <= nlen (concat chs) -> L <= sum_N ks -> sum_N ks < 2 ^ 62 ->
    run_reads (lha_decoder_new s c L) ks = Ok (os, d') ->
    concat os = firstn_N L (concat chs).
  Proof.
    intros chs s c L ks os d' Hc HL Hk Hs Hr.
    set (d0 := lha_decoder_new s c L) in *.
    assert (Hp : pos_ok d0) by (unfold pos_ok; cbn; lia).
    destruct (reads_compose_proof ks d0 Hp eq_refl Hs) as (os0 & d0' & R0 & Rs & _).
    rewrite Hr in R0. inversion R0; subst os0 d0'; clear R0.
    destruct (read_spec_off d0 (sum_N ks) Hs eq_refl) as (k & o & d1 & P & R).
    rewrite Rs in R. inversion R; subst; clear R.
    assert (Ec : clamp d0 (sum_N ks) = L).
    { unfold clamp, d0. cbn [lha_decoder_new d_stream_length d_stream_pos].
      destruct (N.ltb_spec L (0 + sum_N ks)); lia. }
    rewrite Ec in P.
    destruct (pull_chunks chs s c d0 L Hc eq_refl eq_refl eq_refl) as (k2 & d2 & P2).
    { cbn. exact HL. }
    cbn [d0 lha_decoder_new d_outbuf app] in P2.
    pose proof (pull_det _ _ _ _ _ _ P P2) as E. inversion E. reflexivity.
  Qed.
End DecoderProofs.

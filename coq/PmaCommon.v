(* PmaCommon.v -- model of lib/pma_common.c: variable-length table decoding
   and the history linked list shared by the -pm1- and -pm2- decoders.
   Checked-access sites 900-929. *)
From Lhasa Require Import Base DecBase BitReader Generated.
Local Open Scope N_scope.

(* typedef struct { unsigned int offset; unsigned int bits; } VariableLengthTable;
   A table (an array of these) is a pair of arrays of the same extent. *)
Record vltable := { vl_offset : arr; vl_bits : arr }.
Definition mk_vltable (offsets bits : list N) : vltable :=
  {| vl_offset := arr_of_list 0 offsets; vl_bits := arr_of_list 0 bits |}.

(* typedef struct { uint8_t prev; uint8_t next; } HistoryNode;
   typedef struct { HistoryNode history[256]; uint8_t history_head; } HistoryLinkedList;
   history[i].prev is h_prev[i], history[i].next is h_next[i]; all stored
   values are uint8_t. *)
Record hlist := { h_prev : arr; h_next : arr; h_head : N }.

(* for (i = 0; i < 256; ++i) {
       list->history[i].prev = (uint8_t) (i + 1);
       list->history[i].next = (uint8_t) (i - 1);     i is unsigned: i - 1 = i + 2^32 - 1,
   }                                                   and (uint8_t) of that is (i + 255) mod 256 *)
Fixpoint init_history_loop (n : nat) (i : N) (p nx : arr) : outcome (arr * arr) :=
  match n with
  | O => Ok (p, nx)
  | S k =>
    p' <- wr 901 p i (u8 (i + 1)) ;;
    nx' <- wr 902 nx i (u8 (i + 255)) ;;
    init_history_loop k (i + 1) p' nx'
  end.

(* static void init_history_list(HistoryLinkedList *list)
   {
       for (i = 0; i < 256; ++i) { ... }
       list->history_head = 0x20;
       list->history[0x7f].prev = 0x00;  list->history[0x00].next = 0x7f;
       list->history[0x1f].prev = 0xa0;  list->history[0xa0].next = 0x1f;
       list->history[0xdf].prev = 0x80;  list->history[0x80].next = 0xdf;
       list->history[0x9f].prev = 0xe0;  list->history[0xe0].next = 0x9f;
       list->history[0xff].prev = 0x20;  list->history[0x20].next = 0xff;
   }
   The struct memory is arbitrary before the call; every element is written
   by the loop. *)
Definition init_history_list : outcome hlist :=
  '(p, nx) <- init_history_loop 256 0 (mk_arr pma_history_extent 0) (mk_arr pma_history_extent 0) ;;
  p <- wr 903 p 127 0 ;;      nx <- wr 904 nx 0 127 ;;
  p <- wr 905 p 31 160 ;;     nx <- wr 906 nx 160 31 ;;
  p <- wr 907 p 223 128 ;;    nx <- wr 908 nx 128 223 ;;
  p <- wr 909 p 159 224 ;;    nx <- wr 910 nx 224 159 ;;
  p <- wr 911 p 255 32 ;;     nx <- wr 912 nx 32 255 ;;
  Ok {| h_prev := p; h_next := nx; h_head := 32 |}.

(* for (i = 0; i < n; ++i) { code = list->history[code].prev; }   (a = h_prev, site 913)
   for (i = 0; i < n; ++i) { code = list->history[code].next; }   (a = h_next, site 914)
   n <= 128. *)
Fixpoint history_walk (site : N) (n : nat) (a : arr) (code : N) : outcome N :=
  match n with
  | O => Ok code
  | S k => code' <- rd site a code ;; history_walk site k a code'
  end.

(* static uint8_t find_in_history_list(HistoryLinkedList *list, uint8_t count)
   {
       code = list->history_head;
       if (count < 128) {
           for (i = 0; i < count; ++i) code = list->history[code].prev;
       } else {
           for (i = 0; i < 256U - count; ++i) code = list->history[code].next;
       }
       return code;
   }
   The argument is converted to the parameter type uint8_t. *)
Definition find_in_history_list (l : hlist) (count : N) : outcome N :=
  let count := u8 count in
  if count <? 128 then history_walk 913 (N.to_nat count) (h_prev l) (h_head l)
  else history_walk 914 (N.to_nat (256 - count)) (h_next l) (h_head l).

(* static void update_history_list(HistoryLinkedList *list, uint8_t b)
   {
       if (list->history_head == b) return;
       node = &list->history[b];
       list->history[node->next].prev = node->prev;
       list->history[node->prev].next = node->next;
       old_head = &list->history[list->history_head];
       node->prev = list->history_head;
       node->next = old_head->next;
       list->history[old_head->next].prev = b;
       old_head->next = b;
       list->history_head = b;
   }
   Every field read is taken from the arrays as they are at that statement. *)
Definition update_history_list (l : hlist) (b : N) : outcome hlist :=
  let b := u8 b in
  let head := h_head l in
  if head =? b then Ok l
  else
    let p := h_prev l in
    let nx := h_next l in
    (* list->history[node->next].prev = node->prev; *)
    node_next <- rd 915 nx b ;;
    node_prev <- rd 916 p b ;;
    p <- wr 917 p node_next node_prev ;;
    (* list->history[node->prev].next = node->next; *)
    node_prev <- rd 918 p b ;;
    node_next <- rd 919 nx b ;;
    nx <- wr 920 nx node_prev node_next ;;
    (* node->prev = list->history_head; *)
    p <- wr 921 p b head ;;
    (* node->next = old_head->next; *)
    old_head_next <- rd 922 nx head ;;
    nx <- wr 923 nx b old_head_next ;;
    (* list->history[old_head->next].prev = b; *)
    old_head_next <- rd 924 nx head ;;
    p <- wr 925 p old_head_next b ;;
    (* old_head->next = b; *)
    nx <- wr 926 nx head b ;;
    Ok {| h_prev := p; h_next := nx; h_head := b |}.

Section PmaCommon.
  Context {cbs : Type}.
  Variable cb : callback cbs.

  (* static int decode_variable_length(BitStreamReader *reader, const VariableLengthTable *table,
                                       unsigned int header)
     {
         value = read_bits(reader, table[header].bits);
         if (value < 0) return -1;
         return (int) table[header].offset + value;
     }
     The table's extent is the length of the arrays: an index outside it is a fault. *)
  Definition decode_variable_length (table : vltable) (r : bsr) (c : cbs) (header : N)
    : outcome (option N * bsr * cbs) :=
    nbits <- rd 927 (vl_bits table) header ;;
    '(value, r', c') <- read_bits cb r c nbits ;;
    match value with
    | None => Ok (None, r', c')
    | Some v =>
      offset <- rd 928 (vl_offset table) header ;;
      Ok (Some (offset + v), r', c')
    end.
End PmaCommon.

(* P_Pm2Sim.v -- simulation of a whole -pm2- stream description (C04).

   sim         : decoder state vs. a position of the specification inside
                 segment k, with the tables (ct, ot) in force
   cmd_A / cmd_B / cmd_C : one pm2_read_body on the bits of one command
       A: the command ends inside segment k
       B: it reaches the end of segment k and the header of segment k + 1
          follows its bits (the re-read happens inside output_byte, possibly
          in the middle of a copy)
       C: it reaches the end of segment k and nothing is known about what
          follows (last command of a stream): the bytes are right all the same
   segs_fwd    : the bits of S_Pm.pm2_segs_bits in reading order
   run_segs    : the chunks the decoder yields for the commands of all
                 remaining segments, one chunk per command *)
From Lhasa Require Import Base ListN DecBase BitReader Loop Sweep Tree PmaCommon Generated Pm2
  S_Larc S_Pm Decoder P_Decoder P_BitReader P_Tree P_PmaCommon P_Pm2 P_Pm2Rt P_TreeCanonPm P_Pm2Lens
  P_Pm2Off P_Pm2Copy P_Pm2Cmd P_Pm2Seg.
From Coq Require Import ZifyBool ZifyN ZifyNat.
Local Open Scope N_scope.

Definition sim (k : N) (ct : codetab) (ot : list N) (st : pst) (s : pm2_state) (c : src)
           (pend : list bool) : Prop :=
  data_ok s st /\ tree_safe s /\ bsr_wf (pm2_bsr s) /\ src_ok c /\ pending (pm2_bsr s) c = pend /\
  tabs_ok s (Some ct) ot /\ pm2_tree_state s = st_of (k + 1) /\
  ps_pos st < pm2_seg_end k /\ rem_of s = pm2_seg_end k - ps_pos st.

(* ------------------------------------------------------------------ *)
(* emitting all bytes of a command                                     *)

Lemma ps_pos_fold bs : forall st, ps_pos (fold_left pst_out bs st) = ps_pos st + nlen bs.
Proof.
  induction bs as [|b r IH]; intros st; [cbn [fold_left]; change (nlen (@nil N)) with 0; lia|].
  cbn [fold_left]. rewrite IH, nlen_cons. unfold ps_pos. cbn [pst_out ps_h ph_push ph_n]. lia.
Qed.

Lemma ob_bytes_rev o l : ob_rev o = rev l ++ [] -> ob_bytes o = l.
Proof. intros E. unfold ob_bytes. rewrite rev_append_rev, app_nil_r, E, app_nil_r. apply rev_involutive. Qed.

Lemma emit_all bs st sr (cr : src) : data_ok sr st -> Forall (fun b => b < 256) bs -> nlen bs <= 256 ->
  nlen bs < rem_of sr ->
  exists s3 o3, emit bs sr cr ob_empty = Ok (s3, cr, o3) /\ ob_bytes o3 = bs /\
    data_ok s3 (fold_left pst_out bs st) /\ tabs_same sr s3 /\ rem_of s3 = rem_of sr - nlen bs.
Proof.
  intros Hd Hall Hlen Hrem.
  destruct (emit_norebuild bs st sr cr ob_empty Hd Hall Hrem obw_empty) as (s3 & o3 & E & D & T & R & _ & V);
    [change (ob_len ob_empty) with 0; lia|].
  exists s3, o3. split; [exact E|]. split; [apply ob_bytes_rev; exact V|]. auto.
Qed.

Lemma emit_all_cross bs st sr (cr : src) : data_ok sr st -> Forall (fun b => b < 256) bs -> nlen bs <= 256 ->
  1 <= rem_of sr -> rem_of sr <= nlen bs ->
  exists bs1 bs2 s1, bs = bs1 ++ bs2 /\ nlen bs1 = rem_of sr /\
    data_ok s1 (fold_left pst_out bs1 st) /\ tabs_same sr s1 /\
    forall s2 c2, rebuild_tree src_cb s1 cr = Ok (s2, c2) ->
      exists s3 o3, emit bs sr cr ob_empty = Ok (s3, c2, o3) /\ ob_bytes o3 = bs /\
        data_ok s3 (fold_left pst_out bs st) /\ tabs_same s2 s3 /\ rem_of s3 = rem_of s2 - nlen bs2.
Proof.
  intros Hd Hall Hlen Hrem1 Hrem.
  destruct (emit_cross bs st sr cr ob_empty Hd Hall Hrem1 Hrem obw_empty)
    as (bs1 & bs2 & s1 & o1 & Eb & Nb & D1 & T1 & R1 & O1 & V1 & L1 & E);
    [change (ob_len ob_empty) with 0; lia|].
  exists bs1, bs2, s1. split; [exact Eb|]. split; [exact Nb|]. split; [exact D1|]. split; [exact T1|].
  intros s2 c2 Er. rewrite E, Er. cbn [bind]. cbv beta iota.
  destruct (rebuild_frame src_cb s1 cr s2 c2 Er) as [Fr Rr].
  pose proof (data_ok_frame s1 s2 _ Fr D1) as D2.
  assert (Hall2 : Forall (fun b => b < 256) bs2) by (rewrite Eb in Hall; apply Forall_app in Hall; apply Hall).
  assert (Hl2 : nlen bs2 <= 256) by (rewrite Eb, nlen_app in Hlen; lia).
  destruct (emit_norebuild bs2 _ s2 c2 o1 D2 Hall2) as (s3 & o3 & E3 & D3 & T3 & R3 & _ & V3);
    [lia|exact O1|exact L1|].
  exists s3, o3. split; [exact E3|]. split.
  { apply ob_bytes_rev. rewrite V3, V1. change (ob_rev ob_empty) with (@nil N).
    rewrite Eb, rev_app_distr, <- !app_assoc. reflexivity. }
  split; [rewrite Eb, fold_left_app; exact D3|]. split; [exact T3|exact R3].
Qed.

Lemma cmd_bytes_len ct ot st cmd : wf_pm2_cmd ct ot st cmd = true ->
  1 <= nlen (cmd_bytes st cmd) /\ nlen (cmd_bytes st cmd) <= 256.
Proof.
  intros H. unfold wf_pm2_cmd in H. apply andb_true_iff in H. destruct H as [H _].
  destruct cmd as [v|dist len]; cbn [cmd_bytes].
  - change (nlen [v]) with 1. lia.
  - unfold nlen. rewrite copy_bytes_length. lia.
Qed.

(* ------------------------------------------------------------------ *)
(* one command                                                         *)

Lemma sim_cmd_read k ct ot st s (c : src) cmd rest :
  sim k ct ot st s c (obits (pm2_cmd_code (Some ct) ot (ps_mtf st) cmd) ++ rest) ->
  wf_pm2_cmd (Some ct) ot st cmd = true ->
  exists sr cr, bsr_frame s sr /\ bsr_wf (pm2_bsr sr) /\ src_ok cr /\ pending (pm2_bsr sr) cr = rest /\
    data_ok sr st /\ rem_of sr = pm2_seg_end k - ps_pos st /\
    Forall (fun b => b < 256) (cmd_bytes st cmd) /\
    pm2_read_body src_cb s c =
    ('(s3, c3, o) <- emit (cmd_bytes st cmd) sr cr ob_empty ;; Ok (ob_bytes o, s3, c3)).
Proof.
  intros (Hd & Hts & Hr & Hc & Hp & [[Hdec Hneed] Hot] & Hst & Hpos & Hrem) Hwf.
  destruct (cmd_read ct ot st s c cmd rest Hd) as (sr & cr & Fr & W & S & P & _ & _ & Hall & E);
    try assumption; [lia|].
  exists sr, cr. split; [exact Fr|]. split; [exact W|]. split; [exact S|]. split; [exact P|].
  split; [apply (data_ok_bsr_frame s sr st Fr Hd)|].
  split; [destruct Fr as (_ & _ & _ & _ & _ & Er); rewrite Er; exact Hrem|].
  split; [exact Hall|exact E].
Qed.

Theorem cmd_A k ct ot st s (c : src) cmd rest :
  sim k ct ot st s c (obits (pm2_cmd_code (Some ct) ot (ps_mtf st) cmd) ++ rest) ->
  wf_pm2_cmd (Some ct) ot st cmd = true ->
  ps_pos (pst_cmd pm2_window st cmd) < pm2_seg_end k ->
  exists s' c', pm2_read_body src_cb s c = Ok (cmd_bytes st cmd, s', c') /\
    sim k ct ot (pst_cmd pm2_window st cmd) s' c' rest.
Proof.
  intros Hsim Hwf Hend.
  destruct (sim_cmd_read k ct ot st s c cmd rest Hsim Hwf) as (sr & cr & Fr & W & S & P & Dr & Rr & Hall & E).
  destruct Hsim as (Hd & Hts & Hr & Hc & Hp & Htabs & Hst & Hpos & Hrem).
  destruct (cmd_bytes_len _ _ _ _ Hwf) as [L1 L2].
  rewrite pst_cmd_emit in Hend |- *. rewrite ps_pos_fold in Hend.
  destruct (emit_all (cmd_bytes st cmd) st sr cr Dr Hall L2) as (s3 & o3 & E3 & B3 & D3 & T3 & R3); [lia|].
  exists s3, cr. split; [rewrite E, E3; cbn [bind]; cbv beta iota; rewrite B3; reflexivity|].
  pose proof (trees_same_trans _ _ _ (trees_same_bsr_frame _ _ Fr) (trees_same_tabs_same _ _ T3)) as Hsame.
  destruct T3 as (Eb & _).
  unfold sim. split; [exact D3|]. split; [apply (tree_safe_same s s3 Hsame Hts)|].
  rewrite Eb. split; [exact W|]. split; [exact S|]. split; [exact P|].
  split; [apply (tabs_ok_same s s3 _ _ Hsame Htabs)|].
  split; [destruct Hsame as (_ & _ & _ & Es); rewrite Es; exact Hst|].
  rewrite ps_pos_fold. split; [exact Hend|]. rewrite R3, Rr. lia.
Qed.

Theorem cmd_B k ct ot st s (c : src) cmd sg rest :
  sim k ct ot st s c (obits (pm2_cmd_code (Some ct) ot (ps_mtf st) cmd) ++ pm2_hdr_bits (k + 1) sg ++ rest) ->
  wf_pm2_cmd (Some ct) ot st cmd = true ->
  pm2_seg_end k <= ps_pos (pst_cmd pm2_window st cmd) ->
  wf_pm2_hdr (k + 1) (Some ct) sg = true ->
  exists s' c' ct', seg_ct (Some ct) sg = Some ct' /\
    pm2_read_body src_cb s c = Ok (cmd_bytes st cmd, s', c') /\
    sim (k + 1) ct' (seg_ot ot sg) (pst_cmd pm2_window st cmd) s' c' rest.
Proof.
  intros Hsim Hwf Hend Hhdr.
  destruct (sim_cmd_read k ct ot st s c cmd _ Hsim Hwf) as (sr & cr & Fr & W & S & P & Dr & Rr & Hall & E).
  destruct Hsim as (Hd & Hts & Hr & Hc & Hp & Htabs & Hst & Hpos & Hrem).
  destruct (cmd_bytes_len _ _ _ _ Hwf) as [L1 L2].
  rewrite pst_cmd_emit in Hend |- *. rewrite ps_pos_fold in Hend.
  destruct (emit_all_cross (cmd_bytes st cmd) st sr cr Dr Hall L2) as (bs1 & bs2 & s1 & Eb & Nb & D1 & T1 & Hafter);
    [lia|lia|].
  pose proof (trees_same_trans _ _ _ (trees_same_bsr_frame _ _ Fr) (trees_same_tabs_same _ _ T1)) as Hsame1.
  pose proof T1 as (Eb1 & _).
  destruct (rebuild_hdr (k + 1) (Some ct) ot sg s1 cr _ rest D1 (tree_safe_same s s1 Hsame1 Hts))
    as (s2 & c2 & ct' & Ect & Er & W2 & S2 & P2 & T2 & Ts2 & St2 & R2 & F2).
  { rewrite Eb1. exact W. }
  { exact S. }
  { apply (tabs_ok_same s s1 _ _ Hsame1 Htabs). }
  { destruct Hsame1 as (_ & _ & _ & Es). rewrite Es. exact Hst. }
  { exact Hhdr. }
  { rewrite Eb1. exact P. }
  destruct (Hafter s2 c2 Er) as (s3 & o3 & E3 & B3 & D3 & T3 & R3).
  exists s3, c2, ct'. split; [exact Ect|].
  split; [rewrite E, E3; cbn [bind]; cbv beta iota; rewrite B3; reflexivity|].
  pose proof (trees_same_tabs_same _ _ T3) as Hsame3. destruct T3 as (Eb3 & _).
  unfold sim. split; [exact D3|]. split; [apply (tree_safe_same s2 s3 Hsame3 Ts2)|].
  rewrite Eb3. split; [exact W2|]. split; [exact S2|]. split; [exact P2|].
  split; [apply (tabs_ok_same s2 s3 _ _ Hsame3 T2)|].
  split; [destruct Hsame3 as (_ & _ & _ & Es); rewrite Es; exact St2|].
  rewrite ps_pos_fold.
  pose proof (seg_end_len (k + 1)) as Hse. rewrite seg_start_next in Hse.
  pose proof (seg_len_ge (k + 1)) as Hge.
  assert (Hn : nlen (cmd_bytes st cmd) = nlen bs1 + nlen bs2) by (rewrite Eb, nlen_app; reflexivity).
  split; [lia|]. rewrite R3, R2. lia.
Qed.

Theorem cmd_C k ct ot st s (c : src) cmd rest :
  sim k ct ot st s c (obits (pm2_cmd_code (Some ct) ot (ps_mtf st) cmd) ++ rest) ->
  wf_pm2_cmd (Some ct) ot st cmd = true ->
  exists s' c', pm2_read_body src_cb s c = Ok (cmd_bytes st cmd, s', c').
Proof.
  intros Hsim Hwf.
  destruct (sim_cmd_read k ct ot st s c cmd rest Hsim Hwf) as (sr & cr & Fr & W & S & P & Dr & Rr & Hall & E).
  destruct Hsim as (Hd & Hts & Hr & Hc & Hp & Htabs & Hst & Hpos & Hrem).
  destruct (cmd_bytes_len _ _ _ _ Hwf) as [L1 L2].
  destruct (N.lt_ge_cases (nlen (cmd_bytes st cmd)) (rem_of sr)) as [Hlt|Hge].
  - destruct (emit_all (cmd_bytes st cmd) st sr cr Dr Hall L2 Hlt) as (s3 & o3 & E3 & B3 & _).
    exists s3, cr. rewrite E, E3. cbn [bind]. cbv beta iota. rewrite B3. reflexivity.
  - destruct (emit_all_cross (cmd_bytes st cmd) st sr cr Dr Hall L2) as (bs1 & bs2 & s1 & Eb & Nb & D1 & T1 & Hafter);
      [lia|exact Hge|].
    pose proof (trees_same_trans _ _ _ (trees_same_bsr_frame _ _ Fr) (trees_same_tabs_same _ _ T1)) as Hsame1.
    pose proof T1 as (Eb1 & _).
    destruct (rebuild_total s1 cr) as (s2 & c2 & Er).
    { apply (safe_of s1 _ D1); [rewrite Eb1; exact W|apply (tree_safe_same s s1 Hsame1 Hts)]. }
    destruct (Hafter s2 c2 Er) as (s3 & o3 & E3 & B3 & _).
    exists s3, c2. rewrite E, E3. cbn [bind]. cbv beta iota. rewrite B3. reflexivity.
Qed.

(* ------------------------------------------------------------------ *)
(* the bits in reading order                                           *)

Fixpoint cmds_fwd (ct : option codetab) (ot : list N) (st : pst) (cmds : list pcmd) : list bool :=
  match cmds with
  | [] => []
  | c :: r => obits (pm2_cmd_code ct ot (ps_mtf st) c) ++ cmds_fwd ct ot (pst_cmd pm2_window st c) r
  end.

Definition cmds_st (st : pst) (cmds : list pcmd) : pst := fold_left (pst_cmd pm2_window) cmds st.

Lemma pm2_cmds_bits_fwd ct ot : forall cmds st acc,
  pm2_cmds_bits ct ot st cmds acc = (cmds_st st cmds, rev (cmds_fwd ct ot st cmds) ++ acc).
Proof.
  induction cmds as [|c r IH]; intros st acc; [reflexivity|].
  cbn [pm2_cmds_bits cmds_fwd]. rewrite IH. unfold cmds_st. cbn [fold_left]. f_equal.
  rewrite rev_append_rev, rev_app_distr, <- app_assoc. reflexivity.
Qed.

Fixpoint segs_fwd (k : N) (ct : option codetab) (ot : list N) (st : pst) (segs : list pm2_seg) : list bool :=
  match segs with
  | [] => []
  | sg :: r =>
    pm2_hdr_bits k sg ++ cmds_fwd (seg_ct ct sg) (seg_ot ot sg) st (sg_cmds sg) ++
    segs_fwd (k + 1) (seg_ct ct sg) (seg_ot ot sg) (cmds_st st (sg_cmds sg)) r
  end.

Lemma pm2_segs_bits_fwd : forall segs k ct ot st acc,
  pm2_segs_bits k ct ot st segs acc = rev (segs_fwd k ct ot st segs) ++ acc.
Proof.
  induction segs as [|sg r IH]; intros k ct ot st acc; [reflexivity|].
  cbn [pm2_segs_bits segs_fwd]. rewrite pm2_cmds_bits_fwd, IH.
  rewrite rev_append_rev, !rev_app_distr, <- !app_assoc. reflexivity.
Qed.

Lemma wf_cmds_st : forall cmds k ct ot last st st',
  wf_pm2_cmds k ct ot last st cmds = Some st' -> st' = cmds_st st cmds.
Proof.
  induction cmds as [|c r IH]; intros k ct ot last st st' H.
  - cbn [wf_pm2_cmds] in H. destruct last; [|discriminate]. injection H as <-. reflexivity.
  - cbn [wf_pm2_cmds] in H. destruct (wf_pm2_cmd ct ot st c); [|discriminate].
    destruct r as [|c2 r2].
    + destruct (last || (pm2_seg_end k <=? ps_pos (pst_cmd pm2_window st c))); [|discriminate].
      injection H as <-. reflexivity.
    + destruct (ps_pos (pst_cmd pm2_window st c) <? pm2_seg_end k); [|discriminate].
      apply IH in H. exact H.
Qed.

(* ------------------------------------------------------------------ *)
(* chunks                                                              *)

Fixpoint cmds_chunks (st : pst) (cmds : list pcmd) : list (list N) :=
  match cmds with
  | [] => []
  | c :: r => cmd_bytes st c :: cmds_chunks (pst_cmd pm2_window st c) r
  end.

Fixpoint segs_chunks (st : pst) (segs : list pm2_seg) : list (list N) :=
  match segs with
  | [] => []
  | sg :: r => cmds_chunks st (sg_cmds sg) ++ segs_chunks (cmds_st st (sg_cmds sg)) r
  end.

Definition body_chunks (s : pm2_state) (c : src) (chs : list (list N)) : Prop :=
  match chs with
  | [] => True
  | ch :: rest =>
    exists s' c', pm2_read_body src_cb s c = Ok (ch, s', c') /\ ch <> [] /\ nlen ch <= pm2_max_read /\
                  chunks_from (pm2_read src_cb) pm2_max_read s' c' rest
  end.

Lemma body_chunks_from s c chs : pm2_tree_state s <> PM2_REBUILD_UNBUILT -> body_chunks s c chs ->
  chunks_from (pm2_read src_cb) pm2_max_read s c chs.
Proof.
  intros Hst H. destruct chs as [|ch rest]; [constructor|].
  destruct H as (s' & c' & E & Hne & Hl & Hrest).
  apply (chunks_cons _ _ s c ch s' c' rest); try assumption.
  rewrite pm2_read_eq. destruct (pm2_tree_state s); [contradiction| | | |]; cbn [bind]; exact E.
Qed.

Definition is_nil {A} (l : list A) : bool := match l with [] => true | _ => false end.

Lemma nonempty_of_len (l : list N) : 1 <= nlen l -> l <> [].
Proof. intros H E. subst l. change (nlen (@nil N)) with 0 in H. lia. Qed.

Theorem run_segs : forall r k ct ot cmds st st_end s (c : src) tailbits,
  sim k ct ot st s c (cmds_fwd (Some ct) ot st cmds ++ segs_fwd (k + 1) (Some ct) ot st_end r ++ tailbits) ->
  wf_pm2_cmds k (Some ct) ot (is_nil r) st cmds = Some st_end ->
  wf_pm2_segs (k + 1) (Some ct) ot st_end r = true ->
  body_chunks s c (cmds_chunks st cmds ++ segs_chunks st_end r).
Proof.
  induction r as [|sg r' IHr]; intros k ct ot cmds; induction cmds as [|cmd cmds' IHc];
    intros st st_end s c tailbits Hsim Hwf Hsegs.
  - exact I.
  - cbn [wf_pm2_cmds] in Hwf. destruct (wf_pm2_cmd (Some ct) ot st cmd) eqn:Ecmd; [|discriminate].
    cbn [cmds_fwd] in Hsim. rewrite <- app_assoc in Hsim.
    destruct (cmd_bytes_len _ _ _ _ Ecmd) as [L1 L2].
    cbn [cmds_chunks app body_chunks].
    destruct cmds' as [|c2 r2].
    + destruct (cmd_C k ct ot st s c cmd _ Hsim Ecmd) as (s' & c' & E).
      exists s', c'. split; [exact E|]. split; [apply nonempty_of_len; exact L1|]. split; [exact L2|].
      cbn [cmds_chunks segs_chunks app]. constructor.
    + destruct (N.ltb_spec (ps_pos (pst_cmd pm2_window st cmd)) (pm2_seg_end k)) as [Hlt|Hge]; [|discriminate].
      destruct (cmd_A k ct ot st s c cmd _ Hsim Ecmd Hlt) as (s' & c' & E & Hsim').
      exists s', c'. split; [exact E|]. split; [apply nonempty_of_len; exact L1|]. split; [exact L2|].
      apply body_chunks_from.
      { destruct Hsim' as (_ & _ & _ & _ & _ & _ & Est & _). rewrite Est. apply st_of_not_unbuilt. }
      apply (IHc _ st_end s' c' tailbits Hsim' Hwf Hsegs).
  - cbn [wf_pm2_cmds is_nil] in Hwf. discriminate.
  - cbn [wf_pm2_cmds] in Hwf. destruct (wf_pm2_cmd (Some ct) ot st cmd) eqn:Ecmd; [|discriminate].
    cbn [cmds_fwd] in Hsim. rewrite <- app_assoc in Hsim.
    destruct (cmd_bytes_len _ _ _ _ Ecmd) as [L1 L2].
    cbn [cmds_chunks app body_chunks].
    destruct cmds' as [|c2 r2].
    + cbn [is_nil orb] in Hwf.
      destruct (N.leb_spec (pm2_seg_end k) (ps_pos (pst_cmd pm2_window st cmd))) as [Hge|Hlt]; [|discriminate].
      injection Hwf as <-.
      cbn [wf_pm2_segs] in Hsegs. apply andb_true_iff in Hsegs. destruct Hsegs as [Hhdr Hsegs].
      cbn [cmds_fwd segs_fwd app] in Hsim. rewrite <- !app_assoc in Hsim.
      destruct (cmd_B k ct ot st s c cmd sg _ Hsim Ecmd Hge Hhdr) as (s' & c' & ct' & Ect & E & Hsim').
      exists s', c'. split; [exact E|]. split; [apply nonempty_of_len; exact L1|]. split; [exact L2|].
      apply body_chunks_from.
      { destruct Hsim' as (_ & _ & _ & _ & _ & _ & Est & _). rewrite Est. apply st_of_not_unbuilt. }
      cbn [cmds_chunks segs_chunks app].
      rewrite Ect in Hsim', Hsegs.
      fold (is_nil r') in Hsegs.
      destruct (wf_pm2_cmds (k + 1) (Some ct') (seg_ot ot sg) (is_nil r') (pst_cmd pm2_window st cmd) (sg_cmds sg))
        as [st_end'|] eqn:Ewf; [|discriminate].
      pose proof (wf_cmds_st _ _ _ _ _ _ _ Ewf) as Est'. rewrite <- Est' in Hsim' |- *.
      apply (IHr (k + 1) ct' (seg_ot ot sg) (sg_cmds sg) _ st_end' s' c' tailbits Hsim' Ewf Hsegs).
    + destruct (N.ltb_spec (ps_pos (pst_cmd pm2_window st cmd)) (pm2_seg_end k)) as [Hlt|Hge]; [|discriminate].
      destruct (cmd_A k ct ot st s c cmd _ Hsim Ecmd Hlt) as (s' & c' & E & Hsim').
      exists s', c'. split; [exact E|]. split; [apply nonempty_of_len; exact L1|]. split; [exact L2|].
      apply body_chunks_from.
      { destruct Hsim' as (_ & _ & _ & _ & _ & _ & Est & _). rewrite Est. apply st_of_not_unbuilt. }
      apply (IHc _ st_end s' c' tailbits Hsim' Hwf Hsegs).
Qed.

Print Assumptions cmd_A.
Print Assumptions cmd_B.
Print Assumptions cmd_C.
Print Assumptions run_segs.

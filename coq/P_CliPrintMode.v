(* P_CliPrintMode.v -- C18, print mode ('p' without option n): standard output is
   EXACTLY, member by member, a banner made of printable ASCII and LF followed by
   the member's decoded data verbatim:

       stdout = concat (map (fun m => banner o (header m) ++ data m) members)

   where [members] is the sequence (header, data) described by the relation
   [print_chain]: the headers are the ones lha_filter_next_file delivers, in order,
   and the data of a member that is not a directory entry is what successive
   lha_reader_read(reader, buf, 512) calls return until the first empty read
   ([read_all]); nothing is written to stderr after the archive has been opened.
   Every banner byte is in 0x20..0x7E or LF ([banner_allowed]): every byte of the
   output that is not member data is printable ASCII or the tool's own newline.
   The member data is not filtered (that is the purpose of 'p'). *)
From Lhasa Require Import Base Loop Generated InputStream Header BasicReader Fs FsRun Reader Glob Printf ListOut
  CliFilter CliExtract CliMain P_ListOut P_CliSafe P_CliPrintable.
From Coq Require Import Lia.
Local Open Scope N_scope.

(* what print_archive prints before the data of a member *)
Definition banner (o : lha_options) (h : header) : list N :=
  if o_quiet o <? 2 then
    match h_symlink_target h with
    | Some t => print_symlink_line (file_full_path h o) t
    | None => if negb (is_dir_type h)
              then s_banner_top ++ safe_printf (file_full_path h o) ++ s_banner_bottom
              else []
    end
  else [].

Lemma banner_allowed o h : Forall allowed (banner o h).
Proof.
  unfold banner. destruct (o_quiet o <? 2); [|constructor].
  destruct (h_symlink_target h) as [t|]; [apply print_symlink_line_allowed|].
  destruct (negb (is_dir_type h)); [|constructor].
  rewrite !Forall_app. repeat split.
  - exact lit_banner_top.
  - apply Forall_printable_allowed, safe_printf_printable.
  - exact lit_banner_bottom.
Qed.

Lemma stdout_put_out st b : stdout_bytes (put_out st b) = stdout_bytes st ++ b.
Proof.
  unfold stdout_bytes. change (cs_out (put_out st b)) with (b :: cs_out st).
  cbn [rev]. rewrite concat_app. cbn [concat]. rewrite app_nil_r. reflexivity.
Qed.

Section PrintMode.
  Variable mktime : N -> N -> N -> N -> Z -> N -> N.
  Variable junk : N.

  (* the data of the current member as print_archived_file reads it: 512-byte
     reads until the first read that returns nothing *)
  Inductive read_all : reader -> list N -> reader -> Prop :=
  | ra_end r ev r' : lha_reader_read junk r 512 = Ok ([], ev, r') -> read_all r [] r'
  | ra_more r b bs ev r1 d r' :
      lha_reader_read junk r 512 = Ok (b :: bs, ev, r1) -> read_all r1 d r' -> read_all r ((b :: bs) ++ d) r'.

  (* the members print_archive goes through, with the data it dumps for each *)
  Inductive print_chain (f : lha_filter) : reader -> list (header * list N) -> reader -> Prop :=
  | pc_end r r' : filter_next_file mktime f r = Ok (None, r') -> print_chain f r [] r'
  | pc_entry r h r1 items r' :
      filter_next_file mktime f r = Ok (Some h, r1) -> is_dir_type h = true ->
      print_chain f r1 items r' -> print_chain f r ((h, []) :: items) r'
  | pc_file r h r1 d r2 items r' :
      filter_next_file mktime f r = Ok (Some h, r1) -> is_dir_type h = false ->
      read_all r1 d r2 -> print_chain f r2 items r' -> print_chain f r ((h, d) :: items) r'.

  (* both relations are functional: the member list is determined by the reader *)
  Lemma read_all_det r d r' : read_all r d r' -> forall d2 r2, read_all r d2 r2 -> d = d2 /\ r' = r2.
  Proof.
    induction 1 as [r ev r' E|r b bs ev r1 d r' E Hr IH]; intros d2 r2 H2;
      inversion H2 as [ra eva ra' Ea|ra ba bsa eva r1a da ra' Ea Hra]; subst; rewrite E in Ea.
    - injection Ea as _ <-. split; reflexivity.
    - discriminate.
    - discriminate.
    - injection Ea as <- <- _ <-. destruct (IH _ _ Hra) as [<- <-]. split; reflexivity.
  Qed.

  Lemma print_chain_det f r items r' : print_chain f r items r' ->
    forall items2 r2, print_chain f r items2 r2 -> items = items2 /\ r' = r2.
  Proof.
    induction 1 as [r r' E|r h r1 items r' E Ed Hc IH|r h r1 d r2' items r' E Ed Hd Hc IH]; intros items2 rr H2;
      inversion H2 as [ra ra' Ea|ra ha r1a itemsa ra' Ea Eda Hca|ra ha r1a da r2a itemsa ra' Ea Eda Hda Hca]; subst;
      rewrite E in Ea; try discriminate.
    - injection Ea as <-. split; reflexivity.
    - injection Ea as <- <-. destruct (IH _ _ Hca) as [<- <-]. split; reflexivity.
    - injection Ea as <- <-. congruence.
    - injection Ea as <- <-. congruence.
    - injection Ea as <- <-. destruct (read_all_det _ _ _ Hd _ _ Hda) as [<- <-].
      destruct (IH _ _ Hca) as [<- <-]. split; reflexivity.
  Qed.

  Definition print_text (o : lha_options) (items : list (header * list N)) : list N :=
    concat (map (fun m => banner o (fst m) ++ snd m) items).

  (* what does not change while printing *)
  Definition frame (st st' : cli_state) : Prop := cs_opts st' = cs_opts st /\ cs_err st' = cs_err st.

  Lemma frame_refl st : frame st st. Proof. split; reflexivity. Qed.
  Lemma frame_trans a b c : frame a b -> frame b c -> frame a c.
  Proof. intros [A1 A2] [B1 B2]. split; congruence. Qed.

  Lemma print_file_loops n : forall st st', loops (print_file_step junk) n st st' ->
    exists d, read_all (cs_reader st) d (cs_reader st') /\ stdout_bytes st' = stdout_bytes st ++ d /\ frame st st'.
  Proof.
    induction n as [|n IH]; intros st st' Hl; inversion Hl as [s r E|n' s s1 r E Hl']; subst.
    - unfold print_file_step in E. apply bind_ok in E. destruct E as ([[bytes ev] r'] & Er & E). cbv beta iota in E.
      destruct bytes as [|b bs]; [|discriminate]. injection E as <-.
      exists []. split; [eapply ra_end; exact Er|]. split; [rewrite app_nil_r; reflexivity|split; reflexivity].
    - unfold print_file_step in E. apply bind_ok in E. destruct E as ([[bytes ev] r'] & Er & E). cbv beta iota in E.
      destruct bytes as [|b bs]; [discriminate|]. injection E as <-.
      destruct (IH _ _ Hl') as (d & Hd & Ho & Hf).
      exists ((b :: bs) ++ d). split; [eapply ra_more; [exact Er|exact Hd]|]. split.
      + rewrite Ho, stdout_put_out, app_assoc. reflexivity.
      + eapply frame_trans; [|exact Hf]. split; reflexivity.
  Qed.

  Lemma print_archived_file_spec st ok st' : print_archived_file junk st = Ok (ok, st') ->
    ok = true /\ exists d, read_all (cs_reader st) d (cs_reader st') /\ stdout_bytes st' = stdout_bytes st ++ d /\ frame st st'.
  Proof.
    unfold print_archived_file. intros H. apply bind_ok in H. destruct H as (s' & Hl & H). injection H as <- <-.
    split; [reflexivity|]. apply loop_sound in Hl. destruct Hl as (n & Hl & _). eapply print_file_loops; exact Hl.
  Qed.

  Lemma next_header_spec f st h st1 : next_header mktime f st = Ok (h, st1) ->
    exists r', filter_next_file mktime f (cs_reader st) = Ok (h, r') /\ st1 = set_reader st r'.
  Proof.
    unfold next_header. intros H. apply bind_ok in H. destruct H as ([h' r'] & Hf & H).
    exists r'. apply Ok_inj in H. inversion H; subst. split; [exact Hf|reflexivity].
  Qed.

  (* one iteration of print_archive *)
  Lemma print_archive_step_spec f st x : print_archive_step mktime junk f st = Ok x ->
    exists h r', filter_next_file mktime f (cs_reader st) = Ok (h, r') /\
      match h with
      | None => x = inr (RVal true, set_reader st r')
      | Some hd =>
        exists st3 d, x = inl st3 /\ stdout_bytes st3 = stdout_bytes st ++ banner (cs_opts st) hd ++ d /\
                      frame st st3 /\
                      (if is_dir_type hd then d = [] /\ cs_reader st3 = r' else read_all r' d (cs_reader st3))
      end.
  Proof.
    unfold print_archive_step. intros H.
    apply bind_ok in H. destruct H as ([h st1] & Hn & H).
    apply next_header_spec in Hn. destruct Hn as (r' & Hf & ->).
    exists h, r'. split; [exact Hf|]. revert H. cbv beta iota zeta.
    destruct h as [hd|].
    2:{ intros H. apply Ok_inj in H. symmetry. exact H. }
    (* the state after the banner *)
    match goal with |- (if negb (is_dir_type hd) then bind (print_archived_file junk ?s2) _ else _) = _ -> _ =>
      assert (E2 : stdout_bytes s2 = stdout_bytes st ++ banner (cs_opts st) hd /\ frame st s2 /\ cs_reader s2 = r');
      [|generalize dependent s2; intros st2 E2] end.
    { unfold banner. change (cs_opts (set_reader st r')) with (cs_opts st).
      destruct (o_quiet (cs_opts st) <? 2).
      - destruct (h_symlink_target hd) as [t|].
        + rewrite stdout_put_out. repeat split.
        + destruct (negb (is_dir_type hd)).
          * rewrite stdout_put_out. repeat split.
          * rewrite app_nil_r. repeat split.
      - rewrite app_nil_r. repeat split. }
    destruct E2 as (Eout & Efr & Erd).
    destruct (is_dir_type hd); cbn [negb].
    - intros H. apply Ok_inj in H. exists st2, []. split; [symmetry; exact H|].
      rewrite app_nil_r. split; [exact Eout|]. split; [exact Efr|]. split; [reflexivity|exact Erd].
    - intros H. apply bind_ok in H. destruct H as ([ok st3] & Hp & H).
      apply print_archived_file_spec in Hp. destruct Hp as (-> & d & Hd & Hout3 & Hfr3).
      apply Ok_inj in H. exists st3, d. split; [symmetry; exact H|].
      split; [rewrite Hout3, Eout, app_assoc; reflexivity|].
      split; [eapply frame_trans; [exact Efr|exact Hfr3]|]. rewrite Erd in Hd. exact Hd.
  Qed.

  Lemma print_archive_loops f o n : forall st r, loops (print_archive_step mktime junk f) n st r ->
    cs_opts st = o ->
    fst r = RVal true /\
    exists items, print_chain f (cs_reader st) items (cs_reader (snd r)) /\
                  stdout_bytes (snd r) = stdout_bytes st ++ print_text o items /\ frame st (snd r).
  Proof.
    induction n as [|n IH]; intros st r Hl Ho; inversion Hl as [s r0 E|n' s s1 r0 E Hl']; subst;
      apply print_archive_step_spec in E; destruct E as (h & r' & Hf & E).
    - destruct h as [hd|]; [destruct E as (st3 & d & E & _); discriminate|].
      apply (f_equal (fun x => match x with inr y => y | inl _ => r end)) in E. subst r. cbn [fst snd].
      split; [reflexivity|].
      exists []. split; [apply pc_end with (r' := r'); exact Hf|].
      split; [unfold print_text; cbn [map concat]; rewrite app_nil_r; reflexivity|split; reflexivity].
    - destruct h as [hd|]; [|discriminate].
      destruct E as (st3 & d & E & Hout3 & Hfr3 & Hd).
      assert (E' : s1 = st3) by congruence. subst s1. clear E.
      destruct (IH _ _ Hl') as (Hv & items & Hc & Hout & Hfr); [destruct Hfr3 as [-> _]; reflexivity|].
      split; [exact Hv|]. exists ((hd, d) :: items). split; [|split].
      + destruct (is_dir_type hd) eqn:Ed.
        * destruct Hd as [-> Hr]. rewrite Hr in Hc. eapply pc_entry; [exact Hf|exact Ed|exact Hc].
        * eapply pc_file; [exact Hf|exact Ed|exact Hd|exact Hc].
      + rewrite Hout, Hout3. unfold print_text. cbn [map concat fst snd]. rewrite <- !app_assoc. reflexivity.
      + eapply frame_trans; [exact Hfr3|exact Hfr].
  Qed.

  (* print_archive without option n *)
  Theorem print_archive_factor f st v st' :
    o_dry_run (cs_opts st) = false -> print_archive mktime junk f st = Ok (v, st') ->
    v = RVal true /\
    exists items, print_chain f (cs_reader st) items (cs_reader st') /\
                  stdout_bytes st' = stdout_bytes st ++ print_text (cs_opts st) items /\
                  cs_err st' = cs_err st.
  Proof.
    unfold print_archive. intros -> H. apply loop_sound in H. destruct H as (n & Hl & _).
    destruct (print_archive_loops f (cs_opts st) n st (v, st') Hl eq_refl) as (Hv & items & Hc & Hout & Hfr).
    cbn [fst snd] in *. split; [exact Hv|]. exists items. split; [exact Hc|]. split; [exact Hout|apply Hfr].
  Qed.

  (* ---------------- main ---------------- *)
  Variable localtime : N -> tm.
  Variable now : N.
  Variable stdin_kind : skind.
  Variable strerror : bool -> list N.

  (* the byte source do_command gives the reader *)
  Definition archive_source (s : fs) (stdin : list N) (file : list N) : option source :=
    if is_dash file then Some (mk_source stdin_kind stdin)
    else match fs_fopen_rb s file with
         | OpenFail _ => None
         | OpenDir => Some (mk_source KFile [])
         | OpenFile data _ => Some (mk_source KFile data)
         end.

  Theorem lha_main_print_factor argv stdin s r o file filters :
    parse_main (tl argv) = Some (MODE_PRINT, o, file, filters) -> o_dry_run o = false ->
    lha_main mktime junk localtime now stdin_kind strerror argv stdin s = Ok r ->
    (exists e, is_dash file = false /\ fs_fopen_rb s file = OpenFail e /\
               cr_stdout r = [] /\ cr_stderr r = open_error_text strerror file e) \/
    (exists src items r',
       archive_source s stdin file = Some src /\
       print_chain (lha_filter_init filters) (lha_reader_new (lha_input_stream_new src)) items r' /\
       cr_stdout r = print_text o items /\ cr_stderr r = [] /\ cr_exit r = 0).
  Proof.
    intros Hp Hd. unfold lha_main. rewrite Hp. intros H.
    apply bind_ok in H. destruct H as ([v st] & Hc & H). cbv beta iota in H. injection H as <-.
    cbn [cr_stdout cr_stderr cr_exit]. revert Hc. unfold do_command, archive_source.
    match goal with |- cbind ?m _ = _ -> _ => destruct m as [[[[[src mt] shared]|c] sta]| |] eqn:Eo end;
      cbn [cbind]; try discriminate.
    2:{ intros H. injection H as <- <-. left.
        destruct (is_dash file); [discriminate|].
        destruct (fs_fopen_rb (cs_fs (start_state s stdin o)) file) as [| |e] eqn:Ef; try discriminate.
        injection Eo as <- <-. exists e. change (cs_fs (start_state s stdin o)) with s in Ef.
        split; [reflexivity|]. split; [exact Ef|]. split; [reflexivity|].
        unfold stderr_bytes, open_error_text. cbn [cs_err put_err start_state rev concat app]. rewrite app_nil_r. reflexivity. }
    intros H. right.
    assert (Ea : sta = start_state s stdin o /\
                 (if is_dash file then Some (mk_source stdin_kind stdin)
                  else match fs_fopen_rb s file with
                       | OpenFail _ => None
                       | OpenDir => Some (mk_source KFile [])
                       | OpenFile data _ => Some (mk_source KFile data)
                       end) = Some src).
    { change (cs_fs (start_state s stdin o)) with s in Eo. change (cs_stdin (start_state s stdin o)) with stdin in Eo.
      destruct (is_dash file); [injection Eo as <- _ _ <-; split; reflexivity|].
      destruct (fs_fopen_rb s file); try discriminate; injection Eo as <- _ _ <-; split; reflexivity. }
    destruct Ea as [-> Esrc]. clear Eo.
    apply print_archive_factor in H; [|exact Hd].
    destruct H as (-> & items & Hch & Hout & Herr).
    exists src, items, (cs_reader st). split; [exact Esrc|]. split; [exact Hch|].
    split; [rewrite Hout; reflexivity|]. split; [|reflexivity].
    unfold stderr_bytes. rewrite Herr. reflexivity.
  Qed.

  (* Consequences.  Every byte outside the members' data is printable or LF: the
     output is the members' data, in order, each preceded by an allowed banner. *)
  Definition banner_data_blocks (out : list N) (datas : list (list N)) : Prop :=
    exists banners : list (list N),
      length banners = length datas /\ Forall (Forall allowed) banners /\
      out = concat (map (fun b => fst b ++ snd b) (combine banners datas)).

  Lemma combine_map_map {A B C} (g : A -> B) (k : A -> C) l :
    combine (map g l) (map k l) = map (fun x => (g x, k x)) l.
  Proof. induction l as [|x l IH]; cbn [map combine]; [reflexivity|rewrite IH; reflexivity]. Qed.

  Lemma print_text_blocks o items : banner_data_blocks (print_text o items) (map snd items).
  Proof.
    exists (map (fun m => banner o (fst m)) items). split; [rewrite !map_length; reflexivity|]. split.
    - apply Forall_forall. intros b Hb. apply in_map_iff in Hb. destruct Hb as (m & <- & _). apply banner_allowed.
    - unfold print_text. rewrite combine_map_map, map_map. reflexivity.
  Qed.

  (* if the members' data is itself clean (the assumption of the byte scan of the
     check), so is the whole output *)
  Lemma print_text_clean o items :
    Forall (fun m => Forall allowed_out (snd m)) items -> Forall allowed_out (print_text o items).
  Proof.
    intros H. unfold print_text. apply Forall_concat. apply Forall_forall. intros x Hx.
    apply in_map_iff in Hx. destruct Hx as (m & <- & Hm). apply Forall_app. split.
    - apply Forall_allowed_out, banner_allowed.
    - rewrite Forall_forall in H. exact (H m Hm).
  Qed.
End PrintMode.

Print Assumptions print_archive_factor.
Print Assumptions lha_main_print_factor.
Print Assumptions print_chain_det.
Print Assumptions print_text_blocks.
Print Assumptions print_text_clean.

(* Properties_C19.v -- C19: list output renders every member's header fields in
   the Unix-LHA layout.  ListOut.v is the executable statement of the layout (its
   extracted form is the reference rendering the check compares the real tool
   with, byte for byte); the theorems below, proved in P_ListOut.v, state its
   structure: which members get a row, that a row depends on its member alone,
   what the footer shows, wildcard semantics, and the exact decimal rounding of
   the ratio column. *)
From Coq Require Import Strings.String.
From Lhasa Require Import Base Header Printf Glob ListOut P_ListOut.
Import List ListNotations.
Local Open Scope N_scope.

(* '*' matches any run of bytes, '?' exactly one, anything else itself *)
Theorem glob_correct : forall p s, match_glob p s = true <-> matches p s.
Proof. exact P_ListOut.glob_correct. Qed.

(* a member is selected iff there are no patterns or one of them matches path ++ name *)
Theorem selection_spec : forall pats h, selectedb pats h = true <-> selected_spec pats h.
Proof. exact P_ListOut.selectedb_spec. Qed.

(* headings (unless quiet >= 2), then one row per selected member in archive order,
   each row a function of that member alone, then separator and footer *)
Theorem list_output_rows : forall lt mode o pats now mtime hs,
  lt_ok lt -> is_list_mode mode ->
  let cols := columns_of mode (o_verbose o) in
  let sel := selected pats hs in
  list_output lt (mode, o) pats now mtime hs =
  Ok (heading_lines (o_quiet o) cols
      ++ concat (map (row_of lt now cols) sel)
      ++ footer_lines lt now (o_quiet o) cols (stats_of mtime sel)).
Proof. exact P_ListOut.list_output_rows. Qed.

(* the footer: number of rows, true sums of the sizes (no wrap below 2^64), ratio of the sums *)
Theorem footer_counts_and_sums : forall lt now mtime pats hs,
  let sel := selected pats hs in
  let st := stats_of mtime sel in
  nlen sel < 2 ^ 31 ->
  sum_N (map h_compressed_length sel) < 2 ^ 64 ->
  sum_N (map h_length sel) < 2 ^ 64 ->
  footer_cell lt now 1 st =
    fmt_d false false 5 (Z.of_N (nlen sel)) ++ (if nlen sel =? 1 then str " file "%string else str " files"%string) /\
  footer_cell lt now 2 st = fmt_u false false 7 (sum_N (map h_compressed_length sel)) /\
  footer_cell lt now 3 st = fmt_u false false 7 (sum_N (map h_length sel)) /\
  footer_cell lt now 4 st =
    (if sum_N (map h_length sel) =? 0 then stars6
     else ratio_string (sum_N (map h_compressed_length sel)) (sum_N (map h_length sel))).
Proof. exact P_ListOut.footer_counts_sums_no_overflow. Qed.

(* the one-decimal rounding of the ratio: nearest, ties to even, on the exact value *)
Theorem ratio_rounding_correct : forall m e, match e with
  | Zneg p => nearest_even (Npos m * 10) (2 ^ Npos p) (tenths m e)
  | _ => tenths m e = Npos m * 10 * 2 ^ Z.to_N e end.
Proof. exact P_ListOut.tenths_correct. Qed.

Theorem ratio_of_empty_size : forall c, ratio_string c 0 = [49; 48; 48; 46; 48; 37].   (* "100.0%" *)
Proof. exact P_ListOut.ratio_string_zero_size. Qed.

Example ratio_examples :
  ratio_string 123456789 987654321 = [32; 49; 50; 46; 53; 37] /\ ratio_string 1 16 = [32; 32; 54; 46; 50; 37].
Proof. split; vm_compute; reflexivity. Qed.

Print Assumptions glob_correct.
Print Assumptions selection_spec.
Print Assumptions list_output_rows.
Print Assumptions footer_counts_and_sums.
Print Assumptions ratio_rounding_correct.
Print Assumptions ratio_of_empty_size.

(* Properties_C19.v -- C19: list output renders every member's header fields in the
   Unix-LHA layout.  ListOut.v is the executable statement of that layout; the
   theorems about it (row decomposition, footer counts and sums, glob
   correctness, numeric formatting) are added from P_ListOut.v as they are
   completed. *)
From Lhasa Require Import Base Header Printf Glob ListOut.
Local Open Scope N_scope.

(* the ratio column: single-precision (compressed * 100) / original, one decimal *)
Example ratio_examples :
  ratio_string 123456789 987654321 = [32; 49; 50; 46; 53; 37] /\       (* " 12.5%" *)
  ratio_string 5 0 = [49; 48; 48; 46; 48; 37].                          (* "100.0%" *)
Proof. split; vm_compute; reflexivity. Qed.

(* '*' any run, '?' one byte, everything else literal *)
Example glob_examples :
  match_glob [42; 46; 99] [97; 47; 98; 46; 99] = true /\ match_glob [97; 63; 99] [97; 98; 99] = true /\
  match_glob [97; 63; 99] [97; 99] = false.
Proof. repeat split; vm_compute; reflexivity. Qed.

(* P_Pm2Lens.v -- the premise code_tree_ok of P_Pm2Rt.v for the general form of
   the -pm2- code table (CTLens: explicit code lengths, canonical prefix code),
   from the theorem that build_tree builds the tree of the canonical code
   (build_tree_canonical, P_TreeCanonPm.v). *)
From Lhasa Require Import Base ListN DecBase BitReader Loop Sweep Tree PmaCommon Generated Pm2
  S_Larc S_Pm P_BitReader P_Tree P_PmaCommon P_Pm2 P_Pm2Rt P_TreeCanonPm.
From Coq Require Import ZifyBool ZifyN ZifyNat.
Local Open Scope N_scope.

(* ------------------------------------------------------------------ *)
(* a path of the finished tree is what read_from_tree follows          *)

Lemma tree_path_loops t : forall bits code sym r (c : src) rest,
  tree_path t code bits sym -> bsr_wf r -> src_ok c -> pending r c = bits ++ rest ->
  exists r' c', loops (tree_step 128 src_cb t) (length bits) (code, r, c) (Some sym, r', c') /\
    bsr_wf r' /\ src_ok c' /\ pending r' c' = rest.
Proof.
  induction bits as [|b bits IH]; intros code sym r c rest Hp Hr Hc Hpend.
  - cbn [tree_path] in Hp. destruct Hp as [Hl Hs]. exists r, c.
    split; [|split; [exact Hr|split; [exact Hc|exact Hpend]]].
    constructor. unfold tree_step. rewrite Hl. change (128 - 1) with 127. rewrite Hs. reflexivity.
  - cbn [tree_path] in Hp. destruct Hp as (Hl & Hi & Hp).
    cbn [app] in Hpend.
    destruct (read_bit_src r c b _ Hr Hc Hpend) as (r1 & c1 & E1 & W1 & S1 & P1).
    destruct (IH _ sym r1 c1 rest Hp W1 S1 P1) as (r' & c' & Hloops & W & S & P).
    exists r', c'. split; [|split; [exact W|split; [exact S|exact P]]].
    cbn [length]. econstructor; [|exact Hloops].
    unfold tree_step. rewrite Hl, E1. cbn [bind]. cbv beta iota.
    rewrite rd_ok by exact Hi. reflexivity.
Qed.

Lemma tree_path_read t bits sym r (c : src) rest :
  0 < alen t -> tree_path t (aget t 0) bits sym -> (length bits < 1000)%nat ->
  bsr_wf r -> src_ok c -> pending r c = bits ++ rest ->
  exists r' c', read_from_tree 128 src_cb t r c = Ok (Some sym, r', c') /\
    bsr_wf r' /\ src_ok c' /\ pending r' c' = rest.
Proof.
  intros Ha Hp Hlen Hr Hc Hpend. unfold read_from_tree. rewrite rd_ok by exact Ha. cbn [bind].
  destruct (tree_path_loops t bits _ sym r c rest Hp Hr Hc Hpend) as (r' & c' & Hl & W & S & P).
  exists r', c'. split; [|split; [exact W|split; [exact S|exact P]]].
  apply (loop_complete _ 20 _ _ _ Hl).
  assert (E : (2 ^ 10 <= 2 ^ 20)%nat) by (apply Nat.pow_le_mono_r; lia).
  assert (E' : (2 ^ 10 = 1024)%nat) by reflexivity. lia.
Qed.

(* ------------------------------------------------------------------ *)
(* reading the code lengths of a CTLens header                         *)

Definition len_field (m l : N) : N := if l =? 0 then 0 else l - m + 1.

Lemma read_code_lengths_src m lb : forall ls i cl r (c : src) rest,
  bsr_wf r -> src_ok c -> lb <= 7 -> 1 <= m -> m <= 7 ->
  Forall (fun l => l = 0 \/ (m <= l /\ l - m + 1 < 2 ^ lb)) ls ->
  i + nlen ls <= alen cl ->
  pending r c = flat_map (fun l => nbits lb (len_field m l)) ls ++ rest ->
  exists cl' r' c', read_code_lengths src_cb (length ls) i cl m lb r c = Ok (Some cl', r', c') /\
    bsr_wf r' /\ src_ok c' /\ pending r' c' = rest /\ alen cl' = alen cl /\
    (forall j, j < i -> aget cl' j = aget cl j) /\
    (forall j, j < nlen ls -> aget cl' (i + j) = nth (N.to_nat j) ls 0).
Proof.
  induction ls as [|l ls IH]; intros i cl r c rest Hr Hc Hlb Hm1 Hm7 Hls Hi Hp.
  - exists cl, r, c. split; [reflexivity|]. split; [exact Hr|]. split; [exact Hc|]. split; [exact Hp|].
    split; [reflexivity|]. split; [reflexivity|]. intros j Hj. change (nlen (@nil N)) with 0 in Hj. lia.
  - inversion Hls as [|? ? Hl Hls']; subst. rewrite nlen_cons in Hi.
    cbn [flat_map] in Hp. rewrite <- app_assoc in Hp. rewrite nbits_eq in Hp.
    cbn [length]. rewrite read_code_lengths_S.
    assert (Hv : len_field m l < 2 ^ lb).
    { unfold len_field. destruct (N.eqb_spec l 0); [pose proof (pow2_pos lb); lia|].
      destruct Hl as [Hl|Hl]; [contradiction|lia]. }
    edestruct (read_bits_src_prefix r c (N.to_nat lb) (len_field m l))
      as (r1 & c1 & E1 & W1 & S1 & P1); [exact Hr|exact Hc|lia|rewrite N2Nat.id; exact Hv|exact Hp|].
    rewrite N2Nat.id in E1. rewrite E1. cbn [bind]. cbv beta iota.
    rewrite wr_ok by lia. cbn [bind].
    set (x := if len_field m l =? 0 then 0 else u8 (m + len_field m l - 1)).
    assert (Ex : x = l).
    { unfold x, len_field. destruct (N.eqb_spec l 0) as [->|Hl0]; [reflexivity|].
      destruct Hl as [Hl|[Hl1 Hl2]]; [contradiction|].
      destruct (N.eqb_spec (l - m + 1) 0); [lia|].
      replace (m + (l - m + 1) - 1) with l by lia. apply u8_small.
      assert (2 ^ lb <= 2 ^ 7) by (apply N.pow_le_mono_r; lia). change (2 ^ 7) with 128 in *. lia. }
    destruct (IH (i + 1) (aset cl i x) r1 c1 rest W1 S1 Hlb Hm1 Hm7 Hls') as
      (cl' & r' & c' & E & W & Sc & P & A & G1 & G2); [rewrite alen_aset; lia|exact P1|].
    exists cl', r', c'. split; [exact E|]. split; [exact W|]. split; [exact Sc|]. split; [exact P|].
    rewrite alen_aset in A. split; [exact A|]. split.
    + intros j Hj. rewrite G1 by lia. rewrite aget_aset_ne by lia. reflexivity.
    + intros j Hj. rewrite nlen_cons in Hj. destruct (N.eq_dec j 0) as [->|Hj0].
      * rewrite N.add_0_r. rewrite G1 by lia. rewrite aget_aset_eq. exact Ex.
      * replace (i + j) with (i + 1 + (j - 1)) by lia. rewrite G2 by lia.
        replace (N.to_nat j) with (S (N.to_nat (j - 1))) by lia. reflexivity.
Qed.

(* ------------------------------------------------------------------ *)
(* code_tree_ok for CTLens                                             *)

Lemma filter_len_le {A} (f : A -> bool) (l : list A) : (length (filter f l) <= length l)%nat.
Proof.
  induction l as [|a l IH]; [apply le_n|]. cbn [filter]. destruct (f a); cbn [length]; lia.
Qed.

Lemma count_nz_le lens : count_nz lens <= nlen lens.
Proof.
  unfold count_nz, nlen. pose proof (filter_len_le (fun l => negb (l =? 0)) lens). lia.
Qed.

Theorem code_tree_ok_lens m lb lens : wf_codetab (CTLens m lb lens) = true ->
  code_tree_ok (CTLens m lb lens).
Proof.
  intros Hwf. cbn [wf_codetab] in Hwf.
  apply andb_true_iff in Hwf. destruct Hwf as [Hwf Hcomplete].
  apply andb_true_iff in Hwf. destruct Hwf as [Hwf Hfields].
  apply andb_true_iff in Hwf. destruct Hwf as [Hwf Hnum].
  apply andb_true_iff in Hwf. destruct Hwf as [Hwf Hlb].
  apply andb_true_iff in Hwf. destruct Hwf as [Hm1 Hm7].
  apply N.leb_le in Hm1, Hm7, Hlb, Hnum.
  assert (Hls : Forall (fun l => l = 0 \/ (m <= l /\ l - m + 1 < 2 ^ lb)) lens).
  { apply Forall_forall. intros l Hl. rewrite forallb_forall in Hfields. specialize (Hfields l Hl).
    apply orb_true_iff in Hfields. destruct Hfields as [H|H]; [left; apply N.eqb_eq; exact H|right].
    apply andb_true_iff in H. destruct H as [H1 H2]. lia. }
  assert (Hls256 : Forall (fun l => l < 256) lens).
  { apply Forall_forall. intros l Hl. rewrite Forall_forall in Hls. destruct (Hls l Hl) as [->|[H1 H2]]; [lia|].
    assert (2 ^ lb <= 2 ^ 7) by (apply N.pow_le_mono_r; lia). change (2 ^ 7) with 128 in *. lia. }
  intros s c rest Hr Hc Hcl Hp.
  cbn [ct_bits] in Hp. rewrite <- !app_assoc in Hp. rewrite !nbits_eq in Hp.
  change (N.to_nat 5) with 5%nat in Hp. change (N.to_nat 3) with 3%nat in Hp.
  unfold read_code_tree.
  edestruct (read_bits_src_prefix (pm2_bsr s) c 5 (nlen lens))
    as (r1 & c1 & E1 & W1 & S1 & P1); [exact Hr|exact Hc|cbn; lia|change (2 ^ N.of_nat 5) with 32; lia|exact Hp|].
  change (N.of_nat 5) with 5 in E1. rewrite E1. cbn [bind]. cbv beta iota.
  edestruct (read_bits_src_prefix r1 c1 3 m) as (r2 & c2 & E2 & W2 & S2 & P2);
    [exact W1|exact S1|cbn; lia|change (2 ^ N.of_nat 3) with 8; lia|exact P1|].
  change (N.of_nat 3) with 3 in E2. rewrite E2. cbn [bind]. cbv beta iota zeta.
  destruct (N.eqb_spec m 0) as [X|_]; [lia|].
  change (pm2_bsr (pm2_set_need_offset_tree (pm2_set_bsr s r2)
            ((10 <=? nlen lens) && negb ((nlen lens =? 29) && false)))) with r2.
  edestruct (read_bits_src_prefix r2 c2 3 lb) as (r3 & c3 & E3 & W3 & S3 & P3);
    [exact W2|exact S2|cbn; lia|change (2 ^ N.of_nat 3) with 8; lia|exact P2|].
  change (N.of_nat 3) with 3 in E3. rewrite E3. cbn [bind]. cbv beta iota zeta.
  replace (N.to_nat (nlen lens)) with (length lens) by (unfold nlen; lia).
  destruct (read_code_lengths_src m lb lens 0 (mk_arr pm2_code_lengths_extent 0) r3 c3 rest W3 S3 Hlb Hm1 Hm7 Hls)
    as (cl' & r4 & c4 & E4 & W4 & S4 & P4 & A4 & _ & G4).
  { cbn [mk_arr alen]. unfold pm2_code_lengths_extent. lia. }
  { exact P3. }
  rewrite E4. cbn [bind]. cbv beta iota zeta.
  cbn [mk_arr alen] in A4. unfold pm2_code_lengths_extent in A4.
  pose proof (closed_alen _ _ _ Hcl) as Hal. unfold pm2_code_tree_extent in Hal.
  destruct (build_tree_canonical (pm2_code_tree s) pm2_code_tree_extent cl' lens)
    as (t' & Et & At & Apos & Hpaths).
  { unfold pm2_code_tree_extent. exact Hal. }
  { unfold pm2_code_tree_extent. lia. }
  { rewrite A4. exact Hnum. }
  { lia. }
  { intros i Hi. specialize (G4 i Hi). rewrite N.add_0_l in G4. exact G4. }
  { exact Hls256. }
  { exact Hcomplete. }
  { pose proof (count_nz_le lens). unfold pm2_code_tree_extent. lia. }
  unfold pm2_TREE_NODE_LEAF.
  change (pm2_code_tree (pm2_set_bsr (pm2_set_bsr (pm2_set_need_offset_tree (pm2_set_bsr s r2)
            ((10 <=? nlen lens) && negb ((nlen lens =? 29) && false))) r3) r4)) with (pm2_code_tree s).
  rewrite Et. cbn [bind].
  eexists _, _, c4. split; [reflexivity|].
  cbn [pm2_set_code_tree pm2_set_need_offset_tree pm2_set_bsr pm2_bsr pm2_code_tree pm2_need_offset_tree
       pm2_ringbuf pm2_ringbuf_pos pm2_history_list pm2_offset_tree].
  split; [exact W4|]. split; [exact S4|]. split; [exact P4|].
  split.
  - intros sym code r0 c0 rest0 Hcode Hr0 Hc0 Hp0. cbn [ct_code] in Hcode.
    apply (tree_path_read t' code sym r0 c0 rest0 Apos (Hpaths sym code Hcode)); try assumption.
    (* a code is at most 255 bits long *)
    unfold canon_code in Hcode. destruct (nth_N lens sym) as [l|] eqn:El; [|discriminate].
    destruct (l =? 0); [discriminate|]. injection Hcode as <-.
    unfold nbits. rewrite length_bits_of.
    unfold nth_N in El. apply nth_error_In in El. rewrite Forall_forall in Hls256. specialize (Hls256 l El). lia.
  - split; [cbn [ct_need_off]; rewrite andb_false_r; cbn [negb]; rewrite andb_true_r; reflexivity|].
    split; [reflexivity|]. split; [reflexivity|]. split; reflexivity.
Qed.

(* every well-formed code table *)
Theorem code_tree_ok_wf ct : wf_codetab ct = true -> code_tree_ok ct.
Proof.
  destruct ct as [n|m lb lens]; intros Hwf.
  - cbn [wf_codetab] in Hwf. apply andb_true_iff in Hwf. destruct Hwf as [H1 H2].
    apply code_tree_ok_single; lia.
  - apply code_tree_ok_lens. exact Hwf.
Qed.

(* ------------------------------------------------------------------ *)
(* Literal-only single-segment streams, any well-formed code table     *)

Theorem pm2_literals_roundtrip : forall f ct off bs tail s0 ks,
  wf_pm2 (lit_stream f ct off bs) = true -> nlen bs < 1024 ->
  Forall (fun b => b < 256) tail -> pm2_init = Ok s0 ->
  let d := lit_stream f ct off bs in
  let src := {| src_data := pm2_serialise d ++ tail; src_chunks := [] |} in
  let L := nlen (pm2_denote d) in
  L <= sum_N ks -> sum_N ks < 2 ^ 62 ->
  pm2_denote d = bs /\
  exists os d',
    P_Decoder.run_reads (pm2_read src_cb) pm2_max_read pm2_block_size (Decoder.lha_decoder_new s0 src L) ks
      = Ok (os, d') /\
    concat os = pm2_denote d.
Proof.
  intros f ct off bs tail s0 ks Hwf Hlen Htail Hinit d src L HL Hs.
  split; [apply pm2_denote_lit_stream|].
  destruct (wf_lit_stream f ct off bs Hwf) as (Hct & _ & _).
  apply (pm2_literals_roundtrip_gen_total f ct off bs tail s0 ks); try assumption.
  apply code_tree_ok_wf. exact Hct.
Qed.

(* non-vacuity: the auto-built streams of S_Pm for a literal-only command list
   have the shape lit_stream, are well formed, use a CTLens code table (variant 0:
   tight header, no offset table; variant 4: loose header with 31 codes, hence an
   offset table), and decode by evaluation *)
Definition ex_bytes : list N := [72; 101; 108; 108; 111; 0; 200; 72; 255; 101].

Example pm2_literals_example_tight :
  let d := pm2_auto 0 (map PByte ex_bytes) in
  (exists f m lb lens, d = lit_stream f (CTLens m lb lens) None ex_bytes) /\ wf_pm2 d = true /\
  match pm2_init with
  | Ok s0 =>
    match P_Decoder.run_reads (pm2_read src_cb) pm2_max_read pm2_block_size
            (Decoder.lha_decoder_new s0 {| src_data := pm2_serialise d ++ [255]; src_chunks := [] |}
                                     (nlen ex_bytes)) [3; 100] with
    | Ok (os, _) => concat os = ex_bytes
    | _ => False
    end
  | _ => False
  end.
Proof.
  split; [|split].
  - vm_compute. do 4 eexists. reflexivity.
  - vm_compute. reflexivity.
  - vm_compute. reflexivity.
Qed.

Example pm2_literals_example_loose :
  let d := pm2_auto 4 (map PByte ex_bytes) in
  (exists f m lb lens ol, d = lit_stream f (CTLens m lb lens) (Some ol) ex_bytes) /\ wf_pm2 d = true /\
  match pm2_init with
  | Ok s0 =>
    match P_Decoder.run_reads (pm2_read src_cb) pm2_max_read pm2_block_size
            (Decoder.lha_decoder_new s0 {| src_data := pm2_serialise d; src_chunks := [] |}
                                     (nlen ex_bytes)) [1; 1; 100] with
    | Ok (os, _) => concat os = ex_bytes
    | _ => False
    end
  | _ => False
  end.
Proof.
  split; [|split].
  - vm_compute. do 5 eexists. reflexivity.
  - vm_compute. reflexivity.
  - vm_compute. reflexivity.
Qed.

Print Assumptions code_tree_ok_lens.
Print Assumptions code_tree_ok_wf.
Print Assumptions pm2_literals_roundtrip.
Print Assumptions pm2_literals_example_tight.
Print Assumptions pm2_literals_example_loose.

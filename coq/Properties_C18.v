(* Properties_C18.v -- C18: archive-derived text printed by the tool is printable
   ASCII only.  Statements only; proofs in P_ListOut.v (model: ListOut.v, the
   list commands l / lv / v / vv with every quiet level and pattern list).  The
   test / extract / print commands are covered by the byte scan of the check. *)
From Lhasa Require Import Base Header Printf Glob ListOut P_ListOut.
Local Open Scope N_scope.

(* The sanitiser: its image is printable ASCII, it is the identity on printable text. *)
Theorem safe_output_allowed : forall s, Forall printable (safe_output s).
Proof. exact P_ListOut.safe_output_allowed. Qed.

Theorem safe_output_id : forall s, Forall printable s -> safe_output s = s.
Proof. exact P_ListOut.safe_output_id. Qed.

(* Every byte the list commands write -- for ARBITRARY header contents (names,
   paths, link targets, the method field, of the first and of later members), any
   mode, quiet level, pattern list, clock and localtime -- is printable ASCII or
   the tool's own newline.  (The list commands emit no TAB or CR.)  Column names,
   OS names and month names are the strings regenerated from src/list.c; a
   non-ASCII literal there breaks the proof. *)
Theorem list_output_clean : forall lt opts pats now mtime hs out,
  list_output lt opts pats now mtime hs = Ok out -> Forall allowed out.
Proof. exact P_ListOut.list_output_clean. Qed.

Example safe_output_example :
  safe_output [97; 27; 91; 50; 74; 255; 127; 10; 126; 32] = [97; 63; 91; 50; 74; 63; 63; 63; 126; 32].
Proof. vm_compute. reflexivity. Qed.

Print Assumptions safe_output_allowed.
Print Assumptions safe_output_id.
Print Assumptions list_output_clean.

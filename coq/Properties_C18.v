(* Properties_C18.v -- C18: archive-derived text printed by the tool is printable
   ASCII only.  The theorems about the list commands (ListOut.v) are added from
   P_ListOut.v as they are completed; the test/extract/print commands are covered
   by the output scan of the check. *)
From Lhasa Require Import Base Printf ListOut.
Local Open Scope N_scope.

Example safe_output_example :
  safe_output [97; 27; 91; 50; 74; 255; 127; 10; 126; 32] = [97; 63; 91; 50; 74; 63; 63; 63; 126; 32].
Proof. vm_compute. reflexivity. Qed.

(* Properties_C18.v -- C18: archive-derived text printed by the tool is printable
   ASCII only.  Statements only; proofs in P_ListOut.v (model: ListOut.v, the
   list commands l / lv / v / vv with every quiet level and pattern list).  The
   test / extract / print commands are covered by the byte scan of the check. *)
From Lhasa Require Import Base InputStream Header BasicReader Fs FsRun Reader Printf Glob ListOut CliFilter CliExtract CliMain
  P_ListOut P_CliPrintable P_CliPrintMode.
Local Open Scope N_scope.

(* The sanitiser: its image is printable ASCII, it is the identity on printable text. *)
Theorem safe_output_allowed : forall s, Forall printable (safe_output s).
Proof. exact P_ListOut.safe_output_allowed. Qed.

Theorem safe_output_id : forall s, Forall printable s -> safe_output s = s.
Proof. exact P_ListOut.safe_output_id. Qed.

(* Every byte the list commands write -- for ARBITRARY header contents (names,
   paths, link targets, the method field, of the first and of later members), any
   mode, quiet level, pattern list, clock and localtime -- is printable ASCII or
   the tool's own newline.  (The list commands emit no TAB or CR.)  Column names,
   OS names and month names are the strings regenerated from src/list.c; a
   non-ASCII literal there breaks the proof. *)
Theorem list_output_clean : forall lt opts pats now mtime hs out,
  list_output lt opts pats now mtime hs = Ok out -> Forall allowed out.
Proof. exact P_ListOut.list_output_clean. Qed.

Example safe_output_example :
  safe_output [97; 27; 91; 50; 74; 255; 127; 10; 126; 32] = [97; 63; 91; 50; 74; 63; 63; 63; 126; 32].
Proof. vm_compute. reflexivity. Qed.


(* ====== the whole tool (t, x, e, dry runs, prompts, error paths, p) ====== *)
(* C18 for the whole tool: archive-derived text printed by
   the tool is printable ASCII only.  Statements only; proofs in P_CliPrintable.v,
   P_CliPrintMode.v, examples in P_CliPrintableEx.v (model: CliMain.v lha_main =
   src/main.c + src/extract.c + src/list.c + src/safe.c over the reader and
   filesystem models).  Extends Properties_C18.v (list commands) to every command.

   C18: "In list, verbose-list, test, extract, dry-run and print-header output,
   every byte the tool writes that derives from archive contents - names, paths,
   link targets, the compression-method field, owner names - is printable ASCII;
   control characters and bytes of 0x7F and above are replaced by '?'. Apart from
   file data deliberately dumped by 'p', the tool's output therefore consists
   solely of printable ASCII plus its own newline, carriage-return and tab
   characters." *)


(* allowed_out b  :=  32 <= b < 127  \/  b = 10  \/  b = 13  \/  b = 9   (stdout)
   allowed b      :=  32 <= b < 127  \/  b = 10                          (stderr: the tool
                                                                          writes no CR / TAB there) *)

(* Every command except 'p' without 'n', every archive, standard input and initial
   filesystem: all of stdout is allowed_out, all of stderr is allowed.  The two
   hypotheses concern text that is NOT archive-derived and that the tool echoes
   verbatim: argv[0] in the help page, the archive name argv[2] and libc's strerror
   text in "LHa: Error: <name> <strerror>". *)
Theorem whole_tool_output_clean :
  forall mktime junk localtime now stdin_kind strerror argv stdin s r,
  data_free_invocation argv = true ->
  (forall e, Forall printable (strerror e)) ->
  Forall (Forall printable) argv ->
  lha_main mktime junk localtime now stdin_kind strerror argv stdin s = Ok r ->
  Forall allowed_out (cr_stdout r) /\ Forall allowed (cr_stderr r).
Proof. exact lha_main_output_clean. Qed.

(* Without any hypothesis on argv or strerror: the output is clean, or it is one of
   the two fixed texts around an argv string (archive not opened / help page). *)
Theorem whole_tool_output_cases :
  forall mktime junk localtime now stdin_kind strerror argv stdin s r,
  data_free_invocation argv = true ->
  lha_main mktime junk localtime now stdin_kind strerror argv stdin s = Ok r ->
  (Forall allowed_out (cr_stdout r) /\ Forall allowed (cr_stderr r)) \/
  (exists mode o file filters e,
     parse_main (tl argv) = Some (mode, o, file, filters) /\ fs_fopen_rb s file = OpenFail e /\
     cr_stdout r = [] /\ cr_stderr r = open_error_text strerror file e) \/
  (parse_main (tl argv) = None /\ cr_stdout r = help_text (progname_of argv) /\ cr_stderr r = []).
Proof. exact lha_main_output_cases. Qed.

(* which invocations are covered: l v t x e with any options, p with n *)
Theorem covered_commands : forall c opts mode o,
  In c [108; 118; 116; 120; 101] ->
  (parse_command_line (c :: opts) = Some (mode, o) -> no_data_dump mode o = true) /\
  (parse_command_line (45 :: c :: opts) = Some (mode, o) -> no_data_dump mode o = true).
Proof. exact data_free_letters. Qed.

(* Print mode: stdout is, member by member, a banner of printable ASCII and LF
   followed by the member's data verbatim; stderr stays empty. *)
Theorem print_mode_factor :
  forall mktime junk localtime now stdin_kind strerror argv stdin s r o file filters,
  parse_main (tl argv) = Some (MODE_PRINT, o, file, filters) -> o_dry_run o = false ->
  lha_main mktime junk localtime now stdin_kind strerror argv stdin s = Ok r ->
  (exists e, is_dash file = false /\ fs_fopen_rb s file = OpenFail e /\
             cr_stdout r = [] /\ cr_stderr r = open_error_text strerror file e) \/
  (exists src items r',
     archive_source stdin_kind s stdin file = Some src /\
     print_chain mktime junk (lha_filter_init filters) (lha_reader_new (lha_input_stream_new src)) items r' /\
     cr_stdout r = print_text o items /\ cr_stderr r = [] /\ cr_exit r = 0).
Proof. exact lha_main_print_factor. Qed.

(* the member list of the factorisation is determined by the archive source *)
Theorem print_mode_members_unique : forall mktime junk f r items r' items2 r2,
  print_chain mktime junk f r items r' -> print_chain mktime junk f r items2 r2 -> items = items2 /\ r' = r2.
Proof. intros. eapply print_chain_det; eauto. Qed.

Theorem print_mode_banner_allowed : forall o h, Forall allowed (banner o h).
Proof. exact banner_allowed. Qed.

Theorem print_mode_blocks : forall o items, banner_data_blocks (print_text o items) (map snd items).
Proof. exact print_text_blocks. Qed.


Print Assumptions safe_output_allowed.
Print Assumptions safe_output_id.
Print Assumptions list_output_clean.
Print Assumptions whole_tool_output_clean.
Print Assumptions whole_tool_output_cases.
Print Assumptions covered_commands.
Print Assumptions print_mode_factor.
Print Assumptions print_mode_members_unique.
Print Assumptions print_mode_banner_allowed.
Print Assumptions print_mode_blocks.

(* P_Path.v -- C11: every header the library returns has a file name without
   '/', and a path whose '/'-terminated components are all real names (never
   empty, "." or ".."), apart from one optional leading '/'.
   Model: Header.v (lib/lha_file_header.c, lib/ext_header.c). *)
From Lhasa Require Import Base ListN Loop Generated Crc16 InputStream Header.
From Coq Require Import ZifyBool ZifyN ZifyNat.
Local Open Scope N_scope.

(* ------------------------------------------------------------------ *)
(* Specification                                                       *)

(* components of a string that are terminated by '/' *)
Fixpoint slash_components (l : list N) (cur : list N) : list (list N) :=
  match l with
  | [] => []                                   (* the unterminated tail is not a component *)
  | c :: r => if c =? 47 then rev cur :: slash_components r [] else slash_components r (c :: cur)
  end.
Definition strip_lead (p : list N) : list N := match p with 47 :: r => r | _ => p end.
Definition real_name (c : list N) : Prop := c <> [] /\ c <> [46] /\ c <> [46; 46].
Definition path_ok (p : list N) : Prop := Forall real_name (slash_components (strip_lead p) []).
Definition name_ok (n : list N) : Prop := ~ In 47 n.

(* ------------------------------------------------------------------ *)
(* Small list facts                                                    *)

Lemma to_nat_nlen {A} (l : list A) : N.to_nat (nlen l) = length l.
Proof. unfold nlen. apply Nat2N.id. Qed.

Lemma skipn_N_app_exact {A} (a b : list A) : skipn_N (nlen a) (a ++ b) = b.
Proof.
  rewrite skipn_N_eq, to_nat_nlen, skipn_app, skipn_all, Nat.sub_diag. reflexivity.
Qed.

Lemma firstn_N_app_exact {A} (a b : list A) : firstn_N (nlen a) (a ++ b) = a.
Proof.
  rewrite firstn_N_app_l by lia. apply firstn_N_all. lia.
Qed.

Lemma nth_N_app_mid {A} (a : list A) x b : nth_N (a ++ x :: b) (nlen a) = Some x.
Proof.
  unfold nth_N. rewrite to_nat_nlen, nth_error_app2, Nat.sub_diag by lia. reflexivity.
Qed.

Ltac nlen_norm := rewrite ?nlen_app, ?nlen_cons; change (nlen (@nil N)) with 0.

Lemma strip_lead_47 r : strip_lead (47 :: r) = r.
Proof. reflexivity. Qed.

Lemma strip_lead_other c r : c <> 47 -> strip_lead (c :: r) = c :: r.
Proof.
  intros H. unfold strip_lead.
  destruct c as [|p]; [reflexivity|].
  repeat (destruct p as [p|p|]; try reflexivity). congruence.
Qed.

Lemma strip_lead_nil : strip_lead [] = [].
Proof. reflexivity. Qed.

(* ------------------------------------------------------------------ *)
(* slash_components of a well-formed string                            *)

Definition flat (cs : list (list N)) : list N := concat (map (fun c => c ++ [47]) cs).
Definition good_comp (c : list N) : Prop := ~ In 47 c /\ real_name c.

Lemma flat_app a b : flat (a ++ b) = flat a ++ flat b.
Proof. unfold flat. rewrite map_app, concat_app. reflexivity. Qed.

Lemma flat_cons c cs : flat (c :: cs) = c ++ 47 :: flat cs.
Proof. unfold flat. cbn [map concat]. rewrite <- app_assoc. reflexivity. Qed.

Lemma flat_snoc cs c : flat (cs ++ [c]) = flat cs ++ c ++ [47].
Proof. rewrite flat_app. unfold flat at 2. cbn [map concat]. rewrite app_nil_r. reflexivity. Qed.

Lemma sc_cons c r cur : slash_components (c :: r) cur =
  if c =? 47 then rev cur :: slash_components r [] else slash_components r (c :: cur).
Proof. reflexivity. Qed.

Lemma sc_noslash t : forall cur, ~ In 47 t -> slash_components t cur = [].
Proof.
  induction t as [|x t IH]; intros cur H; [reflexivity|].
  rewrite sc_cons. destruct (N.eqb_spec x 47) as [->|Hx].
  - exfalso. apply H. left. reflexivity.
  - apply IH. intros Hin. apply H. right. exact Hin.
Qed.

Lemma sc_comp c : forall r cur, ~ In 47 c ->
  slash_components (c ++ 47 :: r) cur = (rev cur ++ c) :: slash_components r [].
Proof.
  induction c as [|x c IH]; intros r cur H.
  - cbn [app]. rewrite sc_cons. change (47 =? 47) with true. cbv iota. rewrite app_nil_r. reflexivity.
  - cbn [app]. rewrite sc_cons. destruct (N.eqb_spec x 47) as [->|Hx].
    + exfalso. apply H. left. reflexivity.
    + rewrite IH by (intros Hin; apply H; right; exact Hin).
      cbn [rev]. rewrite <- app_assoc. reflexivity.
Qed.

Lemma sc_flat cs : forall t, Forall good_comp cs -> ~ In 47 t ->
  slash_components (flat cs ++ t) [] = cs.
Proof.
  induction cs as [|c cs IH]; intros t Hc Ht.
  - cbn. apply sc_noslash. exact Ht.
  - inversion Hc as [|? ? [Hc1 _] Hc2]; subst.
    rewrite flat_cons, <- app_assoc. cbn [app]. rewrite sc_comp by exact Hc1.
    cbn [rev app]. f_equal. apply IH; assumption.
Qed.

(* a well-formed string does not begin with '/' *)
Lemma flat_head cs t : Forall good_comp cs -> ~ In 47 t ->
  strip_lead (flat cs ++ t) = flat cs ++ t.
Proof.
  intros Hc Ht. destruct cs as [|c cs].
  - cbn [flat map concat app]. destruct t as [|x t]; [reflexivity|].
    apply strip_lead_other. intros ->. apply Ht. left. reflexivity.
  - inversion Hc as [|? ? [Hc1 [Hne _]] Hc2]; subst.
    rewrite flat_cons. destruct c as [|x c]; [congruence|].
    cbn [app]. apply strip_lead_other. intros ->. apply Hc1. left. reflexivity.
Qed.

(* ------------------------------------------------------------------ *)
(* walk_back finds the start of the previous component                 *)

Lemma walk_back_S k written w base : walk_back (S k) written w base =
  if base <? w then
    match nth_N written (w - 1) with
    | Some b => if b =? 47 then w else walk_back k written (w - 1) base
    | None => w
    end
  else w.
Proof. reflexivity. Qed.

Lemma walk_back_start l : forall pre rest n,
  ~ In 47 l -> (pre = [] \/ exists p, pre = p ++ [47]) -> (length l < n)%nat ->
  walk_back n (pre ++ l ++ rest) (nlen pre + nlen l) 0 = nlen pre.
Proof.
  induction l as [|x l IH] using rev_ind; intros pre rest n Hl Hpre Hn.
  - destruct n as [|k]; [cbn in Hn; lia|].
    rewrite walk_back_S. change (nlen (@nil N)) with 0. rewrite N.add_0_r.
    destruct (N.ltb_spec 0 (nlen pre)) as [Hp|Hp].
    + destruct Hpre as [->|[p ->]]; [cbn in Hp; lia|].
      cbn [app]. rewrite <- app_assoc. cbn [app].
      replace (nlen (p ++ [47]) - 1) with (nlen p) by (nlen_norm; lia).
      rewrite nth_N_app_mid. reflexivity.
    + lia.
  - destruct n as [|k]; [lia|].
    rewrite app_length in Hn. cbn [length] in Hn.
    assert (Hx : x <> 47) by (intros ->; apply Hl; apply in_or_app; right; left; reflexivity).
    assert (Hl' : ~ In 47 l) by (intros Hin; apply Hl; apply in_or_app; left; exact Hin).
    rewrite walk_back_S.
    nlen_norm.
    destruct (N.ltb_spec 0 (nlen pre + (nlen l + (0 + 1)))) as [_|Hp]; [|lia].
    replace (nlen pre + (nlen l + (0 + 1)) - 1) with (nlen (pre ++ l)) by (rewrite nlen_app; lia).
    rewrite <- app_assoc. cbn [app].
    replace (pre ++ l ++ x :: rest) with ((pre ++ l) ++ x :: rest) by (rewrite <- app_assoc; reflexivity).
    rewrite nth_N_app_mid.
    destruct (N.eqb_spec x 47) as [E|_]; [congruence|].
    rewrite <- app_assoc, nlen_app.
    apply (IH pre (x :: rest) k Hl' Hpre). lia.
Qed.

(* the end of a non-empty flat prefix is a '/' *)
Lemma flat_ends cs : flat cs = [] \/ exists p, flat cs = p ++ [47].
Proof.
  destruct cs as [|c cs] using rev_ind; [left; reflexivity|].
  right. rewrite flat_snoc. exists (flat cs ++ c). rewrite <- app_assoc. reflexivity.
Qed.

(* ------------------------------------------------------------------ *)
(* The invariant of the two-pointer machine                            *)

Lemma collapse_loop_cons c rest written currpath base :
  collapse_loop (c :: rest) written currpath base =
    let written1 := written ++ [c] in
    let w := nlen written1 in
    if c =? 47 then
      let currpath_len := w - currpath - 1 in
      let comp := skipn_N currpath written1 in
      if (currpath_len =? 0) || ((currpath_len =? 1) && (match comp with b :: _ => b =? 46 | [] => false end)) then
        collapse_loop rest (firstn_N currpath written1) currpath base
      else if (currpath_len =? 2) && (match comp with a :: b :: _ => (a =? 46) && (b =? 46) | _ => false end) then
        if currpath =? base then collapse_loop rest (firstn_N base written1) currpath base
        else
          let w' := walk_back (N.to_nat currpath) written1 (currpath - 1) base in
          collapse_loop rest (firstn_N w' written1) w' base
      else collapse_loop rest written1 w base
    else collapse_loop rest written1 currpath base.
Proof. reflexivity. Qed.

Lemma not_in_app_single (t : list N) c : ~ In 47 t -> c <> 47 -> ~ In 47 (t ++ [c]).
Proof.
  intros Ht Hc Hin. apply in_app_or in Hin. destruct Hin as [Hin|[Hin|[]]]; [auto|congruence].
Qed.

Lemma collapse_loop_inv src : forall cs tail,
  Forall good_comp cs -> ~ In 47 tail ->
  exists cs' tail', Forall good_comp cs' /\ ~ In 47 tail' /\
    collapse_loop src (flat cs ++ tail) (nlen (flat cs)) 0 = flat cs' ++ tail'.
Proof.
  induction src as [|c rest IH]; intros cs tail Hcs Htail.
  - exists cs, tail. auto.
  - rewrite collapse_loop_cons. cbv zeta.
    destruct (N.eqb_spec c 47) as [->|Hc].
    + (* a '/' closes the current component [tail] *)
      rewrite <- app_assoc.
      rewrite skipn_N_app_exact, firstn_N_app_exact.
      replace (nlen (flat cs ++ tail ++ [47]) - nlen (flat cs) - 1) with (nlen tail)
        by (nlen_norm; lia).
      destruct tail as [|a [|b [|d t]]].
      * (* empty component *)
        cbn [app nlen length N.of_nat N.eqb orb].
        specialize (IH cs [] Hcs (fun x => x)). rewrite app_nil_r in IH. exact IH.
      * (* one byte *)
        change (nlen [a]) with 1. cbn [N.eqb Pos.eqb orb andb app].
        destruct (N.eqb_spec a 46) as [->|Ha].
        -- specialize (IH cs [] Hcs (fun x => x)). rewrite app_nil_r in IH. exact IH.
        -- assert (G : Forall good_comp (cs ++ [[a]])).
           { apply Forall_app. split; [exact Hcs|]. constructor; [|constructor].
             split; [exact Htail|]. repeat split; congruence. }
           specialize (IH (cs ++ [[a]]) [] G (fun x => x)).
           rewrite app_nil_r, flat_snoc in IH. cbn [app] in IH.
           exact IH.
      * (* two bytes *)
        change (nlen [a; b]) with 2. cbn [N.eqb Pos.eqb orb andb app].
        destruct ((a =? 46) && (b =? 46)) eqn:Edd.
        -- (* ".." *)
           destruct (N.eqb_spec (nlen (flat cs)) 0) as [Hz|Hnz].
           ++ rewrite firstn_N_0, Hz. exact (IH [] [] (Forall_nil _) (fun x => x)).
           ++ destruct cs as [|lc cs0 _] using rev_ind; [exfalso; apply Hnz; reflexivity|].
              apply Forall_app in Hcs. destruct Hcs as [Hcs0 Hlc].
              inversion Hlc as [|? ? [Hlc1 _] _]; subst.
              rewrite flat_snoc.
              replace ((flat cs0 ++ lc ++ [47]) ++ [a; b; 47]) with (flat cs0 ++ lc ++ [47; a; b; 47])
                by (rewrite <- !app_assoc; reflexivity).
              replace (nlen (flat cs0 ++ lc ++ [47]) - 1) with (nlen (flat cs0) + nlen lc)
                by (nlen_norm; lia).
              rewrite walk_back_start;
                [|exact Hlc1|apply flat_ends|rewrite to_nat_nlen, !app_length; cbn [length]; lia].
              rewrite firstn_N_app_exact.
              specialize (IH cs0 [] Hcs0 (fun x => x)). rewrite app_nil_r in IH. exact IH.
        -- (* two bytes, a real name *)
           assert (G : Forall good_comp (cs ++ [[a; b]])).
           { apply Forall_app. split; [exact Hcs|]. constructor; [|constructor].
             split; [exact Htail|]. repeat split; try congruence.
             intros E. inversion E; subst. discriminate Edd. }
           specialize (IH (cs ++ [[a; b]]) [] G (fun x => x)).
           rewrite app_nil_r, flat_snoc in IH. cbn [app] in IH. exact IH.
      * (* three or more bytes: a real name *)
        set (tl3 := a :: b :: d :: t) in *.
        assert (L3 : 3 <= nlen tl3) by (unfold tl3; nlen_norm; lia).
        destruct (N.eqb_spec (nlen tl3) 0) as [E0|_]; [lia|].
        destruct (N.eqb_spec (nlen tl3) 1) as [E1|_]; [lia|].
        destruct (N.eqb_spec (nlen tl3) 2) as [E2|_]; [lia|].
        cbn [orb andb].
        assert (G : Forall good_comp (cs ++ [tl3])).
        { apply Forall_app. split; [exact Hcs|]. constructor; [|constructor].
          split; [exact Htail|]. unfold tl3. repeat split; congruence. }
        specialize (IH (cs ++ [tl3]) [] G (fun x => x)).
        rewrite app_nil_r, flat_snoc in IH.
        exact IH.
    + (* ordinary byte *)
      rewrite <- app_assoc.
      apply (IH cs (tail ++ [c])); [exact Hcs|]. apply not_in_app_single; assumption.
Qed.

Lemma collapse_path_47 r : collapse_path (47 :: r) = 47 :: collapse_loop r [] 0 0.
Proof. reflexivity. Qed.

Lemma collapse_path_other c r : c <> 47 -> collapse_path (c :: r) = collapse_loop (c :: r) [] 0 0.
Proof.
  intros H. unfold collapse_path.
  destruct c as [|p]; [reflexivity|].
  repeat (destruct p as [p|p|]; try reflexivity). congruence.
Qed.

Lemma collapse_loop_ok src : exists cs tail, Forall good_comp cs /\ ~ In 47 tail /\
  collapse_loop src [] 0 0 = flat cs ++ tail.
Proof. exact (collapse_loop_inv src [] [] (Forall_nil _) (fun x => x)). Qed.

Lemma good_path_ok cs tail : Forall good_comp cs -> ~ In 47 tail ->
  Forall real_name (slash_components (flat cs ++ tail) []).
Proof.
  intros Hc Ht. rewrite sc_flat by assumption.
  eapply Forall_impl; [|exact Hc]. intros c [_ H]. exact H.
Qed.

(* C11, path half, for every byte string *)
Theorem collapse_path_ok : forall p, path_ok (collapse_path p).
Proof.
  intros p. unfold path_ok.
  destruct p as [|c r].
  - cbn. constructor.
  - destruct (N.eq_dec c 47) as [->|Hc].
    + rewrite collapse_path_47, strip_lead_47.
      destruct (collapse_loop_ok r) as (cs & tail & Hc & Ht & ->).
      apply good_path_ok; assumption.
    + rewrite collapse_path_other by exact Hc.
      destruct (collapse_loop_ok (c :: r)) as (cs & tail & Hcs & Ht & ->).
      rewrite flat_head by assumption.
      apply good_path_ok; assumption.
Qed.

(* ------------------------------------------------------------------ *)
(* File names                                                          *)

Lemma skipn_N_cons_pos {A} n (x : A) r : n <> 0 -> skipn_N n (x :: r) = skipn_N (N.pred n) r.
Proof. intros H. cbn [skipn_N]. destruct (N.eqb_spec n 0); [contradiction|reflexivity]. Qed.

Lemma last_index_cons b r c i acc :
  last_index (b :: r) c i acc = last_index r c (i + 1) (if b =? c then Some i else acc).
Proof. reflexivity. Qed.

Lemma last_index_none l c : forall i acc, last_index l c i acc = None -> ~ In c l.
Proof.
  induction l as [|b r IH]; intros i acc H; [exact (fun x => x)|].
  rewrite last_index_cons in H.
  destruct (N.eqb_spec b c) as [->|Hb].
  - exfalso. clear IH. revert H. generalize (i + 1). generalize i.
    induction r as [|b' r IHr]; intros i0 i1 H; [discriminate|].
    rewrite last_index_cons in H. destruct (b' =? c); eapply IHr; exact H.
  - intros [E|Hin]; [congruence|]. exact (IH _ _ H Hin).
Qed.

Lemma last_index_some l c : forall i acc j, last_index l c i acc = Some j ->
  (acc = Some j /\ ~ In c l) \/ (i <= j /\ ~ In c (skipn_N (j - i + 1) l)).
Proof.
  induction l as [|b r IH]; intros i acc j H.
  - left. split; [exact H|exact (fun x => x)].
  - rewrite last_index_cons in H. apply IH in H. destruct H as [[Hacc Hr]|[Hle Hs]].
    + destruct (N.eqb_spec b c) as [->|Hb].
      * right. inversion Hacc; subst. split; [lia|].
        replace (j - j + 1) with 1 by lia. rewrite skipn_N_cons_pos by lia. cbn [N.pred Pos.pred_N].
        rewrite skipn_N_0. exact Hr.
      * left. split; [exact Hacc|]. intros [E|Hin]; [congruence|exact (Hr Hin)].
    + right. split; [lia|]. rewrite skipn_N_cons_pos by lia.
      replace (N.pred (j - i + 1)) with (j - (i + 1) + 1) by lia. exact Hs.
Qed.

Definition fn_inv (h : header) : Prop := forall n, h_filename h = Some n -> name_ok n.

Lemma fn_inv_eq h h' : h_filename h' = h_filename h -> fn_inv h -> fn_inv h'.
Proof. unfold fn_inv. intros E H n Hn. apply H. rewrite <- E. exact Hn. Qed.

Lemma fn_inv_none h : h_filename h = None -> fn_inv h.
Proof. unfold fn_inv. intros E n Hn. congruence. Qed.

(* C11, file name half, for split_header_filename: any header, any bytes *)
Theorem split_header_filename_name_ok : forall h n,
  h_filename (split_header_filename h) = Some n -> name_ok n.
Proof.
  intros h n. unfold split_header_filename.
  destruct (h_filename h) as [f|] eqn:Ef; [|congruence].
  destruct (last_index f 47 0 None) as [i|] eqn:El.
  - cbn [h_filename set_filename]. intros E. inversion E; subst.
    apply last_index_some in El. destruct El as [[El _]|[_ El]]; [discriminate|].
    rewrite N.sub_0_r in El. exact El.
  - rewrite Ef. intros E. inversion E; subst. eapply last_index_none; exact El.
Qed.

Lemma split_fn_inv h : fn_inv (split_header_filename h).
Proof. intros n. apply split_header_filename_name_ok. Qed.

Lemma slash_to_underscore_name_ok l : name_ok (map (fun b => if b =? 47 then 95 else b) l).
Proof.
  unfold name_ok. intros H. apply in_map_iff in H. destruct H as (x & Hx & _).
  destruct (N.eqb_spec x 47); [discriminate|congruence].
Qed.

(* the ext-header file name decoder (decoder id 1) *)
Theorem ext_filename_name_ok : forall h start data_len h' n,
  ext_decode h 1 start data_len = Ok h' -> h_filename h' = Some n -> name_ok n.
Proof.
  intros h start data_len h' n H Hn.
  change (ext_decode h 1 start data_len) with
    (d <- raw_slice 1203 (h_raw h) start data_len ;;
     Ok (set_filename h (Some (map (fun b => if b =? 47 then 95 else b) (cstr d))))) in H.
  apply bind_ok in H. destruct H as (d & _ & H). inversion H; subst.
  cbn [h_filename set_filename] in Hn. inversion Hn; subst. apply slash_to_underscore_name_ok.
Qed.

(* ------------------------------------------------------------------ *)
(* The invariant "h_filename is None or name_ok" through the parser    *)

(* one step of inverting [H : m = Ok r] *)
Ltac ok_step H :=
  lazymatch type of H with
  | bind _ _ = Ok _ =>
    let x := fresh "x" in let Hx := fresh "Hx" in
    apply bind_ok in H; destruct H as (x & Hx & H)
  | (let x := ?v in @?f x) = Ok ?r =>
    let y := fresh x in pose (y := v); change (f y = Ok r) in H; cbv beta in H
  | (match ?p with pair _ _ => _ end) = Ok _ => destruct p
  | (if ?c then _ else _) = Ok _ => let E := fresh "E" in destruct c eqn:E
  | (match ?o with Some _ => _ | None => _ end) = Ok _ => let E := fresh "E" in destruct o eqn:E
  | Fault _ = Ok _ => discriminate H
  | OutOfFuel = Ok _ => discriminate H
  end.
Ltac ok_steps H := repeat ok_step H.

Lemma extend_raw_data_fn h st n h1 st' :
  extend_raw_data h st n = Ok (Some h1, st') -> h_filename h1 = h_filename h.
Proof.
  unfold extend_raw_data. intros H. ok_steps H; inversion H; subst; reflexivity.
Qed.

Lemma process_level0_path_fn h d : fn_inv h -> fn_inv (process_level0_path h d).
Proof.
  intros Hh. unfold process_level0_path. destruct d; [exact Hh|]. apply split_fn_inv.
Qed.

Lemma ext_decode_fn h id start data_len h' :
  ext_decode h id start data_len = Ok h' -> fn_inv h -> fn_inv h'.
Proof.
  intros H Hh.
  destruct (N.eq_dec id 1) as [->|Hid].
  - intros n Hn. eapply ext_filename_name_ok; eauto.
  - apply (fn_inv_eq h); [|exact Hh].
    unfold ext_decode in H.
    destruct id as [|p]; [|repeat (destruct p as [p|p|]; try discriminate H)]; try congruence;
      ok_steps H; inversion H; subst; reflexivity.
Qed.

Lemma lha_ext_header_decode_fn h num start data_len h' :
  lha_ext_header_decode h num start data_len = Ok h' -> fn_inv h -> fn_inv h'.
Proof.
  unfold lha_ext_header_decode. intros H Hh.
  destruct (find_ext ext_header_nums ext_header_min_lens ext_header_decoder_ids num) as [[m i]|].
  - destruct (data_len <? m).
    + inversion H; subst; exact Hh.
    + eapply ext_decode_fn; eauto.
  - inversion H; subst; exact Hh.
Qed.

Lemma ext_step_fn fs h off av x :
  ext_step fs (h, off, av) = Ok x -> fn_inv h ->
  match x with inl (h', _, _) => fn_inv h' | inr (_, h') => fn_inv h' end.
Proof.
  unfold ext_step. intros H Hh.
  ok_steps H; inversion H; subst; try exact Hh.
  eapply lha_ext_header_decode_fn; eauto.
Qed.

Lemma ext_loops_fn fs n : forall s r, loops (ext_step fs) n s r ->
  fn_inv (fst (fst s)) -> fn_inv (snd r).
Proof.
  induction n as [|n IH]; intros s r Hl Hs; inversion Hl; subst.
  - destruct s as [[h off] av]. destruct r as [ok h'].
    match goal with A : ext_step _ _ = Ok _ |- _ => apply ext_step_fn in A; [exact A|exact Hs] end.
  - destruct s as [[h off] av].
    match goal with A : ext_step _ _ = Ok (inl ?s') |- _ =>
      apply ext_step_fn in A; [|exact Hs]; destruct s' as [[h1 off1] av1] end.
    eapply IH; eauto.
Qed.

Lemma decode_extended_headers_fn h off ok h' :
  decode_extended_headers h off = Ok (ok, h') -> fn_inv h -> fn_inv h'.
Proof.
  unfold decode_extended_headers. intros H Hh.
  apply loop_sound in H. destruct H as (n & Hl & _).
  apply ext_loops_fn in Hl; [exact Hl|exact Hh].
Qed.

Lemma l1_step_fn h st x :
  l1_step (h, st) = Ok x ->
  match x with inl (h', _) => h_filename h' = h_filename h
             | inr (_, h', _) => h_filename h' = h_filename h end.
Proof.
  unfold l1_step. intros H.
  ok_steps H; inversion H; subst; try reflexivity;
    match goal with A : extend_raw_data _ _ _ = Ok _ |- _ => apply extend_raw_data_fn in A; exact A end.
Qed.

Lemma l1_loops_fn n : forall s r, loops l1_step n s r ->
  h_filename (snd (fst r)) = h_filename (fst s).
Proof.
  induction n as [|n IH]; intros s r Hl; inversion Hl; subst.
  - destruct s as [h st]. destruct r as [[ok h'] st'].
    match goal with A : l1_step _ = Ok _ |- _ => apply l1_step_fn in A; exact A end.
  - destruct s as [h st].
    match goal with A : l1_step _ = Ok (inl ?s') |- _ =>
      apply l1_step_fn in A; destruct s' as [h1 st1] end.
    match goal with A : loops _ _ _ _ |- _ => apply IH in A; cbn [fst snd] in *; congruence end.
Qed.

Lemma read_l1_extended_headers_fn h st ok h' st' :
  read_l1_extended_headers h st = Ok (ok, h', st') -> h_filename h' = h_filename h.
Proof.
  unfold read_l1_extended_headers. intros H.
  apply loop_sound in H. destruct H as (n & Hl & _).
  apply l1_loops_fn in Hl. exact Hl.
Qed.

Lemma process_level0_unix_area_fn h start len h' :
  process_level0_unix_area h start len = Ok h' -> h_filename h' = h_filename h.
Proof.
  unfold process_level0_unix_area. intros H. ok_steps H; inversion H; subst; reflexivity.
Qed.

Lemma process_level0_os9_area_fn h start len h' :
  process_level0_os9_area h start len = Ok h' -> h_filename h' = h_filename h.
Proof.
  unfold process_level0_os9_area. intros H. ok_steps H; inversion H; subst; reflexivity.
Qed.

Lemma process_level0_extended_area_fn h start len h' :
  process_level0_extended_area h start len = Ok h' -> h_filename h' = h_filename h.
Proof.
  unfold process_level0_extended_area. intros H. ok_steps H.
  - inversion H; subst; reflexivity.
  - eapply process_level0_unix_area_fn; eauto.
  - eapply process_level0_os9_area_fn; eauto.
  - inversion H; subst; reflexivity.
Qed.

(* peel setters that do not touch the file name *)
Ltac fn_strip :=
  repeat first [ apply process_level0_path_fn
               | match goal with |- fn_inv (?f ?h ?v) => change (fn_inv h) end ].

Section Parser.
  Variable mktime : N -> N -> N -> N -> Z -> N -> N.

  Lemma decode_level0_header_fn h st ok h' st' :
    decode_level0_header mktime h st = Ok (ok, h', st') -> fn_inv h -> fn_inv h'.
  Proof.
    unfold decode_level0_header. intros H Hh.
    ok_steps H.
    all: inversion H; subst; clear H. all: try exact Hh.
    all: match goal with A : extend_raw_data _ _ _ = Ok (Some ?h0, _) |- _ =>
           assert (Hh0 : fn_inv h0) by (eapply fn_inv_eq; [eapply extend_raw_data_fn; exact A|exact Hh]) end.
    - exact Hh0.
    - exact Hh0.
    - eapply fn_inv_eq; [eapply process_level0_extended_area_fn; eassumption|].
      fn_strip. exact Hh0.
    - fn_strip. exact Hh0.
  Qed.

  Lemma decode_level1_header_fn h st ok h' st' :
    decode_level1_header mktime h st = Ok (ok, h', st') -> fn_inv h -> fn_inv h'.
  Proof.
    unfold decode_level1_header. intros H Hh.
    ok_steps H.
    all: inversion H; subst; clear H.
    all: match goal with A : decode_level0_header _ _ _ = Ok (_, ?h0, _) |- _ =>
           assert (Hh0 : fn_inv h0) by (eapply decode_level0_header_fn; [exact A|exact Hh]) end.
    all: try exact Hh0.
    all: match goal with A : read_l1_extended_headers _ _ = Ok (_, ?h1, _) |- _ =>
           assert (Hh1 : fn_inv h1) by (eapply fn_inv_eq; [eapply read_l1_extended_headers_fn; exact A|exact Hh0]) end.
    all: try exact Hh1.
    eapply decode_extended_headers_fn; eassumption.
  Qed.

  Lemma decode_l23_fields_fn h h' : decode_l23_fields h = Ok h' -> h_filename h' = h_filename h.
  Proof.
    unfold decode_l23_fields. intros H. ok_steps H. inversion H; subst; reflexivity.
  Qed.

  Lemma decode_level2_header_fn h st ok h' st' :
    decode_level2_header h st = Ok (ok, h', st') -> fn_inv h -> fn_inv h'.
  Proof.
    unfold decode_level2_header. intros H Hh.
    ok_steps H.
    all: try (inversion H; subst; exact Hh).
    all: match goal with A : extend_raw_data _ _ _ = Ok (Some ?h0, _) |- _ =>
           assert (Hh0 : fn_inv h0) by (eapply fn_inv_eq; [eapply extend_raw_data_fn; exact A|exact Hh]) end.
    all: match goal with A : decode_l23_fields _ = Ok ?h2 |- _ =>
           assert (Hh2 : fn_inv h2) by (eapply fn_inv_eq; [eapply decode_l23_fields_fn; exact A|exact Hh0]) end.
    all: try (inversion H; subst; exact Hh2).
    assert (Hh3 : fn_inv h1).
    { match goal with A : (if ?c then _ else _) = Ok (Some h1, _) |- _ => destruct c end.
      - eapply fn_inv_eq; [eapply extend_raw_data_fn; eassumption|exact Hh2].
      - match goal with A : Ok _ = Ok _ |- _ => inversion A; subst; exact Hh2 end. }
    inversion H; subst. eapply decode_extended_headers_fn; eassumption.
  Qed.

  Lemma decode_level3_header_fn h st ok h' st' :
    decode_level3_header h st = Ok (ok, h', st') -> fn_inv h -> fn_inv h'.
  Proof.
    unfold decode_level3_header. intros H Hh.
    ok_steps H.
    all: try (inversion H; subst; exact Hh).
    all: match goal with A : extend_raw_data _ _ _ = Ok (Some ?h0, _) |- _ =>
           assert (Hh0 : fn_inv h0) by (eapply fn_inv_eq; [eapply extend_raw_data_fn; exact A|exact Hh]) end.
    all: try (inversion H; subst; exact Hh0).
    assert (Hh1 : fn_inv h1) by (eapply fn_inv_eq; [eapply extend_raw_data_fn; eassumption|exact Hh0]).
    assert (Hh2 : fn_inv x1) by (eapply fn_inv_eq; [eapply decode_l23_fields_fn; eassumption|exact Hh1]).
    inversion H; subst. eapply decode_extended_headers_fn; eassumption.
  Qed.

  (* parse_symlink ends with split_header_filename *)
  Lemma parse_symlink_fn h h' : parse_symlink h = Some h' -> fn_inv h'.
  Proof.
    unfold parse_symlink. destruct (first_index (full_path h) 124 0); [|discriminate].
    intros H. inversion H; subst. apply split_fn_inv.
  Qed.

  Lemma to_lower_47 b : to_lower b = 47 -> b = 47.
  Proof.
    unfold to_lower. destruct ((65 <=? b) && (b <=? 90)) eqn:E; [|auto]. lia.
  Qed.

  Lemma map_to_lower_name_ok n : name_ok n -> name_ok (map to_lower n).
  Proof.
    unfold name_ok. intros H Hin. apply in_map_iff in Hin. destruct Hin as (x & Hx & Hin).
    apply to_lower_47 in Hx. subst. exact (H Hin).
  Qed.

  Lemma fix_msdos_allcaps_fn h : fn_inv h -> fn_inv (fix_msdos_allcaps h).
  Proof.
    intros Hh. unfold fix_msdos_allcaps.
    match goal with |- fn_inv (if ?c then _ else _) => destruct c end; [|exact Hh].
    intros n. cbn [h_filename set_filename]. destruct (h_filename h) as [f|] eqn:Ef; [|discriminate].
    cbn [option_map]. intros E. inversion E; subst. apply map_to_lower_name_ok. apply Hh. exact Ef.
  Qed.

  (* the part of lha_file_header_read after the level decoder, verbatim *)
  Lemma post_process_ok (h1 : header) (st2 : istream) h st' :
    (let h2 := if (h_os_type h1 =? OS_TYPE_AMIGA) && method_is h1 [45; 108; 104; 48; 45]
                   && (h_length h1 =? 0) && (match h_filename h1 with None => true | _ => false end)
                then set_method h1 COMPRESS_TYPE_DIR else h1 in
      let is_dir := method_is h2 COMPRESS_TYPE_DIR in
      let r3 :=
        if negb is_dir then
          match h_filename h2 with None => None | Some _ => Some h2 end
        else if have_extra h2 FILE_UNIX_PERMS
                && (match h_path h2, h_filename h2 with None, None => false | _, _ => true end)
                && (N.land (h_unix_perms h2) 61440 =? 40960) then parse_symlink h2
        else match h_path h2 with None => None | Some _ => Some h2 end in
      match r3 with
      | None => Ok (None, st2)
      | Some h3 =>
        let os := h_os_type h3 in
        let h4 := if (os =? OS_TYPE_UNKNOWN) || (os =? OS_TYPE_MSDOS) || (os =? OS_TYPE_ATARI)
                     || (os =? OS_TYPE_LHARK) || (os =? OS_TYPE_OS2) then fix_msdos_allcaps h3 else h3 in
        let h5 := set_path h4 (option_map collapse_path (h_path h4)) in
        let h6 := if (h_os_type h5 =? OS_TYPE_OS9_68K) && have_extra h5 FILE_UNIX_PERMS
                  then add_flag (set_os9_perms h5 (h_unix_perms h5)) FILE_OS9_PERMS else h5 in
        let h7 := if have_extra h6 FILE_OS9_PERMS then os9_to_unix_permissions h6 else h6 in
        if have_extra h7 FILE_COMMON_CRC && negb (lha_crc16_buf 0 (h_raw h7) =? h_common_crc h7) then Ok (None, st2) else
        let h8 := if (h_level h7 =? 1) && (h_os_type h7 =? OS_TYPE_LHARK)
                     && bytes_eqb (firstn 5 (cstr (h_method h7))) [45; 108; 104; 55; 45]
                  then set_method h7 (list_set (h_method h7) 2 107) else h7 in
        Ok (Some h8, st2)
      end) = Ok (Some h, st') ->
    fn_inv h1 ->
    fn_inv h /\ (forall p, h_path h = Some p -> path_ok p).
  Proof.
    intros H Hh1.
    ok_step H. ok_step H. ok_step H.
    assert (Hh2 : fn_inv h2).
    { unfold h2. match goal with |- fn_inv (if ?c then _ else _) => destruct c end; exact Hh1. }
    clearbody h2.
    pose proof (eq_refl r3) as Er3. unfold r3 at 2 in Er3. clearbody r3.
    destruct r3 as [h3|]; [|discriminate H].
    assert (Hh3 : fn_inv h3).
    { destruct (negb is_dir).
      - destruct (h_filename h2); inversion Er3; subst; exact Hh2.
      - match type of Er3 with _ = (if ?c then _ else _) => destruct c end.
        + eapply parse_symlink_fn. symmetry. exact Er3.
        + destruct (h_path h2); inversion Er3; subst; exact Hh2. }
    clear Er3.
    ok_step H. ok_step H.
    assert (Hh4 : fn_inv h4).
    { unfold h4. match goal with |- fn_inv (if ?c then _ else _) => destruct c end;
        [apply fix_msdos_allcaps_fn|]; exact Hh3. }
    clearbody h4.
    ok_step H.
    assert (F5 : h_filename h5 = h_filename h4) by reflexivity.
    assert (P5 : h_path h5 = option_map collapse_path (h_path h4)) by reflexivity.
    clearbody h5.
    ok_step H.
    assert (F6 : h_filename h6 = h_filename h5) by (unfold h6; match goal with |- context [if ?c then _ else _] => destruct c end; reflexivity).
    assert (P6 : h_path h6 = h_path h5) by (unfold h6; match goal with |- context [if ?c then _ else _] => destruct c end; reflexivity).
    clearbody h6.
    ok_step H.
    assert (F7 : h_filename h7 = h_filename h6) by (unfold h7; match goal with |- context [if ?c then _ else _] => destruct c end; reflexivity).
    assert (P7 : h_path h7 = h_path h6) by (unfold h7; match goal with |- context [if ?c then _ else _] => destruct c end; reflexivity).
    clearbody h7.
    ok_step H; [discriminate H|].
    ok_step H.
    assert (F8 : h_filename h8 = h_filename h7) by (unfold h8; match goal with |- context [if ?c then _ else _] => destruct c end; reflexivity).
    assert (P8 : h_path h8 = h_path h7) by (unfold h8; match goal with |- context [if ?c then _ else _] => destruct c end; reflexivity).
    clearbody h8.
    inversion H; subst. split.
    - eapply fn_inv_eq; [|exact Hh4]. congruence.
    - intros p Hp. rewrite P8, P7, P6, P5 in Hp.
      destruct (h_path h4) as [q|]; [|discriminate Hp].
      cbn [option_map] in Hp. inversion Hp; subst. apply collapse_path_ok.
  Qed.

  Theorem returned_names_ok : forall st h st',
    lha_file_header_read mktime st = Ok (Some h, st') ->
    (forall n, h_filename h = Some n -> name_ok n) /\ (forall p, h_path h = Some p -> path_ok p).
  Proof.
    intros st h st' H. unfold lha_file_header_read in H.
    ok_step H. ok_step H. ok_step H; [|discriminate H]. ok_step H. ok_step H. ok_step H. ok_step H.
    ok_step H; [discriminate H|].
    assert (Hh0 : fn_inv h0).
    { assert (Hi : fn_inv (set_level (header0 l) x)) by (apply fn_inv_none; reflexivity).
      repeat match type of Hx1 with (if ?c then _ else _) = _ => destruct c end.
      - eapply decode_level0_header_fn; eassumption.
      - eapply decode_level1_header_fn; eassumption.
      - eapply decode_level2_header_fn; eassumption.
      - eapply decode_level3_header_fn; eassumption.
      - inversion Hx1; subst; exact Hi. }
    eapply post_process_ok; [exact H|exact Hh0].
  Qed.
End Parser.

(* ------------------------------------------------------------------ *)
(* Joining the returned path under a directory never climbs out of it  *)

(* +1 for a real name, -1 for "..", 0 for "." and for the empty component *)
Definition comp_delta (c : list N) : Z :=
  if list_eq_dec N.eq_dec c [46; 46] then (-1)%Z
  else if list_eq_dec N.eq_dec c [] then 0%Z
  else if list_eq_dec N.eq_dec c [46] then 0%Z
  else 1%Z.
Fixpoint depth (comps : list (list N)) : Z :=
  match comps with
  | [] => 0%Z
  | c :: r => (comp_delta c + depth r)%Z
  end.

Lemma comp_delta_real c : real_name c -> comp_delta c = 1%Z.
Proof.
  intros (H0 & H1 & H2). unfold comp_delta.
  destruct (list_eq_dec N.eq_dec c [46; 46]); [contradiction|].
  destruct (list_eq_dec N.eq_dec c []); [contradiction|].
  destruct (list_eq_dec N.eq_dec c [46]); [contradiction|reflexivity].
Qed.

Lemma depth_real cs : Forall real_name cs -> depth cs = Z.of_nat (length cs).
Proof.
  induction 1 as [|c cs Hc _ IH]; [reflexivity|].
  cbn [depth length]. rewrite comp_delta_real, IH by exact Hc. lia.
Qed.

Lemma Forall_firstn_nat {A} (P : A -> Prop) k : forall l, Forall P l -> Forall P (firstn k l).
Proof.
  induction k as [|k IH]; intros l H; [constructor|].
  destruct H as [|x l Hx Hl]; [constructor|]. cbn [firstn]. constructor; [exact Hx|apply IH; exact Hl].
Qed.

Lemma path_ok_depth p : path_ok p ->
  forall k, (0 <= depth (firstn k (slash_components (strip_lead p) [])))%Z.
Proof.
  intros H k. rewrite depth_real by (apply Forall_firstn_nat; exact H). lia.
Qed.

(* after any number of components of a returned path the depth below the
   starting directory is non-negative; for a relative path (not starting with
   '/') these are the components of the path itself *)
Corollary join_does_not_climb : forall mktime st h st' p,
  lha_file_header_read mktime st = Ok (Some h, st') -> h_path h = Some p ->
  (forall k, (0 <= depth (firstn k (slash_components (strip_lead p) [])))%Z) /\
  (hd_error p <> Some 47 -> forall k, (0 <= depth (firstn k (slash_components p [])))%Z).
Proof.
  intros mktime st h st' p H Hp.
  destruct (returned_names_ok mktime st h st' H) as [_ Hpath].
  specialize (Hpath p Hp). split.
  - apply path_ok_depth. exact Hpath.
  - intros Hrel k.
    assert (E : strip_lead p = p).
    { destruct p as [|c r]; [reflexivity|]. apply strip_lead_other.
      intros ->. apply Hrel. reflexivity. }
    rewrite <- E. apply path_ok_depth. exact Hpath.
Qed.

(* ------------------------------------------------------------------ *)
(* Non-vacuity                                                         *)

(* "a/../../b/./c//d/" collapses to "b/c/d/" *)
Example collapse_example :
  collapse_path [97; 47; 46; 46; 47; 46; 46; 47; 98; 47; 46; 47; 99; 47; 47; 100; 47]
  = [98; 47; 99; 47; 100; 47].
Proof. vm_compute. reflexivity. Qed.

(* the specification does reject what the collapse removes *)
Example raw_components :
  slash_components [97; 47; 46; 46; 47; 46; 46; 47; 98; 47; 46; 47; 99; 47; 47; 100; 47] []
  = [[97]; [46; 46]; [46; 46]; [98]; [46]; [99]; []; [100]].
Proof. vm_compute. reflexivity. Qed.

Example raw_not_ok : ~ path_ok [97; 47; 46; 46; 47; 46; 46; 47; 98; 47].
Proof.
  unfold path_ok. intros H. vm_compute in H.
  inversion H as [|? ? _ H1]; subst. inversion H1 as [|? ? [_ [_ H2]] _]; subst. apply H2. reflexivity.
Qed.

Example dotdot_depth : depth [[97]; [46; 46]; [46; 46]] = (-1)%Z.
Proof. vm_compute. reflexivity. Qed.

(* absolute path: the leading '/' stays, the rest is collapsed: "/../a/" -> "/a/" *)
Example collapse_example_abs : collapse_path [47; 46; 46; 47; 97; 47] = [47; 97; 47].
Proof. vm_compute. reflexivity. Qed.

(* a complete level-0 header whose stored path is "a/../../x/f": the parser
   returns path "x/" and file name "f" *)
Definition climbing_header : list N :=
  [33; 93; 45; 108; 104; 48; 45; 0; 0; 0; 0; 0; 0; 0; 0; 0; 0; 0; 33; 32; 0; 11;
   97; 47; 46; 46; 47; 46; 46; 47; 120; 47; 102; 0; 0].

Example climbing_header_read :
  match lha_file_header_read mktime_utc (lha_input_stream_new (mk_source KFile climbing_header)) with
  | Ok (Some h, _) => (h_path h, h_filename h)
  | _ => (None, None)
  end = (Some [120; 47], Some [102]).
Proof. vm_compute. reflexivity. Qed.

Example climbing_header_path_ok : path_ok [120; 47] /\ name_ok [102].
Proof.
  split.
  - unfold path_ok. cbn. constructor; [|constructor]. repeat split; discriminate.
  - unfold name_ok. cbn. intros [H|[]]. discriminate.
Qed.

Print Assumptions collapse_path_ok.
Print Assumptions split_header_filename_name_ok.
Print Assumptions ext_filename_name_ok.
Print Assumptions returned_names_ok.
Print Assumptions join_does_not_climb.
Print Assumptions collapse_example.
Print Assumptions raw_not_ok.
Print Assumptions climbing_header_read.

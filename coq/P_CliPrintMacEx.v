(* P_CliPrintMacEx.v -- non-vacuity of print_archive_output_mac: the archive holds the
   MacLHA member subdir/subdir2/hello.txt of P_ReaderCheck.mac_archive (256 stored bytes:
   a MacBinary envelope, the data fork "hello world", padding) followed by the plain member
   fox.txt (90 bytes).  "lha p archive" prints both banners, the 11 bytes of the data fork
   and the 90 bytes; "lha p archive sub*" passes over fox.txt.  The same output comes out of
   the whole command (cli_run) by computation. *)
From Lhasa Require Import Base ListN DecBase Loop Generated Crc16 InputStream Header BasicReader
  AnyDecoder Decoder MacBinary Fs FsRun Reader Glob ListOut CliFilter CliExtract CliMain
  P_ReaderCheck P_FsExtract P_ReaderExtract P_CliExtract P_CliTree P_CliPrint P_MacContent P_CliPrintMac.
From Coq Require Import ZifyBool ZifyN ZifyNat.
Import P_ReaderCheck.Example.
Local Open Scope N_scope.

Definition m_arc : list N := removelast mac_archive ++ ex_header 238 198 ++ ex_data ++ [0].

Definition m_br0 : breader := lha_basic_reader_new (lha_input_stream_new (mk_source KFile m_arc)).
Definition m_next (br : breader) : option header * breader :=
  match lha_basic_reader_next_file mktime_utc br with Ok x => x | _ => (None, br) end.
Definition m_br1 := snd (m_next m_br0).
Definition m_h1 : header := match fst (m_next m_br0) with Some h => h | None => header0 [] end.
Definition m_br2 := snd (m_next m_br1).
Definition m_h2 : header := match fst (m_next m_br1) with Some h => h | None => header0 [] end.
Definition hello_world : list N := [104; 101; 108; 108; 111; 32; 119; 111; 114; 108; 100].

Example m_headers :
  is_mac m_h1 = true /\ h_length m_h1 = 256 /\ is_mac m_h2 = false /\ h_length m_h2 = 90 /\
  h_path m_h1 = Some [115; 117; 98; 100; 105; 114; 47; 115; 117; 98; 100; 105; 114; 50; 47] /\
  h_filename m_h1 = Some [104; 101; 108; 108; 111; 46; 116; 120; 116] /\
  h_path m_h2 = None /\ h_filename m_h2 = Some [102; 111; 120; 46; 116; 120; 116].
Proof. repeat split; vm_compute; reflexivity. Qed.

Ltac rd_tac :=
  first [eapply rl_last; vm_compute; reflexivity
        |eapply rl_more; [ |vm_compute; reflexivity| ]; [discriminate|rd_tac]].

Ltac print_clause :=
  let r := fresh "r" in let Hbr := fresh "Hbr" in let Hty := fresh "Hty" in let Hcur := fresh "Hcur" in
  let Hdec := fresh "Hdec" in let Hin := fresh "Hin" in
  intros _ r Hbr Hty Hcur Hdec Hin; destruct r; cbn in Hbr, Hty, Hcur, Hdec, Hin; subst;
  eexists _, _; split; [rd_tac|]; split; [vm_compute; reflexivity|]; split; [cbn; lia|];
  split; [intros _; eexists; split; [vm_compute; reflexivity|split; vm_compute; reflexivity]|].

Ltac ppos_tac :=
  first [apply pps_end; vm_compute; reflexivity
        |apply pps_file; [vm_compute; reflexivity|vm_compute; reflexivity|vm_compute; reflexivity
                         |print_clause; eexists _, _; split; [vm_compute; reflexivity|ppos_tac]
                         |intros _; eexists _, _; split; [vm_compute; reflexivity|ppos_tac]]].

(* the archive satisfies the hypothesis of the theorem whatever the patterns *)
Example m_positioned f : positionedPS mktime_utc 0 f m_br1 [MFile m_h1 hello_world; MFile m_h2 ex_data].
Proof. ppos_tac. Qed.

Definition m_fs : fs := cli_fs_init false m_arc 1200000000 [].
Definition m_st : cli_state :=
  {| cs_fs := m_fs; cs_reader := lha_reader_new (lha_input_stream_new (mk_source KFile m_arc));
     cs_opts := init_options; cs_stdin := []; cs_stdin_shared := false; cs_out := []; cs_err := [] |}.

Lemma m_instance (pats : list (list N)) :
  let f := lha_filter_init pats in
  exists st', print_archive mktime_utc 0 f m_st = Ok (RVal true, st') /\ cs_fs st' = m_fs /\
    stdout_bytes st' = concat (map (pout init_options) (filter (selm f) [MFile m_h1 hello_world; MFile m_h2 ex_data])) /\
    mac_content f (MFile m_h1 hello_world).
Proof.
  intros f.
  destruct (print_archive_output_mac mktime_utc 0 f [MFile m_h1 hello_world; MFile m_h2 ex_data] m_st)
    as (st' & Hp & Hfs & Hout & Hmac).
  - reflexivity.
  - repeat split. discriminate.
  - exists m_br1. split; [vm_compute; reflexivity|apply m_positioned].
  - vm_compute. reflexivity.
  - exists st'. split; [exact Hp|]. split; [exact Hfs|]. split; [exact Hout|]. inversion Hmac; assumption.
Qed.

Definition banner (p : list N) : list N := s_banner_top ++ p ++ s_banner_bottom.
Definition p_hello : list N :=      (* subdir/subdir2/hello.txt *)
  [115; 117; 98; 100; 105; 114; 47; 115; 117; 98; 100; 105; 114; 50; 47; 104; 101; 108; 108; 111; 46; 116; 120; 116].
Definition p_fox : list N := [102; 111; 120; 46; 116; 120; 116].

Example m_print_all :
  exists st', print_archive mktime_utc 0 (lha_filter_init []) m_st = Ok (RVal true, st') /\ cs_fs st' = m_fs /\
    stdout_bytes st' = banner p_hello ++ hello_world ++ banner p_fox ++ ex_data.
Proof.
  destruct (m_instance []) as (st' & Hp & Hfs & Hout & _). exists st'. split; [exact Hp|]. split; [exact Hfs|].
  rewrite Hout. vm_compute. reflexivity.
Qed.

Example m_print_sub :        (* lha p archive sub* *)
  exists st', print_archive mktime_utc 0 (lha_filter_init [[115; 117; 98; 42]]) m_st = Ok (RVal true, st') /\ cs_fs st' = m_fs /\
    stdout_bytes st' = banner p_hello ++ hello_world /\
    (* ... and these 11 bytes are the content function of mac_extract_content on an inner
       stream with the recorded length and CRC *)
    exists ibs, nlen ibs = h_length m_h1 /\ lha_crc16_buf 0 ibs = h_crc m_h1 /\
      hello_world = firstn_N (h_length m_h1) (mac_out m_h1 ibs).
Proof.
  destruct (m_instance [[115; 117; 98; 42]]) as (st' & Hp & Hfs & Hout & Hmac). exists st'.
  split; [exact Hp|]. split; [exact Hfs|]. split; [rewrite Hout; vm_compute; reflexivity|].
  apply Hmac; vm_compute; reflexivity.
Qed.

(* the whole command by computation: lha p /arc/a.lzh sub* *)
Example m_cli :
  match cli_run mktime_utc gmtime_utc (fun _ => []) false 1300000000 1200000000
          [[108; 104; 97]; [112]; [47; 97; 114; 99; 47; 97; 46; 108; 122; 104]; [115; 117; 98; 42]] m_arc [] [] with
  | Ok r => Some (cr_exit r, cr_stdout r)
  | _ => None
  end = Some (0, banner p_hello ++ hello_world).
Proof. vm_compute. reflexivity. Qed.

Print Assumptions m_instance.
Print Assumptions m_print_sub.

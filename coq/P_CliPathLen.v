(* P_CliPathLen.v -- C10: why "longest path first" is the right order.

   [pcomps o h]: the physical components of the path the tool extracts header h
   under (file_full_path: w=DIR, then the header's path unless option i, then its
   file name), "." dropped.  For headers that satisfy C11's invariant:

     if the components of A are a PROPER PREFIX of the components of M -- the link
     A would stand at a directory position of M's path -- and A can be created at
     all (its path does not end in '/', is not empty, its last component is not
     "."), then A's key in the deferred list (lha_reader.c file_header_path_len:
     strlen(path) + strlen(filename)) is STRICTLY SMALLER than M's.

   Hence a deferred link that was created earlier (key >= M's) is never met on the
   way to M.  The one leading '/' that a header path may have and that
   file_full_path strips is accounted for (it adds 1 to A's key; a further
   component adds at least 2 to M's). *)
From Lhasa Require Import Base Header Fs FsRun Reader ListOut CliExtract P_Path P_FsConfine P_CliPath P_FsLinks.
From Coq Require Import Lia ZifyBool ZifyN ZifyNat.
Local Open Scope N_scope.

(* ------------------------------------------------------------------ *)
(* split_path                                                           *)

Lemma spa_app_slash a : forall b cur,
  split_path_aux (a ++ 47 :: b) cur = split_path_aux a cur ++ split_path_aux b [].
Proof.
  induction a as [|c r IH]; intros b cur.
  - cbn [app]. rewrite spa_cons. change (47 =? 47) with true. cbv iota. cbn [split_path_aux].
    destruct cur; reflexivity.
  - cbn [app]. rewrite !spa_cons. destruct (c =? 47).
    + destruct cur; rewrite IH; reflexivity.
    + apply IH.
Qed.

Lemma split_path_app_slash a b : split_path (a ++ 47 :: b) = split_path a ++ split_path b.
Proof. apply spa_app_slash. Qed.

Lemma spa_noslash u : forall l cur, ~ In 47 u -> split_path_aux (u ++ l) cur = split_path_aux l (rev u ++ cur).
Proof.
  induction u as [|c u' IH]; intros l cur Hu; [reflexivity|].
  cbn [app]. rewrite spa_cons. destruct (N.eqb_spec c 47) as [->|Hc]; [exfalso; apply Hu; left; reflexivity|].
  rewrite IH by (intros X; apply Hu; right; exact X). cbn [rev]. rewrite <- app_assoc. reflexivity.
Qed.

Definition lastc (u : list N) : list name := match u with [] => [] | _ => [u] end.

Lemma split_noslash u : ~ In 47 u -> split_path u = lastc u.
Proof.
  intros Hu. unfold split_path. rewrite <- (app_nil_r u). rewrite spa_noslash by exact Hu.
  cbn [split_path_aux]. rewrite !app_nil_r. destruct u as [|c r]; [reflexivity|].
  destruct (rev (c :: r)) eqn:E.
  - apply rev_nil_iff in E. discriminate.
  - rewrite <- E, rev_involutive. reflexivity.
Qed.

Lemma split_flat cs : forall u, Forall (fun c => c <> [] /\ ~ In 47 c) cs -> ~ In 47 u ->
  split_path (flat cs ++ u) = cs ++ lastc u.
Proof.
  induction cs as [|c cs IH]; intros u Hcs Hu.
  - cbn [flat map concat app]. apply split_noslash. exact Hu.
  - inversion Hcs as [|? ? [Hne Hc] Hr]; subst. rewrite flat_cons. rewrite <- app_assoc. cbn [app].
    rewrite split_path_app_slash. rewrite (split_noslash c Hc). rewrite IH by assumption.
    destruct c; [congruence|reflexivity].
Qed.

(* every string is its '/'-terminated components followed by a tail without '/' *)
Lemma sc_decomp l : forall cur, ~ In 47 cur ->
  exists tail, rev cur ++ l = flat (slash_components l cur) ++ tail /\ ~ In 47 tail /\
               Forall (fun c => ~ In 47 c) (slash_components l cur).
Proof.
  induction l as [|c r IH]; intros cur Hcur.
  - exists (rev cur). cbn [slash_components flat map concat app]. rewrite app_nil_r.
    split; [reflexivity|]. split; [intros X; apply in_rev in X; exact (Hcur X)|constructor].
  - rewrite sc_cons'. destruct (N.eqb_spec c 47) as [->|Hc].
    + destruct (IH [] (fun X => X)) as (tail & E & Ht & Hf). cbn [rev app] in E.
      exists tail. rewrite flat_cons. rewrite <- app_assoc. cbn [app]. rewrite <- E.
      split; [reflexivity|]. split; [exact Ht|]. constructor; [|exact Hf].
      intros X. apply in_rev in X. exact (Hcur X).
    + destruct (IH (c :: cur)) as (tail & E & Ht & Hf).
      { intros [X|X]; [congruence|exact (Hcur X)]. }
      exists tail. cbn [rev] in E. rewrite <- app_assoc in E. cbn [app] in E.
      split; [exact E|]. split; assumption.
Qed.

(* ------------------------------------------------------------------ *)
(* lengths                                                              *)

Fixpoint mu (cs : list (list N)) : N :=
  match cs with [] => 0 | c :: r => nlen c + 1 + mu r end.

Lemma mu_app a b : mu (a ++ b) = mu a + mu b.
Proof. induction a as [|c r IH]; [reflexivity|]. cbn [app mu]. rewrite IH. lia. Qed.

Lemma nlen_flat cs : nlen (flat cs) = mu cs.
Proof.
  induction cs as [|c r IH]; [reflexivity|]. rewrite flat_cons. rewrite nlen_app, nlen_cons, IH. cbn [mu]. lia.
Qed.

Lemma real_name_nodot c : real_name c -> name_eqb c dot = false.
Proof.
  intros (_ & H & _). destruct (name_eqb c dot) eqn:E; [|reflexivity]. apply name_eqb_eq in E. contradiction.
Qed.

Lemma ploc_real cs : Forall real_name cs -> ploc cs = cs.
Proof.
  induction 1 as [|c r Hc Hr IH]; [reflexivity|]. cbn [ploc filter]. rewrite (real_name_nodot c Hc). cbn [negb].
  f_equal. exact IH.
Qed.

Lemma trailing_slash_snoc p : trailing_slash (p ++ [47]) = true.
Proof. unfold trailing_slash. rewrite rev_app_distr. reflexivity. Qed.

Section PathLen.
  Variable o0 : lha_options.
  Hypothesis Hw : good_w o0.

  Definition pnames (h : header) : list N := file_full_path h o0.
  Definition pcomps (h : header) : list name := ploc (split_path (pnames h)).
  Definition plen (h : header) : N := file_header_path_len h.

  (* the link can be made under its name: symlink() fails on "", on a trailing slash and on "." *)
  Definition creatable (h : header) : Prop :=
    trailing_slash (pnames h) = false /\ pnames h <> [] /\ name_eqb (last (split_path (pnames h)) []) dot = false.

  Definition Wstr : list N := match o_extract_path o0 with Some e => e ++ [47] | None => [] end.
  Definition Wcomps : list name := match o_extract_path o0 with Some e => split_path e | None => [] end.
  Definition Sstr (h : header) : list N :=
    (if o_use_path o0 then match h_path h with Some p => skip_slashes p | None => [] end else [])
    ++ (match h_filename h with Some f => skip_slashes f | None => [] end).

  Lemma pnames_eq h : pnames h = Wstr ++ Sstr h.
  Proof. unfold pnames, file_full_path, Wstr, Sstr. reflexivity. Qed.

  Lemma split_W s : split_path (Wstr ++ s) = Wcomps ++ split_path s.
  Proof.
    unfold Wstr, Wcomps. destruct (o_extract_path o0) as [e|]; [|reflexivity].
    rewrite <- app_assoc. cbn [app]. apply split_path_app_slash.
  Qed.

  Lemma Wstr_ends : Wstr = [] \/ exists p, Wstr = p ++ [47].
  Proof. unfold Wstr. destruct (o_extract_path o0) as [e|]; [right; exists e; reflexivity|left; reflexivity]. Qed.

  (* the shape of the header's own part of the name *)
  Lemma Sstr_shape h : hdr_c11 h ->
    exists cs u, Sstr h = flat cs ++ u /\ Forall real_name cs /\ Forall (fun c => ~ In 47 c) cs /\ ~ In 47 u /\
      nlen (Sstr h) <= plen h /\
      (o_use_path o0 = true -> plen h <= nlen (Sstr h) + 1) /\
      (o_use_path o0 = false -> cs = []).
  Proof.
    intros [Hn Hp]. unfold Sstr, plen, file_header_path_len.
    set (F := match h_filename h with Some f => skip_slashes f | None => [] end).
    assert (HF : ~ In 47 F /\ F = opt_str (h_filename h)).
    { unfold F. destruct (h_filename h) as [f|]; [|split; [intros []|reflexivity]].
      rewrite skip_slashes_noslash by (apply (Hn f eq_refl)). split; [apply (Hn f eq_refl)|reflexivity]. }
    destruct HF as [HF EF]. rewrite <- EF.
    destruct (o_use_path o0).
    - destruct (h_path h) as [p|] eqn:Ep; cbn [opt_str].
      + specialize (Hp p eq_refl). rewrite (skip_slashes_path p Hp).
        destruct (sc_decomp (strip_lead p) [] (fun X => X)) as (tail & E & Ht & Hf). cbn [rev app] in E.
        exists (slash_components (strip_lead p) []), (tail ++ F).
        split; [rewrite app_assoc, <- E; reflexivity|]. split; [exact Hp|]. split; [exact Hf|].
        split; [intros X; apply in_app_or in X; destruct X; auto|].
        rewrite nlen_app.
        assert (Hl : nlen (strip_lead p) <= nlen p /\ nlen p <= nlen (strip_lead p) + 1).
        { destruct p as [|c r]; [cbn; lia|]. destruct (N.eqb_spec c 47) as [->|Hc].
          - rewrite strip_lead_47, nlen_cons. lia.
          - rewrite strip_lead_other by exact Hc. lia. }
        split; [lia|]. split; [intros _; lia|discriminate].
      + exists [], F. cbn [flat map concat app]. split; [reflexivity|]. split; [constructor|]. split; [constructor|].
        split; [exact HF|]. rewrite nlen_nil. split; [lia|]. split; [intros _; lia|discriminate].
    - exists [], F. cbn [flat map concat app]. split; [reflexivity|]. split; [constructor|]. split; [constructor|].
      split; [exact HF|]. split; [lia|]. split; [discriminate|reflexivity].
  Qed.

  Lemma cs_good cs : Forall real_name cs -> Forall (fun c => ~ In 47 c) cs -> Forall (fun c => c <> [] /\ ~ In 47 c) cs.
  Proof.
    intros A B. rewrite Forall_forall in *. intros c Hc. split; [apply (A c Hc)|apply (B c Hc)].
  Qed.

  Lemma pcomps_shape h cs u : Sstr h = flat cs ++ u -> Forall real_name cs -> Forall (fun c => ~ In 47 c) cs ->
    ~ In 47 u -> split_path (pnames h) = Wcomps ++ cs ++ lastc u /\ pcomps h = ploc Wcomps ++ cs ++ ploc (lastc u).
  Proof.
    intros E Hr Hs Hu. unfold pcomps. rewrite pnames_eq, split_W, E, split_flat by (try apply cs_good; assumption).
    split; [reflexivity|]. rewrite !ploc_app, (ploc_real cs Hr). reflexivity.
  Qed.

  (* THE ORDER LEMMA *)
  Theorem prefix_is_shorter A M : hdr_c11 A -> hdr_c11 M -> creatable A ->
    proper_prefix (pcomps A) (pcomps M) -> plen A < plen M.
  Proof.
    intros HA HM (Hts & Hne & Hdot) Hpp.
    destruct (Sstr_shape A HA) as (ca & ua & Ea & Ra & Sa & Ua & La1 & La2 & La3).
    destruct (Sstr_shape M HM) as (cm & um & Em & Rm & Sm & Um & Lm1 & Lm2 & Lm3).
    destruct (pcomps_shape A ca ua Ea Ra Sa Ua) as [SpA PA].
    destruct (pcomps_shape M cm um Em Rm Sm Um) as [_ PM].
    (* the last component of A is a name *)
    assert (Hua : ua <> []).
    { intros ->. rewrite pnames_eq, Ea, app_nil_r in Hts, Hne.
      destruct (flat_ends ca) as [Ef|(q & Ef)]; rewrite Ef in *.
      - rewrite app_nil_r in *. destruct Wstr_ends as [Ew|(q & Ew)]; rewrite Ew in *; [congruence|].
        rewrite trailing_slash_snoc in Hts. discriminate.
      - rewrite app_assoc, trailing_slash_snoc in Hts. discriminate. }
    assert (Hla : lastc ua = [ua]) by (destruct ua; [congruence|reflexivity]).
    rewrite Hla in SpA, PA.
    assert (Hud : name_eqb ua dot = false).
    { rewrite SpA in Hdot. rewrite app_assoc, last_app_ne in Hdot by discriminate. exact Hdot. }
    assert (PA' : pcomps A = ploc Wcomps ++ (ca ++ [ua])).
    { rewrite PA. cbn [ploc filter]. rewrite Hud. reflexivity. }
    rewrite PA', PM in Hpp. apply proper_prefix_app_inv in Hpp. destruct Hpp as (x & y & Exy).
    (* the extra component is not empty *)
    assert (Hx : 1 <= nlen x).
    { assert (Hin : In x (cm ++ ploc (lastc um))) by (rewrite Exy; apply in_or_app; right; left; reflexivity).
      apply in_app_or in Hin. destruct Hin as [Hin|Hin].
      - rewrite Forall_forall in Rm. destruct (Rm x Hin) as (X & _). destruct x; [congruence|rewrite nlen_cons; lia].
      - destruct um as [|c r]; [destruct Hin|]. cbn [lastc ploc filter] in Hin.
        destruct (negb (name_eqb (c :: r) dot)); [|destruct Hin]. destruct Hin as [<-|[]]. rewrite nlen_cons. lia. }
    assert (LA : nlen (Sstr A) = mu ca + nlen ua) by (rewrite Ea, nlen_app, nlen_flat; reflexivity).
    assert (LM : nlen (Sstr M) = mu cm + nlen um) by (rewrite Em, nlen_app, nlen_flat; reflexivity).
    assert (MX : mu (cm ++ ploc (lastc um)) = mu ca + nlen ua + 1 + (nlen x + 1 + mu y)).
    { rewrite Exy. rewrite !mu_app. cbn [mu]. lia. }
    assert (MM : mu (cm ++ ploc (lastc um)) <= nlen (Sstr M) + 1).
    { rewrite LM, mu_app. destruct um as [|c r]; [cbn; lia|]. cbn [lastc ploc filter].
      destruct (negb (name_eqb (c :: r) dot)); cbn [mu]; lia. }
    destruct (o_use_path o0) eqn:Eu.
    - specialize (La2 eq_refl). lia.
    - rewrite (La3 eq_refl), (Lm3 eq_refl) in Exy. cbn [app] in Exy.
      exfalso. destruct um as [|c r]; [discriminate|]. cbn [lastc ploc filter] in Exy.
      destruct (negb (name_eqb (c :: r) dot)); discriminate.
  Qed.
End PathLen.

Print Assumptions prefix_is_shorter.

(* P_AnyDecoder.v -- part of C08 ("no archive bytes can make the library touch invalid
   memory"): the decoders[] table of lib/lha_decoder.c behind one read function
   (AnyDecoder.v) and the lha_decoder_read wrapper over it never fault.

   Outcomes are described with [okp True P m] (P_HeaderSafe.v): m is [Ok a] with
   [P a] or [OutOfFuel]; never [Fault _].  (The lh_new decoders can run out of the
   model's fuel on inputs of 2^27 bytes and more, so "= Ok" would be false; see
   P_LhNew.lhnew_read_ok_refuted.)

   The -lh1- decoder's invariant proof is not part of this file: its invariant is
   the Section variable [lh1_inv] and its two theorems are Section hypotheses, in the
   weakest form that is needed here (for the callback of the basic reader).  The
   lemma [lh1_dc_of_len] turns the general statement (for every callback that returns
   at most as many bytes as asked for) into that form. *)
From Lhasa Require Import Base ListN DecBase Loop Generated InputStream Header BasicReader BitReader
  Null Lzs Lz5 Lh1 LhNew Pm1 Pm2 AnyDecoder Decoder
  P_HeaderSafe P_BitReader P_Null P_Lz5 P_Lzs P_LhNew P_Pm1 P_Pm2 P_AnyParam.
From Coq Require Import ZifyBool ZifyN ZifyNat.
Local Open Scope N_scope.

(* ------------------------------------------------------------------ *)
(* 0. okp True: loops                                                   *)

Lemma okpT_bind {A B} (P : A -> Prop) (Q : B -> Prop) m (f : A -> outcome B) :
  okp True P m -> (forall a, P a -> okp True Q (f a)) -> okp True Q (bind m f).
Proof. apply okp_bind. Qed.

Lemma okpT_imp {A} (P Q : A -> Prop) m : okp True P m -> (forall a, P a -> Q a) -> okp True Q m.
Proof. intros H HI. eapply okp_weaken; [exact H|auto|exact HI]. Qed.

Lemma okpT_of_ex {A} (P : A -> Prop) m : (exists a, m = Ok a /\ P a) -> okp True P m.
Proof. intros (a & E & H). rewrite E. exact H. Qed.

Lemma okpT_not_fault {A} (P : A -> Prop) m : okp True P m -> forall site, m <> Fault site.
Proof. intros H site E. rewrite E in H. exact H. Qed.

Lemma okpT_ok {A} (P : A -> Prop) m a : okp True P m -> m = Ok a -> P a.
Proof. intros H E. rewrite E in H. exact H. Qed.

Section LoopT.
  Context {St R : Type}.
  Variable step : St -> outcome (St + R).
  Variable Iv : St -> Prop.
  Variable Q : R -> Prop.
  Hypothesis Hstep : forall s, Iv s ->
    okp True (fun x => match x with inl s' => Iv s' | inr r => Q r end) (step s).

  Lemma loop_n_okpT k : forall s, Iv s ->
    okp True (fun x => match x with inl s' => Iv s' | inr r => Q r end) (loop_n step k s).
  Proof.
    induction k as [|k IH]; intros s Hi; cbn [loop_n]; [apply Hstep; exact Hi|].
    eapply okpT_bind; [apply IH; exact Hi|].
    intros [s'|r] Hx; [apply IH; exact Hx|exact Hx].
  Qed.

  Lemma loop_okpT k s : Iv s -> okp True Q (loop step k s).
  Proof.
    intros Hi. unfold loop. eapply okpT_bind; [apply loop_n_okpT; exact Hi|].
    intros [s'|r] Hx; [exact Logic.I|exact Hx].
  Qed.
End LoopT.

(* ------------------------------------------------------------------ *)
(* 1. The callback of the basic reader                                  *)

Lemma read_ready_len st n :
  match fst (read_ready st n) with Some b => nlen b = n | None => True end.
Proof.
  unfold read_ready. destruct (is_state st); try exact I.
  - cbv zeta. pose proof (nlen_firstn_N n (is_leadin st)) as H1.
    destruct (N.ltb_spec (nlen (firstn_N n (is_leadin st))) n) as [Hlt|Hge].
    + unfold raw_read. cbv beta iota.
      destruct (N.eqb_spec (nlen (firstn_N n (is_leadin st)) +
                  nlen (firstn_N (n - nlen (firstn_N n (is_leadin st))) (so_data (is_src st)))) n) as [He|Hne];
        cbn [fst]; [rewrite nlen_app; exact He|exact I].
    + cbn [fst]. lia.
  - cbv zeta. pose proof (nlen_firstn_N n (is_leadin st)) as H1.
    destruct (N.ltb_spec (nlen (firstn_N n (is_leadin st))) n) as [Hlt|Hge].
    + unfold raw_read. cbv beta iota.
      destruct (N.eqb_spec (nlen (firstn_N n (is_leadin st)) +
                  nlen (firstn_N (n - nlen (firstn_N n (is_leadin st))) (so_data (is_src st)))) n) as [He|Hne];
        cbn [fst]; [rewrite nlen_app; exact He|exact I].
    + cbn [fst]. lia.
Qed.

(* decoder_callback returns at most as many bytes as asked for, in EVERY state of the
   basic reader (it is not "cb_bounded" in every state: nothing says that the bytes of
   an arbitrary stream value are below 256; the decoders do not need that) *)
Lemma decoder_callback_len : forall (s : breader) n, nlen (fst (decoder_callback s n)) <= n.
Proof.
  intros s n. unfold decoder_callback, lha_basic_reader_read_compressed.
  destruct (br_eof s || (br_remaining s =? 0)); [cbn [fst]; rewrite nlen_nil; lia|].
  destruct (is_state (br_stream s)) eqn:Es; [cbn [fst]; rewrite nlen_nil; lia| |].
  - pose proof (read_ready_len (br_stream s) (if br_remaining s <? n then br_remaining s else n)) as H.
    destruct (read_ready (br_stream s) (if br_remaining s <? n then br_remaining s else n)) as [res st'].
    cbn [fst] in H. destruct res as [bs|]; cbn [fst]; [|rewrite nlen_nil; lia].
    destruct (N.ltb_spec (br_remaining s) n); lia.
  - pose proof (read_ready_len (br_stream s) (if br_remaining s <? n then br_remaining s else n)) as H.
    destruct (read_ready (br_stream s) (if br_remaining s <? n then br_remaining s else n)) as [res st'].
    cbn [fst] in H. destruct res as [bs|]; cbn [fst]; [|rewrite nlen_nil; lia].
    destruct (N.ltb_spec (br_remaining s) n); lia.
Qed.

Lemma decoder_callback_len_bounded : P_BitReader.cb_len_bounded decoder_callback.
Proof. exact decoder_callback_len. Qed.


(* ... and it is NOT cb_bounded in every state: a basic reader value may hold "bytes"
   above 255 (the type of a byte is N).  Hence the decoder theorems are used in their
   "_len" form, which does not look at byte values. *)
Example decoder_callback_not_cb_bounded : ~ cb_bounded decoder_callback.
Proof.
  intros H.
  specialize (H {| br_stream := {| is_src := mk_source KFile [256]; is_state := IS_READING; is_leadin := [] |};
                   br_curr := None; br_remaining := 1; br_eof := false |} 1).
  destruct H as [_ H]. vm_compute in H. inversion H as [|x l Hx Hl]. discriminate Hx.
Qed.

(* what a callback invocation keeps of the basic reader: the stream stays well
   formed and the current header is the same *)
Definition br_keeps (X : option header) (c : breader) : Prop := wf_reader c /\ br_curr c = X.

Lemma decoder_callback_keeps X c n : br_keeps X c -> br_keeps X (snd (decoder_callback c n)).
Proof.
  intros [Hw Hc]. unfold decoder_callback, lha_basic_reader_read_compressed.
  destruct (br_eof c || (br_remaining c =? 0)); [split; assumption|].
  pose proof (read_ready_spec (br_stream c) (if br_remaining c <? n then br_remaining c else n) Hw) as H.
  destruct (is_state (br_stream c)) eqn:Es; [split; assumption| |];
    destruct (read_ready (br_stream c) (if br_remaining c <? n then br_remaining c else n)) as [res st'];
    destruct H as (Hw' & _); destruct res as [bs|]; cbn [snd]; split; try exact Hw'; exact Hc.
Qed.

(* ------------------------------------------------------------------ *)
(* 2. The invariant of a decoder state of any type                      *)

Section AnyInv.
  Variable lh1_inv : lh1_state -> Prop.

  Definition any_inv (s : dstate) : Prop :=
    match s with
    | DS_null _ => True
    | DS_lz5 s0 => lz5_inv s0
    | DS_lzs s0 => lzs_inv_gen bsr_ok s0
    | DS_lh1 s0 => lh1_inv s0
    | DS_lhnew p s0 => params_ok p /\ lhnew_inv_gen bsr_ok p s0
    | DS_pm1 s0 => pm1_inv_ok s0
    | DS_pm2 s0 => pm2_inv_ok s0
    end.

  (* the size of the output buffer the decoder type asks for *)
  Definition any_max (s : dstate) : N :=
    match s with
    | DS_null _ => null_max_read
    | DS_lz5 _ => lz5_max_read
    | DS_lzs _ => lzs_max_read
    | DS_lh1 _ => lh1_max_read
    | DS_lhnew p _ => p_max_read p
    | DS_pm1 _ => pm1_max_read
    | DS_pm2 _ => pm2_max_read
    end.

  Section AnyRead.
    Context {cbs : Type}.
    Variable cb : callback cbs.
    Variable junk : N.
    Hypothesis Hlen : forall s n, nlen (fst (cb s n)) <= n.
    Hypothesis Hlh1 : forall s c, lh1_inv s ->
      exists ch s' c', lh1_read cb s c = Ok (ch, s', c') /\ nlen ch <= lh1_max_read /\ lh1_inv s'.

    Definition any_post (s : dstate) (r : list N * dstate * cbs) : Prop :=
      let '(ch, s', c') := r in nlen ch <= any_max s /\ any_inv s' /\ any_max s' = any_max s.

    (* any_read preserves the invariant and never faults *)
    Theorem any_read_okp s c : any_inv s -> okp True (any_post s) (any_read cb junk s c).
    Proof.
      intros Hi. destruct s as [s0|s0|s0|s0|p s0|s0|s0]; cbn [any_read any_inv] in *.
      - destruct (null_read_total_len cbs cb Hlen s0 c) as (ch & s' & c' & E & Hl).
        rewrite E. cbn [bind okp any_post any_max any_inv]. auto.
      - destruct (lz5_read_total_gen cb junk s0 c Hi) as (ch & s' & c' & E & Hl & Hi').
        rewrite E. cbn [bind okp any_post any_max any_inv]. auto.
      - destruct (lzs_read_total_len cbs cb Hlen s0 c Hi) as (ch & s' & c' & E & Hl & Hi').
        rewrite E. cbn [bind okp any_post any_max any_inv]. auto.
      - destruct (Hlh1 s0 c Hi) as (ch & s' & c' & E & Hl & Hi').
        rewrite E. cbn [bind okp any_post any_max any_inv]. auto.
      - destruct Hi as [Hp Hi].
        pose proof (lhnew_read_safe_len p Hp cbs cb Hlen s0 c Hi) as G.
        destruct (lhnew_read cb p s0 c) as [[[ch s'] c']| |]; cbn [bind okp any_post any_max any_inv];
          [|contradiction|exact I].
        destruct G as [G1 G2]. auto.
      - destruct (pm1_read_total_len cbs cb Hlen s0 c Hi) as (ch & s' & c' & E & Hl & Hi').
        rewrite E. cbn [bind okp any_post any_max any_inv]. auto.
      - destruct (pm2_never_faults_len cbs cb Hlen s0 c Hi) as (ch & s' & c' & E & Hl & Hi').
        rewrite E. cbn [bind okp any_post any_max any_inv]. auto.
    Qed.

    Corollary any_read_never_faults s c : any_inv s -> forall site, any_read cb junk s c <> Fault site.
    Proof. intros Hi. eapply okpT_not_fault. apply any_read_okp. exact Hi. Qed.
  End AnyRead.

  (* ---------------------------------------------------------------- *)
  (* 3. Every decoder type of the table starts in its invariant        *)

  Hypothesis lh1_init_inv : exists s, lh1_init = Ok s /\ lh1_inv s.

  Definition dtype_ok (dt : dtype) : Prop :=
    exists s, dt_init dt = Ok s /\ any_inv s /\ any_max s = dt_max_read dt.

  Lemma bsr_init_ok : bsr_ok bsr_init.
  Proof. apply bsr_wf_ok. exact bsr_init_wf. Qed.

  Lemma lhnew_dtype_ok p mr bs : params_ok p -> p_max_read p = mr ->
    dtype_ok {| dt_init := lift (DS_lhnew p) (lhnew_init p); dt_max_read := mr; dt_block_size := bs |}.
  Proof.
    intros Hp Hm. destruct (lhnew_init_gen bsr_ok p bsr_init_ok Hp) as (s & E & Hi).
    exists (DS_lhnew p s). cbn [dt_init dt_max_read]. unfold lift. rewrite E. cbn [bind].
    split; [reflexivity|]. split; [split; assumption|exact Hm].
  Qed.

  Lemma null_dtype_ok mr bs : mr = null_max_read ->
    dtype_ok {| dt_init := lift DS_null null_init; dt_max_read := mr; dt_block_size := bs |}.
  Proof. intros ->. exists (DS_null tt). repeat split. Qed.

  Lemma lz5_dtype_ok mr bs : mr = lz5_max_read ->
    dtype_ok {| dt_init := lift DS_lz5 lz5_init; dt_max_read := mr; dt_block_size := bs |}.
  Proof.
    intros ->. destruct lz5_init_ok as (s & E & Hi). exists (DS_lz5 s).
    cbn [dt_init dt_max_read]. unfold lift. rewrite E. cbn [bind]. split; [reflexivity|]. split; [exact Hi|reflexivity].
  Qed.

  Lemma lzs_dtype_ok mr bs : mr = lzs_max_read ->
    dtype_ok {| dt_init := lift DS_lzs lzs_init; dt_max_read := mr; dt_block_size := bs |}.
  Proof.
    intros ->. destruct lzs_init_ok as (s & E & Hi). destruct Hi as (A & B & C). exists (DS_lzs s).
    cbn [dt_init dt_max_read]. unfold lift. rewrite E. cbn [bind any_inv any_max].
    split; [reflexivity|]. split; [|reflexivity].
    split; [exact A|]. split; [exact B|]. apply bsr_wf_ok. exact C.
  Qed.

  Lemma lh1_dtype_ok mr bs : mr = lh1_max_read ->
    dtype_ok {| dt_init := lift DS_lh1 lh1_init; dt_max_read := mr; dt_block_size := bs |}.
  Proof.
    intros ->. destruct lh1_init_inv as (s & E & Hi). exists (DS_lh1 s).
    cbn [dt_init dt_max_read]. unfold lift. rewrite E. cbn [bind]. split; [reflexivity|]. split; [exact Hi|reflexivity].
  Qed.

  Lemma pm1_dtype_ok mr bs : mr = pm1_max_read ->
    dtype_ok {| dt_init := lift DS_pm1 pm1_init; dt_max_read := mr; dt_block_size := bs |}.
  Proof.
    intros ->. destruct pm1_init_ok_ok as (s & E & Hi). exists (DS_pm1 s).
    cbn [dt_init dt_max_read]. unfold lift. rewrite E. cbn [bind]. split; [reflexivity|]. split; [exact Hi|reflexivity].
  Qed.

  Lemma pm2_dtype_ok mr bs : mr = pm2_max_read ->
    dtype_ok {| dt_init := lift DS_pm2 pm2_init; dt_max_read := mr; dt_block_size := bs |}.
  Proof.
    intros ->. destruct pm2_init_ok_ok as (s & E & Hi). exists (DS_pm2 s).
    cbn [dt_init dt_max_read]. unfold lift. rewrite E. cbn [bind]. split; [reflexivity|]. split; [exact Hi|reflexivity].
  Qed.

  Definition odtype_ok (o : option dtype) : Prop := match o with Some dt => dtype_ok dt | None => True end.

  Ltac dtype_case :=
    lazymatch goal with
    | |- odtype_ok None => exact I
    | |- odtype_ok (Some {| dt_init := lift DS_null _; dt_max_read := _; dt_block_size := _ |}) =>
      apply null_dtype_ok; reflexivity
    | |- odtype_ok (Some {| dt_init := lift DS_lz5 _; dt_max_read := _; dt_block_size := _ |}) =>
      apply lz5_dtype_ok; reflexivity
    | |- odtype_ok (Some {| dt_init := lift DS_lzs _; dt_max_read := _; dt_block_size := _ |}) =>
      apply lzs_dtype_ok; reflexivity
    | |- odtype_ok (Some {| dt_init := lift DS_lh1 _; dt_max_read := _; dt_block_size := _ |}) =>
      apply lh1_dtype_ok; reflexivity
    | |- odtype_ok (Some {| dt_init := lift DS_pm1 _; dt_max_read := _; dt_block_size := _ |}) =>
      apply pm1_dtype_ok; reflexivity
    | |- odtype_ok (Some {| dt_init := lift DS_pm2 _; dt_max_read := _; dt_block_size := _ |}) =>
      apply pm2_dtype_ok; reflexivity
    | |- odtype_ok (Some {| dt_init := lift (DS_lhnew lh4_params) _; dt_max_read := _; dt_block_size := _ |}) =>
      apply lhnew_dtype_ok; [exact lh4_params_ok|reflexivity]
    | |- odtype_ok (Some {| dt_init := lift (DS_lhnew lh5_params) _; dt_max_read := _; dt_block_size := _ |}) =>
      apply lhnew_dtype_ok; [exact lh5_params_ok|reflexivity]
    | |- odtype_ok (Some {| dt_init := lift (DS_lhnew lh6_params) _; dt_max_read := _; dt_block_size := _ |}) =>
      apply lhnew_dtype_ok; [exact lh6_params_ok|reflexivity]
    | |- odtype_ok (Some {| dt_init := lift (DS_lhnew lh7_params) _; dt_max_read := _; dt_block_size := _ |}) =>
      apply lhnew_dtype_ok; [exact lh7_params_ok|reflexivity]
    | |- odtype_ok (Some {| dt_init := lift (DS_lhnew lhx_params) _; dt_max_read := _; dt_block_size := _ |}) =>
      apply lhnew_dtype_ok; [exact lhx_params_ok|reflexivity]
    | |- odtype_ok (Some {| dt_init := lift (DS_lhnew lk7_params) _; dt_max_read := _; dt_block_size := _ |}) =>
      apply lhnew_dtype_ok; [exact lk7_params_ok|reflexivity]
    end.

  Lemma dtype_of_id_all id : odtype_ok (dtype_of_id id).
  Proof.
    unfold dtype_of_id.
    destruct id as [|p]; [dtype_case|].
    destruct p as [p|p|]; [destruct p as [p|p|]|destruct p as [p|p|]|dtype_case].
    - destruct p as [p|p|]; [dtype_case| |dtype_case]. destruct p as [p|p|]; dtype_case.
    - destruct p as [p|p|]; [dtype_case| |dtype_case]. destruct p as [p|p|]; dtype_case.
    - dtype_case.
    - destruct p as [p|p|]; [dtype_case| |dtype_case]. destruct p as [p|p|]; dtype_case.
    - destruct p as [p|p|]; [dtype_case| |dtype_case]. destruct p as [p|p|]; dtype_case.
    - dtype_case.
  Qed.

  Lemma dtype_of_id_ok id dt : dtype_of_id id = Some dt -> dtype_ok dt.
  Proof. intros E. pose proof (dtype_of_id_all id) as H. rewrite E in H. exact H. Qed.

  (* every decoder type lha_decoder_for_name can return *)
  Theorem decoder_for_name_ok name dt : lha_decoder_for_name name = Some dt -> dtype_ok dt.
  Proof.
    unfold lha_decoder_for_name.
    destruct (lookup_name decoder_names decoder_type_ids name) as [id|]; [|discriminate].
    apply dtype_of_id_ok.
  Qed.
End AnyInv.

(* the general -lh1- statement gives the form used above *)
Lemma lh1_dc_of_len (lh1_inv : lh1_state -> Prop) :
  (forall cbs (cb : callback cbs), P_BitReader.cb_len_bounded cb -> forall s c, lh1_inv s ->
     exists ch s' c', lh1_read cb s c = Ok (ch, s', c') /\ nlen ch <= lh1_max_read /\ lh1_inv s') ->
  forall s c, lh1_inv s ->
     exists ch s' c', lh1_read decoder_callback s c = Ok (ch, s', c') /\ nlen ch <= lh1_max_read /\ lh1_inv s'.
Proof. intros H. apply H. exact decoder_callback_len_bounded. Qed.

(* ------------------------------------------------------------------ *)
(* 4. lha_decoder_read over an inner decoder that is safe on an          *)
(*    invariant of (decoder state, callback state)                       *)

Lemma nlen_rev_append {A} (a b : list A) : nlen (rev_append a b) = nlen a + nlen b.
Proof. rewrite rev_append_rev, nlen_app, nlen_rev. reflexivity. Qed.

Section WrapSafe.
  Context {cbs st : Type}.
  Variable dread : st -> cbs -> outcome (list N * st * cbs).
  Variable max_read block_size : N.
  Variable J : st -> cbs -> Prop.
  Hypothesis Hd : forall s c, J s c ->
    okp True (fun '(ch, s', c') => nlen ch <= max_read /\ J s' c') (dread s c).

  Notation dec := (@decoder cbs st).

  (* the loop state: the invariant of the decoder inside, and the bytes stored so far *)
  Definition rl_ok (d0 : dec) (B : N) (s : @rl cbs st) : Prop :=
    J (d_inner (rl_d s)) (d_cb (rl_d s)) /\ rl_filled s = nlen (rl_out_rev s) /\ rl_filled s <= B /\
    d_stream_length (rl_d s) = d_stream_length d0 /\ d_stream_pos (rl_d s) = d_stream_pos d0 /\
    d_monitor (rl_d s) = d_monitor d0.

  Lemma read_step_okp d0 B s : rl_ok d0 B s ->
    okp True (fun x => match x with inl s' => rl_ok d0 B s' | inr r => rl_ok d0 B r end)
        (read_step dread max_read B s).
  Proof.
    intros (Hj & Hf & Hb & Hl & Hp & Hm). unfold read_step.
    destruct (N.ltb_spec (rl_filled s) B) as [Hlt|Hge]; [|cbn [okp]; repeat split; assumption].
    pose proof (nlen_firstn_N (B - rl_filled s) (d_outbuf (rl_d s))) as Ht.
    assert (Hout : rl_filled s + nlen (firstn_N (B - rl_filled s) (d_outbuf (rl_d s))) =
                   nlen (rev_append (firstn_N (B - rl_filled s) (d_outbuf (rl_d s))) (rl_out_rev s))).
    { rewrite nlen_rev_append. lia. }
    assert (Hle : rl_filled s + nlen (firstn_N (B - rl_filled s) (d_outbuf (rl_d s))) <= B) by lia.
    destruct (d_failed (rl_d s)).
    { cbn [okp]. unfold rl_ok. cbn [rl_d rl_out_rev rl_filled set_buf d_inner d_cb d_stream_length d_stream_pos d_monitor].
      repeat split; assumption. }
    destruct (skipn_N (B - rl_filled s) (d_outbuf (rl_d s))) as [|y ys].
    - eapply okpT_bind; [apply Hd; exact Hj|].
      intros [[chunk inner'] c'] [Hc Hj']. cbv beta iota.
      destruct (N.ltb_spec max_read (nlen chunk)) as [Hbad|_]; [lia|].
      destruct chunk as [|z zs]; cbn [okp]; unfold rl_ok;
        cbn [rl_d rl_out_rev rl_filled set_buf d_inner d_cb d_stream_length d_stream_pos d_monitor];
        repeat split; assumption.
    - cbn [okp]. unfold rl_ok. cbn [rl_d rl_out_rev rl_filled set_buf d_inner d_cb d_stream_length d_stream_pos d_monitor].
      repeat split; assumption.
  Qed.

  Definition read_post (d : dec) (n : N) (r : list N * list (N * N) * dec) : Prop :=
    let '(o, ev, d') := r in
    J (d_inner d') (d_cb d') /\ nlen o <= n /\ d_stream_length d' = d_stream_length d.

  (* lha_decoder_read never faults (site 501: the chunk fits the output buffer),
     keeps the invariant and returns at most n bytes *)
  Theorem lha_decoder_read_okp (d : dec) n : J (d_inner d) (d_cb d) ->
    okp True (read_post d n) (lha_decoder_read dread max_read block_size d n).
  Proof.
    intros Hj. unfold lha_decoder_read.
    set (B := if d_stream_length d <? d_stream_pos d + n then d_stream_length d - d_stream_pos d else n).
    assert (HB : B <= n) by (unfold B; destruct (N.ltb_spec (d_stream_length d) (d_stream_pos d + n)); lia).
    eapply okpT_bind.
    - apply (loop_okpT (read_step dread max_read B) (rl_ok d B) (rl_ok d B)).
      + intros s Hs. apply read_step_okp. exact Hs.
      + unfold rl_ok. cbn [rl_d rl_out_rev rl_filled]. split; [exact Hj|]. split; [reflexivity|]. split; [lia|]. repeat split.
    - intros s (Hjs & Hf & Hb & Hl & Hp & Hm). cbv zeta. cbn [d_monitor].
      assert (Ho : nlen (rev_append (rl_out_rev s) []) <= n).
      { rewrite nlen_rev_append, nlen_nil. lia. }
      destruct (d_monitor (rl_d s)).
      + unfold check_progress. cbn [okp read_post d_inner d_cb d_stream_length]. repeat split; assumption.
      + cbn [okp read_post d_inner d_cb d_stream_length]. repeat split; assumption.
  Qed.
End WrapSafe.

Print Assumptions any_read_okp.
Print Assumptions decoder_for_name_ok.
Print Assumptions lha_decoder_read_okp.
Print Assumptions decoder_callback_len.
Print Assumptions decoder_callback_not_cb_bounded.
Print Assumptions decoder_callback_keeps.

(* P_CliWdirNEx.v -- non-vacuity of extract_archive_wdir_created_n: "lha xw=out/sub" on the archive of
   P_CliTreeEx.v with neither "out" nor "out/sub" present. *)
From Lhasa Require Import Base ListN DecBase Loop Generated Crc16 InputStream Header BasicReader
  AnyDecoder Decoder MacBinary Fs FsRun Reader Glob ListOut CliFilter CliExtract CliMain
  P_ReaderCheck P_FsExtract P_ReaderExtract P_CliExtract P_CliTree P_CliTreeEx
  P_FsReplace P_CliOverwrite P_CliExtractGen P_CliTreeGen P_CliWdir P_CliOptsEx P_CliWdirN.
Local Open Scope N_scope.

Definition n_sub : name := [115;117;98].
Definition o_w2 : lha_options := set_extract_path init_options (Some (n_out ++ [47] ++ n_sub)).

Example ex_wdir_n :
  exists st', extract_archive mktime_utc 0 (lha_filter_init []) (with_opts ex_st o_w2) = Ok (RVal true, st') /\
    fs_root (cs_fs st') = update_at (fs_root ex_fs) (fs_cwd ex_fs ++ [])
      (const_some (Dir true 493 now ([] ++ [(n_out, Dir true 493 now [(n_sub, Dir true 493 now (builds 18 ex_items))])]))).
Proof.
  assert (Hgood : Forall good_name [n_out; n_sub]).
  { constructor; [|constructor; [|constructor]];
      (split; [discriminate|split; [repeat constructor; discriminate|repeat split; vm_compute; reflexivity]]). }
  destruct ex_items as [|it more] eqn:E; [discriminate|].
  destruct (extract_archive_wdir_created_n mktime_utc 0 (lha_filter_init []) eq_refl 18 false (conj eq_refl eq_refl)
              [] n_out [n_sub] Hgood ltac:(vm_compute; discriminate) it more (with_opts ex_st o_w2) true 493 0 [])
    as (st' & Hex & _ & Hroot).
  - rewrite <- E. exact ex_wf.
  - rewrite <- E. constructor; [|constructor]. cbn [fits].
    split; [vm_compute; discriminate|]. split; [vm_compute; discriminate|]. split; [vm_compute; discriminate|exact I].
  - rewrite <- E. repeat constructor. intros [].
  - eapply (pfx_wdir o_w2 (n_out ++ [47] ++ n_sub) [n_out; n_sub]); reflexivity.
  - reflexivity.
  - reflexivity.
  - exact ex_ready.
  - reflexivity.
  - reflexivity.
  - exact ex_rinv.
  - rewrite <- E. exact ex_upcoming.
  - rewrite <- E. vm_compute. reflexivity.
  - exists st'. split; [exact Hex|]. rewrite Hroot. reflexivity.
Qed.

Print Assumptions ex_wdir_n.

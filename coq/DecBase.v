(* DecBase.v -- what all decoder models share: the input callback, the
   bounded output buffer handed to a decoder's read function. *)
From Lhasa Require Import Base.
Local Open Scope N_scope.

(* The LHADecoderCallback: asked for n bytes, returns between 0 and n bytes
   (0 = end of input) and a new callback state.  Everything about where
   the bytes come from is inside [cbs]. *)
Definition callback (cbs : Type) : Type := cbs -> N -> list N * cbs.

Definition cb_bounded {cbs} (cb : callback cbs) : Prop :=
  forall s n, nlen (fst (cb s n)) <= n /\ Forall (fun b => b < 256) (fst (cb s n)).

(* The standard instance: hand out the next bytes of a list, at most
   [chunk] at a time when a chunk schedule is given. *)
Record src := { src_data : list N; src_chunks : list N }.
Definition src_cb : callback src := fun s n =>
  match src_chunks s with
  | [] => (firstn_N n (src_data s), {| src_data := skipn_N n (src_data s); src_chunks := [] |})
  | c :: cs =>
    let k := N.min n c in
    (firstn_N k (src_data s), {| src_data := skipn_N k (src_data s); src_chunks := cs ++ [c] |})
  end.

(* Output buffer of a decoder read(): buf[0 .. max_read).  Bytes are kept
   newest first. *)
Record obuf := { ob_rev : list N; ob_len : N }.
Definition ob_empty : obuf := {| ob_rev := []; ob_len := 0 |}.
Definition ob_push (site max : N) (o : obuf) (b : N) : outcome obuf :=
  if ob_len o <? max then Ok {| ob_rev := b :: ob_rev o; ob_len := ob_len o + 1 |}
  else Fault site.
Definition ob_bytes (o : obuf) : list N := rev_append (ob_rev o) [].   (* = rev, linear time *)

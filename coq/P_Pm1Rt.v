(* P_Pm1Rt.v -- property C04, -pm1- half: "PMarc -pm1- decodes every valid
   stream exactly".

     pm1_chunks          : the decoder started on any byte string that agrees
                           with pm1_serialise d up to trailing zero bytes yields,
                           one chunk per item, the bytes d denotes (possibly
                           followed by the two bytes of the copy the decoder
                           reads from the zero continuation after a final short
                           block -- they lie beyond the declared length)
     pm1_roundtrip       : through the public read API, input
                           pm1_serialise d ++ zero bytes, any read schedule
                           covering the output: exactly pm1_denote d
     pm1_zero_extension  : the same for ANY input that agrees with
                           pm1_serialise d up to trailing zero bytes (trailing
                           zero bytes of the serialisation removed, some or all
                           of them; zero bytes appended): the callback wrapper of
                           pm1_decoder.c continues an exhausted input with zero
                           bytes, so all these inputs decode to the same output
                           for the same declared length
     pm1_zero_extension_same : two such inputs give the same output

   Side condition nlen (pm1_denote d) < 2^32: the decoder's output position is
   an unsigned int (see the report; the LHA header's length field is 32 bits
   wide anyway). *)
From Lhasa Require Import Base ListN DecBase BitReader Loop Sweep PmaCommon Generated Pm1
  S_Larc S_Pm Decoder P_Decoder P_DecoderInv P_BitReader P_PmaCommon P_Pm1 P_Pm2Rt
  P_Pm1RtBits P_Pm1RtLit P_Pm1RtCopy.
From Coq Require Import ZifyBool ZifyN ZifyNat.
Local Open Scope N_scope.

Ltac Zify.zify_post_hook ::= Z.div_mod_to_equations.

(* ------------------------------------------------------------------ *)
(* Small facts                                                         *)

Lemma blocklen_some n : 1 <= n -> n <= 216 -> exists bl, pm1_blocklen_bits n = Some bl.
Proof.
  intros H1 H2. unfold pm1_blocklen_bits.
  destruct (N.eqb_spec n 0); [lia|].
  destruct (n <=? 3); [eauto|]. destruct (n <=? 10); [eauto|]. destruct (n <=? 24); [eauto|].
  destruct (n <=? 88); [eauto|]. destruct (N.leb_spec n 216); [eauto|lia].
Qed.

Lemma ob_bytes_eq l n : ob_bytes {| ob_rev := l; ob_len := n |} = rev l.
Proof. unfold ob_bytes. cbn [ob_rev]. rewrite rev_append_rev, app_nil_r. reflexivity. Qed.

Lemma nlen_copy_out n st d : nlen (copy_out n st d) = N.of_nat n.
Proof. unfold nlen. rewrite copy_out_length. reflexivity. Qed.

Lemma pos_copy_st st d l : ps_pos (copy_st st d l) = ps_pos st + l.
Proof. unfold copy_st. rewrite ps_pos_copy. lia. Qed.

Lemma pos_item st it : ps_pos (item_st st it) = ps_pos st + nlen (item_out st it).
Proof.
  destruct it as [bs [[d l]|]|d l]; cbn [item_st item_out].
  - rewrite pos_copy_st, ps_pos_bytes, nlen_app, nlen_copy_out. lia.
  - rewrite ps_pos_bytes, app_nil_r. reflexivity.
  - rewrite pos_copy_st, nlen_copy_out. lia.
Qed.

Lemma wf_copy_len st d l : wf_pm1_copy st d l = true -> 2 <= l /\ l <= 244.
Proof.
  unfold wf_pm1_copy. intros H. apply andb_true_iff in H. destruct H as [H _].
  apply andb_true_iff in H. lia.
Qed.

(* what the well-formedness of an item list says about its first item *)
Definition wf_item (t : bt) (st : pst) (it : pm1_item) (is_last : bool) : Prop :=
  match it with
  | ICopy d l => wf_pm1_copy st d l = true
  | IBlock bs f =>
    1 <= nlen bs /\ nlen bs <= 216 /\ wf_pm1_bytes t st bs = Some (pst_bytes st bs) /\
    match f with
    | Some (d, l) => nlen bs < 216 /\ wf_pm1_copy (pst_bytes st bs) d l = true
    | None => nlen bs = 216 \/ is_last = true
    end
  end.

Lemma wf_items_inv t st it r : wf_pm1_items t st (it :: r) = true ->
  wf_item t st it (match r with [] => true | _ => false end) /\ wf_pm1_items t (item_st st it) r = true.
Proof.
  cbn [wf_pm1_items]. destruct it as [bs f|d l].
  - cbv zeta. intros H. apply andb_true_iff in H. destruct H as [H1 H2].
    apply andb_true_iff in H1. destruct H1 as [H1a H1b].
    destruct (wf_pm1_bytes t st bs) as [st'|] eqn:Eb; [|discriminate].
    destruct (wf_pm1_bytes_inv _ _ _ _ Eb) as [-> _].
    cbn [wf_item item_st]. destruct f as [[d l]|].
    + apply andb_true_iff in H2. destruct H2 as [H2 H3].
      apply andb_true_iff in H2. destruct H2 as [H2a H2b].
      rewrite pst_cmd_copy in H3.
      split; [|exact H3]. split; [lia|]. split; [lia|]. split; [exact Eb|]. split; [lia|exact H2b].
    + apply andb_true_iff in H2. destruct H2 as [H2 H3].
      split; [|exact H3]. split; [lia|]. split; [lia|]. split; [exact Eb|].
      apply orb_true_iff in H2. destruct H2 as [H2|H2]; [left; lia|right].
      destruct r; [reflexivity|discriminate].
  - intros H. apply andb_true_iff in H. destruct H as [H1 H2]. rewrite pst_cmd_copy in H2.
    cbn [wf_item item_st]. split; assumption.
Qed.

(* the copy the decoder reads from the zero continuation after a final short
   block: two bytes at distance 0 *)
Lemma implicit_bits pos : 0 < pos -> exists k, pm1_copy_bits pos 0 2 = Some (repeat false k).
Proof.
  intros H. unfold pm1_copy_bits. destruct (N.ltb_spec 0 pos) as [_|]; [|lia].
  change (pm1_copy_type 0 2) with (Some (0, 0, 6)). cbv beta iota zeta.
  change (0 <? 2) with true. cbv iota. rewrite type_bits_0, width_lo by lia.
  destruct (576 <=? pos); destruct (64 <=? pos); cbn [obit app].
  - exists 9%nat. reflexivity.
  - exists 8%nat. reflexivity.
  - exists 8%nat. reflexivity.
  - exists 7%nat. reflexivity.
Qed.

Lemma implicit_wf st : 0 < ps_pos st -> wf_pm1_copy st 0 2 = true.
Proof.
  intros H. unfold wf_pm1_copy. destruct (implicit_bits (ps_pos st) H) as (k & E). rewrite E. reflexivity.
Qed.

(* ------------------------------------------------------------------ *)
(* One item = one call of the command reader                           *)

Lemma read_block_z hdr s (c : src) st bs f rest is_last :
  core hdr s st -> wf_item (pm1_tree hdr) st (IBlock bs f) is_last ->
  ps_pos st + nlen (item_out st (IBlock bs f)) < 4294967296 ->
  rdy s c (obits (pm1_blocklen_bits (nlen bs)) ++ bytes_fwd (pm1_tree hdr) st bs ++
           follow_fwd (pst_bytes st bs) f ++ rest) ->
  (is_last = true -> rest = []) ->
  exists ch s' c' tail, read_byte_block src_cb s c = Ok (ch, s', c') /\
    ch = item_out st (IBlock bs f) ++ tail /\ nlen ch <= pm1_max_read /\ 1 <= nlen ch /\
    (is_last = false -> tail = []) /\
    (tail = [] -> core hdr s' (item_st st (IBlock bs f)) /\ rdy s' c' rest).
Proof.
  intros Hc (Hn1 & Hn216 & Hwfb & Hf) Hpos Hr Hlast.
  destruct (blocklen_some (nlen bs) Hn1 Hn216) as (bl & Ebl). rewrite Ebl in Hr. cbn [obits] in Hr.
  destruct (read_byte_block_count_z s c (nlen bs) bl _ Ebl Hr) as (s1 & c1 & E1 & B1 & R1).
  unfold read_byte_block. rewrite E1. cbn [bind]. cbv beta iota.
  destruct (N.eqb_spec (nlen bs) 0) as [|_]; [lia|].
  replace (N.to_nat (nlen bs)) with (length bs) by (unfold nlen; lia).
  assert (Hob : ob_len ob_empty + nlen bs <= pm1_max_read)
    by (cbn [ob_empty ob_len]; unfold pm1_max_read; lia).
  destruct (byte_block_loop_z hdr bs s1 c1 st _ ob_empty _ (core_beq _ _ _ _ B1 Hc) Hwfb Hob R1)
    as (s2 & c2 & E2 & C2 & R2).
  rewrite E2. cbn [bind]. cbv beta iota. cbn [negb].
  cbn [ob_empty ob_rev ob_len]. rewrite app_nil_r, N.add_0_l.
  cbn [item_out] in Hpos. rewrite nlen_app in Hpos.
  assert (Hpos2 : ps_pos (pst_bytes st bs) < 4294967296) by (rewrite ps_pos_bytes; lia).
  unfold pm1_MAX_BYTE_BLOCK_LEN.
  destruct (N.eqb_spec (nlen bs) 216) as [E216|N216].
  - destruct f as [[d l]|]; [lia|].
    exists bs, s2, c2, []. rewrite ob_bytes_eq, rev_involutive.
    split; [reflexivity|]. cbn [item_out item_st follow_fwd app] in *. rewrite !app_nil_r.
    split; [reflexivity|]. split; [unfold pm1_max_read; lia|]. split; [lia|].
    split; [reflexivity|]. intros _. split; [exact C2|exact R2].
  - destruct f as [[d l]|].
    + destruct Hf as [Hlt Hwc]. destruct (wf_copy_len _ _ _ Hwc) as [Hl2 Hl244].
      cbn [follow_fwd] in R2.
      assert (Hob2 : ob_len {| ob_rev := rev bs; ob_len := nlen bs |} + pm1_MAX_COPY_BLOCK_LEN <= pm1_max_read)
        by (cbn [ob_len]; unfold pm1_MAX_COPY_BLOCK_LEN, pm1_max_read; lia).
      destruct (read_copy_command_z hdr s2 c2 (pst_bytes st bs) d l
                  {| ob_rev := rev bs; ob_len := nlen bs |} rest C2 Hpos2 Hwc Hob2 R2)
        as (s3 & c3 & E3 & C3 & R3).
      rewrite E3. cbn [bind]. cbv beta iota.
      destruct (N.eqb_spec l 0) as [|_]; [lia|].
      eexists _, s3, c3, []. split; [reflexivity|].
      rewrite ob_bytes_eq. cbn [ob_rev]. rewrite rev_app_distr, !rev_involutive, app_nil_r.
      cbn [item_out item_st]. split; [reflexivity|].
      rewrite nlen_app, nlen_copy_out.
      split; [unfold pm1_max_read; lia|]. split; [lia|]. split; [reflexivity|].
      intros _. split; [exact C3|exact R3].
    + destruct Hf as [Hf|Hf]; [lia|]. specialize (Hlast Hf). subst rest.
      cbn [follow_fwd app] in R2.
      assert (Hp0 : 0 < ps_pos (pst_bytes st bs)) by (rewrite ps_pos_bytes; lia).
      pose proof (implicit_wf _ Hp0) as Hwc.
      destruct (implicit_bits _ Hp0) as (k & Ek).
      assert (R2' : rdy s2 c2 (obits (pm1_copy_bits (ps_pos (pst_bytes st bs)) 0 2) ++ [])).
      { rewrite Ek. cbn [obits]. rewrite app_nil_r.
        eapply rdy_zeq; [exact R2|]. exists k, O. rewrite app_nil_r. reflexivity. }
      assert (Hob2 : ob_len {| ob_rev := rev bs; ob_len := nlen bs |} + pm1_MAX_COPY_BLOCK_LEN <= pm1_max_read)
        by (cbn [ob_len]; unfold pm1_MAX_COPY_BLOCK_LEN, pm1_max_read; lia).
      destruct (read_copy_command_z hdr s2 c2 (pst_bytes st bs) 0 2
                  {| ob_rev := rev bs; ob_len := nlen bs |} [] C2 Hpos2 Hwc Hob2 R2')
        as (s3 & c3 & E3 & C3 & R3).
      rewrite E3. cbn [bind]. cbv beta iota.
      change (2 =? 0) with false. cbv iota.
      eexists _, s3, c3, (copy_out (N.to_nat 2) (pst_bytes st bs) 0). split; [reflexivity|].
      rewrite ob_bytes_eq. cbn [ob_rev]. rewrite rev_app_distr, !rev_involutive.
      cbn [item_out]. rewrite app_nil_r. split; [reflexivity|].
      rewrite nlen_app, nlen_copy_out.
      split; [unfold pm1_max_read; lia|]. split; [lia|]. split; [intros X; congruence|].
      intros X. apply (f_equal (@length N)) in X. rewrite copy_out_length in X. discriminate X.
Qed.

Lemma read_command_item hdr s (c : src) st it rest is_last :
  core hdr s st -> wf_item (pm1_tree hdr) st it is_last ->
  ps_pos st + nlen (item_out st it) < 4294967296 ->
  rdy s c (item_fwd (pm1_tree hdr) st it ++ rest) ->
  (is_last = true -> rest = []) ->
  exists ch s' c' tail, pm1_read_command src_cb s c = Ok (ch, s', c') /\
    ch = item_out st it ++ tail /\ nlen ch <= pm1_max_read /\ 1 <= nlen ch /\
    (is_last = false -> tail = []) /\
    (tail = [] -> core hdr s' (item_st st it) /\ rdy s' c' rest).
Proof.
  intros Hc Hwf Hpos Hr Hlast. unfold pm1_read_command.
  destruct it as [bs f|d l].
  - cbn [item_fwd] in Hr. rewrite <- app_comm_cons in Hr.
    destruct (pm1_read_bit_z s c true _ Hr) as (s1 & c1 & E1 & B1 & R1).
    rewrite E1. cbn [bind]. cbv beta iota. cbn [N.b2n]. cbv iota.
    rewrite <- !app_assoc in R1.
    apply (read_block_z hdr s1 c1 st bs f rest is_last (core_beq _ _ _ _ B1 Hc) Hwf Hpos R1 Hlast).
  - cbn [item_fwd] in Hr. rewrite <- app_comm_cons in Hr. cbn [wf_item] in Hwf.
    destruct (wf_copy_len _ _ _ Hwf) as [Hl2 Hl244].
    destruct (pm1_read_bit_z s c false _ Hr) as (s1 & c1 & E1 & B1 & R1).
    rewrite E1. cbn [bind]. cbv beta iota. cbn [N.b2n]. cbv iota.
    cbn [item_out] in Hpos.
    assert (Hp1 : ps_pos st < 4294967296) by lia.
    assert (Hob : ob_len ob_empty + pm1_MAX_COPY_BLOCK_LEN <= pm1_max_read)
      by (cbn [ob_empty ob_len]; unfold pm1_MAX_COPY_BLOCK_LEN, pm1_max_read; lia).
    destruct (read_copy_command_z hdr s1 c1 st d l ob_empty rest (core_beq _ _ _ _ B1 Hc) Hp1 Hwf Hob R1)
      as (s3 & c3 & E3 & C3 & R3).
    rewrite E3. cbn [bind]. cbv beta iota.
    destruct (N.eqb_spec l 0) as [|_]; [lia|].
    eexists _, s3, c3, []. split; [reflexivity|].
    rewrite ob_bytes_eq. cbn [ob_rev ob_empty]. rewrite !app_nil_r, rev_involutive.
    cbn [item_out item_st]. split; [reflexivity|]. rewrite nlen_copy_out.
    split; [unfold pm1_max_read; lia|]. split; [lia|]. split; [reflexivity|].
    intros _. split; [exact C3|exact R3].
Qed.

(* ------------------------------------------------------------------ *)
(* The first call also reads the start header                          *)

(* "the next pm1_read is the command reader run from (s1, c1)" *)
Definition ready (hdr : N) (s : pm1_state) (c : src) (st : pst) (bl : list bool) : Prop :=
  exists s1 c1, pm1_read src_cb s c = pm1_read_command src_cb s1 c1 /\ core hdr s1 st /\ rdy s1 c1 bl.

Lemma ready_some hdr s c st bl : core hdr s st -> rdy s c bl -> ready hdr s c st bl.
Proof.
  intros Hc Hr. exists s, c. split; [|split; assumption].
  unfold pm1_read. destruct Hc as (_ & _ & _ & _ & _ & _ & Ht & _). rewrite Ht. reflexivity.
Qed.

Lemma ring_ok_empty ring : ring_ok ring ph_empty.
Proof. intros j Hj. cbn [ph_empty ph_n] in Hj. lia. Qed.

Lemma pm1_init_shape s0 : pm1_init = Ok s0 ->
  exists h, s0 = {| pm1_bsr := bsr_init; pm1_output_stream_pos := 0; pm1_byte_decode_tree := None;
                    pm1_ringbuf := mk_arr pm1_ringbuf_extent 0; pm1_ringbuf_pos := 0;
                    pm1_history_list := h |} /\ hl_wf h /\ hl_list h = pm_mtf0.
Proof.
  destruct init_history_list_wf as (h & Eh & Wh & Lh). intros H.
  assert (E : pm1_init = Ok {| pm1_bsr := bsr_init; pm1_output_stream_pos := 0; pm1_byte_decode_tree := None;
                    pm1_ringbuf := mk_arr pm1_ringbuf_extent 0; pm1_ringbuf_pos := 0;
                    pm1_history_list := h |}).
  { unfold pm1_init. rewrite Eh. reflexivity. }
  rewrite E in H. exists h. split; [congruence|]. split; assumption.
Qed.

Lemma ready_init hdr s0 (c : src) bl : pm1_init = Ok s0 -> hdr < 32 ->
  src_ok c -> zeq (pending bsr_init c) (nbits 5 hdr ++ bl) -> ready hdr s0 c pst0 bl.
Proof.
  intros Hinit Hh Hsrc Hz.
  destruct (pm1_init_shape s0 Hinit) as (h & Es0 & Wh & Lh). clear Hinit. subst s0.
  set (s0 := {| pm1_bsr := bsr_init; pm1_output_stream_pos := 0; pm1_byte_decode_tree := None;
                pm1_ringbuf := mk_arr pm1_ringbuf_extent 0; pm1_ringbuf_pos := 0;
                pm1_history_list := h |}).
  assert (R0 : rdy s0 c (nbits 5 hdr ++ bl)).
  { split; [exact bsr_init_wf|]. split; [exact Hsrc|exact Hz]. }
  destruct (pm1_read_bits_z s0 c 5 hdr bl R0) as (s1 & c1 & E1 & B1 & R1); [lia|change (2 ^ 5) with 32; exact Hh|].
  unfold ready, pm1_read. change (pm1_byte_decode_tree s0) with (@None N). cbv iota.
  unfold read_start_header. rewrite E1. cbn [bind]. cbv beta iota.
  rewrite bdt_rows. destruct (N.ltb_spec hdr 32) as [_|]; [|lia]. cbn [bind]. cbv beta iota.
  eexists _, c1. split; [reflexivity|].
  destruct B1 as (P1 & P2 & P3 & P4 & P5).
  split.
  - unfold core. cbn [pm1_ringbuf pm1_ringbuf_pos pm1_output_stream_pos pm1_history_list pm1_byte_decode_tree].
    rewrite P1, P3, P4, P5. cbn [s0 pm1_ringbuf pm1_ringbuf_pos pm1_output_stream_pos pm1_history_list].
    split; [reflexivity|]. split; [reflexivity|]. split; [reflexivity|].
    split; [apply ring_ok_empty|]. split; [exact Wh|]. split; [exact Lh|]. split; [reflexivity|exact Hh].
  - destruct R1 as (A & B & C). split; [exact A|]. split; [exact B|exact C].
Qed.

(* ------------------------------------------------------------------ *)
(* All items: the chunks                                               *)

Notation chunks := (chunks_from (pm1_read src_cb) pm1_max_read).

Lemma chunks_items hdr : forall its s (c : src) st,
  ready hdr s c st (items_fwd (pm1_tree hdr) st its) ->
  wf_pm1_items (pm1_tree hdr) st its = true ->
  ps_pos st + nlen (items_out st its) < 4294967296 ->
  exists chs tail, chunks s c chs /\ concat chs = items_out st its ++ tail.
Proof.
  induction its as [|it r IH]; intros s c st Hrdy Hwf Hpos.
  - exists [], []. split; [constructor|reflexivity].
  - destruct (wf_items_inv _ _ _ _ Hwf) as [Hit Hwf'].
    destruct Hrdy as (s1 & c1 & Eread & Hc & Hr).
    cbn [items_fwd] in Hr. cbn [items_out] in Hpos. rewrite nlen_app in Hpos.
    assert (Hp1 : ps_pos st + nlen (item_out st it) < 4294967296) by lia.
    assert (Hlast : (match r with [] => true | _ => false end) = true ->
                    items_fwd (pm1_tree hdr) (item_st st it) r = []).
    { destruct r; [reflexivity|discriminate]. }
    destruct (read_command_item hdr s1 c1 st it (items_fwd (pm1_tree hdr) (item_st st it) r)
                (match r with [] => true | _ => false end) Hc Hit Hp1 Hr Hlast)
      as (ch & s' & c' & tail & E & Ech & Hmax & Hne & Hnl & Hnext).
    rewrite <- Eread in E.
    assert (Hchne : ch <> []) by (intros X; rewrite X, nlen_nil in Hne; lia).
    destruct r as [|it2 r2].
    + exists [ch], tail. split.
      * econstructor; [exact E|exact Hchne|exact Hmax|constructor].
      * cbn [concat items_out]. rewrite !app_nil_r. exact Ech.
    + specialize (Hnl eq_refl). subst tail. rewrite app_nil_r in Ech.
      destruct (Hnext eq_refl) as [Hc' Hr'].
      destruct (IH s' c' (item_st st it) (ready_some _ _ _ _ _ Hc' Hr') Hwf') as (chs & tail & Hch & Econ).
      { rewrite pos_item. lia. }
      exists (ch :: chs), tail. split.
      * econstructor; [exact E|exact Hchne|exact Hmax|exact Hch].
      * cbn [concat]. rewrite Econ, Ech. cbn [items_out]. rewrite <- !app_assoc. reflexivity.
Qed.

(* the input: any byte string that agrees with the serialisation up to
   trailing zero bytes *)
Definition zero_ext (data ser : list N) : Prop :=
  exists a b, data ++ repeat 0 a = ser ++ repeat 0 b.

Lemma zero_ext_bits data l : zero_ext data (pm_pack l) ->
  Forall (fun b => b < 256) data /\ zeq (bytes_bits data) l.
Proof.
  intros (a & b & E).
  destruct (pending_pm_pack l (repeat 0 b) (Forall_zeros b)) as (k & _ & Hsrc & Hpend).
  rewrite (pending_holds _ _ [] holds_init) in Hpend. cbn [src_data app] in Hpend.
  destruct Hsrc as [_ Hby]. cbn [src_data] in Hby. rewrite <- E in Hby, Hpend.
  apply Forall_app in Hby. split; [apply Hby|].
  rewrite bytes_bits_app, !bytes_bits_zeros in Hpend.
  exists (8 * a)%nat, (k + 8 * b)%nat. rewrite Hpend, repeat_add. reflexivity.
Qed.

Theorem pm1_chunks d data s0 :
  wf_pm1 d = true -> nlen (pm1_denote d) < 2 ^ 32 -> zero_ext data (pm1_serialise d) ->
  pm1_init = Ok s0 ->
  exists chs tail, chunks s0 {| src_data := data; src_chunks := [] |} chs /\
    concat chs = pm1_denote d ++ tail.
Proof.
  intros Hwf HL Hz Hinit. unfold wf_pm1 in Hwf. apply andb_true_iff in Hwf. destruct Hwf as [Hh Hitems].
  unfold pm1_serialise in Hz. destruct (zero_ext_bits _ _ Hz) as [Hby Hbits].
  rewrite pm1_bits_fwd in Hbits. rewrite pm1_denote_fwd in *.
  apply (chunks_items (p1_header d) (p1_items d) s0 _ pst0).
  - apply (ready_init (p1_header d) s0 _ _ Hinit); [lia|split; [reflexivity|exact Hby]|].
    rewrite (pending_holds _ _ [] holds_init). cbn [src_data app]. exact Hbits.
  - exact Hitems.
  - change (ps_pos pst0) with 0. change (2 ^ 32) with 4294967296 in HL. lia.
Qed.

(* ------------------------------------------------------------------ *)
(* Through the public read API                                         *)

Lemma pm1_init_inv s0 : pm1_init = Ok s0 -> pm1_inv_ok s0.
Proof. intros H. destruct pm1_init_ok_ok as (s & E & Hi). rewrite H in E. injection E as <-. exact Hi. Qed.

(* Any input that agrees with the serialisation up to trailing zero bytes;
   any read schedule covering the declared length L = nlen (pm1_denote d). *)
Theorem pm1_zero_extension : forall d data s0 ks,
  wf_pm1 d = true -> nlen (pm1_denote d) < 2 ^ 32 -> zero_ext data (pm1_serialise d) ->
  pm1_init = Ok s0 ->
  let L := nlen (pm1_denote d) in
  L <= sum_N ks -> sum_N ks < 2 ^ 62 ->
  exists os d',
    run_reads (pm1_read src_cb) pm1_max_read pm1_block_size
      (lha_decoder_new s0 {| src_data := data; src_chunks := [] |} L) ks = Ok (os, d') /\
    concat os = pm1_denote d.
Proof.
  intros d data s0 ks Hwf HL Hz Hinit L Hk Hs.
  pose proof (pm1_init_inv s0 Hinit) as Hi.
  set (src0 := {| src_data := data; src_chunks := [] |}).
  destruct (run_reads_inv_ok (pm1_read src_cb) pm1_max_read pm1_block_size pm1_inv_ok
              (pm1_read_total_len DecBase.src src_cb src_cb_len_bounded_pm) ks s0 src0 L Hi Hs) as (os & d' & E).
  exists os, d'. split; [exact E|].
  destruct (pm1_chunks d data s0 Hwf HL Hz Hinit) as (chs & tail & Hch & Econ). fold src0 in Hch.
  rewrite (decode_of_chunks_inv (pm1_read src_cb) pm1_max_read pm1_block_size pm1_inv_ok
             (pm1_read_total_len DecBase.src src_cb src_cb_len_bounded_pm)
             chs s0 src0 L ks os d' Hi Hch); try assumption.
  - rewrite Econ. unfold L. rewrite firstn_N_app_l by lia. apply firstn_N_all. lia.
  - rewrite Econ, nlen_app. unfold L. lia.
Qed.

(* The statement of C04 for -pm1-: the serialisation followed by any number
   of zero bytes. *)
Theorem pm1_roundtrip : forall d k s0 ks,
  wf_pm1 d = true -> nlen (pm1_denote d) < 2 ^ 32 -> pm1_init = Ok s0 ->
  let L := nlen (pm1_denote d) in
  L <= sum_N ks -> sum_N ks < 2 ^ 62 ->
  exists os d',
    run_reads (pm1_read src_cb) pm1_max_read pm1_block_size
      (lha_decoder_new s0 {| src_data := pm1_serialise d ++ repeat 0 k; src_chunks := [] |} L) ks = Ok (os, d') /\
    concat os = pm1_denote d.
Proof.
  intros d k s0 ks Hwf HL Hinit L Hk Hs.
  apply pm1_zero_extension; try assumption. exists O, k. rewrite app_nil_r. reflexivity.
Qed.

(* the same with the zero bytes given as a list *)
Lemma all_zero_repeat (zs : list N) : Forall (fun b => b = 0) zs -> zs = repeat 0 (length zs).
Proof.
  induction zs as [|z r IH]; intros H; [reflexivity|].
  inversion H as [|? ? Hz Hr]; subst. cbn [length repeat]. f_equal. apply IH. exact Hr.
Qed.

Corollary pm1_roundtrip_zeros : forall d zeros s0 ks,
  wf_pm1 d = true -> nlen (pm1_denote d) < 2 ^ 32 -> Forall (fun b => b = 0) zeros ->
  pm1_init = Ok s0 ->
  let L := nlen (pm1_denote d) in
  L <= sum_N ks -> sum_N ks < 2 ^ 62 ->
  exists os d',
    run_reads (pm1_read src_cb) pm1_max_read pm1_block_size
      (lha_decoder_new s0 {| src_data := pm1_serialise d ++ zeros; src_chunks := [] |} L) ks = Ok (os, d') /\
    concat os = pm1_denote d.
Proof.
  intros d zeros s0 ks Hwf HL Hz Hinit L Hk Hs. rewrite (all_zero_repeat zeros Hz).
  apply pm1_roundtrip; assumption.
Qed.

(* the trailing zero bytes of the serialisation may be removed, all or some *)
Corollary pm1_zero_stripped : forall d data j s0 ks,
  wf_pm1 d = true -> nlen (pm1_denote d) < 2 ^ 32 -> pm1_serialise d = data ++ repeat 0 j ->
  pm1_init = Ok s0 ->
  let L := nlen (pm1_denote d) in
  L <= sum_N ks -> sum_N ks < 2 ^ 62 ->
  exists os d',
    run_reads (pm1_read src_cb) pm1_max_read pm1_block_size
      (lha_decoder_new s0 {| src_data := data; src_chunks := [] |} L) ks = Ok (os, d') /\
    concat os = pm1_denote d.
Proof.
  intros d data j s0 ks Hwf HL Hser Hinit L Hk Hs.
  apply pm1_zero_extension; try assumption. exists j, O. rewrite app_nil_r. symmetry. exact Hser.
Qed.

(* two inputs that agree with the serialisation up to trailing zero bytes give
   the same output for the same declared length and the same read schedules *)
Corollary pm1_zero_extension_same : forall d data1 data2 s0 ks1 ks2 os1 d1 os2 d2,
  wf_pm1 d = true -> nlen (pm1_denote d) < 2 ^ 32 ->
  zero_ext data1 (pm1_serialise d) -> zero_ext data2 (pm1_serialise d) -> pm1_init = Ok s0 ->
  let L := nlen (pm1_denote d) in
  L <= sum_N ks1 -> sum_N ks1 < 2 ^ 62 -> L <= sum_N ks2 -> sum_N ks2 < 2 ^ 62 ->
  run_reads (pm1_read src_cb) pm1_max_read pm1_block_size
    (lha_decoder_new s0 {| src_data := data1; src_chunks := [] |} L) ks1 = Ok (os1, d1) ->
  run_reads (pm1_read src_cb) pm1_max_read pm1_block_size
    (lha_decoder_new s0 {| src_data := data2; src_chunks := [] |} L) ks2 = Ok (os2, d2) ->
  concat os1 = concat os2.
Proof.
  intros d data1 data2 s0 ks1 ks2 os1 d1 os2 d2 Hwf HL Hz1 Hz2 Hinit L Hk1 Hs1 Hk2 Hs2 R1 R2.
  destruct (pm1_zero_extension d data1 s0 ks1 Hwf HL Hz1 Hinit Hk1 Hs1) as (o1 & e1 & E1 & C1).
  destruct (pm1_zero_extension d data2 s0 ks2 Hwf HL Hz2 Hinit Hk2 Hs2) as (o2 & e2 & E2 & C2).
  fold L in E1, E2. rewrite R1 in E1. rewrite R2 in E2.
  injection E1 as <- _. injection E2 as <- _. rewrite C1, C2. reflexivity.
Qed.

(* ------------------------------------------------------------------ *)
(* Non-vacuity: concrete streams satisfying the premises, decoded by
   evaluation of the model                                             *)

Definition ex_strip0 (l : list N) : list N :=
  rev ((fix dw (x : list N) := match x with 0 :: r => dw r | _ => x end) (rev l)).

Definition ex_dec (data : list N) (L : N) (ks : list N) : option (list N) :=
  match pm1_init with
  | Ok s0 =>
    match run_reads (pm1_read src_cb) pm1_max_read pm1_block_size
            (lha_decoder_new s0 {| src_data := data; src_chunks := [] |} L) ks with
    | Ok (os, _) => Some (concat os)
    | _ => None
    end
  | _ => None
  end.

Definition ex_lits (a n : N) : list pcmd := map PByte (nrange a n).

(* literals, overlapping copy, 2-byte copies, a long copy; the serialisation
   ends in a zero byte *)
Definition ex_d1 : pm1_stream :=
  pm1_auto 0 (ex_lits 65 10 ++ [PCopy 3 7; PByte 65; PCopy 0 2; PCopy 9 30] ++ ex_lits 97 5 ++ [PCopy 0 2]).

(* a full block of 216 literals, a block with a following copy, a 2-byte copy
   at a distance >= 64, a FINAL SHORT BLOCK (the decoder reads its copy from
   the zero continuation) *)
Definition ex_d2 : pm1_stream :=
  pm1_auto 0 (ex_lits 32 96 ++ ex_lits 0 32 ++ ex_lits 160 96 ++ ex_lits 128 32 ++
              [PCopy 100 40; PCopy 200 2] ++ ex_lits 48 3).

Example pm1_roundtrip_example :
  wf_pm1 ex_d1 = true /\ nlen (pm1_denote ex_d1) = 57 /\
  ex_dec (pm1_serialise ex_d1 ++ repeat 0 3) 57 [5; 1000] = Some (pm1_denote ex_d1) /\
  wf_pm1 ex_d2 = true /\ nlen (pm1_denote ex_d2) = 301 /\
  ex_dec (pm1_serialise ex_d2) 301 [100; 100; 1; 100] = Some (pm1_denote ex_d2).
Proof. vm_compute. repeat split; reflexivity. Qed.

(* zero extension: with ALL trailing zero bytes removed (one is, for ex_d1),
   with some removed, with some added *)
Example pm1_zero_extension_example :
  let ser := pm1_serialise ex_d1 in
  nlen (ex_strip0 ser) <? nlen ser = true /\
  zero_ext (ex_strip0 ser) ser /\
  ex_dec (ex_strip0 ser) 57 [57] = Some (pm1_denote ex_d1) /\
  ex_dec (ex_strip0 ser ++ [0; 0; 0; 0; 0]) 57 [57] = Some (pm1_denote ex_d1) /\
  ex_dec (ex_strip0 (pm1_serialise ex_d2)) 301 [301] = Some (pm1_denote ex_d2).
Proof.
  cbv zeta. split; [vm_compute; reflexivity|]. split; [exists 1%nat, 0%nat; vm_compute; reflexivity|].
  vm_compute. repeat split; reflexivity.
Qed.

(* every start header 0..31 occurs in a well-formed stream that the model
   decodes (header 17 reaches the classes c, d, e only) *)
Example pm1_all_headers_example :
  forallb (fun h =>
    let cmds := (if h =? 17 then ex_lits 64 8 else ex_lits 32 8) ++ [PCopy 1 3; PCopy 0 2] in
    let d := pm1_auto h cmds in
    (p1_header d =? h) && wf_pm1 d &&
    match ex_dec (pm1_serialise d) (nlen (pm1_denote d)) [1000] with
    | Some o => forallb (fun p => fst p =? snd p) (combine o (pm1_denote d)) && (nlen o =? 13)
    | None => false
    end) (nrange 0 32) = true.
Proof. vm_compute. reflexivity. Qed.

(* the side condition nlen (pm1_denote d) < 2^32: the output position is an
   unsigned int and wraps; after 2^32 bytes every copy distance is refused
   again until the position has grown back *)
Example pm1_output_pos_wraps :
  match pm1_init with
  | Ok s0 =>
    match outputted_byte {| pm1_bsr := pm1_bsr s0; pm1_output_stream_pos := 4294967295;
                            pm1_byte_decode_tree := Some 0; pm1_ringbuf := pm1_ringbuf s0;
                            pm1_ringbuf_pos := 16383; pm1_history_list := pm1_history_list s0 |} 65 with
    | Ok s' => pm1_output_stream_pos s' = 0
    | _ => False
    end
  | _ => False
  end.
Proof. vm_compute. reflexivity. Qed.

Print Assumptions pm1_chunks.
Print Assumptions pm1_zero_extension.
Print Assumptions pm1_roundtrip.
Print Assumptions pm1_roundtrip_zeros.
Print Assumptions pm1_zero_stripped.
Print Assumptions pm1_zero_extension_same.
Print Assumptions pm1_roundtrip_example.
Print Assumptions pm1_zero_extension_example.
Print Assumptions pm1_all_headers_example.

(* -lh1- decoder registration, and the LZHUF encoder oracle:
     lh1enc <cmds>     cmds: comma list of  L<hex byte>  |  C<offset>:<len>   (decimal), or "-" for none
   prints   <hex of encoded stream> <length of expansion> <fnv64 of expansion>
   (fnv64 as in d_dec.ml: the h= field of the decoder line). *)
open Model
open Reg

let () =
  Hashtbl.replace D_dec.dispatch "-lh1-"
    (fun src _ dl rs m ->
       D_dec.run_decoder (lh1_read src_cb) lh1_max_read lh1_block_size lh1_init src dl rs m)

let parse_cmds (s : string) : cmd list =
  if s = "-" then []
  else
    List.rev
      (List.rev_map (fun it ->
           match it.[0] with
           | 'L' -> Lit (n_of_int (int_of_string ("0x" ^ String.sub it 1 (String.length it - 1))))
           | 'C' ->
             (match String.split_on_char ':' (String.sub it 1 (String.length it - 1)) with
              | [o; l] -> Copy (n_of_int (int_of_string o), n_of_int (int_of_string l))
              | _ -> failwith "bad copy")
           | _ -> failwith "bad cmd") (String.split_on_char ',' s))

let do_lh1enc args =
  match args with
  | [cs] ->
    (try
       let cmds = parse_cmds cs in
       let stream = bits_to_bytes (lzhuf_encode cmds) in
       let exp = lz77_expand_4k cmds in
       let h = ref 0xcbf29ce484222325L in
       let len = ref 0 in
       List.iter (fun b -> D_dec.fnv_byte h (int_of_n b); incr len) exp;
       let b = Buffer.create 1024 in
       List.iter (fun x -> Buffer.add_string b (Printf.sprintf "%02x" (int_of_n x))) stream;
       Printf.sprintf "%s %d %016Lx" (if Buffer.length b = 0 then "-" else Buffer.contents b) !len !h
     with Failure m -> "ERR " ^ m)
  | _ -> "ERR args"

let () = add "lh1enc" do_lh1enc

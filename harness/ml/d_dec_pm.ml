(* d_dec_pm.ml -- registers the PMarc decoders (-pm1-, -pm2-) of the extracted
   model with the "dec" handler of d_dec.ml. *)
open Model

let () =
  Hashtbl.replace D_dec.dispatch "-pm1-"
    (fun src _ dl rs m -> D_dec.run_decoder (pm1_read src_cb) pm1_max_read pm1_block_size pm1_init src dl rs m);
  Hashtbl.replace D_dec.dispatch "-pm2-"
    (fun src _ dl rs m -> D_dec.run_decoder (pm2_read src_cb) pm2_max_read pm2_block_size pm2_init src dl rs m)

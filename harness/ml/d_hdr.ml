(* hdr <kind> <hex> : iterate with the basic reader model, print every header *)
open Model
open Reg

let kind_of = function
  | "file" -> KFile | "pipe" -> KPipe | "cbskip" -> KCbSkip | "cbnoskip" -> KCbNoSkip
  | _ -> failwith "kind"

let rec z_of_int i = if i = 0 then Z0 else if i > 0 then Zpos (pos_of_int i) else Zneg (pos_of_int (-i))

(* big numbers (64-bit timestamps) need more than OCaml's 63-bit int: print via strings *)
let rec pos_to_string_digits p =
  (* decimal string of a positive, by repeated doubling on a digit list *)
  let double_add (ds : int list) (add : int) : int list =
    (* ds little endian *)
    let rec go ds carry = match ds with
      | [] -> if carry = 0 then [] else [carry]
      | d :: r -> let v = 2 * d + carry in (v mod 10) :: go r (v / 10) in
    go ds add in
  match p with
  | XH -> [1]
  | XO q -> double_add (pos_to_string_digits q) 0
  | XI q -> double_add (pos_to_string_digits q) 1
let n_to_string = function
  | N0 -> "0"
  | Npos p -> String.concat "" (List.rev_map string_of_int (pos_to_string_digits p))

let ostr = function None -> "NULL" | Some s -> hex_of_bytes s

let header_string (h : header) : string =
  Printf.sprintf "H lv=%d m=%s cl=%s l=%s ts=%s os=%d crc=%d xf=%d up=%d uid=%d gid=%d o9=%d cc=%d wt=%s,%s,%s fn=%s p=%s st=%s un=%s ug=%s rl=%d"
    (int_of_n h.h_level) (hex_of_bytes h.h_method) (n_to_string h.h_compressed_length) (n_to_string h.h_length)
    (n_to_string h.h_timestamp) (int_of_n h.h_os_type) (int_of_n h.h_crc) (int_of_n h.h_extra_flags)
    (int_of_n h.h_unix_perms) (int_of_n h.h_unix_uid) (int_of_n h.h_unix_gid) (int_of_n h.h_os9_perms)
    (int_of_n h.h_common_crc) (n_to_string h.h_win_creation_time) (n_to_string h.h_win_modification_time)
    (n_to_string h.h_win_access_time) (ostr h.h_filename) (ostr h.h_path) (ostr h.h_symlink_target)
    (ostr h.h_unix_username) (ostr h.h_unix_group) (List.length h.h_raw)

let tail_counts (src : source) =
  match src.so_kind with
  | KCbSkip | KCbNoSkip -> Printf.sprintf " reads=%d skips=%d" (int_of_n src.so_reads) (int_of_n src.so_skips)
  | _ -> " reads=- skips=-"

let do_hdr nread = function
  | [kind; hx] ->
    let src = mk_source (kind_of kind) (bytes_of_hex hx) in
    let r = ref (lha_basic_reader_new (lha_input_stream_new src)) in
    let b = Buffer.create 256 in
    let count = ref 0 in
    let fault = ref None in
    (try
       while !count < 10000 do
         match lha_basic_reader_next_file mktime_utc !r with
         | Ok (None, r') -> r := r'; raise Exit
         | Ok (Some h, r') ->
           r := r';
           Buffer.add_string b (header_string h);
           let (d, r2) = if nread = 0 then ([], !r) else lha_basic_reader_read_compressed !r (n_of_int nread) in
           r := r2;
           Buffer.add_string b (" d=" ^ hex_of_bytes d ^ " ; ");
           incr count
         | Fault s -> fault := Some (Printf.sprintf "FAULT %d" (int_of_n s)); raise Exit
         | OutOfFuel -> fault := Some "OUTOFFUEL"; raise Exit
       done
     with Exit -> ());
    (match !fault with
     | Some f -> f
     | None ->
       let again = match lha_basic_reader_next_file mktime_utc !r with
         | Ok (Some _, _) -> 1 | Ok (None, r') -> r := r'; 0 | _ -> 2 in
       Buffer.add_string b (Printf.sprintf "E n=%d again=%d" !count again);
       Buffer.add_string b (tail_counts (!r).br_stream.is_src);
       Buffer.contents b)
  | _ -> "ERR args"

let () = add "hdr" (do_hdr 8)
let () = add "hdrs" (do_hdr 0)

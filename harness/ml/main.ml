(* main.ml -- one output line per input line *)
let () =
  try
    while true do
      let line = input_line stdin in
      let toks = List.filter (fun s -> s <> "") (String.split_on_char ' ' line) in
      (match toks with
       | [] -> print_endline "ERR empty"
       | cmd :: args ->
         (match Hashtbl.find_opt Reg.handlers cmd with
          | Some h -> print_endline (try h args with Stack_overflow -> "ERR stack_overflow")
          | None -> print_endline ("ERR unknown " ^ cmd)))
    done
  with End_of_file -> ()

(* Spec encoder for the new-style LHA methods (coq/S_LhNew.v), run extracted.

   lhnewenc <variant> <cmds> <block sizes csv|->
       variant: lh4 lh5 lh6 lh7 lhx lk7
       cmds:    comma list of  L<hex2> | C<dist>:<len> | C<dist>:<len>!   (or "-")
                an item may be followed by *<count> (repeat the item)
                (the ! selects -lk7-'s dedicated code of length 514; it is
                 ignored by lhnewenc, whose tables come from auto_stream)
       sizes:   number of commands of the first, second, ... block; what is
                left over goes into further blocks of at most 65535 commands
     the description is built by auto_stream.

   lhnewx <variant> <block>/<block>/...
       block:   <temp>;<code>;<off>;<cmds>
       temp:    S<sym>  |  T<n>:<skip>:<explicit lengths csv|->
       code:    S<sym>  |  K<n>:<tokens csv>     token: l<len> | z | s<k> | g<k>
                (z = one unused symbol, s = short zero run 3..18, g = long zero run 20..531)
       off:     S<sym>  |  O<lengths csv>
     an explicit description.

   both print   <hex stream> <expansion length> <fnv64 of expansion> <wf 0/1>
   (fnv64 as in d_enc_larc.ml / the h= field of the decoder drivers).

   lhnewcanon <lengths csv>            codewords of all symbols (- = unused), and complete 0/1
   lhnewref <cmds>                     1 if lz77_expand = lz77_expand_ref on the commands
   lhnewtime <variant> <cmds> <sizes>  seconds: auto_stream+wf, serialise, expand; sizes *)
open Model
open Reg

let variant_of = function
  | "lh4" -> v_lh4 | "lh5" -> v_lh5 | "lh6" -> v_lh6 | "lh7" -> v_lh7
  | "lhx" -> v_lhx | "lk7" -> v_lk7 | _ -> failwith "variant"

let after s k = String.sub s k (String.length s - k)
let split c s = if s = "-" || s = "" then [] else String.split_on_char c s
let nn s = n_of_int (int_of_string s)

(* -> reversed list of (cmd, alt) *)
let parse_xcmds_rev (s : string) =
  let one t =
    if t.[0] = 'L' then (lhn_lit (n_of_int (int_of_string ("0x" ^ after t 1))), false)
    else if t.[0] = 'C' then begin
      let alt = t.[String.length t - 1] = '!' in
      let body = if alt then String.sub t 1 (String.length t - 2) else after t 1 in
      match String.split_on_char ':' body with
      | [d; l] -> (lhn_copy (nn d) (nn l), alt)
      | _ -> failwith "copy"
    end else failwith "cmd" in
  List.fold_left (fun acc it ->
      match String.split_on_char '*' it with
      | [t] -> one t :: acc
      | [t; k] -> let c = one t in
        let r = ref acc in
        for _ = 1 to int_of_string k do r := c :: !r done; !r
      | _ -> failwith "item") [] (split ',' s)

let fnv_len l =
  let h = ref 0xcbf29ce484222325L and n = ref 0 in
  List.iter (fun b -> h := Int64.mul (Int64.logxor !h (Int64.of_int (int_of_n b))) 1099511628211L; incr n) l;
  (!h, !n)

let report v (s : stream) =
  let bytes = serialise_bytes v s in
  let out = lz77_expand (denote s) in
  let (h, n) = fnv_len out in
  Printf.sprintf "%s %d %016Lx %d" (hex_of_bytes bytes) n h (if wf_stream v s then 1 else 0)

let do_enc = function
  | vn :: cmds :: sizes :: _ ->
    (try
       let v = variant_of vn in
       let c = List.rev_map fst (parse_xcmds_rev cmds) in
       report v (auto_stream v c (ns_of_csv sizes))
     with Failure m -> "ERR " ^ m)
  | _ -> "ERR lhnewenc"

let parse_block (s : string) : block =
  match String.split_on_char ';' s with
  | [t; c; o; cmds] ->
    let td =
      if t.[0] = 'S' then TSingle (nn (after t 1))
      else match String.split_on_char ':' (after t 1) with
        | [n; skip; lens] -> TLens (nn n, List.map nn (split ',' lens), nn skip)
        | _ -> failwith "temp" in
    let cd =
      if c.[0] = 'S' then CSingle (nn (after c 1))
      else match String.split_on_char ':' (after c 1) with
        | [n; toks] ->
          CTokens (nn n, List.map (fun k ->
              match k.[0] with
              | 'l' -> Len (nn (after k 1))
              | 'z' -> Zero1
              | 's' -> ZeroShort (nn (after k 1))
              | 'g' -> ZeroLong (nn (after k 1))
              | _ -> failwith "token") (split ',' toks))
        | _ -> failwith "code" in
    let od =
      if o.[0] = 'S' then OSingle (nn (after o 1))
      else OLens (List.map nn (split ',' (after o 1))) in
    { b_cmds = List.rev (parse_xcmds_rev cmds); b_temp = td; b_code = cd; b_off = od }
  | _ -> failwith "block"

let do_x = function
  | vn :: blocks :: _ ->
    (try
       let v = variant_of vn in
       report v (List.map parse_block (String.split_on_char '/' blocks))
     with Failure m -> "ERR " ^ m | Invalid_argument m -> "ERR " ^ m)
  | _ -> "ERR lhnewx"

let do_canon = function
  | lens :: _ ->
    let l = ns_of_csv lens in
    let cw i =
      let c = canonical_code l (n_of_int i) in
      if c = [] then "-" else String.concat "" (List.map (fun b -> if b then "1" else "0") c) in
    String.concat "," (List.mapi (fun i _ -> cw i) l) ^ (if complete_code l then " 1" else " 0")
  | _ -> "ERR lhnewcanon"

let do_ref = function
  | cmds :: _ ->
    let c = List.rev_map fst (parse_xcmds_rev cmds) in
    if lz77_expand c = lz77_expand_ref c then "1" else "0"
  | _ -> "ERR lhnewref"

let do_time = function
  | vn :: cmds :: sizes :: _ ->
    let v = variant_of vn in
    let c = List.rev_map fst (parse_xcmds_rev cmds) in
    let t0 = Sys.time () in
    let s = auto_stream v c (ns_of_csv sizes) in
    let wf = wf_stream v s in
    let t1 = Sys.time () in
    let bytes = serialise_bytes v s in
    let nb = List.length bytes in
    let t2 = Sys.time () in
    let out = lz77_expand (denote s) in
    let no = List.length out in
    let t3 = Sys.time () in
    Printf.sprintf "auto+wf=%.3f serialise=%.3f expand=%.3f cmds=%d blocks=%d stream_bytes=%d out_bytes=%d wf=%b"
      (t1 -. t0) (t2 -. t1) (t3 -. t2) (List.length c) (List.length s) nb no wf
  | _ -> "ERR lhnewtime"

let () = add "lhnewenc" do_enc; add "lhnewx" do_x; add "lhnewcanon" do_canon;
  add "lhnewref" do_ref; add "lhnewtime" do_time

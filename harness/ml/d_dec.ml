(* dec <method> <hex> <cb chunks|-> <declared len> <reads> <monitor_at> <junk> *)
open Model
open Reg

let mask64 = 0xFFFFFFFFFFFFFFFFL
let fnv_byte (h : int64 ref) (b : int) =
  h := Int64.mul (Int64.logxor !h (Int64.of_int b)) 1099511628211L
let fnv_u64 h (v : int) = for i = 0 to 7 do fnv_byte h ((v lsr (8 * i)) land 0xff) done

let parse_reads (s : string) : int list =
  List.concat_map (fun it ->
      match String.split_on_char '*' it with
      | [k] -> [int_of_string k]
      | [k; c] -> List.init (int_of_string c) (fun _ -> int_of_string k)
      | _ -> []) (String.split_on_char ',' s)

(* generic run over an inner decoder *)
let run_decoder : 'st. ('st -> src -> (((n list * 'st) * src)) outcome) -> n -> n -> 'st outcome -> src -> int -> int list -> int -> string =
  fun dread max_read block_size init src0 declared reads monitor_at ->
  match init with
  | Fault s -> Printf.sprintf "FAULT %d" (int_of_n s)
  | OutOfFuel -> "OUTOFFUEL"
  | Ok st0 ->
    let d = ref (lha_decoder_new st0 src0 (n_of_int declared)) in
    let h = ref 0xcbf29ce484222325L in
    let evh = ref 0xcbf29ce484222325L in
    let evn = ref 0 in
    let allout = ref [] in
    let small = Buffer.create 200 in
    let small_len = ref 0 in
    let sizes = Buffer.create 64 in
    let readno = ref 0 in
    let fault = ref None in
    let events evs = List.iter (fun (b, t) -> incr evn; fnv_u64 evh (int_of_n b); fnv_u64 evh (int_of_n t)) evs in
    let monitor () =
      let (d', evs) = lha_decoder_monitor block_size !d in d := d'; events evs in
    (try
       List.iter (fun k ->
           if !readno = monitor_at then monitor ();
           match lha_decoder_read dread max_read block_size !d (n_of_int k) with
           | Ok ((out, evs), d') ->
             d := d';
             let got = List.length out in
             allout := List.rev_append out !allout;
             List.iter (fun b -> let bi = int_of_n b in fnv_byte h bi;
                         if !small_len < 96 then (Buffer.add_string small (Printf.sprintf "%02x" bi); incr small_len)) out;
             events evs;
             if !readno > 0 then Buffer.add_char sizes ',';
             Buffer.add_string sizes (string_of_int got);
             incr readno
           | Fault s -> fault := Some (Printf.sprintf "FAULT %d" (int_of_n s)); raise Exit
           | OutOfFuel -> fault := Some "OUTOFFUEL"; raise Exit) reads
     with Exit -> ());
    match !fault with
    | Some f -> f
    | None ->
      if !readno = monitor_at then monitor ();
      Printf.sprintf "r=%s h=%016Lx len=%d crc=%04x icrc=%04x ev=%d:%016Lx hex=%s in=%d"
        (Buffer.contents sizes) !h (int_of_n (lha_decoder_get_length !d)) (int_of_n (lha_decoder_get_crc !d))
        (int_of_n (crc_bitwise N0 (List.rev !allout)))
        !evn !evh (if !small_len = 0 then "-" else Buffer.contents small)
        (List.length src0.src_data - List.length (!d).d_cb.src_data)

let dispatch : (string, src -> int -> int -> int list -> int -> string) Hashtbl.t = Hashtbl.create 16

let do_dec args =
  match args with
  | [meth; hx; chunks; dl; reads; mon; junk] ->
    let src0 = { src_data = bytes_of_hex hx; src_chunks = ns_of_csv chunks } in
    (match Hashtbl.find_opt dispatch meth with
     | None -> "NODECODER"
     | Some f -> f src0 (max 0 (int_of_string junk)) (int_of_string dl) (parse_reads reads) (int_of_string mon))
  | _ -> "ERR args"

let () =
  add "dec" do_dec;
  let null = fun src _ dl rs m -> run_decoder (null_read src_cb) null_max_read null_block_size null_init src dl rs m in
  Hashtbl.replace dispatch "-lh0-" null;
  Hashtbl.replace dispatch "-lz4-" null;
  Hashtbl.replace dispatch "-pm0-" null;
  Hashtbl.replace dispatch "-lzs-" (fun src _ dl rs m -> run_decoder (lzs_read src_cb) lzs_max_read lzs_block_size lzs_init src dl rs m);
  Hashtbl.replace dispatch "-lz5-" (fun src junk dl rs m -> run_decoder (lz5_read src_cb (n_of_int junk)) lz5_max_read lz5_block_size lz5_init src dl rs m)

(* list <mode> <quiet> <now> <mtime> <patterns csv hex|-> (e = the empty pattern) <kind> <hex archive>
     mode: l | lv | v | vv (any command argument of the tool is accepted);
     quiet: - (no q option) | q (bare q) | a digit;  the command argument
     given to the model's parse_command_line is mode ^ "q<digit>".
     The archive is iterated with the basic reader model (as `hdr` does), the
     headers are passed to list_output with gmtime_utc; prints the stdout
     bytes in hex ("-" when empty).
   listm <now> <mtime> <kind> <hex archive> <mode>:<quiet>:<patterns> ... : several command lines on one archive
   ratio <compressed> <uncompressed> : "%5.1f%%" of compression_percent, as text
   glob <pattern hex> <string hex> : match_glob, 0/1 *)
open Model
open Reg

(* decimal string (up to any size) -> N *)
let n_of_string (s : string) : n =
  let ten = n_of_int 10 in
  let r = ref N0 in
  String.iter (fun c ->
      if c < '0' || c > '9' then failwith "number";
      r := N.add (N.mul !r ten) (n_of_int (Char.code c - 48))) s;
  !r

let n_of_ascii (s : string) : n list =
  List.init (String.length s) (fun i -> n_of_int (Char.code s.[i]))

let string_of_bytes (l : n list) : string =
  let b = Buffer.create 16 in
  List.iter (fun x -> Buffer.add_char b (Char.chr (int_of_n x land 255))) l;
  Buffer.contents b

let headers_of (kind : string) (hx : string) : (header list, string) Stdlib.result =
  let src = mk_source (D_hdr.kind_of kind) (bytes_of_hex hx) in
  let r = ref (lha_basic_reader_new (lha_input_stream_new src)) in
  let acc = ref [] in
  let err = ref None in
  (try
     while true do
       match lha_basic_reader_next_file mktime_utc !r with
       | Ok (None, _) -> raise Exit
       | Ok (Some h, r') -> r := r'; acc := h :: !acc
       | Fault s -> err := Some (Printf.sprintf "FAULT %d" (int_of_n s)); raise Exit
       | OutOfFuel -> err := Some "OUTOFFUEL"; raise Exit
     done
   with Exit -> ());
  match !err with Some e -> Error e | None -> Ok (List.rev !acc)

let patterns_of (pats : string) : n list list =
  if pats = "-" then []
  else List.map (fun p -> if p = "e" then [] else bytes_of_hex p) (String.split_on_char ',' pats)

let run_variant (hs : header list) (mode : string) (quiet : string) (now : n) (mtime : n) (pats : string) : string =
  let cmd = mode ^ (match quiet with "-" -> "" | "q" -> "q" | d -> "q" ^ d) in
  match list_output_cmd gmtime_utc (n_of_ascii cmd) (patterns_of pats) now mtime hs with
  | None -> "USAGE"
  | Some (Ok bytes) -> "OUT " ^ hex_of_bytes bytes
  | Some (Fault s) -> Printf.sprintf "FAULT %d" (int_of_n s)
  | Some OutOfFuel -> "OUTOFFUEL"

let do_list = function
  | [mode; quiet; now; mtime; pats; kind; hx] ->
    (match headers_of kind hx with
     | Error e -> e
     | Ok hs -> run_variant hs mode quiet (n_of_string now) (n_of_string mtime) pats)
  | _ -> "ERR args"

(* listm <now> <mtime> <kind> <hex archive> <mode>:<quiet>:<patterns> ... : the same archive (parsed once)
   under several command lines; results joined by " ; " *)
let do_listm = function
  | now :: mtime :: kind :: hx :: variants ->
    (match headers_of kind hx with
     | Error e -> e
     | Ok hs ->
       String.concat " ; " (List.map (fun v ->
           match String.split_on_char ':' v with
           | [mode; quiet; pats] -> run_variant hs mode quiet (n_of_string now) (n_of_string mtime) pats
           | _ -> "ERR variant") variants))
  | _ -> "ERR args"

let do_ratio = function
  | [a; b] -> string_of_bytes (ratio_string (n_of_string a) (n_of_string b))
  | _ -> "ERR args"

let do_glob = function
  | [g; s] -> if match_glob (bytes_of_hex g) (bytes_of_hex s) then "1" else "0"
  | _ -> "ERR args"

let () = add "list" do_list; add "listm" do_listm; add "ratio" do_ratio; add "glob" do_glob

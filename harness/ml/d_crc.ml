(* crc <init> <hex> <piece lengths> -> whole pieces bitwise *)
open Model
open Reg
let do_crc args =
  match args with
  | [init; hx; sp] ->
    let c0 = n_of_int (int_of_string init) in
    let bs = bytes_of_hex hx in
    let whole = lha_crc16_buf c0 bs in
    let rec pieces c l = function
      | [] -> lha_crc16_buf c l
      | k :: r -> pieces (lha_crc16_buf c (take k l)) (drop k l) r in
    let pw = pieces c0 bs (ints_of_csv sp) in
    let bw = crc_bitwise c0 bs in
    Printf.sprintf "%04x %04x %04x" (int_of_n whole) (int_of_n pw) (int_of_n bw)
  | _ -> "ERR bad crc args"
let () = add "crc" do_crc

(* crcstates <byte> -> digest over all 2^16 states of step(c, byte): model, bitwise *)
let do_states args =
  match args with
  | [b] ->
    let bn = [n_of_int (int_of_string b)] in
    let h1 = ref 0 and h2 = ref 0 in
    for c = 0 to 65535 do
      let cn = n_of_int c in
      h1 := (!h1 * 1000003 + int_of_n (lha_crc16_buf cn bn)) mod 1000000007;
      h2 := (!h2 * 1000003 + int_of_n (crc_bitwise cn bn)) mod 1000000007
    done;
    Printf.sprintf "%d %d" !h1 !h2
  | _ -> "ERR"
let () = add "crcstates" do_states

(* enc lzs <cmds> | enc lz5 <cmds> <pad bits csv> : spec encoder + expansion
   cmds: comma list of L<hex2> | C<pos>:<len>
   prints: <hex stream> <expansion length> <fnv64 of expansion> <wf 0/1> *)
open Model
open Reg
let parse_cmds s =
  if s = "-" then [] else
  List.map (fun t ->
      if t.[0] = 'L' then ALit (n_of_int (int_of_string ("0x" ^ String.sub t 1 (String.length t - 1))))
      else match String.split_on_char ':' (String.sub t 1 (String.length t - 1)) with
        | [p; l] -> ACopy (n_of_int (int_of_string p), n_of_int (int_of_string l))
        | _ -> failwith "cmd") (String.split_on_char ',' s)
let fnv l =
  let h = ref 0xcbf29ce484222325L in
  List.iter (fun b -> h := Int64.mul (Int64.logxor !h (Int64.of_int (int_of_n b))) 1099511628211L) l; !h
let do_enc = function
  | "lzs" :: cmds :: _ ->
    let c = parse_cmds cmds in
    let out = lzs_expand c in
    Printf.sprintf "%s %d %016Lx %d" (hex_of_bytes (lzs_serialise c)) (List.length out) (fnv out)
      (if List.for_all lzs_wf_cmd c then 1 else 0)
  | "lz5" :: cmds :: pad :: _ ->
    let c = parse_cmds cmds in
    let out = lz5_expand c in
    Printf.sprintf "%s %d %016Lx %d" (hex_of_bytes (lz5_serialise c (List.map (fun x -> x <> 0) (ints_of_csv pad))))
      (List.length out) (fnv out) (if List.for_all lz5_wf_cmd c then 1 else 0)
  | _ -> "ERR enc"
let () = add "enc" do_enc

(* rdr <kind> <policy> <junk> <hex archive> <ops> : a sequence of LHAReader API
   calls over the extracted model of lib/lha_reader.c (coq/Reader.v), starting
   from the filesystem `fs_init false`, with `mktime_utc`.  The line format and
   the output format are those of harness/c/drv_rdr.c.  When the model faults
   the line ends, after the results of the ops before, with "FAULT <site>".  The header printer is
   D_hdr.header_string, the dump printer D_fs.string_of_dent. *)
open Model
open Reg

exception Stop of string

let fnv_byte = D_dec.fnv_byte
let fnv_u64 = D_dec.fnv_u64

let policy_of = function
  | "plain" -> Some DIR_PLAIN | "eod" -> Some DIR_END_OF_DIR | "eof" -> Some DIR_END_OF_FILE | _ -> None

let ev_string always (evs : (n * n) list) =
  if evs = [] && not always then ""
  else begin
    let h = ref 0xcbf29ce484222325L in
    List.iter (fun (b, t) -> fnv_u64 h (int_of_n b); fnv_u64 h (int_of_n t)) evs;
    Printf.sprintf " ev=%d:%016Lx" (List.length evs) !h
  end

let get = function
  | Ok v -> v
  | Fault s -> raise (Stop (Printf.sprintf "FAULT %d" (int_of_n s)))
  | OutOfFuel -> raise (Stop "OUTOFFUEL")

(* returns the output line and whether some op lost a decoder (Reader.v: read_loses_decoder,
   check_loses_decoder), i.e. whether LeakSanitizer should complain about the C *)
let rec int_of_nat = function O -> 0 | S k -> 1 + int_of_nat k

(* memflag: run the ownership ledger (coq/ReaderMem.v) in lock step and print its predicted
   live block count after every op (command rdrmem).  There the 4th field is the C driver's
   failing-allocation index; the model's junk is 0. *)
let rec nat_of_int i = if i <= 0 then O else S (nat_of_int (i - 1))

(* mode 0: rdr; 1: rdrmem; 2: rdrmemfail -- the ledger with failing allocations (coq/ReaderMemFail.v):
   the 4th field is k, the allocation request that fails; after every op also rq=<requests so far> *)
let run_rdr_mode mode = function
  | [kind; policy; junk; hx; ops] when mode = 2 && (let k = int_of_string junk in k >= 1 && k <= 3) ->
    (* lha_input_stream_new / lha_reader_new return NULL: the driver gives up *)
    ((if int_of_string junk = 1 then "ERR stream" else "ERR reader") ^ " final=0 files=0", false)
  | [kind; policy; junk; hx; ops] ->
    let memflag = mode >= 1 in
    let kfail = if mode = 2 then int_of_string junk else 0 in
    let junk = if memflag then N0 else n_of_int (int_of_string junk) in
    let src = mk_source (D_hdr.kind_of kind) (bytes_of_hex hx) in
    let r = ref (lha_reader_new (lha_input_stream_new src)) in
    (match policy_of policy with Some p -> r := lha_reader_set_dir_policy !r p | None -> ());
    let f = ref (fs_init false) in
    let b = Buffer.create 1024 in
    let ops = if ops = "-" then [] else String.split_on_char ',' ops in
    let lost = ref false in
    let m = ref (mem_new (policy = "plain")) in
    let fm = ref (match fmem_new (policy = "plain") (nat_of_int kfail) with Some s -> s | None -> Obj.magic 0) in
    let lb () =
      if mode = 2 then Buffer.add_string b (Printf.sprintf " lb=%d rq=%d" (int_of_nat (f_live_blocks !fm)) (int_of_nat (!fm).f_rq))
      else if memflag then Buffer.add_string b (Printf.sprintf " lb=%d" (int_of_nat (live_blocks !m))) in
    let line = (try
       List.iter (fun op ->
           let n = String.length op in
           (if op = "n" then begin
               let (h, r') =
                 if mode = 2 then (let (h, (r', m')) = get (fls_next mktime_utc (!r, !fm)) in fm := m'; (h, r'))
                 else if memflag then (let (h, (r', m')) = get (ls_next mktime_utc (!r, !m)) in m := m'; (h, r'))
                 else get (lha_reader_next_file mktime_utc !r) in
               r := r';
               match h with
               | None -> Buffer.add_string b "n:NULL"
               | Some h ->
                 Buffer.add_string b ("n:" ^ D_hdr.header_string h);
                 Buffer.add_string b (Printf.sprintf " fake=%d" (if lha_reader_current_is_fake !r then 1 else 0))
             end
            else if n >= 1 && op.[0] = 'r' then begin
              let k = int_of_string (String.sub op 1 (n - 1)) in
              if read_loses_decoder !r then lost := true;
              let ((out, evs), r') =
                if mode = 2 then (let ((out, evs), (r', m')) = get (fls_read junk (!r, !fm) (n_of_int k)) in fm := m'; ((out, evs), r'))
                else if memflag then (let ((out, evs), (r', m')) = get (ls_read junk (!r, !m) (n_of_int k)) in m := m'; ((out, evs), r'))
                else get (lha_reader_read junk !r (n_of_int k)) in
              r := r';
              let h = ref 0xcbf29ce484222325L in
              List.iter (fun x -> fnv_byte h (int_of_n x)) out;
              Buffer.add_string b (Printf.sprintf "r=%d:%016Lx:%s" (List.length out) !h (hex_of_bytes (take 16 out)));
              Buffer.add_string b (ev_string false evs)
            end
            else if op = "c" || op = "cm" then begin
              let mon = op = "cm" in
              if check_loses_decoder !r then lost := true;
              let ((res, evs), r') =
                if mode = 2 then (let ((res, evs), (r', m')) = get (fls_check junk (!r, !fm) mon) in fm := m'; ((res, evs), r'))
                else if memflag then (let ((res, evs), (r', m')) = get (ls_check junk (!r, !m) mon) in m := m'; ((res, evs), r'))
                else get (lha_reader_check junk !r mon) in
              r := r';
              Buffer.add_string b (Printf.sprintf "%s=%d" op (if res then 1 else 0));
              Buffer.add_string b (ev_string mon evs)
            end
            else if op = "x" || op = "xm" || (n >= 2 && op.[0] = 'x' && op.[1] = 'f') then begin
              let mon = op = "xm" in
              let fname = if n >= 2 && op.[1] = 'f' then Some (bytes_of_hex (String.sub op 2 (n - 2))) else None in
              if check_loses_decoder !r then lost := true;
              let (((res, evs), r'), f') =
                if mode = 2 then (let (((res, evs), (r', m')), f') = get (fls_extract junk (!r, !fm) !f fname mon) in
                                  fm := m'; (((res, evs), r'), f'))
                else if memflag then (let (((res, evs), (r', m')), f') = get (ls_extract junk (!r, !m) !f fname mon) in
                                 m := m'; (((res, evs), r'), f'))
                else get (lha_reader_extract junk !r !f fname mon) in
              r := r'; f := f';
              Buffer.add_string b (Printf.sprintf "%s=%d" (if fname <> None then "xf" else op) (if res then 1 else 0));
              Buffer.add_string b (ev_string mon evs)
            end
            else Buffer.add_string b "BADOP");
           lb ();
           Buffer.add_string b " ; ") ops;
       Buffer.add_string b "E";
       if mode = 2 then begin
         fm := get (f_free_reader !fm);
         lb ();
         fm := f_free_stream !fm;
         Buffer.add_string b (Printf.sprintf " final=%d files=%d" (int_of_nat (f_live_blocks !fm)) (int_of_nat (!fm).f_m.m_files))
       end
       else if memflag then begin
         (* lha_reader_free, then lha_input_stream_free *)
         m := get (m_free_reader !m);
         lb ();
         m := m_free_stream !m;
         Buffer.add_string b (Printf.sprintf " final=%d files=%d" (int_of_nat (live_blocks !m)) (int_of_nat (!m).m_files))
       end;
       Buffer.add_string b (D_hdr.tail_counts (reader_br !r).br_stream.is_src);
       Buffer.add_string b " |";
       Buffer.add_string b (D_fs.dump_string !f);
       Buffer.contents b
     with Stop s -> Buffer.contents b ^ s) in
    (line, !lost)
  | _ -> ("ERR args", false)

let run_rdr memflag = run_rdr_mode (if memflag then 1 else 0)
let do_rdr args = fst (run_rdr false args)
let do_rdrmem args = fst (run_rdr true args)
let do_rdrmemfail args = fst (run_rdr_mode 2 args)

(* rdrleak <same arguments>: only the model's prediction of LeakSanitizer's verdict *)
let do_rdrleak args =
  let (line, lost) = run_rdr false args in
  let n = String.length line in
  let ends_with suf = let k = String.length suf in n >= k && String.sub line (n - k) k = suf in
  (* a fault ends the line: "... FAULT <site>" *)
  let rec has_fault i = i >= 0 && (String.sub line i 6 = "FAULT " && String.index_from_opt line i ';' = None || has_fault (i - 1)) in
  let faulted = ends_with "OUTOFFUEL" || has_fault (n - 6) in
  if faulted then "FAULT" else Printf.sprintf "LEAK=%d" (if lost then 1 else 0)

let () = add "rdr" do_rdr; add "rdrleak" do_rdrleak; add "rdrmem" do_rdrmem; add "rdrmemfail" do_rdrmemfail

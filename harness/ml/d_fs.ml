(* fs [root] <op> <args> ... -> results of the operations and the final tree,
   over the filesystem model coq/Fs.v (interpreter: coq/FsRun.v).  The line
   format and the output format are those of harness/c/drv_fs.c. *)
open Model
open Reg

exception Bad_op

let parse_ops (toks : string list) : op list =
  let num s = n_of_int (int_of_string s) in
  let rec go acc = function
    | [] -> List.rev acc
    | "mkdir" :: p :: m :: r -> go (OMkdir (bytes_of_hex p, num m) :: acc) r
    | "exists" :: p :: r -> go (OExists (bytes_of_hex p) :: acc) r
    | "lstat" :: p :: r -> go (OLstat (bytes_of_hex p) :: acc) r
    | "unlink" :: p :: r -> go (OUnlink (bytes_of_hex p) :: acc) r
    | "fopen" :: p :: m :: d :: r ->
      let perms = if int_of_string m < 0 then None else Some (num m) in
      go (OFopen (bytes_of_hex p, perms, bytes_of_hex d) :: acc) r
    | "symlink" :: p :: t :: r -> go (OSymlink (bytes_of_hex p, bytes_of_hex t) :: acc) r
    | "chmod" :: p :: m :: r -> go (OChmod (bytes_of_hex p, num m) :: acc) r
    | "utime" :: p :: t :: r -> go (OUtime (bytes_of_hex p, num t) :: acc) r
    | "chown" :: p :: _ :: _ :: r -> go (OChown (bytes_of_hex p) :: acc) r
    | _ -> raise Bad_op in
  go [] toks

let string_of_result = function
  | RBool true -> "ok"
  | RBool false -> "fail"
  | RType FT_NONE -> "NONE"
  | RType FT_FILE -> "FILE"
  | RType FT_DIRECTORY -> "DIRECTORY"
  | RType FT_ERROR -> "ERROR"
  | RLstat LS_NONE -> "NONE"
  | RLstat LS_FILE -> "FILE"
  | RLstat LS_DIRECTORY -> "DIRECTORY"
  | RLstat LS_LINK -> "LINK"
  | RLstat LS_ERROR -> "ERROR"

(* hex of the '/'-joined location *)
let hex_of_loc (l : n list list) : string =
  let rec join = function
    | [] -> []
    | [x] -> x
    | x :: r -> x @ (n_of_int 47 :: join r) in
  hex_of_bytes (join l)

let string_of_mtime t = if int_of_n t = 0 then "now" else string_of_int (int_of_n t)

let string_of_dent = function
  | DDir (l, p, t) -> Printf.sprintf " D %s %o %s" (hex_of_loc l) (int_of_n p) (string_of_mtime t)
  | DFile (l, p, t, d) ->
    Printf.sprintf " F %s %o %s %s" (hex_of_loc l) (int_of_n p) (string_of_mtime t) (hex_of_bytes d)
  | DLink (l, t) -> Printf.sprintf " L %s %s" (hex_of_loc l) (hex_of_bytes t)

(* the canonical dump of a filesystem state, as printed after the "|" (shared with d_rdr.ml) *)
let dump_string (s : fs) : string = String.concat "" (List.map string_of_dent (dump s))

let do_fs args =
  let uid0, toks = match args with "root" :: r -> true, r | r -> false, r in
  match parse_ops toks with
  | exception _ -> "BADOP |"
  | ops ->
    let (rs, ds) = run_case uid0 ops in
    String.concat "" (List.map (fun r -> string_of_result r ^ " ") rs) ^ "|"
    ^ String.concat "" (List.map string_of_dent ds)

let () = add "fs" do_fs

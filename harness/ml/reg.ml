(* reg.ml -- handler registry and conversions between OCaml values and the
   extracted Coq datatypes (N, positive stay as extracted). *)
open Model

let rec pos_of_int (i : int) : positive =
  if i = 1 then XH
  else if i land 1 = 1 then XI (pos_of_int (i lsr 1))
  else XO (pos_of_int (i lsr 1))
let n_of_int (i : int) : n = if i = 0 then N0 else Npos (pos_of_int i)
let rec int_of_pos = function
  | XH -> 1
  | XO p -> 2 * int_of_pos p
  | XI p -> 2 * int_of_pos p + 1
let int_of_n = function N0 -> 0 | Npos p -> int_of_pos p

let bytes_of_hex (s : string) : n list =
  if s = "-" then []
  else begin
    let l = String.length s / 2 in
    let r = ref [] in
    for i = l - 1 downto 0 do
      r := n_of_int (int_of_string ("0x" ^ String.sub s (2 * i) 2)) :: !r
    done;
    !r
  end

let hex_of_bytes (l : n list) : string =
  if l = [] then "-"
  else begin
    let b = Buffer.create 64 in
    List.iter (fun x -> Buffer.add_string b (Printf.sprintf "%02x" (int_of_n x))) l;
    Buffer.contents b
  end

let ints_of_csv (s : string) : int list =
  if s = "-" then [] else List.map int_of_string (String.split_on_char ',' s)
let ns_of_csv s = List.map n_of_int (ints_of_csv s)

let rec take k l = if k <= 0 then [] else match l with [] -> [] | x :: r -> x :: take (k - 1) r
let rec drop k l = if k <= 0 then l else match l with [] -> [] | _ :: r -> drop (k - 1) r

let handlers : (string, string list -> string) Hashtbl.t = Hashtbl.create 32
let add name h = Hashtbl.replace handlers name h

(* d_tool_cli.ml -- handler `cli` (named so that it is compiled after d_fs.ml and d_list.ml: common.build_model
   compiles harness/ml/d_*.ml in sorted order) *)
(* cli <uid0 0|1> <now> <mtime> <argv[1..] csv hex|-> (e = the empty argument) <hex archive> <hex stdin> <set-up ops ...>
     the whole command-line tool over the extracted model (coq/CliMain.v: cli_run):
     `lha <argv[1..]>` started in /root of the scratch tree of harness/c/drv_fsutil.h, to which
     /arc/a.lzh (the archive, modification time <mtime>) has been added and in which the set-up
     operations (the `fs` operation language of d_fs.ml / drv_fs.c) have been executed first;
     TEST_NOW_TIME = <now>, TZ = UTC, standard input = a pipe delivering <hex stdin>.
     The line format and the output format are those of harness/c/drv_cli.c:
       rc=<exit status> out=<hex stdout> err=<hex stderr> |<dump of the tree>
     After a failed fopen of the archive the C prints strerror(errno); the model prints ENOENT /
     EOTHER (test_cli.py normalises the C side).
   clitrace <same arguments>: the model's trace of filesystem operations, oldest first (model only).
   clisetup <same arguments>: the dump of the tree before the tool starts (model only). *)
open Model
open Reg

let n_of_string = D_list.n_of_string
let n_of_ascii = D_list.n_of_ascii

let strerror (enoent : bool) : n list = n_of_ascii (if enoent then "ENOENT" else "EOTHER")

let argv_of (s : string) : n list list =
  n_of_ascii "lha" ::
  (if s = "-" then []
   else List.map (fun p -> if p = "e" then [] else bytes_of_hex p) (String.split_on_char ',' s))

let run = function
  | uid0 :: now :: mtime :: argv :: arc :: inp :: setup ->
    (match D_fs.parse_ops setup with
     | exception _ -> Error "BADOP"
     | ops ->
       (match cli_run mktime_utc gmtime_utc strerror (uid0 = "1") (n_of_string now) (n_of_string mtime)
                (argv_of argv) (bytes_of_hex arc) (bytes_of_hex inp) ops with
        | Ok r -> Ok r
        | Fault s -> Error (Printf.sprintf "FAULT %d" (int_of_n s))
        | OutOfFuel -> Error "OUTOFFUEL"))
  | _ -> Error "ERR args"

let do_cli args =
  match run args with
  | Error e -> e
  | Ok r ->
    Printf.sprintf "rc=%d out=%s err=%s |%s" (int_of_n r.cr_exit) (hex_of_bytes r.cr_stdout)
      (hex_of_bytes r.cr_stderr) (D_fs.dump_string r.cr_fs)

let string_of_fsop = function
  | OpMkdir (l, m) -> Printf.sprintf "mkdir:%s:%o" (D_fs.hex_of_loc l) (int_of_n m)
  | OpCreate l -> "create:" ^ D_fs.hex_of_loc l
  | OpUnlink l -> "unlink:" ^ D_fs.hex_of_loc l
  | OpSymlink (l, t) -> Printf.sprintf "symlink:%s:%s" (D_fs.hex_of_loc l) (hex_of_bytes t)
  | OpChmod (l, m) -> Printf.sprintf "chmod:%s:%o" (D_fs.hex_of_loc l) (int_of_n m)
  | OpChown l -> "chown:" ^ D_fs.hex_of_loc l
  | OpUtime (l, t) -> Printf.sprintf "utime:%s:%d" (D_fs.hex_of_loc l) (int_of_n t)
  | OpWrite (l, k) -> Printf.sprintf "write:%s:%d" (D_fs.hex_of_loc l) (int_of_n k)

let do_clitrace args =
  match run args with
  | Error e -> e
  | Ok r -> String.concat " " (List.rev_map string_of_fsop r.cr_fs.fs_trace)

(* clisetup <same arguments>: the dump of the tree the tool starts in (after the set-up operations) *)
let do_clisetup = function
  | uid0 :: _ :: mtime :: _ :: arc :: _ :: setup ->
    (match D_fs.parse_ops setup with
     | exception _ -> "BADOP"
     | ops -> "|" ^ D_fs.dump_string (cli_fs_init (uid0 = "1") (bytes_of_hex arc) (n_of_string mtime) ops))
  | _ -> "ERR args"

let () = add "cli" do_cli; add "clitrace" do_clitrace; add "clisetup" do_clisetup

(* d_dec_lhnew.ml -- registers the lh_new_decoder.c family (LhNew.v) with the
   "dec" handler of d_dec.ml. *)
open Model
open Reg

let () =
  let reg name read max_read block_size init =
    Hashtbl.replace D_dec.dispatch name
      (fun src _ dl rs m -> D_dec.run_decoder (read src_cb) max_read block_size init src dl rs m) in
  reg "-lh4-" lh4_read lh4_max_read lh4_block_size lh4_init;
  reg "-lh5-" lh5_read lh5_max_read lh5_block_size lh5_init;
  reg "-lh6-" lh6_read lh6_max_read lh6_block_size lh6_init;
  reg "-lh7-" lh7_read lh7_max_read lh7_block_size lh7_init;
  reg "-lhx-" lhx_read lhx_max_read lhx_block_size lhx_init;
  reg "-lk7-" lk7_read lk7_max_read lk7_block_size lk7_init

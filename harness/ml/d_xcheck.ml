(* xcheck : prints Model.xcheck_all (coq/XCheck.v) as  n,n,...;n,n,...;...
   -- the same value coqc computes with vm_compute; the harness compares the two. *)
open Model
open Reg

let () =
  add "xcheck" (fun _ ->
      String.concat ";" (List.map (fun l -> String.concat "," (List.map (fun x -> string_of_int (int_of_n x)) l)) xcheck_all))

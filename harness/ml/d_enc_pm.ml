(* pm2enc <cmds> [variant]           : spec encoder (S_Pm.v) + expansion for -pm2-
   pm1enc <header|a<pref>> <cmds>    : same for -pm1-; "a<pref>" lets pm1_pick_header choose
   cmds: comma list of B<hex2> | C<dist>:<len>  ("-" = empty)
   prints: <hex stream> <expansion length> <fnv64 of expansion> <wf 0/1> [<header used>] *)
open Model
open Reg
let parse_cmds s =
  if s = "-" then [] else
  List.rev (List.rev_map (fun t ->
      if t.[0] = 'B' then PByte (n_of_int (int_of_string ("0x" ^ String.sub t 1 (String.length t - 1))))
      else match String.split_on_char ':' (String.sub t 1 (String.length t - 1)) with
        | [p; l] -> PCopy (n_of_int (int_of_string p), n_of_int (int_of_string l))
        | _ -> failwith "cmd") (String.split_on_char ',' s))
let fnv l =
  let h = ref 0xcbf29ce484222325L in
  List.iter (fun b -> h := Int64.mul (Int64.logxor !h (Int64.of_int (int_of_n b))) 1099511628211L) l; !h
let hex l =
  if l = [] then "-" else begin
    let b = Buffer.create 1024 in
    List.iter (fun x -> Buffer.add_string b (Printf.sprintf "%02x" (int_of_n x))) l;
    Buffer.contents b end
let do_pm2 = function
  | cmds :: rest ->
    let variant = match rest with v :: _ -> int_of_string v | [] -> 0 in
    let d = pm2_auto (n_of_int variant) (parse_cmds cmds) in
    let out = pm2_denote d in
    Printf.sprintf "%s %d %016Lx %d" (hex (pm2_serialise d)) (List.length out) (fnv out)
      (if wf_pm2 d then 1 else 0)
  | _ -> "ERR pm2enc"
let do_pm1 = function
  | hdr :: cmds :: _ ->
    let c = parse_cmds cmds in
    let h =
      if hdr.[0] = 'a' then pm1_pick_header (n_of_int (int_of_string (String.sub hdr 1 (String.length hdr - 1)))) c
      else n_of_int (int_of_string hdr) in
    let d = pm1_auto h c in
    let out = pm1_denote d in
    Printf.sprintf "%s %d %016Lx %d %d" (hex (pm1_serialise d)) (List.length out) (fnv out)
      (if wf_pm1 d then 1 else 0) (int_of_n h)
  | _ -> "ERR pm1enc"
(* pm2raw <first 0/1> <seg>;<seg>;...   an explicit -pm2- description
   seg = <code>|<off>|<cmds>   code: - | S<n> | L<minlen>.<lbits>.<len,len,...>   off: - | <len,len,...> *)
let do_pm2raw = function
  | first :: segs :: _ ->
    let seg s = match String.split_on_char '|' s with
      | [c; o; cmds] ->
        let code =
          if c = "-" then None
          else if c.[0] = 'S' then Some (CTSingle (n_of_int (int_of_string (String.sub c 1 (String.length c - 1)))))
          else match String.split_on_char '.' (String.sub c 1 (String.length c - 1)) with
            | [m; lb; lens] -> Some (CTLens (n_of_int (int_of_string m), n_of_int (int_of_string lb), ns_of_csv lens))
            | _ -> failwith "code" in
        { sg_code = code; sg_off = (if o = "-" then None else Some (ns_of_csv o)); sg_cmds = parse_cmds cmds }
      | _ -> failwith "seg" in
    let d = { p2_first = (first <> "0"); p2_segs = List.map seg (String.split_on_char ';' segs) } in
    let out = pm2_denote d in
    Printf.sprintf "%s %d %016Lx %d" (hex (pm2_serialise d)) (List.length out) (fnv out)
      (if wf_pm2 d then 1 else 0)
  | _ -> "ERR pm2raw"
let () = add "pm2enc" do_pm2; add "pm1enc" do_pm1; add "pm2raw" do_pm2raw

/* drv_dump.c -- test helper: decodes a stream with the decoder API of /repo
   and prints ALL decoded bytes.
     dump <method> <hex> <declared len>
   Output: <count> <crc hex4> <hex of the decoded bytes> */
#include <stdio.h>
#include <stdlib.h>
#include <string.h>
#include <stdint.h>
#include "lha_decoder.h"
#include "drv_util.h"

typedef struct { uint8_t *data; size_t len, pos; } Src;

static size_t src_cb(void *buf, size_t buf_len, void *user)
{
	Src *s = user; size_t k = buf_len;
	if (k > s->len - s->pos) k = s->len - s->pos;
	memcpy(buf, s->data + s->pos, k);
	s->pos += k;
	return k;
}

int main(void)
{
	char *line = NULL; size_t cap = 0; ssize_t n;
	setvbuf(stdout, NULL, _IOLBF, 0);   /* a line per case reaches the harness even if a later case is stopped by a sanitizer */
	while ((n = getline(&line, &cap, stdin)) > 0) {
		char *cmd = strtok(line, " \n"), *meth = strtok(NULL, " \n"), *hx = strtok(NULL, " \n");
		char *dl = strtok(NULL, " \n");
		Src src; LHADecoderType *dt; LHADecoder *dec; size_t want, got, total = 0; uint8_t *out;
		if (!cmd || !dl) { puts("ERR args"); continue; }
		memset(&src, 0, sizeof(src));
		src.data = unhex_alloc(hx, &src.len, 0);
		dt = lha_decoder_for_name(meth);
		if (dt == NULL) { puts("NODECODER"); free(src.data); continue; }
		want = strtoul(dl, NULL, 10);
		dec = lha_decoder_new(dt, src_cb, &src, want);
		if (dec == NULL) { puts("INITFAIL"); free(src.data); continue; }
		out = malloc(want ? want : 1);
		while (total < want && (got = lha_decoder_read(dec, out + total, want - total)) > 0) total += got;
		printf("%zu %04x ", total, (unsigned) lha_decoder_get_crc(dec));
		print_hex(out, total);
		putchar('\n');
		lha_decoder_free(dec);
		free(out); free(src.data);
	}
	free(line);
	return 0;
}

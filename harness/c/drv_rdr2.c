/* drv_rdr2.c -- two LHAReaders at once (property C15: operations on one reader
   never affect another reader, interleaved or on different threads).

   One case per line:
     rdr2 <mode> <kindA> <polA> <hexA> <opsA> <kindB> <polB> <hexB> <opsB> <sched>
       mode   one    only reader A is run (the reference for a reader on its own)
              seq    both readers in one thread; <sched> is a string over {A,B}:
                     each letter lets that reader execute its next op; when the
                     string is used up the remaining ops run A first, then B
              thr    both readers on two threads started together, no
                     synchronisation between them (<sched> ignored)
       kind   cbskip | cbnoskip | file | pipe        (drv_stream.h)
       pol    plain | eod | eof
       ops    comma list over  n  r<k>  c  cm   (no extraction: nothing here
              touches the filesystem)
   Output:  A[ <results of A> ] B[ <results of B> ]
   where the results of a reader are formatted by the same code in all three
   modes, so the harness compares strings: A's part of a seq/thr run must equal
   the `one` run of A, and B's part the `one` run of B given as A.  */
#define _GNU_SOURCE
#include <stdio.h>
#include <stdlib.h>
#include <string.h>
#include <stdint.h>
#include <pthread.h>
#include "lha_input_stream.h"
#include "public/lha_reader.h"
#include "lha_file_header.h"
#include "drv_util.h"
#include "drv_stream.h"

typedef struct {
	DrvStream ds; LHAReader *reader;
	char *ops, *save, *next;
	FILE *out; char *buf; size_t buflen;
	uint64_t evh; unsigned long evn;
	int ok;
} Side;

static void fnv(uint64_t *h, uint64_t v) { int i; for (i = 0; i < 8; ++i) { *h ^= (v >> (8*i)) & 0xff; *h *= 1099511628211ULL; } }
static void progress_cb(unsigned int block, unsigned int total, void *user)
{
	Side *s = user; ++s->evn; fnv(&s->evh, block); fnv(&s->evh, total);
}
static void ohex(FILE *o, const char *tag, const char *s)
{
	size_t i, n;
	fprintf(o, " %s=", tag);
	if (s == NULL) { fputs("NULL", o); return; }
	n = strlen(s);
	if (n == 0) fputs("-", o);
	for (i = 0; i < n; ++i) fprintf(o, "%02x", (unsigned char) s[i]);
}
static void ohdr(FILE *o, LHAFileHeader *h)
{
	fprintf(o, "H lv=%u m=%.5s cl=%lu l=%lu ts=%u os=%u crc=%u xf=%u up=%u uid=%u gid=%u", (unsigned) h->header_level,
	        h->compress_method, (unsigned long) h->compressed_length, (unsigned long) h->length, h->timestamp,
	        (unsigned) h->os_type, (unsigned) h->crc, h->extra_flags, h->unix_perms, h->unix_uid, h->unix_gid);
	ohex(o, "fn", h->filename); ohex(o, "p", h->path); ohex(o, "st", h->symlink_target);
}

static int side_open(Side *s, const char *kind, const char *pol, const char *hx, char *ops)
{
	memset(s, 0, sizeof(*s));
	s->out = open_memstream(&s->buf, &s->buflen);
	if (!drv_stream_open(&s->ds, kind, hx)) return 0;
	s->reader = lha_reader_new(s->ds.stream);
	if (!s->reader) return 0;
	if (!strcmp(pol, "plain")) lha_reader_set_dir_policy(s->reader, LHA_READER_DIR_PLAIN);
	else if (!strcmp(pol, "eod")) lha_reader_set_dir_policy(s->reader, LHA_READER_DIR_END_OF_DIR);
	else if (!strcmp(pol, "eof")) lha_reader_set_dir_policy(s->reader, LHA_READER_DIR_END_OF_FILE);
	s->ops = ops;
	s->next = strcmp(ops, "-") ? strtok_r(ops, ",", &s->save) : NULL;
	s->ok = 1;
	return 1;
}

/* executes the next op of the side; 0 when there is none left */
static int side_step(Side *s)
{
	char *op = s->next; FILE *o = s->out;
	if (op == NULL) return 0;
	s->evh = 14695981039346656037ULL; s->evn = 0;
	if (!strcmp(op, "n")) {
		LHAFileHeader *h = lha_reader_next_file(s->reader);
		if (h == NULL) fputs("n:NULL", o);
		else { fputs("n:", o); ohdr(o, h); fprintf(o, " fake=%d", lha_reader_current_is_fake(s->reader)); }
	} else if (op[0] == 'r') {
		size_t k = strtoul(op + 1, NULL, 10), got, i;
		uint8_t *b = malloc(k ? k : 1);
		uint64_t h = 14695981039346656037ULL;
		got = lha_reader_read(s->reader, b, k);
		if (got > k) { fprintf(o, "OVERREAD(%zu>%zu)", got, k); got = k; }
		for (i = 0; i < got; ++i) { h ^= b[i]; h *= 1099511628211ULL; }
		fprintf(o, "r=%zu:%016llx", got, (unsigned long long) h);
		free(b);
	} else if (!strcmp(op, "c")) {
		fprintf(o, "c=%d", lha_reader_check(s->reader, NULL, NULL));
	} else if (!strcmp(op, "cm")) {
		fprintf(o, "cm=%d", lha_reader_check(s->reader, progress_cb, s));
		fprintf(o, " ev=%lu:%016llx", s->evn, (unsigned long long) s->evh);
	} else fputs("BADOP", o);
	fputs(" ; ", o);
	s->next = strtok_r(NULL, ",", &s->save);
	return 1;
}

static void side_close(Side *s, const char *tag)
{
	if (s->reader) lha_reader_free(s->reader);
	drv_stream_close_quiet(&s->ds);
	fclose(s->out);
	printf("%s[ %s] ", tag, s->buf ? s->buf : "");
	free(s->buf);
}

static void *side_thread(void *p)
{
	Side *s = p;
	while (side_step(s)) { }
	return NULL;
}

int main(void)
{
	char *line = NULL; size_t cap = 0; ssize_t n;
	while ((n = getline(&line, &cap, stdin)) > 0) {
		char *t[12]; int nt = 0; char *sv = NULL, *w;
		Side A, B; int two;
		for (w = strtok_r(line, " \n", &sv); w && nt < 12; w = strtok_r(NULL, " \n", &sv)) t[nt++] = w;
		if (nt < 11 || strcmp(t[0], "rdr2")) { puts("ERR args"); fflush(stdout); continue; }
		two = strcmp(t[1], "one") != 0;
		if (!side_open(&A, t[2], t[3], t[4], t[5])) { puts("ERR open A"); fflush(stdout); continue; }
		if (two && !side_open(&B, t[6], t[7], t[8], t[9])) { puts("ERR open B"); fflush(stdout); continue; }
		if (!strcmp(t[1], "one")) {
			while (side_step(&A)) { }
		} else if (!strcmp(t[1], "seq")) {
			const char *c;
			for (c = t[10]; *c; ++c) side_step(*c == 'A' ? &A : &B);
			while (side_step(&A)) { }
			while (side_step(&B)) { }
		} else {
			pthread_t ta, tb;
			pthread_create(&ta, NULL, side_thread, &A);
			pthread_create(&tb, NULL, side_thread, &B);
			pthread_join(ta, NULL); pthread_join(tb, NULL);
		}
		side_close(&A, "A");
		if (two) side_close(&B, "B");
		putchar('\n');
		fflush(stdout);
	}
	free(line);
	return 0;
}

/* drv_hdr.c -- iterates over an archive with lha_basic_reader and prints every
   header field:  hdr <kind> <hex>      kind: file | pipe | cbskip | cbnoskip
   One output line per case. */
#include <stdio.h>
#include <stdlib.h>
#include <string.h>
#include <stdint.h>
#include <unistd.h>
#include <sys/wait.h>
#include "lha_input_stream.h"
#include "lha_basic_reader.h"
#include "drv_util.h"
#include "drv_stream.h"

static void pstr(const char *tag, const char *s)
{
	printf(" %s=", tag);
	if (s == NULL) { fputs("NULL", stdout); return; }
	print_hex((const uint8_t *) s, strlen(s));
}

void print_header(LHAFileHeader *h)
{
	printf("H lv=%u m=", (unsigned) h->header_level);
	print_hex((uint8_t *) h->compress_method, 5);
	printf(" cl=%lu l=%lu ts=%u os=%u crc=%u xf=%u up=%u uid=%u gid=%u o9=%u cc=%u wt=%llu,%llu,%llu",
	       (unsigned long) h->compressed_length, (unsigned long) h->length, h->timestamp, (unsigned) h->os_type,
	       (unsigned) h->crc, h->extra_flags, h->unix_perms, h->unix_uid, h->unix_gid, h->os9_perms,
	       (unsigned) h->common_crc, (unsigned long long) h->win_creation_time,
	       (unsigned long long) h->win_modification_time, (unsigned long long) h->win_access_time);
	pstr("fn", h->filename); pstr("p", h->path); pstr("st", h->symlink_target);
	pstr("un", h->unix_username); pstr("ug", h->unix_group);
	printf(" rl=%lu", (unsigned long) h->raw_data_len);
}

int main(void)
{
	char *line = NULL; size_t cap = 0; ssize_t n;
	setenv("TZ", "UTC", 1); tzset();
	while ((n = getline(&line, &cap, stdin)) > 0) {
		char *cmd = strtok(line, " \n"), *kind = strtok(NULL, " \n"), *hx = strtok(NULL, " \n");
		DrvStream ds; LHABasicReader *r; LHAFileHeader *h; unsigned count = 0;
		if (!cmd || !kind || !hx) { puts("ERR args"); continue; }
#ifdef LHASA_VERIF
		{ char *fa = strtok(NULL, " \n"); drv_fail_at = fa ? strtoul(fa, NULL, 10) : 0; }
#endif
		if (!drv_stream_open(&ds, kind, hx)) { fputs("E streamfail", stdout); ds.stream = NULL; drv_stream_close(&ds); printf("\n"); fflush(stdout); continue; }
		r = lha_basic_reader_new(ds.stream);
		if (r == NULL) { fputs("E newfail", stdout); drv_stream_close(&ds); printf("\n"); fflush(stdout); continue; }
		while ((h = lha_basic_reader_next_file(r)) != NULL && count < 10000) {
			uint8_t d[8]; size_t got;
			print_header(h);
			got = lha_basic_reader_read_compressed(r, d, sizeof(d));
			fputs(" d=", stdout); print_hex(d, got);
			fputs(" ; ", stdout);
			++count;
		}
		/* after the end every further request reports end */
		printf("E n=%u again=%d", count, lha_basic_reader_next_file(r) != NULL);
		lha_basic_reader_free(r);
		drv_stream_close(&ds);
		printf("\n");
		fflush(stdout);
	}
	free(line);
	return 0;
}

/* drv_hdr.c -- iterates over an archive with lha_basic_reader and prints every
   header field:  hdr|hdrs <kind> <hex>      kind: file | pipe | cbskip | cbnoskip
   One output line per case. */
#include <stdio.h>
#include <stdlib.h>
#include <string.h>
#include <stdint.h>
#include <unistd.h>
#include <sys/wait.h>
#include "lha_input_stream.h"
#include "lha_basic_reader.h"
#include "drv_util.h"
#include "drv_stream.h"

#include "drv_hdrprint.h"

int main(void)
{
	char *line = NULL; size_t cap = 0; ssize_t n;
	setenv("TZ", "UTC", 1); tzset();
	while ((n = getline(&line, &cap, stdin)) > 0) {
		char *cmd = strtok(line, " \n"), *kind = strtok(NULL, " \n"), *hx = strtok(NULL, " \n");
		DrvStream ds; LHABasicReader *r; LHAFileHeader *h; unsigned count = 0;
		if (!cmd || !kind || !hx) { puts("ERR args"); continue; }
#ifdef LHASA_VERIF
		{ char *fa = strtok(NULL, " \n"); drv_fail_at = fa ? strtoul(fa, NULL, 10) : 0; }
#endif
		if (!drv_stream_open(&ds, kind, hx)) { fputs("E streamfail", stdout); ds.stream = NULL; drv_stream_close(&ds); printf("\n"); fflush(stdout); continue; }
		r = lha_basic_reader_new(ds.stream);
		if (r == NULL) { fputs("E newfail", stdout); drv_stream_close(&ds); printf("\n"); fflush(stdout); continue; }
		while ((h = lha_basic_reader_next_file(r)) != NULL && count < 10000) {
			uint8_t d[8]; size_t got;
			print_header(h);
			/* "hdrs": headers only -- the member's data is skipped without any read */
			got = strcmp(cmd, "hdrs") == 0 ? 0 : lha_basic_reader_read_compressed(r, d, sizeof(d));
			fputs(" d=", stdout); print_hex(d, got);
			fputs(" ; ", stdout);
			++count;
		}
		/* after the end every further request reports end */
		printf("E n=%u again=%d", count, lha_basic_reader_next_file(r) != NULL);
		lha_basic_reader_free(r);
		drv_stream_close(&ds);
		printf("\n");
		fflush(stdout);
	}
	free(line);
	return 0;
}

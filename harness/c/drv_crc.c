/* drv_crc.c -- runs lib/crc16.c on case lines: crc <init> <hex> <pieces>
   Output: whole pieces (hex4).  The buffer is copied to a fresh malloc at a
   rotating misalignment so that alignment-dependent rewrites are exercised. */
#include <stdio.h>
#include <stdlib.h>
#include <string.h>
#include <stdint.h>
#include "crc16.h"
#include "drv_util.h"

int main(void)
{
	char *line = NULL; size_t cap = 0; ssize_t n; unsigned long caseno = 0;
	setvbuf(stdout, NULL, _IOLBF, 0);   /* a line per case reaches the harness even if a later case is stopped by a sanitizer */
	while ((n = getline(&line, &cap, stdin)) > 0) {
		char *cmd = strtok(line, " \n"), *init = strtok(NULL, " \n");
		char *hx = strtok(NULL, " \n"), *sp = strtok(NULL, " \n");
		size_t len; uint8_t *raw, *buf; uint16_t whole, pw; size_t off, pos;
		if (cmd && !strcmp(cmd, "crcstates") && init) {
			unsigned long h = 0, c; uint8_t b = (uint8_t) strtoul(init, NULL, 10);
			for (c = 0; c < 65536; ++c) {
				uint16_t v = (uint16_t) c;
				lha_crc16_buf(&v, &b, 1);
				h = (h * 1000003UL + v) % 1000000007UL;
			}
			printf("%lu\n", h);
			continue;
		}
		/* crcalias <k> <hex> - -: the state variable lies INSIDE the buffer, at the even offset k (its initial value is
		   whatever those two bytes are).  Output: initial-state result.  The bytes hashed are those present at the call. */
		if (cmd && !strcmp(cmd, "crcalias") && init && hx) {
			size_t k = strtoul(init, NULL, 10); uint16_t v0, v1;
			raw = unhex_alloc(hx, &len, 0);
			if ((k & 1) || k + 2 > len) { puts("ERR"); free(raw); continue; }
			memcpy(&v0, raw + k, 2);
			lha_crc16_buf((uint16_t *) (void *) (raw + k), raw, len);
			memcpy(&v1, raw + k, 2);
			printf("%04x %04x\n", v0, v1);
			free(raw);
			continue;
		}
		/* crcx <align> <init> <hex> <pieces>: as "crc", but the buffer starts at the given offset (0..63) from a 64-byte
		   boundary and ENDS exactly at the end of its allocation (an over-read of one byte is a sanitizer report). */
		if (cmd && !strcmp(cmd, "crcx") && init && hx && sp) {
			size_t al = strtoul(init, NULL, 10) & 63; char *pcs = strtok(NULL, " \n"); void *mem = NULL;
			uint8_t *tmpb = unhex_alloc(sp, &len, 0);
			if (!pcs || posix_memalign(&mem, 64, al + len ? al + len : 1) != 0) { puts("ERR"); free(tmpb); continue; }
			buf = (uint8_t *) mem + al;
			memcpy(buf, tmpb, len); free(tmpb);
			whole = (uint16_t) strtoul(hx, NULL, 10);
			lha_crc16_buf(&whole, buf, len);
			pw = (uint16_t) strtoul(hx, NULL, 10);
			pos = 0;
			if (strcmp(pcs, "-")) {
				char *p = pcs;
				while (*p) {
					size_t k = strtoul(p, &p, 10);
					if (k > len - pos) k = len - pos;
					lha_crc16_buf(&pw, buf + pos, k);
					pos += k;
					if (*p == ',') ++p;
				}
			}
			lha_crc16_buf(&pw, buf + pos, len - pos);
			printf("%04x %04x\n", whole, pw);
			free(mem);
			continue;
		}
		/* crcseq <align> <len> <inits,comma> <hex>: ONE buffer of <len> bytes (at offset <align> from a 64-byte boundary, ending
		   flush with its allocation) and ONE state variable are used for a sequence of calls; before call j the buffer is
		   overwritten with the j-th <len>-byte slice of <hex> and the state variable is set to the j-th init.  Output: one
		   hex4 per call.  The routine is a function of (state, bytes): nothing may carry over from one call to the next. */
		if (cmd && !strcmp(cmd, "crcseq") && init && hx && sp) {
			size_t al = strtoul(init, NULL, 10) & 63, blen = strtoul(hx, NULL, 10), tot, j = 0; char *ins = sp;
			char *hx2 = strtok(NULL, " \n"); void *mem = NULL; uint8_t *all; uint16_t st;
			if (!hx2 || posix_memalign(&mem, 64, al + blen ? al + blen : 1) != 0) { puts("ERR"); continue; }
			all = unhex_alloc(hx2, &tot, 0);
			buf = (uint8_t *) mem + al;
			while (*ins && (j + 1) * blen <= tot) {
				st = (uint16_t) strtoul(ins, &ins, 10);
				if (*ins == ',') ++ins;
				memcpy(buf, all + j * blen, blen);
				lha_crc16_buf(&st, buf, blen);
				printf(j ? " %04x" : "%04x", st);
				++j;
			}
			printf("\n");
			free(all); free(mem);
			continue;
		}
		if (!cmd || !init || !hx || !sp) { puts("ERR"); continue; }
		raw = unhex_alloc(hx, &len, 8);
		off = caseno++ % 8;
		buf = raw + off;
		memmove(buf, raw, len);
		whole = (uint16_t) strtoul(init, NULL, 10);
		lha_crc16_buf(&whole, buf, len);
		pw = (uint16_t) strtoul(init, NULL, 10);
		pos = 0;
		if (strcmp(sp, "-")) {
			char *p = sp;
			while (*p) {
				size_t k = strtoul(p, &p, 10);
				if (k > len - pos) k = len - pos;
				lha_crc16_buf(&pw, buf + pos, k);
				pos += k;
				if (*p == ',') ++p;
			}
		}
		lha_crc16_buf(&pw, buf + pos, len - pos);
		printf("%04x %04x\n", whole, pw);
		free(raw);
	}
	free(line);
	return 0;
}

/* drv_members.c -- lists the members of archive files given on stdin (one
   path per line) as: M <path> <index> <method> <length> <crc> <hex of compressed data>
   Used only to harvest seed streams for the generators. */
#include <stdio.h>
#include <stdlib.h>
#include <string.h>
#include "lha_input_stream.h"
#include "lha_basic_reader.h"
#include "drv_util.h"

int main(void)
{
	char *line = NULL; size_t cap = 0; ssize_t n;
	setvbuf(stdout, NULL, _IOLBF, 0);   /* a line per case reaches the harness even if a later case is stopped by a sanitizer */
	while ((n = getline(&line, &cap, stdin)) > 0) {
		LHAInputStream *st; LHABasicReader *r; LHAFileHeader *h; unsigned idx = 0;
		line[strcspn(line, "\n")] = 0;
		st = lha_input_stream_from(line);
		if (!st) { printf("E %s\n", line); continue; }
		r = lha_basic_reader_new(st);
		while ((h = lha_basic_reader_next_file(r)) != NULL) {
			size_t want = h->compressed_length, got = 0, k;
			uint8_t *buf = malloc(want ? want : 1);
			while (got < want && (k = lha_basic_reader_read_compressed(r, buf + got, want - got)) > 0) got += k;
			printf("M %s %u %s %lu %u ", line, idx++, h->compress_method, (unsigned long) h->length, (unsigned) h->crc);
			print_hex(buf, got);
			printf("\n");
			free(buf);
		}
		lha_basic_reader_free(r);
		lha_input_stream_free(st);
		printf("END %s\n", line);
	}
	return 0;
}

/* drv_cli.c -- the real command-line tool's side of the differential test of
   coq/CliMain.v, coq/CliExtract.v, coq/CliFilter.v: `lha <arguments>` run
   inside a fresh scratch tree, with given standard input.

   One case per input line:
     cli <uid0> <now> <mtime> <argv> <hex archive> <hex stdin> <set-up ops ...>
       uid0     0: run as uid/gid 65534;  1: run as root (inside the jail)
       now      TEST_NOW_TIME (src/list.c, -DTEST_BUILD)
       mtime    modification time given to the archive file
       argv     argv[1..] as a comma list of hex strings ("-": none; "e": the
                empty argument); argv[0] is "lha"
       archive  written to S/arc/a.lzh (0644 in a 0755 directory, both root's)
       stdin    delivered through a pipe that is closed after it
       set-up   operations of the `fs` language of drv_fs.c, executed (silently)
                by the same process, inside the jail, before the tool starts
   The tool is src/main.c's main() itself (included below under the name
   lha_main, linked with the rest of src/ and lib/ from the working tree, built
   with the sanitizers) called in a forked child: an executable could not be
   started inside the jail (no dynamic loader there).  The child chroot()s into
   S, chdir()s to /root, becomes uid 65534 (unless uid0), umask 022, TZ=UTC,
   executes the set-up operations, redirects stdin / stdout / stderr and calls
   lha_main; whatever way the tool ends (return, exit(-1), sanitizer report,
   signal) the parent reports the status, the two output files and the dump of
   the whole tree of S (drv_fsutil.h):

     rc=<exit status | SIG<n>> out=<hex> err=<hex> |<dump>

   A child that runs for more than 10 seconds is killed (rc=SIG14).
   The driver reads its case lines through its own FILE so that nothing of
   them is ever in the buffer of `stdin`, which belongs to the tool. */
#define _GNU_SOURCE
#include <stdio.h>
#include <stdlib.h>
#include <string.h>
#include <stdint.h>
#include <errno.h>
#include <fcntl.h>
#include <unistd.h>
#include <utime.h>
#include <sys/stat.h>
#include <sys/types.h>
#include <sys/wait.h>
#include "drv_util.h"
#include "drv_fsutil.h"

int lha_main(int argc, char *argv[]);

/* ---- the set-up operations: drv_fs.c's, without output ---- */

static int op_fopen(const char *filename, int unix_perms, const uint8_t *data, size_t len)
{
	int fd;
	FILE *fstream;
	unlink(filename);
	fd = open(filename, O_CREAT|O_WRONLY|O_EXCL, 0600);
	if (fd < 0) return 0;
	if (unix_perms >= 0) {
		if (fchmod(fd, unix_perms) != 0) {
			close(fd);
			remove(filename);
			return 0;
		}
	}
	fstream = fdopen(fd, "wb");
	if (fstream == NULL) {
		close(fd);
		remove(filename);
		return 0;
	}
	if (len > 0) fwrite(data, 1, len, fstream);
	fclose(fstream);
	return 1;
}

static char *unhex_str(const char *hx)
{
	size_t len;
	char *r = (char *) unhex_alloc(hx, &len, 1);
	r[len] = 0;
	return r;
}

/* returns 0 on a malformed operation list */
static int run_setup(char **tok, int n)
{
	int i = 0;
	while (i < n) {
		const char *op = tok[i];
		int left = n - i - 1;
		if (!strcmp(op, "mkdir") && left >= 2) {
			char *p = unhex_str(tok[i+1]);
			mkdir(p, (mode_t) strtoul(tok[i+2], NULL, 10));
			free(p); i += 3;
		} else if (!strcmp(op, "unlink") && left >= 1) {
			char *p = unhex_str(tok[i+1]);
			unlink(p);
			free(p); i += 2;
		} else if (!strcmp(op, "fopen") && left >= 3) {
			char *p = unhex_str(tok[i+1]);
			size_t len; uint8_t *d = unhex_alloc(tok[i+3], &len, 1);
			op_fopen(p, (int) strtol(tok[i+2], NULL, 10), d, len);
			free(p); free(d); i += 4;
		} else if (!strcmp(op, "symlink") && left >= 2) {
			char *p = unhex_str(tok[i+1]), *t = unhex_str(tok[i+2]);
			unlink(p);
			symlink(t, p);
			free(p); free(t); i += 3;
		} else if (!strcmp(op, "chmod") && left >= 2) {
			char *p = unhex_str(tok[i+1]);
			chmod(p, (mode_t) strtoul(tok[i+2], NULL, 10));
			free(p); i += 3;
		} else if (!strcmp(op, "utime") && left >= 2) {
			char *p = unhex_str(tok[i+1]);
			struct utimbuf times;
			times.actime = times.modtime = (time_t) strtoul(tok[i+2], NULL, 10);
			utime(p, &times);
			free(p); i += 3;
		} else {
			return 0;
		}
	}
	return 1;
}

/* ---- one case ---- */

static int tmp_fd(const char *dir)
{
	char path[4200]; int fd;
	snprintf(path, sizeof path, "%s/clidrv-io.XXXXXX", dir);
	fd = mkstemp(path);
	if (fd < 0) { perror("mkstemp"); exit(3); }
	unlink(path);
	return fd;
}

static void print_fd(int fd)
{
	uint8_t buf[65536]; ssize_t k; int any = 0;
	lseek(fd, 0, SEEK_SET);
	while ((k = read(fd, buf, sizeof buf)) > 0) {
		ssize_t i;
		for (i = 0; i < k; ++i) printf("%02x", buf[i]);
		any = 1;
	}
	if (!any) putchar('-');
}

static void run_case(char *line)
{
	char **tok = NULL; int n = 0, cap = 0, uid0;
	char scratch[4096], base[4096];
	char *t, *slash; int home, outfd, errfd, inpipe[2];
	char **argv = NULL; int argc = 0, acap = 0;
	uint8_t *arc, *inp; size_t arclen, inplen;
	pid_t pid; int status = 0;

	for (t = strtok(line, " \n"); t; t = strtok(NULL, " \n")) {
		if (n == cap) { cap = cap ? 2 * cap : 32; tok = realloc(tok, cap * sizeof *tok); }
		tok[n++] = t;
	}
	if (n < 7 || strcmp(tok[0], "cli")) { puts("ERR args"); free(tok); return; }
	uid0 = !strcmp(tok[1], "1");

	/* argv */
	argv = malloc((acap = 8) * sizeof *argv);
	argv[argc++] = strdup("lha");
	if (strcmp(tok[4], "-")) {
		char *save = NULL, *a, *list = strdup(tok[4]);
		for (a = strtok_r(list, ",", &save); a; a = strtok_r(NULL, ",", &save)) {
			if (argc + 2 > acap) { acap *= 2; argv = realloc(argv, acap * sizeof *argv); }
			argv[argc++] = !strcmp(a, "e") ? strdup("") : unhex_str(a);
		}
		free(list);
	}
	argv[argc] = NULL;
	arc = unhex_alloc(tok[5], &arclen, 1);
	inp = unhex_alloc(tok[6], &inplen, 1);

	home = fsu_enter_scratch(scratch, "clidrv");
	/* the archive */
	make_dir("arc", 0755);
	{
		int fd = open("arc/a.lzh", O_CREAT|O_WRONLY|O_EXCL, 0600);
		struct utimbuf times;
		if (fd < 0 || write(fd, arc, arclen) != (ssize_t) arclen) { perror("archive"); exit(3); }
		fchmod(fd, 0644);
		close(fd);
		times.actime = times.modtime = (time_t) strtoul(tok[3], NULL, 10);
		utime("arc/a.lzh", &times);
	}
	strcpy(base, scratch);
	slash = strrchr(base, '/');
	*slash = 0;
	outfd = tmp_fd(base[0] ? base : "/");
	errfd = tmp_fd(base[0] ? base : "/");
	if (pipe(inpipe) != 0) { perror("pipe"); exit(3); }
	fcntl(inpipe[1], F_SETPIPE_SZ, 1 << 20);
	if (inplen > 0 && write(inpipe[1], inp, inplen) != (ssize_t) inplen) { perror("stdin pipe"); exit(3); }
	close(inpipe[1]);
	fflush(stdout);

	pid = fork();
	if (pid < 0) { perror("fork"); exit(3); }
	if (pid == 0) {
		int rc;
		alarm(10);
		fsu_jail(uid0);
		setenv("TZ", "UTC", 1); tzset();
		setenv("TEST_NOW_TIME", tok[2], 1);
		if (!run_setup(tok + 7, n - 7)) _exit(7);
		if (dup2(inpipe[0], 0) < 0 || dup2(outfd, 1) < 0 || dup2(errfd, 2) < 0) _exit(8);
		close(inpipe[0]); close(outfd); close(errfd);
		if (home >= 0) close(home);
		/* marker for a system-call trace (strace): everything after it is the tool's */
		(void) access("/.verif-tool-starts-here", F_OK);
		rc = lha_main(argc, argv);
		exit(rc);
	}
	close(inpipe[0]);
	waitpid(pid, &status, 0);
	if (WIFEXITED(status)) printf("rc=%d", WEXITSTATUS(status));
	else if (WIFSIGNALED(status)) printf("rc=SIG%d", WTERMSIG(status));
	else printf("rc=?%d", status);
	fputs(" out=", stdout); print_fd(outfd);
	fputs(" err=", stdout); print_fd(errfd);
	putchar(' ');
	close(outfd); close(errfd);
	fsu_dump_and_remove(scratch, home);
	{ int i; for (i = 0; i < argc; ++i) free(argv[i]); }
	free(argv); free(arc); free(inp); free(tok);
}

int main(int argc, char **argv)
{
	char *line = NULL; size_t cap = 0; ssize_t n;
	FILE *in;
	fsu_init();
	if (argc > 1 && !strcmp(argv[1], "--probe")) {
		puts(privileged ? "chroot" : "plain");
		return 0;
	}
	if (!privileged) { fputs("drv_cli: must be started as root (chroot)\n", stderr); return 2; }
	in = fdopen(dup(0), "r");
	if (in == NULL) { perror("fdopen"); return 3; }
	{ int nul = open("/dev/null", O_RDONLY); if (nul >= 0) { dup2(nul, 0); close(nul); } }
	while ((n = getline(&line, &cap, in)) > 0) {
		run_case(line);
		fflush(stdout);
	}
	free(line);
	return 0;
}

/* ---- the tool's main() under another name ---- */
#define main lha_main
#include "main.c"

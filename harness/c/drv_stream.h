/* drv_stream.h -- the four kinds of input stream used by the drivers (file | pipe | cbskip | cbnoskip), and
   "owned": a named file opened by the library itself (lha_input_stream_from). */
#ifndef DRV_STREAM_H
#define DRV_STREAM_H
#include <stdio.h>
#include <stdlib.h>
#include <string.h>
#include <unistd.h>
#include <sys/wait.h>
#include "lha_input_stream.h"
#include "drv_util.h"

#ifdef LHASA_VERIF
void verif_alloc_begin(unsigned long k);
void verif_alloc_end(FILE *out);
static unsigned long drv_fail_at;        /* set by the driver before drv_stream_open */
#define DRV_ALLOC_BEGIN() verif_alloc_begin(drv_fail_at)
#define DRV_ALLOC_END() verif_alloc_end(stdout)
#else
#define DRV_ALLOC_BEGIN() ((void) 0)
#define DRV_ALLOC_END() ((void) 0)
#endif

typedef struct {
	LHAInputStream *stream;
	uint8_t *data; size_t len, pos;
	unsigned long reads, skips;
	int is_cb;
	FILE *fh; pid_t child; char path[64];
} DrvStream;

static int ds_read(void *handle, void *buf, size_t buf_len)
{
	DrvStream *d = handle; size_t k = buf_len;
	++d->reads;
	if (k > d->len - d->pos) k = d->len - d->pos;
	memcpy(buf, d->data + d->pos, k);
	d->pos += k;
	return (int) k;
}
static int ds_skip(void *handle, size_t bytes)
{
	DrvStream *d = handle;
	++d->skips;
	if (bytes <= d->len - d->pos) { d->pos += bytes; return 1; }
	d->pos = d->len;
	return 0;
}
/* a skip callback that REFUSES a skip beyond the end of its data without moving ("zero for failure" is all the interface
   asks of it): what follows a refused skip is still unread.  C only: the extracted model has no such kind */
static int ds_skip_stay(void *handle, size_t bytes)
{
	DrvStream *d = handle;
	++d->skips;
	if (bytes <= d->len - d->pos) { d->pos += bytes; return 1; }
	return 0;
}
static const LHAInputStreamType ds_type_skip_stay = { ds_read, ds_skip_stay, NULL };
static const LHAInputStreamType ds_type_skip = { ds_read, ds_skip, NULL };
static const LHAInputStreamType ds_type_noskip = { ds_read, NULL, NULL };

static int drv_stream_open(DrvStream *d, const char *kind, const char *hx)
{
	memset(d, 0, sizeof(*d));
	d->data = unhex_alloc(hx, &d->len, 0);
	if (!strcmp(kind, "cbskip")) { d->is_cb = 1; DRV_ALLOC_BEGIN(); d->stream = lha_input_stream_new(&ds_type_skip, d); }
	else if (!strcmp(kind, "cbskipstay")) { d->is_cb = 1; DRV_ALLOC_BEGIN(); d->stream = lha_input_stream_new(&ds_type_skip_stay, d); }
	else if (!strcmp(kind, "cbnoskip")) { d->is_cb = 1; DRV_ALLOC_BEGIN(); d->stream = lha_input_stream_new(&ds_type_noskip, d); }
	else if (!strcmp(kind, "file")) {
		static unsigned serial;           /* two streams of one process must not share the file */
		snprintf(d->path, sizeof(d->path), "/dev/shm/drvhdr_%d_%u.bin", (int) getpid(), ++serial);
		d->fh = fopen(d->path, "wb"); if (!d->fh) return 0;
		fwrite(d->data, 1, d->len, d->fh); fclose(d->fh);
		d->fh = fopen(d->path, "rb"); if (!d->fh) return 0;
		DRV_ALLOC_BEGIN();
		d->stream = lha_input_stream_from_FILE(d->fh);
	} else if (!strcmp(kind, "owned")) {
		/* the library opens the file itself (lha_input_stream_from) and closes it when the stream is freed;
		   C only: the extracted model has no such kind */
		static unsigned oserial;
		FILE *w;
		snprintf(d->path, sizeof(d->path), "/dev/shm/drvown_%d_%u.bin", (int) getpid(), ++oserial);
		w = fopen(d->path, "wb"); if (!w) return 0;
		fwrite(d->data, 1, d->len, w); fclose(w);
		DRV_ALLOC_BEGIN();
		d->stream = lha_input_stream_from(d->path);
	} else if (!strcmp(kind, "pipe")) {
		int fds[2];
		if (pipe(fds) != 0) return 0;
		fflush(stdout);
		d->child = fork();
		if (d->child == 0) {
			size_t off = 0; ssize_t w;
			close(fds[0]);
			while (off < d->len && (w = write(fds[1], d->data + off, d->len - off)) > 0) off += (size_t) w;
			_exit(0);
		}
		close(fds[1]);
		d->fh = fdopen(fds[0], "rb");
		DRV_ALLOC_BEGIN();
		d->stream = lha_input_stream_from_FILE(d->fh);
	} else return 0;
	return d->stream != NULL;
}

/* without the reads=/skips= report */
static void drv_stream_close_quiet(DrvStream *d)
{
	if (d->stream) lha_input_stream_free(d->stream);
	if (d->fh) fclose(d->fh);
	if (d->child > 0) { int st; waitpid(d->child, &st, 0); }
	if (d->path[0]) unlink(d->path);
	free(d->data);
}

static void drv_stream_close(DrvStream *d)
{
	if (d->stream) lha_input_stream_free(d->stream);
	DRV_ALLOC_END();
	if (d->fh) fclose(d->fh);
	if (d->child > 0) { int st; waitpid(d->child, &st, 0); }
	if (d->path[0]) unlink(d->path);
	if (d->is_cb) printf(" reads=%lu skips=%lu", d->reads, d->skips); else printf(" reads=- skips=-");
	free(d->data);
}
#endif

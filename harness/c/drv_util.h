/* drv_util.h -- helpers shared by the C drivers. */
#ifndef DRV_UTIL_H
#define DRV_UTIL_H
#include <stdlib.h>
#include <string.h>
#include <stdint.h>
#include <stdio.h>

static int hexval(int c)
{
	if (c >= '0' && c <= '9') return c - '0';
	if (c >= 'a' && c <= 'f') return c - 'a' + 10;
	if (c >= 'A' && c <= 'F') return c - 'A' + 10;
	return -1;
}

/* "-" is the empty string.  Allocates len + slack bytes exactly (so ASan sees
   overruns past the slack). */
static uint8_t *unhex_alloc(const char *hx, size_t *len, size_t slack)
{
	size_t l, i; uint8_t *r;
	if (!strcmp(hx, "-")) { *len = 0; return malloc(slack ? slack : 1); }
	l = strlen(hx) / 2;
	r = malloc(l + slack ? l + slack : 1);
	for (i = 0; i < l; ++i) r[i] = (uint8_t) (hexval(hx[2*i]) * 16 + hexval(hx[2*i+1]));
	*len = l;
	return r;
}

static void print_hex(const uint8_t *b, size_t n)
{
	size_t i;
	if (n == 0) { fputs("-", stdout); return; }
	for (i = 0; i < n; ++i) printf("%02x", b[i]);
}
#endif

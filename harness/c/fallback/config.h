/* config.h.  Generated from config.hin by configure.  */
/* config.hin.  Generated from configure.ac by autoheader.  */

/* Define to 1 if you have the <dlfcn.h> header file. */
#define HAVE_DLFCN_H 1

/* Define to 1 if you have the <inttypes.h> header file. */
#define HAVE_INTTYPES_H 1

/* Define to 1 if you have the <stdint.h> header file. */
#define HAVE_STDINT_H 1

/* Define to 1 if you have the <stdio.h> header file. */
#define HAVE_STDIO_H 1

/* Define to 1 if you have the <stdlib.h> header file. */
#define HAVE_STDLIB_H 1

/* Define to 1 if you have the <strings.h> header file. */
#define HAVE_STRINGS_H 1

/* Define to 1 if you have the <string.h> header file. */
#define HAVE_STRING_H 1

/* Define to 1 if you have the <sys/stat.h> header file. */
#define HAVE_SYS_STAT_H 1

/* Define to 1 if you have the <sys/types.h> header file. */
#define HAVE_SYS_TYPES_H 1

/* Define to 1 if you have the <unistd.h> header file. */
#define HAVE_UNISTD_H 1

/* Define to the sub-directory where libtool stores uninstalled libraries. */
#define LT_OBJDIR ".libs/"

/* Define to the address where bug reports for this package should be sent. */
#define PACKAGE_BUGREPORT "fraggle@gmail.com"

/* Define to the full name of this package. */
#define PACKAGE_NAME "Lhasa"

/* Define to the full name and version of this package. */
#define PACKAGE_STRING "Lhasa 0.4.0"

/* Define to the one symbol short name of this package. */
#define PACKAGE_TARNAME "lhasa"

/* Define to the home page for this package. */
#define PACKAGE_URL ""

/* Define to the version of this package. */
#define PACKAGE_VERSION "0.4.0"

/* Define to 1 if all of the C90 standard headers exist (not just the ones
   required in a freestanding environment). This macro is provided for
   backward compatibility; new code need not use it. */
#define STDC_HEADERS 1

/* drv_dec.c -- runs the decoder API of /repo on case lines:
     dec <method> <hex> <cb chunks|-> <declared len> <reads> <monitor_at> <junk>
   reads: comma list of k or k*count.  cb chunks: comma list cycled.
   Output: r=<sizes> h=<fnv64 of returned bytes> len=<n> crc=<hex4> ev=<count>:<fnv64> [hex=...] */
#include <stdio.h>
#include <stdlib.h>
#include <string.h>
#include <stdint.h>
#include "lha_decoder.h"
#include "drv_util.h"

typedef struct {
	uint8_t *data; size_t len, pos;
	size_t chunks[64]; unsigned nchunks, ci;
	int junk;
} Src;

static size_t src_cb(void *buf, size_t buf_len, void *user)
{
	Src *s = user; size_t k = buf_len;
	if (s->junk >= 0 && buf_len > 0) memset(buf, s->junk, buf_len);
	if (s->nchunks) { size_t c = s->chunks[s->ci]; s->ci = (s->ci + 1) % s->nchunks; if (c < k) k = c; }
	if (k > s->len - s->pos) k = s->len - s->pos;
	memcpy(buf, s->data + s->pos, k);
	s->pos += k;
	return k;
}

static uint16_t icrc_step(uint16_t c, uint8_t b)
{
	int i; c ^= b;
	for (i = 0; i < 8; ++i) c = (c & 1) ? (uint16_t) ((c >> 1) ^ 0xA001) : (uint16_t) (c >> 1);
	return c;
}
static uint64_t evh; static unsigned long evn;
static void fnv(uint64_t *h, uint64_t v) { int i; for (i = 0; i < 8; ++i) { *h ^= (v >> (8*i)) & 0xff; *h *= 1099511628211ULL; } }
static void progress_cb(unsigned int block, unsigned int total, void *user)
{
	(void) user; ++evn; fnv(&evh, block); fnv(&evh, total);
}

int main(void)
{
	char *line = NULL; size_t cap = 0; ssize_t n;
	/* one output line per case, flushed at once: when a sanitizer stops the process inside case k, exactly the k
	   lines before it have been written and the caller attributes the crash to the right case */
	setvbuf(stdout, NULL, _IOLBF, 0);
	while ((n = getline(&line, &cap, stdin)) > 0) {
		char *cmd = strtok(line, " \n"), *meth = strtok(NULL, " \n"), *hx = strtok(NULL, " \n");
		char *chunks = strtok(NULL, " \n"), *dl = strtok(NULL, " \n"), *reads = strtok(NULL, " \n");
		char *mon = strtok(NULL, " \n"), *junk = strtok(NULL, " \n");
		Src src; LHADecoderType *dt; LHADecoder *dec; uint64_t h = 14695981039346656037ULL;
		size_t total = 0; long monitor_at; uint16_t icrc = 0; unsigned long readno = 0; char *p;
		uint8_t *small = NULL; size_t small_len = 0; const size_t SMALL = 96;
		if (!cmd || !junk) { puts("ERR args"); continue; }
		memset(&src, 0, sizeof(src));
		src.data = unhex_alloc(hx, &src.len, 0);
		src.junk = atoi(junk);
		if (strcmp(chunks, "-")) {
			p = chunks;
			while (*p && src.nchunks < 64) { src.chunks[src.nchunks++] = strtoul(p, &p, 10); if (*p == ',') ++p; }
		}
		dt = lha_decoder_for_name(meth);
		if (dt == NULL) { puts("NODECODER"); free(src.data); continue; }
		dec = lha_decoder_new(dt, src_cb, &src, strtoul(dl, NULL, 10));
		if (dec == NULL) { puts("INITFAIL"); free(src.data); continue; }
		monitor_at = atol(mon);
		evh = 14695981039346656037ULL; evn = 0;
		small = malloc(SMALL);
		fputs("r=", stdout);
		p = reads;
		while (*p) {
			size_t k = strtoul(p, &p, 10), cnt = 1, j;
			if (*p == '*') { ++p; cnt = strtoul(p, &p, 10); }
			if (*p == ',') ++p;
			for (j = 0; j < cnt; ++j) {
				uint8_t *buf = malloc(k ? k : 1); size_t got, i;
				if ((long) readno == monitor_at) lha_decoder_monitor(dec, progress_cb, NULL);
				got = lha_decoder_read(dec, buf, k);
				if (got > k) { printf("OVERREAD(%zu>%zu)", got, k); got = k; }
				for (i = 0; i < got; ++i) { h ^= buf[i]; h *= 1099511628211ULL; icrc = icrc_step(icrc, buf[i]); if (small_len < SMALL) small[small_len++] = buf[i]; }
				total += got;
				printf("%s%zu", readno ? "," : "", got);
				free(buf);
				++readno;
			}
		}
		if ((long) readno == monitor_at) lha_decoder_monitor(dec, progress_cb, NULL);
		printf(" h=%016llx len=%zu crc=%04x icrc=%04x ev=%lu:%016llx", (unsigned long long) h,
		       lha_decoder_get_length(dec), (unsigned) lha_decoder_get_crc(dec), (unsigned) icrc, evn, (unsigned long long) evh);
		fputs(" hex=", stdout); print_hex(small, small_len);
		printf(" in=%zu\n", src.pos);
		lha_decoder_free(dec);
		free(small); free(src.data);
	}
	free(line);
	return 0;
}

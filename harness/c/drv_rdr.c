/* drv_rdr.c -- the real library's side of the differential test of
   coq/Reader.v, coq/MacBinary.v, coq/AnyDecoder.v: sequences of calls of the
   public LHAReader API (lib/lha_reader.c) on an archive, with extraction into
   a fresh scratch tree.

   One case per input line:   rdr <kind> <policy> <junk> <hex archive> <ops>
     kind    file | pipe | cbskip | cbnoskip     (drv_stream.h)
     policy  plain | eod | eof                   lha_reader_set_dir_policy
     junk    ignored, must be 0.  The decoders' input callback here is the
             library's own (decoder_callback in lha_basic_reader.c), so the
             bytes of a callback buffer that the callback does not write cannot
             be pre-filled by the driver: they are whatever the stack holds.
             The only decoder that looks at such bytes is -lz5- (a 2-byte copy
             command of which only 1 byte is left in the member): the
             generator never lets a -lz5- member end in the middle of a copy
             command, and the model is run with junk = 0.
     ops     comma list, executed in order ("-" = none):
       n          lha_reader_next_file; prints the header (print_header of
                  drv_hdrprint.h) and fake=<lha_reader_current_is_fake>, or NULL
       r<k>       lha_reader_read of k bytes into a malloc(k) buffer; prints
                  count:fnv64:first 16 bytes
       c  / cm    lha_reader_check without / with a progress callback
       x  / xm    lha_reader_extract(reader, NULL, ...) without / with callback
       xf<hex>    lha_reader_extract(reader, <name>, NULL, NULL)
                  ("xf-" is the empty name)
     After every op that invoked the progress callback (and always after
     cm/xm): ev=<number of invocations>:<fnv64 of (block,total) pairs>.
   Then the reader and the stream are freed.

   Extraction touches the real filesystem: every case runs in a fresh scratch
   tree exactly like drv_fs.c (drv_fsutil.h): the parent prepares S and forks;
   the child opens the input stream (still outside: the "file" kind needs
   /dev/shm), chroot()s into S, chdir()s to /root, drops to uid/gid 65534,
   umask 022, and executes the ops.  The parent then dumps the whole tree of S
   and removes it.  A child that dies (sanitizer report, signal) yields
   "CHILD-FAILED-<wait status>" in the output line; the driver carries on with
   the next case.  A child that runs for more than 10 seconds is killed
   (CHILD-FAILED-14: SIGALRM).
   When started as an ordinary user there is no chroot and no fork
   (`drv_rdr --probe` prints "plain"); the generator then avoids absolute
   paths, paths that climb above the scratch directory and the foreign part.
   `drv_rdr --leaks` (plain mode only; LeakSanitizer needs /proc and ptrace,
   which the jail does not have) runs the library part of every case in a
   forked child that ends with LeakSanitizer's recoverable check and prints
   LEAK=<0/1> (the report goes to stderr).

   Output line:  <op results separated by " ; "> ; E reads=.. skips=.. |<dump of S>  */
#define _GNU_SOURCE
#include <stdio.h>
#include <stdlib.h>
#include <string.h>
#include <stdint.h>
#include <unistd.h>
#include <sys/wait.h>
#include "lha_input_stream.h"
#include "public/lha_reader.h"
#include "drv_util.h"
#include "drv_stream.h"
#include "drv_hdrprint.h"
#include "drv_fsutil.h"

#if defined(__has_feature)
#if __has_feature(address_sanitizer)
#define HAVE_LSAN 1
int __lsan_do_recoverable_leak_check(void);
#endif
#endif

static int leaks_mode;

/* -DLHASA_VERIF (linked with verif_alloc.c and the --wrap options of common.WRAP):
   the 4th field of the case line is the index of the allocation request that
   fails (0 = none), " lb=<live heap blocks of the library>" is printed after every
   op and after lha_reader_free, and drv_stream_close prints the ALLOC summary.
   The driver's own buffers are allocated with the accounting suspended. */
#ifdef LHASA_VERIF
void verif_alloc_suspend(void);
void verif_alloc_resume(void);
unsigned long verif_alloc_live(void);
unsigned long verif_alloc_requests(void);
/* lb = live heap blocks of the library; rq = allocation requests made so far (tells in which call the failing one fell) */
#define LB() printf(" lb=%lu rq=%lu", verif_alloc_live(), verif_alloc_requests())
#define SUSPEND() verif_alloc_suspend()
#define RESUME() verif_alloc_resume()
#else
#define LB() ((void) 0)
#define SUSPEND() ((void) 0)
#define RESUME() ((void) 0)
#endif

static uint64_t evh; static unsigned long evn;
static void fnv(uint64_t *h, uint64_t v) { int i; for (i = 0; i < 8; ++i) { *h ^= (v >> (8*i)) & 0xff; *h *= 1099511628211ULL; } }
static void progress_cb(unsigned int block, unsigned int total, void *user)
{
	(void) user; ++evn; fnv(&evh, block); fnv(&evh, total);
}
static void ev_reset(void) { evh = 14695981039346656037ULL; evn = 0; }
static void ev_print(int always)
{
	if (always || evn) printf(" ev=%lu:%016llx", evn, (unsigned long long) evh);
}

static void run_ops(LHAReader *reader, char *ops)
{
	char *op, *save = NULL;
	if (!strcmp(ops, "-")) return;
	for (op = strtok_r(ops, ",", &save); op; op = strtok_r(NULL, ",", &save)) {
		ev_reset();
		if (!strcmp(op, "n")) {
			LHAFileHeader *h = lha_reader_next_file(reader);
			if (h == NULL) fputs("n:NULL", stdout);
			else { fputs("n:", stdout); print_header(h); printf(" fake=%d", lha_reader_current_is_fake(reader)); }
			ev_print(0);
		} else if (op[0] == 'r') {
			size_t k = strtoul(op + 1, NULL, 10), got, i;
			uint8_t *buf;
			uint64_t h = 14695981039346656037ULL;
			SUSPEND(); buf = malloc(k ? k : 1); RESUME();
			got = lha_reader_read(reader, buf, k);
			if (got > k) { printf("OVERREAD(%zu>%zu)", got, k); got = k; }
			for (i = 0; i < got; ++i) { h ^= buf[i]; h *= 1099511628211ULL; }
			printf("r=%zu:%016llx:", got, (unsigned long long) h);
			print_hex(buf, got < 16 ? got : 16);
			SUSPEND(); free(buf); RESUME();
			ev_print(0);
		} else if (!strcmp(op, "c")) {
			printf("c=%d", lha_reader_check(reader, NULL, NULL));
			ev_print(0);
		} else if (!strcmp(op, "cm")) {
			printf("cm=%d", lha_reader_check(reader, progress_cb, NULL));
			ev_print(1);
		} else if (!strcmp(op, "x")) {
			printf("x=%d", lha_reader_extract(reader, NULL, NULL, NULL));
			ev_print(0);
		} else if (!strcmp(op, "xm")) {
			printf("xm=%d", lha_reader_extract(reader, NULL, progress_cb, NULL));
			ev_print(1);
		} else if (op[0] == 'x' && op[1] == 'f') {
			size_t len; char *name;
			SUSPEND(); name = (char *) unhex_alloc(op + 2, &len, 1); RESUME();
			name[len] = 0;
			printf("xf=%d", lha_reader_extract(reader, name, NULL, NULL));
			SUSPEND(); free(name); RESUME();
			ev_print(0);
		} else {
			fputs("BADOP", stdout);
		}
		LB();
		fputs(" ; ", stdout);
		fflush(stdout);     /* what was printed survives a crash in a later op */
	}
}

/* everything that uses the library, for one case; the current directory is
   the scratch directory S (still outside the jail) */
static void library_part(const char *kind, const char *policy, const char *junk, const char *hx, char *ops, int jail)
{
	DrvStream ds; LHAReader *reader;
#ifdef LHASA_VERIF
	drv_fail_at = strtoul(junk, NULL, 10);
	if (!drv_stream_open(&ds, kind, hx)) {
		fputs("ERR stream ", stdout);
		if (ds.path[0]) { unlink(ds.path); ds.path[0] = 0; }
		drv_stream_close(&ds); putchar(' ');
		return;
	}
#else
	(void) junk;
	if (!drv_stream_open(&ds, kind, hx)) { fputs("ERR stream ", stdout); return; }
#endif
	/* the "file" kind reads an open FILE: its name is not needed any more
	   (and would be out of reach inside the jail) */
	if (ds.path[0]) { unlink(ds.path); ds.path[0] = 0; }
	if (jail) fsu_jail(0);
	else { if (chdir("root") != 0) { perror("chdir root"); exit(3); } umask(022); }
	reader = lha_reader_new(ds.stream);
	if (reader == NULL) { fputs("ERR reader ", stdout); drv_stream_close(&ds); return; }
	if (!strcmp(policy, "plain")) lha_reader_set_dir_policy(reader, LHA_READER_DIR_PLAIN);
	else if (!strcmp(policy, "eod")) lha_reader_set_dir_policy(reader, LHA_READER_DIR_END_OF_DIR);
	else if (!strcmp(policy, "eof")) lha_reader_set_dir_policy(reader, LHA_READER_DIR_END_OF_FILE);
	/* anything else: the default policy of lha_reader_new */
	run_ops(reader, ops);
	lha_reader_free(reader);
	fputs("E", stdout);
	LB();
	drv_stream_close(&ds);
	putchar(' ');
}

static void run_case(char *line)
{
	char *cmd = strtok(line, " \n"), *kind = strtok(NULL, " \n"), *policy = strtok(NULL, " \n");
	char *junk = strtok(NULL, " \n"), *hx = strtok(NULL, " \n"), *ops = strtok(NULL, " \n");
	char scratch[4096]; int home;
	if (!cmd || strcmp(cmd, "rdr") || !kind || !policy || !junk || !hx || !ops) { puts("ERR args"); return; }

	home = fsu_enter_scratch(scratch, "rdrdrv");
	fflush(stdout);

	if (privileged) {
		pid_t pid = fork();
		int status = 0;
		if (pid < 0) { perror("fork"); exit(3); }
		if (pid == 0) {
			alarm(10);      /* a case that hangs is killed: CHILD-FAILED-14 (SIGALRM) */
			library_part(kind, policy, junk, hx, ops, 1);
			fflush(stdout);
			_exit(0);
		}
		waitpid(pid, &status, 0);
		if (!WIFEXITED(status) || WEXITSTATUS(status) != 0)
			printf(" CHILD-FAILED-%d ", status);
	} else if (leaks_mode) {
		/* one process per case, so that a leak report belongs to the case */
		pid_t pid = fork();
		int status = 0;
		if (pid < 0) { perror("fork"); exit(3); }
		if (pid == 0) {
			alarm(10);
			library_part(kind, policy, junk, hx, ops, 0);
#ifdef HAVE_LSAN
			printf("LEAK=%d ", __lsan_do_recoverable_leak_check() ? 1 : 0);
#endif
			fflush(stdout);
			_exit(0);
		}
		waitpid(pid, &status, 0);
		if (!WIFEXITED(status) || WEXITSTATUS(status) != 0)
			printf(" CHILD-FAILED-%d ", status);
	} else {
		library_part(kind, policy, junk, hx, ops, 0);
	}
	fsu_dump_and_remove(scratch, home);
}

int main(int argc, char **argv)
{
	char *line = NULL; size_t cap = 0; ssize_t n;
	int i;
	fsu_init();
	for (i = 1; i < argc; ++i) {
		if (!strcmp(argv[i], "--probe")) { puts(privileged ? "chroot" : "plain"); return 0; }
		if (!strcmp(argv[i], "--leaks")) leaks_mode = 1;
	}
	setenv("TZ", "UTC", 1); tzset();
	while ((n = getline(&line, &cap, stdin)) > 0) {
		run_case(line);
		fflush(stdout);
	}
	free(line);
	return 0;
}

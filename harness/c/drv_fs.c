/* drv_fs.c -- the real kernel's side of the differential test of coq/Fs.v.

   One case per input line:   fs [root] <op> <args> <op> <args> ...
     mkdir   <path> <mode>          mkdir(path, mode)
     exists  <path>                 stat(), classified like lha_arch_exists
     lstat   <path>                 lstat() (not used by lhasa: it observes path
                                    resolution that does not follow the last link)
     unlink  <path>                 unlink(path)
     fopen   <path> <perms|-1> <data>   lha_arch_fopen (without the fchown),
                                    then write the data and close
     symlink <path> <target>        unlink(path); symlink(target, path)
     chmod   <path> <mode>          chmod(path, mode)
     utime   <path> <t>             utime(path, {t, t})
     chown   <path> <uid> <gid>     chown(path, uid, gid)
   <path>, <target>, <data> are hex ("-" = empty); numbers are decimal.

   Every case runs in a fresh scratch directory S (mkdtemp under /dev/shm or
   $TMPDIR), removed afterwards, laid out as

     S/                 0755  ours       the model's "/"
     S/root/            0755  ours       the current directory of the operations
     S/outside/         0755  ours
     S/outside/f        0644  ours       contents "out"
     S/foreign/         1777  not ours   (like /tmp)
     S/foreign/rf       0644  not ours   contents "rf"
     S/foreign/rd/      0755  not ours
     S/foreign/rd/g     0666  not ours   contents "g"
     S/foreign/ww/      0777  not ours
     S/foreign/ww/h     0644  not ours   contents "h"
     S/foreign/priv/    0700  not ours
     S/foreign/priv/s   0644  not ours   contents "s"

   When started as root (the normal case) the parent prepares S, forks, and
   the child chroot()s into S (so that "/" really is S: absolute paths and
   absolute symlink targets are comparable with the model), chdir()s to
   /root, drops to uid/gid 65534 with no supplementary groups -- unless the
   case starts with the token "root" -- sets umask 022 and executes the
   operations.  The parent then dumps the tree of S (as root, so unreadable
   directories are no obstacle) and removes it.
   When started as an ordinary user there is no chroot and nothing is
   "not ours": `drv_fs --probe` prints "plain" instead of "chroot" and the
   test generator then avoids absolute paths and the foreign directory.

   Output line:  one token per operation (ok / fail, or NONE FILE DIRECTORY
   ERROR for exists, these or LINK for lstat), then " |", then the tree of S in preorder, children
   sorted bytewise:
     " D <path> <perm octal> <mtime>"  " F <path> <perm> <mtime> <data hex>"
     " L <path> <target hex>"
   <path> is the hex of the '/'-joined location below S ("-" for S itself);
   <mtime> is the decimal st_mtime if it is older than the start of the
   driver (i.e. it was set by utime) and "now" otherwise: the clock is the
   one thing the model cannot know. */
#define _GNU_SOURCE
#include <stdio.h>
#include <stdlib.h>
#include <string.h>
#include <stdint.h>
#include <errno.h>
#include <fcntl.h>
#include <unistd.h>
#include <dirent.h>
#include <grp.h>
#include <utime.h>
#include <time.h>
#include <sys/stat.h>
#include <sys/types.h>
#include <sys/wait.h>
#include "drv_util.h"

#define NOBODY 65534

static time_t T0;
static int privileged;

/* ---- the operations, composed exactly as in lib/lha_arch_unix.c ---- */

static int op_fopen(const char *filename, int unix_perms, const uint8_t *data, size_t len)
{
	int fd;
	FILE *fstream;
	unlink(filename);
	fd = open(filename, O_CREAT|O_WRONLY|O_EXCL, 0600);
	if (fd < 0) return 0;
	if (unix_perms >= 0) {
		if (fchmod(fd, unix_perms) != 0) {
			close(fd);
			remove(filename);
			return 0;
		}
	}
	fstream = fdopen(fd, "wb");
	if (fstream == NULL) {
		close(fd);
		remove(filename);
		return 0;
	}
	if (len > 0) fwrite(data, 1, len, fstream);
	fclose(fstream);
	return 1;
}

static const char *op_exists(const char *filename)
{
	struct stat statbuf;
	if (stat(filename, &statbuf) != 0) {
		if (errno == ENOENT) return "NONE";
		else return "ERROR";
	}
	if (S_ISDIR(statbuf.st_mode)) return "DIRECTORY";
	else return "FILE";
}

static const char *op_lstat(const char *filename)
{
	struct stat statbuf;
	if (lstat(filename, &statbuf) != 0) return errno == ENOENT ? "NONE" : "ERROR";
	if (S_ISDIR(statbuf.st_mode)) return "DIRECTORY";
	if (S_ISLNK(statbuf.st_mode)) return "LINK";
	return "FILE";
}

static int op_symlink(const char *path, const char *target)
{
	unlink(path);
	return symlink(target, path) == 0;
}

static int op_utime(const char *filename, unsigned int timestamp)
{
	struct utimbuf times;
	times.actime = (time_t) timestamp;
	times.modtime = (time_t) timestamp;
	return utime(filename, &times) == 0;
}

static char *unhex_str(const char *hx)
{
	size_t len;
	char *r = (char *) unhex_alloc(hx, &len, 1);
	r[len] = 0;
	return r;
}

static const char *okfail(int b) { return b ? "ok" : "fail"; }

/* executes the operations of one case; tokens tok[0..n) */
static void run_ops(char **tok, int n)
{
	int i = 0;
	while (i < n) {
		const char *op = tok[i];
		int left = n - i - 1;
		const char *res = "BADOP";
		if (!strcmp(op, "mkdir") && left >= 2) {
			char *p = unhex_str(tok[i+1]);
			res = okfail(mkdir(p, (mode_t) strtoul(tok[i+2], NULL, 10)) == 0);
			free(p); i += 3;
		} else if (!strcmp(op, "exists") && left >= 1) {
			char *p = unhex_str(tok[i+1]);
			res = op_exists(p);
			free(p); i += 2;
		} else if (!strcmp(op, "lstat") && left >= 1) {
			char *p = unhex_str(tok[i+1]);
			res = op_lstat(p);
			free(p); i += 2;
		} else if (!strcmp(op, "unlink") && left >= 1) {
			char *p = unhex_str(tok[i+1]);
			res = okfail(unlink(p) == 0);
			free(p); i += 2;
		} else if (!strcmp(op, "fopen") && left >= 3) {
			char *p = unhex_str(tok[i+1]);
			size_t len; uint8_t *d = unhex_alloc(tok[i+3], &len, 1);
			res = okfail(op_fopen(p, (int) strtol(tok[i+2], NULL, 10), d, len));
			free(p); free(d); i += 4;
		} else if (!strcmp(op, "symlink") && left >= 2) {
			char *p = unhex_str(tok[i+1]), *t = unhex_str(tok[i+2]);
			res = okfail(op_symlink(p, t));
			free(p); free(t); i += 3;
		} else if (!strcmp(op, "chmod") && left >= 2) {
			char *p = unhex_str(tok[i+1]);
			res = okfail(chmod(p, (mode_t) strtoul(tok[i+2], NULL, 10)) == 0);
			free(p); i += 3;
		} else if (!strcmp(op, "utime") && left >= 2) {
			char *p = unhex_str(tok[i+1]);
			res = okfail(op_utime(p, (unsigned int) strtoul(tok[i+2], NULL, 10)));
			free(p); i += 3;
		} else if (!strcmp(op, "chown") && left >= 3) {
			char *p = unhex_str(tok[i+1]);
			res = okfail(chown(p, (uid_t) strtol(tok[i+2], NULL, 10),
			                   (gid_t) strtol(tok[i+3], NULL, 10)) == 0);
			free(p); i += 4;
		} else {
			fputs("BADOP ", stdout);
			return;
		}
		fputs(res, stdout);
		putchar(' ');
	}
}

/* ---- scratch directory ---- */

static void put_file(const char *path, const char *data, mode_t mode)
{
	int fd = open(path, O_CREAT|O_WRONLY|O_EXCL, 0600);
	if (fd < 0) { perror(path); exit(3); }
	if (write(fd, data, strlen(data)) < 0) exit(3);
	fchmod(fd, mode);
	close(fd);
}

static void make_dir(const char *path, mode_t mode)
{
	if (mkdir(path, 0700) != 0) { perror(path); exit(3); }
	chmod(path, mode);
}

static void own(const char *path)
{
	if (privileged && chown(path, NOBODY, NOBODY) != 0) { perror("chown"); exit(3); }
}

/* called with the scratch directory as current directory */
static void populate(void)
{
	umask(0);
	make_dir("root", 0755); own("root");
	make_dir("outside", 0755); own("outside");
	put_file("outside/f", "out", 0644); own("outside/f");
	make_dir("foreign", 0700);
	put_file("foreign/rf", "rf", 0644);
	make_dir("foreign/rd", 0700);
	put_file("foreign/rd/g", "g", 0666);
	chmod("foreign/rd", 0755);
	make_dir("foreign/ww", 0777);
	put_file("foreign/ww/h", "h", 0644);
	make_dir("foreign/priv", 0700);
	put_file("foreign/priv/s", "s", 0644);
	chmod("foreign", 01777);
	chmod(".", 0755); own(".");
}

/* ---- dump and removal, relative to directory file descriptors ---- */

static int cmp_names(const void *a, const void *b)
{
	return strcmp(*(char *const *) a, *(char *const *) b);  /* bytewise, unsigned */
}

static void print_path(const char *rel, size_t len)
{
	print_hex((const uint8_t *) rel, len);
}

/* rel: location below S of the entry (dirfd, name); rel_len its length */
static void dump(int dirfd, const char *name, char **rel, size_t rel_len, size_t *rel_cap)
{
	struct stat st;
	if (fstatat(dirfd, name, &st, AT_SYMLINK_NOFOLLOW) != 0) { printf(" ?"); return; }
	if (S_ISLNK(st.st_mode)) {
		char *buf = malloc((size_t) st.st_size + 2);
		ssize_t k = readlinkat(dirfd, name, buf, (size_t) st.st_size + 1);
		printf(" L "); print_path(*rel, rel_len); putchar(' ');
		print_hex((uint8_t *) buf, k < 0 ? 0 : (size_t) k);
		free(buf);
		return;
	}
	if (S_ISREG(st.st_mode) || S_ISDIR(st.st_mode)) {
		printf(" %c ", S_ISDIR(st.st_mode) ? 'D' : 'F');
		print_path(*rel, rel_len);
		printf(" %o ", (unsigned) (st.st_mode & 07777));
		if (st.st_mtime >= T0) printf("now"); else printf("%lld", (long long) st.st_mtime);
	} else {
		printf(" ? "); print_path(*rel, rel_len);
		return;
	}
	if (S_ISREG(st.st_mode)) {
		int fd;
		uint8_t *buf = malloc((size_t) st.st_size + 1);
		ssize_t k;
		if (!privileged) fchmodat(dirfd, name, 0600, 0);
		fd = openat(dirfd, name, O_RDONLY|O_NOFOLLOW);
		k = fd < 0 ? 0 : read(fd, buf, (size_t) st.st_size);
		putchar(' ');
		print_hex(buf, k < 0 ? 0 : (size_t) k);
		if (fd >= 0) close(fd);
		free(buf);
	} else {
		int fd; DIR *d; struct dirent *e;
		char **names = NULL; size_t n = 0, cap = 0, i;
		if (!privileged) fchmodat(dirfd, name, 0700, 0);
		fd = openat(dirfd, name, O_RDONLY|O_DIRECTORY|O_NOFOLLOW);
		if (fd < 0 || (d = fdopendir(fd)) == NULL) { printf(" ?"); return; }
		while ((e = readdir(d)) != NULL) {
			if (!strcmp(e->d_name, ".") || !strcmp(e->d_name, "..")) continue;
			if (n == cap) { cap = cap ? 2 * cap : 16; names = realloc(names, cap * sizeof *names); }
			names[n++] = strdup(e->d_name);
		}
		qsort(names, n, sizeof *names, cmp_names);
		for (i = 0; i < n; ++i) {
			size_t l = strlen(names[i]), nl = rel_len + (rel_len ? 1 : 0) + l;
			if (nl + 1 > *rel_cap) { *rel_cap = 2 * (nl + 1); *rel = realloc(*rel, *rel_cap); }
			if (rel_len) (*rel)[rel_len] = '/';
			memcpy(*rel + rel_len + (rel_len ? 1 : 0), names[i], l);
			dump(fd, names[i], rel, nl, rel_cap);
			free(names[i]);
		}
		free(names);
		closedir(d);
	}
}

static void remove_tree(int dirfd, const char *name)
{
	struct stat st;
	if (fstatat(dirfd, name, &st, AT_SYMLINK_NOFOLLOW) != 0) return;
	if (S_ISDIR(st.st_mode)) {
		int fd; DIR *d; struct dirent *e;
		fchmodat(dirfd, name, 0700, 0);
		fd = openat(dirfd, name, O_RDONLY|O_DIRECTORY|O_NOFOLLOW);
		if (fd >= 0 && (d = fdopendir(fd)) != NULL) {
			while ((e = readdir(d)) != NULL) {
				if (!strcmp(e->d_name, ".") || !strcmp(e->d_name, "..")) continue;
				remove_tree(fd, e->d_name);
			}
			closedir(d);
		}
		unlinkat(dirfd, name, AT_REMOVEDIR);
	} else {
		unlinkat(dirfd, name, 0);
	}
}

/* ---- one case ---- */

static void run_case(char *line)
{
	char **tok = NULL; int n = 0, cap = 0, first = 1, as_root = 0;
	char tmpl[4096]; const char *base = "/dev/shm"; struct stat st;
	char *t, *scratch; int home;
	for (t = strtok(line, " \n"); t; t = strtok(NULL, " \n")) {
		if (n == cap) { cap = cap ? 2 * cap : 32; tok = realloc(tok, cap * sizeof *tok); }
		tok[n++] = t;
	}
	if (n == 0 || strcmp(tok[0], "fs")) { puts("ERR"); free(tok); return; }
	if (n > 1 && !strcmp(tok[1], "root")) { as_root = 1; first = 2; }
	if (as_root && !privileged) { puts("ERR not privileged"); free(tok); return; }

	if (stat(base, &st) != 0 || !S_ISDIR(st.st_mode) || access(base, W_OK|X_OK) != 0)
		base = getenv("TMPDIR") ? getenv("TMPDIR") : "/tmp";
	snprintf(tmpl, sizeof tmpl, "%s/fsdrv.XXXXXX", base);
	scratch = mkdtemp(tmpl);
	if (!scratch) { perror("mkdtemp"); exit(3); }
	home = open(".", O_RDONLY|O_DIRECTORY);
	if (chdir(scratch) != 0) { perror("chdir"); exit(3); }
	populate();
	fflush(stdout);

	if (privileged) {
		pid_t pid = fork();
		int status = 0;
		if (pid < 0) { perror("fork"); exit(3); }
		if (pid == 0) {
			if (chroot(".") != 0 || chdir("/root") != 0) _exit(4);
			if (!as_root) {
				if (setgroups(0, NULL) != 0 || setgid(NOBODY) != 0 || setuid(NOBODY) != 0) _exit(5);
				if (geteuid() != NOBODY || setuid(0) == 0) _exit(6);
			}
			umask(022);
			run_ops(tok + first, n - first);
			fflush(stdout);
			_exit(0);
		}
		waitpid(pid, &status, 0);
		if (!WIFEXITED(status) || WEXITSTATUS(status) != 0)
			printf("CHILD-FAILED-%d ", status);
	} else {
		if (chdir("root") != 0) { perror("chdir root"); exit(3); }
		umask(022);
		run_ops(tok + first, n - first);
	}

	/* dump and remove, from the parent of the scratch directory */
	{
		char *slash = strrchr(scratch, '/');
		int pfd; size_t rel_cap = 256; char *rel = malloc(rel_cap);
		*slash = 0;
		pfd = open(scratch[0] ? scratch : "/", O_RDONLY|O_DIRECTORY);
		if (home >= 0) { if (fchdir(home) != 0) (void) chdir("/"); close(home); } else (void) chdir("/");
		printf("|");
		dump(pfd, slash + 1, &rel, 0, &rel_cap);
		putchar('\n');
		remove_tree(pfd, slash + 1);
		close(pfd);
		free(rel);
	}
	free(tok);
}

int main(int argc, char **argv)
{
	char *line = NULL; size_t cap = 0; ssize_t n;
	privileged = geteuid() == 0;
	if (argc > 1 && !strcmp(argv[1], "--probe")) {
		puts(privileged ? "chroot" : "plain");
		return 0;
	}
	T0 = time(NULL) - 2;
	while ((n = getline(&line, &cap, stdin)) > 0) {
		run_case(line);
		fflush(stdout);
	}
	free(line);
	return 0;
}

/* drv_fs.c -- the real kernel's side of the differential test of coq/Fs.v.

   One case per input line:   fs [root] <op> <args> <op> <args> ...
     mkdir   <path> <mode>          mkdir(path, mode)
     exists  <path>                 stat(), classified like lha_arch_exists
     lstat   <path>                 lstat() (not used by lhasa: it observes path
                                    resolution that does not follow the last link)
     unlink  <path>                 unlink(path)
     fopen   <path> <perms|-1> <data>   lha_arch_fopen (without the fchown),
                                    then write the data and close
     symlink <path> <target>        unlink(path); symlink(target, path)
     chmod   <path> <mode>          chmod(path, mode)
     utime   <path> <t>             utime(path, {t, t})
     chown   <path> <uid> <gid>     chown(path, uid, gid)
   <path>, <target>, <data> are hex ("-" = empty); numbers are decimal.

   Every case runs in a fresh scratch directory S (layout: see drv_fsutil.h,
   which holds the pieces shared with drv_rdr.c).

   When started as root (the normal case) the parent prepares S, forks, and
   the child chroot()s into S (so that "/" really is S: absolute paths and
   absolute symlink targets are comparable with the model), chdir()s to
   /root, drops to uid/gid 65534 with no supplementary groups -- unless the
   case starts with the token "root" -- sets umask 022 and executes the
   operations.  The parent then dumps the tree of S (as root, so unreadable
   directories are no obstacle) and removes it.
   When started as an ordinary user there is no chroot and nothing is
   "not ours": `drv_fs --probe` prints "plain" instead of "chroot" and the
   test generator then avoids absolute paths and the foreign directory.

   Output line:  one token per operation (ok / fail, or NONE FILE DIRECTORY
   ERROR for exists, these or LINK for lstat), then " |", then the tree of S in preorder, children
   sorted bytewise:
     " D <path> <perm octal> <mtime>"  " F <path> <perm> <mtime> <data hex>"
     " L <path> <target hex>"
   <path> is the hex of the '/'-joined location below S ("-" for S itself);
   <mtime> is the decimal st_mtime if it is older than the start of the
   driver (i.e. it was set by utime) and "now" otherwise: the clock is the
   one thing the model cannot know. */
#define _GNU_SOURCE
#include <stdio.h>
#include <stdlib.h>
#include <string.h>
#include <stdint.h>
#include <errno.h>
#include <fcntl.h>
#include <unistd.h>
#include <utime.h>
#include <time.h>
#include <sys/stat.h>
#include <sys/types.h>
#include <sys/wait.h>
#include "drv_util.h"
#include "drv_fsutil.h"

/* ---- the operations, composed exactly as in lib/lha_arch_unix.c ---- */

static int op_fopen(const char *filename, int unix_perms, const uint8_t *data, size_t len)
{
	int fd;
	FILE *fstream;
	unlink(filename);
	fd = open(filename, O_CREAT|O_WRONLY|O_EXCL, 0600);
	if (fd < 0) return 0;
	if (unix_perms >= 0) {
		if (fchmod(fd, unix_perms) != 0) {
			close(fd);
			remove(filename);
			return 0;
		}
	}
	fstream = fdopen(fd, "wb");
	if (fstream == NULL) {
		close(fd);
		remove(filename);
		return 0;
	}
	if (len > 0) fwrite(data, 1, len, fstream);
	fclose(fstream);
	return 1;
}

static const char *op_exists(const char *filename)
{
	struct stat statbuf;
	if (stat(filename, &statbuf) != 0) {
		if (errno == ENOENT) return "NONE";
		else return "ERROR";
	}
	if (S_ISDIR(statbuf.st_mode)) return "DIRECTORY";
	else return "FILE";
}

static const char *op_lstat(const char *filename)
{
	struct stat statbuf;
	if (lstat(filename, &statbuf) != 0) return errno == ENOENT ? "NONE" : "ERROR";
	if (S_ISDIR(statbuf.st_mode)) return "DIRECTORY";
	if (S_ISLNK(statbuf.st_mode)) return "LINK";
	return "FILE";
}

static int op_symlink(const char *path, const char *target)
{
	unlink(path);
	return symlink(target, path) == 0;
}

static int op_utime(const char *filename, unsigned int timestamp)
{
	struct utimbuf times;
	times.actime = (time_t) timestamp;
	times.modtime = (time_t) timestamp;
	return utime(filename, &times) == 0;
}

static char *unhex_str(const char *hx)
{
	size_t len;
	char *r = (char *) unhex_alloc(hx, &len, 1);
	r[len] = 0;
	return r;
}

static const char *okfail(int b) { return b ? "ok" : "fail"; }

/* executes the operations of one case; tokens tok[0..n) */
static void run_ops(char **tok, int n)
{
	int i = 0;
	while (i < n) {
		const char *op = tok[i];
		int left = n - i - 1;
		const char *res = "BADOP";
		if (!strcmp(op, "mkdir") && left >= 2) {
			char *p = unhex_str(tok[i+1]);
			res = okfail(mkdir(p, (mode_t) strtoul(tok[i+2], NULL, 10)) == 0);
			free(p); i += 3;
		} else if (!strcmp(op, "exists") && left >= 1) {
			char *p = unhex_str(tok[i+1]);
			res = op_exists(p);
			free(p); i += 2;
		} else if (!strcmp(op, "lstat") && left >= 1) {
			char *p = unhex_str(tok[i+1]);
			res = op_lstat(p);
			free(p); i += 2;
		} else if (!strcmp(op, "unlink") && left >= 1) {
			char *p = unhex_str(tok[i+1]);
			res = okfail(unlink(p) == 0);
			free(p); i += 2;
		} else if (!strcmp(op, "fopen") && left >= 3) {
			char *p = unhex_str(tok[i+1]);
			size_t len; uint8_t *d = unhex_alloc(tok[i+3], &len, 1);
			res = okfail(op_fopen(p, (int) strtol(tok[i+2], NULL, 10), d, len));
			free(p); free(d); i += 4;
		} else if (!strcmp(op, "symlink") && left >= 2) {
			char *p = unhex_str(tok[i+1]), *t = unhex_str(tok[i+2]);
			res = okfail(op_symlink(p, t));
			free(p); free(t); i += 3;
		} else if (!strcmp(op, "chmod") && left >= 2) {
			char *p = unhex_str(tok[i+1]);
			res = okfail(chmod(p, (mode_t) strtoul(tok[i+2], NULL, 10)) == 0);
			free(p); i += 3;
		} else if (!strcmp(op, "utime") && left >= 2) {
			char *p = unhex_str(tok[i+1]);
			res = okfail(op_utime(p, (unsigned int) strtoul(tok[i+2], NULL, 10)));
			free(p); i += 3;
		} else if (!strcmp(op, "chown") && left >= 3) {
			char *p = unhex_str(tok[i+1]);
			res = okfail(chown(p, (uid_t) strtol(tok[i+2], NULL, 10),
			                   (gid_t) strtol(tok[i+3], NULL, 10)) == 0);
			free(p); i += 4;
		} else {
			fputs("BADOP ", stdout);
			return;
		}
		fputs(res, stdout);
		putchar(' ');
	}
}

/* ---- one case ---- */

static void run_case(char *line)
{
	char **tok = NULL; int n = 0, cap = 0, first = 1, as_root = 0;
	char scratch[4096];
	char *t; int home;
	for (t = strtok(line, " \n"); t; t = strtok(NULL, " \n")) {
		if (n == cap) { cap = cap ? 2 * cap : 32; tok = realloc(tok, cap * sizeof *tok); }
		tok[n++] = t;
	}
	if (n == 0 || strcmp(tok[0], "fs")) { puts("ERR"); free(tok); return; }
	if (n > 1 && !strcmp(tok[1], "root")) { as_root = 1; first = 2; }
	if (as_root && !privileged) { puts("ERR not privileged"); free(tok); return; }

	home = fsu_enter_scratch(scratch, "fsdrv");
	fflush(stdout);

	if (privileged) {
		pid_t pid = fork();
		int status = 0;
		if (pid < 0) { perror("fork"); exit(3); }
		if (pid == 0) {
			fsu_jail(as_root);
			run_ops(tok + first, n - first);
			fflush(stdout);
			_exit(0);
		}
		waitpid(pid, &status, 0);
		if (!WIFEXITED(status) || WEXITSTATUS(status) != 0)
			printf("CHILD-FAILED-%d ", status);
	} else {
		if (chdir("root") != 0) { perror("chdir root"); exit(3); }
		umask(022);
		run_ops(tok + first, n - first);
	}

	/* dump and remove, from the parent of the scratch directory */
	fsu_dump_and_remove(scratch, home);
	free(tok);
}

int main(int argc, char **argv)
{
	char *line = NULL; size_t cap = 0; ssize_t n;
	fsu_init();
	if (argc > 1 && !strcmp(argv[1], "--probe")) {
		puts(privileged ? "chroot" : "plain");
		return 0;
	}
	while ((n = getline(&line, &cap, stdin)) > 0) {
		run_case(line);
		fflush(stdout);
	}
	free(line);
	return 0;
}

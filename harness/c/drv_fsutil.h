/* drv_fsutil.h -- the scratch tree shared by the drivers that touch the real
   filesystem (drv_fs.c, drv_rdr.c): creation and population of the scratch
   directory, the jail (chroot + uid 65534), the canonical dump of the tree
   and its removal.

   Every case runs in a fresh scratch directory S (mkdtemp under /dev/shm or
   $TMPDIR), removed afterwards, laid out as

     S/                 0755  ours       the model's "/"
     S/root/            0755  ours       the current directory of the operations
     S/outside/         0755  ours
     S/outside/f        0644  ours       contents "out"
     S/foreign/         1777  not ours   (like /tmp)
     S/foreign/rf       0644  not ours   contents "rf"
     S/foreign/rd/      0755  not ours
     S/foreign/rd/g     0666  not ours   contents "g"
     S/foreign/ww/      0777  not ours
     S/foreign/ww/h     0644  not ours   contents "h"
     S/foreign/priv/    0700  not ours
     S/foreign/priv/s   0644  not ours   contents "s"

   The dump: the tree of S in preorder, children sorted bytewise:
     " D <path> <perm octal> <mtime>"  " F <path> <perm> <mtime> <data hex>"
     " L <path> <target hex>"
   <path> is the hex of the '/'-joined location below S ("-" for S itself);
   <mtime> is the decimal st_mtime if it is older than the start of the
   driver (i.e. it was set by utime) and "now" otherwise: the clock is the
   one thing the model cannot know. */
#ifndef DRV_FSUTIL_H
#define DRV_FSUTIL_H
#ifndef _GNU_SOURCE
#define _GNU_SOURCE
#endif
#include <stdio.h>
#include <stdlib.h>
#include <string.h>
#include <stdint.h>
#include <errno.h>
#include <fcntl.h>
#include <unistd.h>
#include <dirent.h>
#include <grp.h>
#include <time.h>
#include <sys/stat.h>
#include <sys/types.h>
#include <sys/wait.h>
#include "drv_util.h"

#define NOBODY 65534

static time_t T0;          /* set by fsu_init(): mtimes >= T0 print as "now" */
static int privileged;     /* set by fsu_init(): started as root */

static void fsu_init(void)
{
	privileged = geteuid() == 0;
	T0 = time(NULL) - 2;
}

/* ---- scratch directory ---- */

static void put_file(const char *path, const char *data, mode_t mode)
{
	int fd = open(path, O_CREAT|O_WRONLY|O_EXCL, 0600);
	if (fd < 0) { perror(path); exit(3); }
	if (write(fd, data, strlen(data)) < 0) exit(3);
	fchmod(fd, mode);
	close(fd);
}

static void make_dir(const char *path, mode_t mode)
{
	if (mkdir(path, 0700) != 0) { perror(path); exit(3); }
	chmod(path, mode);
}

static void own(const char *path)
{
	if (privileged && chown(path, NOBODY, NOBODY) != 0) { perror("chown"); exit(3); }
}

/* called with the scratch directory as current directory */
static void populate(void)
{
	umask(0);
	make_dir("root", 0755); own("root");
	make_dir("outside", 0755); own("outside");
	put_file("outside/f", "out", 0644); own("outside/f");
	make_dir("foreign", 0700);
	put_file("foreign/rf", "rf", 0644);
	make_dir("foreign/rd", 0700);
	put_file("foreign/rd/g", "g", 0666);
	chmod("foreign/rd", 0755);
	make_dir("foreign/ww", 0777);
	put_file("foreign/ww/h", "h", 0644);
	make_dir("foreign/priv", 0700);
	put_file("foreign/priv/s", "s", 0644);
	chmod("foreign", 01777);
	chmod(".", 0755); own(".");
}

/* A fresh, populated scratch directory; it becomes the current directory.
   scratch: buffer of at least 4096 bytes receiving its path.  Returns a file
   descriptor of the previous current directory (or -1). */
static int fsu_enter_scratch(char *scratch, const char *prefix)
{
	const char *base = "/dev/shm"; struct stat st; int home;
	if (stat(base, &st) != 0 || !S_ISDIR(st.st_mode) || access(base, W_OK|X_OK) != 0)
		base = getenv("TMPDIR") ? getenv("TMPDIR") : "/tmp";
	snprintf(scratch, 4096, "%s/%s.XXXXXX", base, prefix);
	if (!mkdtemp(scratch)) { perror("mkdtemp"); exit(3); }
	home = open(".", O_RDONLY|O_DIRECTORY);
	if (chdir(scratch) != 0) { perror("chdir"); exit(3); }
	populate();
	return home;
}

/* In the child, with the scratch directory as current directory: make it "/",
   go to /root and (unless as_root) become uid/gid 65534 for good; umask 022.
   Exits the process when that is not possible. */
static void fsu_jail(int as_root)
{
	if (chroot(".") != 0 || chdir("/root") != 0) _exit(4);
	if (!as_root) {
		if (setgroups(0, NULL) != 0 || setgid(NOBODY) != 0 || setuid(NOBODY) != 0) _exit(5);
		if (geteuid() != NOBODY || setuid(0) == 0) _exit(6);
	}
	umask(022);
}

/* ---- dump and removal, relative to directory file descriptors ---- */

static int cmp_names(const void *a, const void *b)
{
	return strcmp(*(char *const *) a, *(char *const *) b);  /* bytewise, unsigned */
}

static void print_path(const char *rel, size_t len)
{
	print_hex((const uint8_t *) rel, len);
}

/* rel: location below S of the entry (dirfd, name); rel_len its length */
static void dump(int dirfd, const char *name, char **rel, size_t rel_len, size_t *rel_cap)
{
	struct stat st;
	if (fstatat(dirfd, name, &st, AT_SYMLINK_NOFOLLOW) != 0) { printf(" ?"); return; }
	if (S_ISLNK(st.st_mode)) {
		char *buf = malloc((size_t) st.st_size + 2);
		ssize_t k = readlinkat(dirfd, name, buf, (size_t) st.st_size + 1);
		printf(" L "); print_path(*rel, rel_len); putchar(' ');
		print_hex((uint8_t *) buf, k < 0 ? 0 : (size_t) k);
		free(buf);
		return;
	}
	if (S_ISREG(st.st_mode) || S_ISDIR(st.st_mode)) {
		printf(" %c ", S_ISDIR(st.st_mode) ? 'D' : 'F');
		print_path(*rel, rel_len);
		printf(" %o ", (unsigned) (st.st_mode & 07777));
		if (st.st_mtime >= T0) printf("now"); else printf("%lld", (long long) st.st_mtime);
	} else {
		printf(" ? "); print_path(*rel, rel_len);
		return;
	}
	if (S_ISREG(st.st_mode)) {
		int fd;
		uint8_t *buf = malloc((size_t) st.st_size + 1);
		ssize_t k;
		if (!privileged) fchmodat(dirfd, name, 0600, 0);
		fd = openat(dirfd, name, O_RDONLY|O_NOFOLLOW);
		k = fd < 0 ? 0 : read(fd, buf, (size_t) st.st_size);
		putchar(' ');
		print_hex(buf, k < 0 ? 0 : (size_t) k);
		if (fd >= 0) close(fd);
		free(buf);
	} else {
		int fd; DIR *d; struct dirent *e;
		char **names = NULL; size_t n = 0, cap = 0, i;
		if (!privileged) fchmodat(dirfd, name, 0700, 0);
		fd = openat(dirfd, name, O_RDONLY|O_DIRECTORY|O_NOFOLLOW);
		if (fd < 0 || (d = fdopendir(fd)) == NULL) { printf(" ?"); return; }
		while ((e = readdir(d)) != NULL) {
			if (!strcmp(e->d_name, ".") || !strcmp(e->d_name, "..")) continue;
			if (n == cap) { cap = cap ? 2 * cap : 16; names = realloc(names, cap * sizeof *names); }
			names[n++] = strdup(e->d_name);
		}
		qsort(names, n, sizeof *names, cmp_names);
		for (i = 0; i < n; ++i) {
			size_t l = strlen(names[i]), nl = rel_len + (rel_len ? 1 : 0) + l;
			if (nl + 1 > *rel_cap) { *rel_cap = 2 * (nl + 1); *rel = realloc(*rel, *rel_cap); }
			if (rel_len) (*rel)[rel_len] = '/';
			memcpy(*rel + rel_len + (rel_len ? 1 : 0), names[i], l);
			dump(fd, names[i], rel, nl, rel_cap);
			free(names[i]);
		}
		free(names);
		closedir(d);
	}
}

static void remove_tree(int dirfd, const char *name)
{
	struct stat st;
	if (fstatat(dirfd, name, &st, AT_SYMLINK_NOFOLLOW) != 0) return;
	if (S_ISDIR(st.st_mode)) {
		int fd; DIR *d; struct dirent *e;
		fchmodat(dirfd, name, 0700, 0);
		fd = openat(dirfd, name, O_RDONLY|O_DIRECTORY|O_NOFOLLOW);
		if (fd >= 0 && (d = fdopendir(fd)) != NULL) {
			while ((e = readdir(d)) != NULL) {
				if (!strcmp(e->d_name, ".") || !strcmp(e->d_name, "..")) continue;
				remove_tree(fd, e->d_name);
			}
			closedir(d);
		}
		unlinkat(dirfd, name, AT_REMOVEDIR);
	} else {
		unlinkat(dirfd, name, 0);
	}
}

/* From anywhere: go back to the directory `home` (closed), print "|" and the
   dump of the scratch directory, a newline, and remove the scratch directory.
   `scratch` is modified. */
static void fsu_dump_and_remove(char *scratch, int home)
{
	char *slash = strrchr(scratch, '/');
	int pfd; size_t rel_cap = 256; char *rel = malloc(rel_cap);
	*slash = 0;
	pfd = open(scratch[0] ? scratch : "/", O_RDONLY|O_DIRECTORY);
	if (home >= 0) { if (fchdir(home) != 0) (void) chdir("/"); close(home); } else (void) chdir("/");
	printf("|");
	dump(pfd, slash + 1, &rel, 0, &rel_cap);
	putchar('\n');
	remove_tree(pfd, slash + 1);
	close(pfd);
	free(rel);
}
#endif

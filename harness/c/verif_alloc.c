/* verif_alloc.c -- accounting allocator, linked with
     -Wl,--wrap=malloc,--wrap=calloc,--wrap=realloc,--wrap=strdup,--wrap=free,--wrap=fopen,--wrap=fdopen,--wrap=fclose
   so that every allocation made by the library objects (and the driver) goes
   through it; no change to /repo and no macro tricks are needed.  Accounting and
   failure injection are active only between verif_alloc_begin() and
   verif_alloc_end() (the region in which the driver exercises the library).
   verif_alloc_begin(k): the k-th request of the region fails (0 = none). */
#include <stdlib.h>
#include <string.h>
#include <stdio.h>
#include <stdint.h>

void *__real_malloc(size_t);
void *__real_calloc(size_t, size_t);
void *__real_realloc(void *, size_t);
char *__real_strdup(const char *);
void __real_free(void *);
FILE *__real_fopen(const char *, const char *);
FILE *__real_fdopen(int, const char *);
int __real_fclose(FILE *);

#define TAB (1u << 18)
static struct { void *p; size_t n; } tab[TAB];
static int active;
static unsigned long requests, live_blocks, open_files, fail_at, failed_req;
static size_t live_bytes, peak_bytes;

static unsigned slot(void *p) { return (unsigned) (((uintptr_t) p >> 4) * 2654435761u) & (TAB - 1); }
static void put(void *p, size_t n)
{
	unsigned i = slot(p);
	while (tab[i].p != NULL && tab[i].p != (void *) 1) i = (i + 1) & (TAB - 1);
	tab[i].p = p; tab[i].n = n;
	++live_blocks; live_bytes += n;
	if (live_bytes > peak_bytes) peak_bytes = live_bytes;
}
static int take(void *p, size_t *n)
{
	unsigned i = slot(p), k;
	for (k = 0; k < TAB && tab[i].p != NULL; ++k, i = (i + 1) & (TAB - 1)) {
		if (tab[i].p == p) { *n = tab[i].n; tab[i].p = (void *) 1; --live_blocks; live_bytes -= *n; return 1; }
	}
	return 0;
}
static int should_fail(void)
{
	if (!active) return 0;
	++requests;
	if (fail_at != 0 && requests == fail_at) { failed_req = requests; return 1; }
	return 0;
}
void *__wrap_malloc(size_t n)
{
	void *p;
	if (should_fail()) return NULL;
	p = __real_malloc(n ? n : 1);
	if (p && active) put(p, n);
	return p;
}
void *__wrap_calloc(size_t a, size_t b)
{
	void *p;
	if (should_fail()) return NULL;
	p = __real_calloc(a ? a : 1, b ? b : 1);
	if (p && active) put(p, a * b);
	return p;
}
void *__wrap_realloc(void *old, size_t n)
{
	void *p; size_t on = 0; int known;
	if (should_fail()) return NULL;
	known = old != NULL && take(old, &on);
	if (active && live_bytes + on + n > peak_bytes) peak_bytes = live_bytes + on + n;   /* transient copy */
	p = __real_realloc(old, n ? n : 1);
	if (p) { if (active || known) put(p, n); } else if (known) put(old, on);
	return p;
}
char *__wrap_strdup(const char *s)
{
	char *p;
	if (should_fail()) return NULL;
	p = __real_strdup(s);
	if (p && active) put(p, strlen(s) + 1);
	return p;
}
void __wrap_free(void *p)
{
	size_t n;
	if (p == NULL) return;
	take(p, &n);              /* blocks not in the table (libc's vasprintf, pre-region blocks) pass through */
	__real_free(p);
}
#ifdef VERIF_WRAP_MORE
/* allocation entry points the library does not use today but a change may introduce: strndup, reallocarray,
   asprintf / vasprintf (linked with -Wl,--wrap=strndup,--wrap=reallocarray,--wrap=asprintf,--wrap=vasprintf) */
#include <stdarg.h>
char *__real_strndup(const char *, size_t);
void *__real_reallocarray(void *, size_t, size_t);
int __real_vasprintf(char **, const char *, va_list);
char *__wrap_strndup(const char *s, size_t n)
{
	char *p;
	if (should_fail()) return NULL;
	p = __real_strndup(s, n);
	if (p && active) put(p, strlen(p) + 1);
	return p;
}
void *__wrap_reallocarray(void *old, size_t a, size_t b)
{
	if (b != 0 && a > (size_t) -1 / b) return NULL;
	return __wrap_realloc(old, a * b);
}
int __wrap_vasprintf(char **out, const char *fmt, va_list ap)
{
	int r;
	if (should_fail()) { *out = NULL; return -1; }
	r = __real_vasprintf(out, fmt, ap);
	if (r >= 0 && *out && active) put(*out, (size_t) r + 1);
	return r;
}
int __wrap_asprintf(char **out, const char *fmt, ...)
{
	va_list ap; int r;
	if (should_fail()) { *out = NULL; return -1; }
	va_start(ap, fmt);
	r = __real_vasprintf(out, fmt, ap);
	va_end(ap);
	if (r >= 0 && *out && active) put(*out, (size_t) r + 1);
	return r;
}
#endif
FILE *__wrap_fopen(const char *path, const char *mode)
{
	FILE *f;
	if (should_fail()) return NULL;
	f = __real_fopen(path, mode);
	if (f && active) ++open_files;
	return f;
}
/* lha_arch_fopen obtains its FILE with fdopen */
FILE *__wrap_fdopen(int fd, const char *mode)
{
	FILE *f;
	if (should_fail()) return NULL;
	f = __real_fdopen(fd, mode);
	if (f && active) ++open_files;
	return f;
}
int __wrap_fclose(FILE *f)
{
	if (active && open_files) --open_files;
	return __real_fclose(f);
}
/* raw descriptors (open, dup, pipe ... without a FILE): counted at the beginning and at the end of the region; a
   descriptor that is open at the end, was not open at the beginning and does not belong to a FILE still counted in
   open_files is reported as one more open file */
#include <fcntl.h>
static int fds_at_begin;
static int verif_count_fds(void)
{
	int fd, n = 0;
	for (fd = 0; fd < 1024; ++fd) if (fcntl(fd, F_GETFD) != -1) ++n;
	return n;
}
void verif_alloc_begin(unsigned long k)
{
	memset(tab, 0, sizeof(tab));
	requests = live_blocks = open_files = failed_req = 0; live_bytes = peak_bytes = 0;
	fds_at_begin = verif_count_fds();
	fail_at = k; active = 1;
}
/* the driver's own allocations inside the region (buffers it hands to the
   library, names it parses) are neither counted nor failed */
static int suspended_state;
void verif_alloc_suspend(void) { suspended_state = active; active = 0; }
void verif_alloc_resume(void) { active = suspended_state; }
unsigned long verif_alloc_live(void) { return live_blocks; }
unsigned long verif_alloc_files(void) { return open_files; }
unsigned long verif_alloc_requests(void) { return requests; }
void verif_alloc_end(FILE *out)
{
	long extra_fds;
	active = 0;
	extra_fds = (long) verif_count_fds() - (long) fds_at_begin - (long) open_files;
	if (extra_fds > 0) open_files += (unsigned long) extra_fds;
	fprintf(out, " ALLOC req=%lu live=%lu bytes=%zu peak=%zu files=%lu failed=%lu",
	        requests, live_blocks, live_bytes, peak_bytes, open_files, failed_req);
}

/* drv_hdrprint.h -- prints every field of an LHAFileHeader; shared by
   drv_hdr.c and drv_rdr.c (the model side is header_string in d_hdr.ml). */
#ifndef DRV_HDRPRINT_H
#define DRV_HDRPRINT_H
#include <stdio.h>
#include <string.h>
#include <stdint.h>
#include "lha_file_header.h"
#include "drv_util.h"

static void pstr(const char *tag, const char *s)
{
	printf(" %s=", tag);
	if (s == NULL) { fputs("NULL", stdout); return; }
	print_hex((const uint8_t *) s, strlen(s));
}

static void print_header(LHAFileHeader *h)
{
	printf("H lv=%u m=", (unsigned) h->header_level);
	print_hex((uint8_t *) h->compress_method, 5);
	printf(" cl=%lu l=%lu ts=%u os=%u crc=%u xf=%u up=%u uid=%u gid=%u o9=%u cc=%u wt=%llu,%llu,%llu",
	       (unsigned long) h->compressed_length, (unsigned long) h->length, h->timestamp, (unsigned) h->os_type,
	       (unsigned) h->crc, h->extra_flags, h->unix_perms, h->unix_uid, h->unix_gid, h->os9_perms,
	       (unsigned) h->common_crc, (unsigned long long) h->win_creation_time,
	       (unsigned long long) h->win_modification_time, (unsigned long long) h->win_access_time);
	pstr("fn", h->filename); pstr("p", h->path); pstr("st", h->symlink_target);
	pstr("un", h->unix_username); pstr("ug", h->unix_group);
	printf(" rl=%lu", (unsigned long) h->raw_data_len);
}
#endif

/* drv_list_ratio.c -- the ratio column of src/list.c on chosen sizes.
   Includes list.c itself, so compression_percent and the "%5.1f%%" format are
   the tool's own.  Input lines: "<compressed> <uncompressed>" (decimal, up to
   2^64-1); output: what ratio_column_print prints for a header with these
   sizes and a method other than -lhd-. */
#include "list.c"

int main(void)
{
	unsigned long long a, b;

	while (scanf("%llu %llu", &a, &b) == 2) {
		LHAFileHeader header;

		memset(&header, 0, sizeof(header));
		strcpy(header.compress_method, "-lh5-");
		header.compressed_length = (size_t) a;
		header.length = (size_t) b;
		ratio_column_print(&header);
		printf("\n");
	}

	return 0;
}

#!/usr/bin/env python3
"""Correspondence of the LIST model (coq/ListOut.v, Glob.v, Printf.v) with the real tool.

The real `lha` is built from the working tree (src/*.c + lib/*.c, -DTEST_BUILD, ASan/UBSan); every
archive is written to a file whose mtime is set, the tool is run as `lha <mode>[q<level>] <file>
[patterns...]` with TZ=UTC and TEST_NOW_TIME, and its stdout is compared byte for byte with the
model's list_output (runner command `listm` / `list`).  The ratio formatter is additionally
compared on its own against src/list.c's ratio_column_print (harness/c/drv_list_ratio.c).

usage: test_list.py [--n 3000] [--ratio 24000] [--seed 1] [--keep]
"""
import os, sys, glob, random, struct, time, subprocess, tempfile, argparse, shutil, collections
from concurrent.futures import ThreadPoolExecutor
import common, lhabuild as lb, hdrgen
from common import CBuild

MODES = ["l", "lv", "v", "vv"]
QUIETS = ["-", "0", "1", "2"]
HALF_YEAR = 6 * 30 * 24 * 60 * 60

METHODS_FILE = [b"-lh0-", b"-lh1-", b"-lh4-", b"-lh5-", b"-lh6-", b"-lh7-", b"-lhx-", b"-lz4-", b"-lz5-", b"-lzs-",
                b"-pm0-", b"-pm1-", b"-pm2-", b"-lh9-", b"-lh\x01-", b"-l\x80\xff-", b"-lh\x00-", b"\x00lh5-", b"-lh5\x7f",
                b"-LHD-", b"-lhd\x00"]
NAMES = [b"abc", b"a.txt", b"readme.txt", b"axc", b"a-c", b"x", b"file.TXT", b"Makefile", b"a*c", b"a?c", b"b.c", b"aXc",
         b"README", b"FOO.BAR", b"txt", b".txt", b"a b", b"q" * 60, b"long-name-" * 9, b"\x01", b"\x7f", b"\x80\xfe",
         b"\x1b[31mred", b"tab\there", b"nl\nx", b"caf\xc3\xa9", b"~", b" ", b"a|b", b"..", b".", b"-", b"%s%n", b"%"]
DIRS = [b"dir", b"a", b"b", b"src", b"DIR", b"sub dir", b"..", b".", b"x" * 40, b"d\x07", b"\xe3\x81\x82", b"usr", b"*"]
TARGETS = [b"target", b"../up", b"/etc/passwd", b"a/b/c", b"t\x1b]0;x\x07", b"", b"x|y", b"\xff\xfe", b" -> "]
PATTERN_POOL = [b"zzz", b"*.c", b"dir/*", b"?", b"", b"*/", b"[a]", b"abc", b"a/b/*", b"*c", b"a*", b"README", b"*.TXT",
                b"*.txt", b"readme.*", b"dir/abc", b"??c", b"*\x01*", b"x", b"a.txt"]
MANY_STARS = [b"*a*b*c*", b"***", b"*.*", b"*/*", b"*?*?*", b"**a**", b"*a*a*b", b"*/*/*", b"****x", b"*?", b"?*?", b"*a*.*t*"]


def rname(rnd):
    return rnd.choice(NAMES) if rnd.random() < 0.85 else bytes(rnd.randrange(1, 256) for _ in range(rnd.randrange(1, 12)))


def pick_ts(rnd, now):
    edge = now - HALF_YEAR
    return rnd.choice([0, 1, edge - 1, edge, edge + 1, edge + 2, 2 ** 31 - 1, 2 ** 31, 2 ** 32 - 1, now, now - 1, now + 1,
                       now + 86400 * 400, max(0, now - 86400 * rnd.randrange(1, 400)), rnd.getrandbits(32),
                       rnd.getrandbits(32), rnd.randrange(0, 86400 * 366 * 3), 951782400 + rnd.randrange(86400 * 2),
                       68169600 + rnd.randrange(86400 * 400)]) & 0xFFFFFFFF


def unix_to_ftime(ts):
    t = time.gmtime(ts)
    if not (1980 <= t.tm_year <= 2107):
        return None
    return lb.dos_ftime(t.tm_year, t.tm_mon, t.tm_mday, t.tm_hour, t.tm_min, t.tm_sec)


def pick_sizes(rnd, last):
    """(length, clen of data actually present, fake clen or None)"""
    r = rnd.random()
    if r < 0.15:        # exact quarter ratios: ties of the %.1f rounding
        k = rnd.choice([1, 1, 2, 3, 5])
        j = rnd.randrange(1, 400, 2) if k == 1 else rnd.randrange(1, 130, 2)
        return 400 * k, j * k, None
    length = rnd.choice([0, 0, 1, 2, 9, 10, 99, 100, 999, 1000, 2000, 9999999, 10000000, 123456789, 2 ** 31 - 1, 2 ** 31,
                         2 ** 32 - 1, 2 ** 32 - 2, rnd.getrandbits(32), rnd.getrandbits(32), rnd.randrange(100000),
                         rnd.randrange(1000), 16777217, 33554434])
    clen = rnd.choice([0, 0, 1, 3, 5, 9, 100, 300, 399, rnd.randrange(400), rnd.randrange(400)])
    fake = None
    if last and rnd.random() < 0.5:
        fake = rnd.choice([2 ** 32 - 1, 2 ** 31, 2 ** 31 - 1, 10 ** 7, 9999999, rnd.getrandbits(32), rnd.getrandbits(32),
                           length, length + 1 if length < 2 ** 32 - 1 else length, 16777217, 4294967040])
    return length, clen, fake


def gen_member(rnd, now, last):
    """one controlled member: (header bytes, data bytes)"""
    lv = rnd.randrange(4)
    kind = rnd.choices(["file", "dir", "symlink"], [70, 15, 15])[0]
    osb = rnd.choice(hdrgen.OSES + [rnd.randrange(256)])
    method = b"-lhd-" if kind != "file" else rnd.choice(METHODS_FILE if rnd.random() < 0.5 else METHODS_FILE[:14])
    comps = [rnd.choice(DIRS) for _ in range(rnd.choice([0, 0, 0, 1, 1, 2, 3]))]
    fname = b"" if kind == "dir" else rname(rnd)
    if kind == "dir" and not comps:
        comps = [rnd.choice(DIRS)]
    ts = pick_ts(rnd, now)
    length, clen, fake = pick_sizes(rnd, last)
    if kind != "file" and rnd.random() < 0.7:
        length, clen, fake = 0, 0, None
    if kind == "symlink":
        perms = 0o120000 | rnd.getrandbits(12)
        fname = (fname or b"l") + b"|" + rnd.choice(TARGETS)
    elif kind == "dir":
        perms = rnd.choice([0o40755, 0o40700, 0o40000 | rnd.getrandbits(12), rnd.getrandbits(16)])
    else:
        perms = rnd.choice([0o100644, 0o100755, 0o100000, 0o100777, 0o104755, 0o101644, rnd.getrandbits(16),
                            rnd.getrandbits(16), rnd.getrandbits(9)])
    has_perms = kind == "symlink" or rnd.random() < 0.6
    has_uid = rnd.random() < 0.5
    uid, gid = (rnd.choice([0, 1, 99, 1000, 9999, 10000, 65535, rnd.getrandbits(16)]) for _ in range(2))
    os9 = kind != "symlink" and rnd.random() < 0.12
    os9_perms = rnd.getrandbits(16)
    f = {"level": lv, "method": method, "clen": clen, "length": length, "crc": rnd.getrandbits(16),
         "attr": rnd.choice([0x20, 0x10, 0]), "os": osb}
    if lv in (0, 1):
        ft = unix_to_ftime(ts) if ts else 0
        f["time"] = ft if ft is not None else rnd.getrandbits(32)
        sep = rnd.choice([b"/", b"\\"])
        name = b"".join(c + sep for c in comps) + fname
        f["name"] = name
    else:
        f["time"] = ts
    if lv == 0:
        r = rnd.random()
        if os9:
            a = bytearray(rnd.randrange(256) for _ in range(rnd.choice([22, 22, 24])))
            a[0] = ord('9'); a[9] = 0xcc
            a[1:3] = struct.pack("<H", os9_perms); a[17] = a[1]; a[18] = a[2]
            f["area"] = bytes(a)
        elif has_perms or has_uid:
            f["area"] = bytes([rnd.choice([ord('U'), ord('U'), ord('K')]), 0]) + struct.pack("<I", ts) + \
                (struct.pack("<I", rnd.getrandbits(32)) if rnd.random() < 0.15 else b"") + struct.pack("<HHH", perms, uid, gid)
        elif r < 0.05:
            f["area"] = bytes(rnd.randrange(256) for _ in range(rnd.randrange(1, 14)))
        room = 255 - 22 - len(f.get("area", b""))
        if len(f["name"]) > room:
            f["name"] = f["name"][len(f["name"]) - room:]
        if not f["name"]:
            f["name"] = b"n"
    else:
        exts = []
        if lv == 1 and rnd.random() < 0.6:
            if len(f["name"]) > 200:
                f["name"] = f["name"][-200:]
            if not f["name"]:
                f["name"] = b"n"
        else:
            if lv == 1:
                f["name"] = b""
            if fname:
                exts.append((0x01, fname))
            if comps:
                exts.append((0x02, b"".join(c + b"\xff" for c in comps) if rnd.random() < 0.8
                             else b"\xff".join(comps)))
            elif kind == "dir":
                exts.append((0x02, b"d\xff"))
        if os9:
            p = bytearray(rnd.randrange(256) for _ in range(rnd.choice([12, 12, 14])))
            p[7:9] = struct.pack("<H", os9_perms)
            exts.append((0xcc, bytes(p)))
        if has_perms:
            exts.append((0x50, struct.pack("<H", perms)))
        if has_uid:
            exts.append((0x51, struct.pack("<HH", gid, uid)))
        if lv == 1 and rnd.random() < 0.7:
            exts.append((0x54, struct.pack("<I", ts)))
        if rnd.random() < 0.15:
            exts.append((0x53, rnd.choice([b"root", b"user\x01"])))
            exts.append((0x52, rnd.choice([b"wheel", b"grp"])))
        if rnd.random() < 0.1:
            exts.append((0x41, struct.pack("<QQQ", rnd.getrandbits(64), rnd.getrandbits(64), rnd.getrandbits(64))))
        if rnd.random() < 0.2:
            exts.append((0x00, b"\0\0"))
        rnd.shuffle(exts)
        f["exts"] = exts
    data = bytes((i * 7 + 3) & 0xff for i in range(clen))
    if fake is not None:
        if lv == 1:
            f["clen_field"] = fake
        else:
            f["clen"] = fake
        data = data[:rnd.choice([0, len(data)])]
    try:
        return lb.build_header(f), data
    except (struct.error, ValueError, OverflowError):
        f["clen"] = clen
        f.pop("clen_field", None)
        return lb.build_header(f), bytes((i * 7 + 3) & 0xff for i in range(clen))


def gen_archive(rnd, now):
    n = rnd.randrange(1, 7)
    out = b""
    for i in range(n):
        last = i == n - 1
        if rnd.random() < 0.15:
            f = hdrgen.rfields(rnd, hostile=rnd.random() < 0.3)
            try:
                h, d = hdrgen.member(f)
            except (struct.error, ValueError, OverflowError):
                h, d = gen_member(rnd, now, last)
        else:
            h, d = gen_member(rnd, now, last)
        out += h + d
    out += rnd.choice([b"", b"\0", b"\0\0\0", bytes(rnd.randrange(256) for _ in range(rnd.randrange(30)))])
    return out


def pats_csv(pats):
    if not pats:
        return "-"
    return ",".join(p.hex() if p else "e" for p in pats)


def variants_for(rnd, literals, full):
    """the 7 pattern lists of an archive"""
    lit = rnd.choice(literals) if literals else b"nothing"
    lit2 = rnd.choice(literals) if literals else b"abc"
    plists = [[], [b"*"], [b"*.txt"], [b"a?c"], [lit],
              rnd.sample(PATTERN_POOL, rnd.randrange(1, 4)) + [rnd.choice([lit2, b"*.txt", b"a?c"])],
              [rnd.choice(MANY_STARS)]]
    rnd.shuffle(plists[5])
    res = []
    if full:
        for m in MODES:
            for q in QUIETS:
                for pl in plists:
                    res.append((m, q, pl))
    else:
        for m in MODES:
            for q in QUIETS:
                res.append((m, q, []))
            for pl in plists[1:]:
                res.append((m, rnd.choice(QUIETS), pl))
    return res


class Runner:
    def __init__(self, lha, model, tmp):
        self.lha, self.model, self.tmp = lha, model, tmp
        self.env = dict(os.environ)
        self.env.update(common.ASAN_ENV)
        self.env["TZ"] = "UTC"

    def c_run(self, path, cmd, pats, now):
        env = dict(self.env)
        env["TEST_NOW_TIME"] = str(now)
        p = subprocess.run([self.lha.encode(), cmd.encode(), path.encode()] + list(pats), stdout=subprocess.PIPE,
                           stderr=subprocess.PIPE, env=env, timeout=120)
        return p.returncode, p.stdout, p.stderr

    def c_archive(self, idx, blob, mtime, now, variants):
        path = os.path.join(self.tmp, "a%d.lzh" % idx)
        with open(path, "wb") as fh:
            fh.write(blob)
        os.utime(path, (mtime, mtime))
        if int(os.stat(path).st_mtime) != mtime:
            raise common.Broken("file system does not keep mtime %d" % mtime)
        res = []
        for (m, q, pl) in variants:
            cmd = m + ("" if q == "-" else "q" if q == "q" else "q" + q)
            res.append(self.c_run(path, cmd, pl, now))
        os.unlink(path)
        return res

    def literals(self, blobs):
        """full paths of the members of every archive, from the model's header parser"""
        out = common.run_lines_parallel([self.model], ["hdr file %s" % common.hexs(b) for b in blobs])
        res = []
        for line in out:
            ls = []
            for part in line.split(" ; "):
                if part.startswith("H "):
                    d = dict(t.partition("=")[::2] for t in part.split())
                    p = b"" if d["p"] in ("NULL", "-") else bytes.fromhex(d["p"])
                    fn = b"" if d["fn"] in ("NULL", "-") else bytes.fromhex(d["fn"])
                    if p + fn:
                        ls.append(p + fn)
            res.append(ls)
        return res


def compare_batch(rn, items, stats, mism, crashes, use_list_cmd=False):
    """items: list of (tag, blob, now, mtime, variants)"""
    lines = []
    for (tag, blob, now, mtime, variants) in items:
        lines.append("listm %d %d file %s %s" % (now, mtime, common.hexs(blob),
                                                 " ".join("%s:%s:%s" % (m, q, pats_csv(pl)) for (m, q, pl) in variants)))
    t0 = time.time()
    mo = common.run_lines_parallel([rn.model], lines, timeout=3000)
    stats["model_s"] += time.time() - t0
    t0 = time.time()
    with ThreadPoolExecutor(max_workers=common.NCPU) as ex:
        co = list(ex.map(lambda a: rn.c_archive(a[0], a[1][1], a[1][3], a[1][2], a[1][4]), enumerate(items)))
    stats["c_s"] += time.time() - t0
    single = []
    for (tag, blob, now, mtime, variants), mline, cres in zip(items, mo, co):
        mparts = mline.split(" ; ")
        if len(mparts) != len(variants):
            mism.append({"archive": tag, "model_line": mline[:300], "hex": blob.hex()[:4000]})
            stats["cases"] += len(variants)
            continue
        for (m, q, pl), mp, (rc, out, err) in zip(variants, mparts, cres):
            stats["cases"] += 1
            stats["bytes"] += len(out)
            stats["mode_" + m] += 1
            if rc != 0:
                crashes.append({"archive": tag, "mode": m, "quiet": q, "patterns": [p.hex() for p in pl], "now": now,
                                "mtime": mtime, "rc": rc, "stderr": common.crash_summary(err.decode(errors="replace")),
                                "hex": blob.hex()[:6000]})
                continue
            exp = "OUT " + (out.hex() if out else "-")
            if mp != exp:
                mism.append({"archive": tag, "mode": m, "quiet": q, "patterns": [p.hex() for p in pl], "now": now,
                             "mtime": mtime, "c": out[:2000], "model": bytes.fromhex(mp[4:]) if mp.startswith("OUT ") and mp != "OUT -" else mp,
                             "hex": blob.hex()[:6000]})
            elif use_list_cmd and stats["single_sel"] % 37 == 0:
                single.append(("list %s %s %d %d %s file %s" % (m, q, now, mtime, pats_csv(pl), common.hexs(blob)), exp))
            stats["single_sel"] += 1
    if single:
        so = common.run_lines_parallel([rn.model], [s for s, _ in single])
        for (ln, exp), got in zip(single, so):
            stats["list_cmd_cases"] += 1
            if got != exp:
                mism.append({"line": ln[:300], "c": exp[:300], "model": got[:300]})


def ratio_pairs(rnd, n):
    P = []
    for j in range(1, 4200, 2):            # exact quarters: ties of the decimal rounding
        k = rnd.choice([1, 1, 2, 3, 7, 1000, 65536])
        P.append((j * k, 400 * k))
    big = [2 ** 24, 2 ** 24 + 1, 2 ** 24 + 2, 2 ** 24 + 3, 2 ** 25 + 2, 2 ** 25 + 6, 2 ** 31 - 1, 2 ** 31, 2 ** 31 + 128, 2 ** 31 + 129,
           2 ** 32 - 1, 2 ** 32 - 128, 2 ** 32 - 129, 2 ** 32 - 127, 2 ** 32, 2 ** 32 + 1, 2 ** 40 + 2 ** 16, 2 ** 40 + 2 ** 16 + 1,
           2 ** 63 - 1, 2 ** 63, 2 ** 63 + 2 ** 39, 2 ** 63 + 2 ** 39 + 1, 2 ** 63 - 2 ** 38, 2 ** 64 - 1, 2 ** 64 - 2 ** 39,
           2 ** 64 - 2 ** 39 - 1, 2 ** 64 - 2 ** 40, 2 ** 64 - 2 ** 40 + 1, 0, 1, 2, 3, 5, 7, 10, 100, 1000, 999, 1001, 9999]
    for a in big:
        for b in big:
            P.append((a, b))
    for _ in range(5000):                  # near x.x5 boundaries, 100.0 and 1000.0
        b = rnd.choice([rnd.randrange(1, 5000), rnd.randrange(1, 2 ** 20), rnd.randrange(1, 2 ** 32), 2000, 20000, 200000])
        t = rnd.choice([rnd.randrange(0, 20000) * 10 + 5, 9995, 99995, 10000, 1000, 999, 9999, 10005, 100005])
        a = b * t // 10000 + rnd.choice([-1, 0, 0, 1])
        P.append((max(0, a), b))
    for _ in range(3000):                  # ratios near 100 % and 1000 % with huge sizes
        b = rnd.choice([rnd.getrandbits(32), rnd.getrandbits(63), rnd.getrandbits(64), rnd.getrandbits(40)]) or 1
        a = b * rnd.choice([1, 1, 10, 10, 2, 100]) + rnd.choice([0, 0, 1, -1, rnd.randrange(-1000, 1000), b // 2000, -(b // 2000)])
        P.append((min(max(0, a), 2 ** 64 - 1), b))
    while len(P) < n:
        ba, bb = rnd.randrange(1, 65), rnd.randrange(1, 65)
        P.append((rnd.getrandbits(ba), rnd.getrandbits(bb)))
    return P


def main():
    ap = argparse.ArgumentParser()
    ap.add_argument("--n", type=int, default=3000)
    ap.add_argument("--ratio", type=int, default=24000)
    ap.add_argument("--seed", type=int, default=1)
    ap.add_argument("--keep", action="store_true")
    a = ap.parse_args()
    rnd = random.Random(a.seed * 7919 + 5)
    t_start = time.time()
    model = common.build_model()
    cb = CBuild("list")
    tmp = tempfile.mkdtemp(prefix="list_", dir=common.ensure_build())
    rc = 0
    try:
        lha = cb.compile("lha", sorted(glob.glob(os.path.join(common.REPO, "src", "*.c"))) + cb.lib_sources(),
                         extra=["-DTEST_BUILD"], sanitize=True)
        rdrv = cb.compile("drv_list_ratio", [os.path.join(common.CDIR, "drv_list_ratio.c"),
                                             os.path.join(common.REPO, "src", "safe.c"),
                                             os.path.join(common.REPO, "src", "filter.c")] + cb.lib_sources(), sanitize=True)
        rn = Runner(lha, model, tmp)
        stats = collections.Counter()
        mism, crashes = [], []

        # ---- 1. ratio formatter on its own
        pairs = ratio_pairs(rnd, a.ratio)
        e = dict(os.environ); e.update(common.ASAN_ENV)
        p = subprocess.run([rdrv], input=("\n".join("%d %d" % ab for ab in pairs) + "\n").encode(), stdout=subprocess.PIPE,
                           stderr=subprocess.PIPE, env=e, timeout=600)
        cout = p.stdout.decode().split("\n")[:-1]
        t0 = time.time()
        mout = common.run_lines_parallel([model], ["ratio %d %d" % ab for ab in pairs])
        t_ratio = time.time() - t0
        bad = [(ab, c, m) for ab, c, m in zip(pairs, cout, mout) if c != m]
        wide = sum(1 for c in cout if len(c) > 6)
        tie_q = sum(1 for (x, y) in pairs if y and (x * 400) % y == 0 and ((x * 400) // y) % 2 == 1)
        print("ratio: %d pairs (C rc %d, %d outputs), %d differ; %d wider than the column, %d exact quarter ties; model %.1fs"
              % (len(pairs), p.returncode, len(cout), len(bad) + abs(len(cout) - len(pairs)), wide, tie_q, t_ratio))
        for b in bad[:10]:
            print("  RATIO MISMATCH", b)
        if bad or len(cout) != len(pairs) or p.returncode != 0:
            rc = 1

        # ---- 2. option parsing oddities on one archive
        blob = open(os.path.join(common.REPO, "test/archives/lha_unix114i/h1_subdir.lzh"), "rb").read() \
            if os.path.exists(os.path.join(common.REPO, "test/archives/lha_unix114i/h1_subdir.lzh")) else gen_archive(rnd, 1335830400)
        odd = ["-l", "-v", "lq", "vq", "-lvq", "lq9", "lq5v", "lvq1f", "lfin", "vvv", "lvv", "lq0q2", "lq2q0", "lw=x", "lwx",
               "lw", "lqw=q2", "lx", "l-", "", "-", "--l", "z", "lq ", "lQ", "lq/", "lq:", "vq1v"]
        path = os.path.join(tmp, "odd.lzh")
        open(path, "wb").write(blob)
        os.utime(path, (946684800, 946684800))
        lines = ["listm 1335830400 946684800 file %s %s" % (blob.hex(), " ".join("%s:-:-" % (c or "''") for c in odd if c and " " not in c and ":" not in c))]
        oddc = [c for c in odd if c and " " not in c and ":" not in c]
        mo = common.run_lines_parallel([model], lines)[0].split(" ; ")
        for c, mp in zip(oddc, mo):
            r, out, err = rn.c_run(path, c, [], 1335830400)
            stats["option_cases"] += 1
            if mp == "USAGE":
                ok = b"usage:" in out and r != 0
            else:
                ok = r == 0 and mp == "OUT " + (out.hex() if out else "-")
            if not ok:
                mism.append({"option": c, "rc": r, "c": out[:300], "model": mp[:300]})

        # ---- 3. the repository's archives
        files = sorted(f for f in glob.glob(os.path.join(common.REPO, "test/archives/**/*"), recursive=True) if os.path.isfile(f))
        blobs = [open(f, "rb").read() for f in files]
        lits = rn.literals(blobs)
        items = []
        for f, b, ls in zip(files, blobs, lits):
            now = 1335830400
            items.append((os.path.relpath(f, common.REPO), b, now, 946684800, variants_for(rnd, ls, True)))
        for i in range(0, len(items), 40):
            compare_batch(rn, items[i:i + 40], stats, mism, crashes, use_list_cmd=True)
        repo_cases = stats["cases"]
        print("repository archives: %d files, %d command lines compared" % (len(files), repo_cases))
        # the repository's own expected outputs (informational: they were recorded with TZ=Europe/London, so
        # members stamped in summer time differ by one hour from the TZ=UTC runs used here)
        exp = []
        for f, b in zip(files, blobs):
            rel = os.path.relpath(f, os.path.join(common.REPO, "test/archives"))
            for m in MODES:
                ef = os.path.join(common.REPO, "test/output", rel + "-%s.txt" % m)
                if os.path.exists(ef):
                    exp.append(("list %s - 1335830400 946684800 - file %s" % (m, common.hexs(b)), open(ef, "rb").read()))
        got = common.run_lines_parallel([model], [l for l, _ in exp])
        exp_ok = sum(1 for (l, e_), g in zip(exp, got) if g == "OUT " + e_.hex())
        print("repository expected outputs (test/output/*-{l,lv,v,vv}.txt, recorded with TZ=Europe/London): %d files, "
              "%d byte-identical to the model at TZ=UTC" % (len(exp), exp_ok))

        # ---- 4. generated archives
        gen = []
        nows = [1335830400, 1335830400, 1335830400, HALF_YEAR, HALF_YEAR + 1, HALF_YEAR + 5, 100, 0, 2 ** 32 - 1, 2 ** 31, 1700000000]
        for k in range(a.n):
            now = rnd.choice(nows + [rnd.randrange(HALF_YEAR, 2 ** 32)])
            b = gen_archive(rnd, now)
            mtime = rnd.choice([946684800, 946684800, max(0, now - HALF_YEAR), max(0, now - HALF_YEAR + 1), 0, 1, 2 ** 31, 2 ** 32 - 1,
                                2 ** 32, 2 ** 32 + 86400 * 500 + 7, now, rnd.getrandbits(32), rnd.getrandbits(31)])
            gen.append(("gen%d" % k, b, now, mtime))
        lits = rn.literals([g[1] for g in gen])
        members = sum(len(l) for l in lits)
        items = [(tag, b, now, mtime, variants_for(rnd, ls, True)) for (tag, b, now, mtime), ls in zip(gen, lits)]
        for i in range(0, len(items), 250):
            compare_batch(rn, items[i:i + 250], stats, mism, crashes, use_list_cmd=(i == 0))
            print("  generated %d/%d: cases %d, mismatches %d, crashes %d" % (min(i + 250, len(items)), len(items), stats["cases"],
                                                                            len(mism), len(crashes)), flush=True)
        print("generated archives: %d (listed members with a name: %d), command lines compared: %d"
              % (len(items), members, stats["cases"] - repo_cases))
        print("total command lines compared: %d (+%d via the single `list` command, +%d option-parsing), stdout bytes %d"
              % (stats["cases"], stats["list_cmd_cases"], stats["option_cases"], stats["bytes"]))
        print("per mode:", {m: stats["mode_" + m] for m in MODES})
        print("time: model %.1fs (wall, %d processes), C tool %.1fs (wall, %d threads); total %.1fs"
              % (stats["model_s"], common.NCPU, stats["c_s"], common.NCPU, time.time() - t_start))
        print("mismatches: %d   C crashes/non-zero exits: %d" % (len(mism), len(crashes)))
        for m in mism[:8]:
            print("  MISMATCH", m)
        for c in crashes[:8]:
            print("  CRASH", c)
        if mism or crashes:
            rc = 1
    finally:
        if not a.keep:
            cb.close()
            shutil.rmtree(tmp, ignore_errors=True)
    print("RESULT", "PASS" if rc == 0 else "FAIL")
    return rc


if __name__ == "__main__":
    sys.exit(main())

#!/usr/bin/env python3
"""Differential test of the filesystem model coq/Fs.v (interpreter
coq/FsRun.v, extracted, handler harness/ml/d_fs.ml) against the real kernel
(harness/c/drv_fs.c): the same `fs ...` case lines -- sequences of the
operations lib/lha_arch_unix.c performs -- are fed to both; the results of
every operation and the dumps of the final trees must be identical.

Case families: (1) all sequences up to length 3 over a fixed alphabet of
operations, (2) random sequences over a pool of awkward paths, link targets
and modes, (3) directed cases for the limits (40 links, NAME_MAX, PATH_MAX),
(4) the same random sequences executed as root.

Usage: test_fs.py [--seed N] [--quick] [--random N] [--plain] [--model EXE] [--show N]
Exit 0: exact agreement on every case.  Exit 1: a mismatch.
"""
import os, sys, time, random, argparse, itertools, subprocess, collections
import common
from common import CBuild, CDIR, run_lines_parallel


def hx(s):
    b = s if isinstance(s, bytes) else s.encode("latin-1")
    return b.hex() if b else "-"


def mkdir(p, mode=0o755): return "mkdir %s %d" % (hx(p), mode)
def exists(p): return "exists %s" % hx(p)
def lstat(p): return "lstat %s" % hx(p)
def unlink(p): return "unlink %s" % hx(p)
def fopen(p, perms=-1, data=b""): return "fopen %s %d %s" % (hx(p), perms, hx(data))
def symlink(p, t): return "symlink %s %s" % (hx(p), hx(t))
def chmod(p, mode): return "chmod %s %d" % (hx(p), mode)
def utime(p, t): return "utime %s %d" % (hx(p), t)
def chown(p, u=1, g=1): return "chown %s %d %d" % (hx(p), u, g)


def case(ops, root=False):
    return "fs " + ("root " if root else "") + " ".join(ops)


ARITY = {"mkdir": 2, "exists": 1, "lstat": 1, "unlink": 1, "fopen": 3, "symlink": 2, "chmod": 2, "utime": 2, "chown": 3}
HEXARG = {"mkdir": [0], "exists": [0], "lstat": [0], "unlink": [0], "fopen": [0, 2], "symlink": [0, 1], "chmod": [0],
          "utime": [0], "chown": [0]}
OCTARG = {"mkdir": [1], "chmod": [1], "fopen": [1]}


def pretty(line):
    """human-readable form of a case line"""
    t = line.split()[1:]
    out = []
    if t and t[0] == "root":
        out.append("[as root]")
        t = t[1:]
    i = 0
    while i < len(t):
        op = t[i]
        n = ARITY.get(op, 0)
        args = t[i + 1:i + 1 + n]
        sh = []
        for k, a in enumerate(args):
            if k in HEXARG.get(op, []):
                b = b"" if a == "-" else bytes.fromhex(a)
                s = repr(b.decode("latin-1"))
                sh.append(s if len(s) < 60 else s[:25] + "...(%d bytes)" % len(b))
            elif k in OCTARG.get(op, []) and int(a) >= 0:
                sh.append("0%o" % int(a))
            else:
                sh.append(a)
        out.append("%s(%s)" % (op, ", ".join(sh)))
        i += 1 + n
    return "; ".join(out)


def pretty_out(o):
    if "|" not in o:
        return o
    res, tree = o.split("|", 1)
    t = tree.split()
    ents = []
    i = 0
    while i < len(t):
        k = t[i]
        def loc(h): return "/" + ("" if h == "-" else bytes.fromhex(h).decode("latin-1"))
        if k in ("D",) and i + 3 < len(t) + 1:
            ents.append("%s %s %s %s" % (k, loc(t[i + 1])[:70], t[i + 2], t[i + 3])); i += 4
        elif k == "F":
            ents.append("F %s %s %s %s" % (loc(t[i + 1])[:70], t[i + 2], t[i + 3], t[i + 4][:40])); i += 5
        elif k == "L":
            tg = t[i + 2]
            ents.append("L %s -> %r" % (loc(t[i + 1])[:70], "" if tg == "-" else bytes.fromhex(tg).decode("latin-1")[:60])); i += 3
        else:
            ents.append(" ".join(t[i:])); break
    return res.strip() + " | " + "; ".join(e for e in ents if "/foreign" not in e or "foreign/x" in e or True)


# ---------------------------------------------------------------- case families

def alphabet():
    return [
        mkdir("d", 0o755), mkdir("d/e", 0o777), mkdir("d/", 0o700), mkdir("l", 0o755),
        mkdir("../outside/n", 0o755),
        exists("d"), exists("l"), exists("l/x"), exists("d/e"), exists("f/x"), exists("l/"), exists("f"),
        lstat("l"), lstat("l/"), lstat("d/m"),
        unlink("d"), unlink("f"), unlink("l"), unlink("l/"), unlink("d/x"),
        fopen("f", 0o644, b"ab"), fopen("l", -1, b"cd"), fopen("d/x", 0o400, b""), fopen("l/x", -1, b"ef"),
        fopen("d", -1, b""), fopen("../outside/f", -1, b"zz"),
        symlink("l", "d"), symlink("l", "f"), symlink("l", "nowhere"), symlink("l", "l"), symlink("l", ".."),
        symlink("l", "../outside"), symlink("d/m", "../f"), symlink("f", "l"), symlink("d", "f"),
        chmod("d", 0), chmod("d", 0o555), chmod("d", 0o300), chmod("l", 0o500), chmod("f", 0), chmod(".", 0o500),
        utime("d", 1000), utime("l", 2000), chown("f"),
    ]


PATHS = ["a", "b", "d", "d/e", "d/e/g", "d/x", "l", "l/x", "l/e", "l/f", "m", "m/y", "a/", "d/", "l/", "m//",
         "a/../b", "a/./b", "a//b", "./a", "d/../a", "d/../../outside/q", "l/..", "l/.", "l/../z", "d/..", "d/.",
         "../outside", "../outside/x", "../outside/f", "../outside/f/", "../outside/f/x", "../root/a", "../root",
         "..", ".", "../..", "../../outside/f", "", "a/b/", "a/b", "b/a",
         "/root/a", "/root/d/x", "/outside/f", "/outside/n", "/", "//root//a", "/nonexistent/x", "/a",
         "/foreign/x", "/foreign/rf", "/foreign/ww/h", "/foreign/ww/n", "/foreign/rd/g", "/foreign/rd/n",
         "/foreign/priv/s", "/foreign/priv", "/foreign", "../foreign/x", "/foreign/x/y",
         "\xe9\xff", "a b".replace(" ", "\x01"), "x" * 255, "x" * 256, "d/" + "y" * 255, "d/" + "y" * 256]
TARGETS = ["a", "b", "d", "d/e", "l", "m", ".", "..", "../outside", "../outside/f", "/outside", "/", "/root",
           "/root/a", "nowhere", "no/where", "d/", "a/", "b/", "l/..", "../root", "../../outside", "../..", "",
           "/foreign", "/foreign/ww", "/foreign/rf", "/foreign/priv", "x", "./l", "m/y", "/root/l", "../root/m",
           "x" * 256, "d//e/", "//"]
MODES = [0, 0o755, 0o555, 0o500, 0o300, 0o700, 0o777, 0o644, 0o600, 0o444, 0o200, 0o100, 0o400, 0o1777, 0o2755,
         0o4755, 0o7777, 0o6711, 0o100644, 0o40755, 0o2700, 0o1000, 0o2070, 0o4000]
TIMES = [1, 1000, 86400 * 365, 1000000000, 1234567890]


def random_case(rnd, root=False):
    n = rnd.choice([2, 3, 4, 5, 6, 8, 10, 14])
    # a small working set of paths makes the operations interact
    k = rnd.choice([3, 4, 6, 10])
    paths = [rnd.choice(PATHS) for _ in range(k)]
    if rnd.random() < 0.7:
        paths += ["d", "l"]
    targets = [rnd.choice(TARGETS) for _ in range(3)] + [rnd.choice(paths) for _ in range(2)]
    ops = []
    for _ in range(n):
        p = rnd.choice(paths)
        r = rnd.random()
        if r < 0.18:
            ops.append(mkdir(p, rnd.choice(MODES) if rnd.random() < 0.5 else 0o755))
        elif r < 0.28:
            ops.append(exists(p))
        elif r < 0.32:
            ops.append(lstat(p))
        elif r < 0.40:
            ops.append(unlink(p))
        elif r < 0.58:
            ops.append(fopen(p, rnd.choice([-1, -1] + MODES), rnd.choice([b"", b"x", b"data\x00\xff"])))
        elif r < 0.76:
            ops.append(symlink(p, rnd.choice(targets)))
        elif r < 0.88:
            ops.append(chmod(p, rnd.choice(MODES)))
        elif r < 0.95:
            ops.append(utime(p, rnd.choice(TIMES)))
        else:
            ops.append(chown(p, rnd.choice([0, 1, 1000]), rnd.choice([0, 1, 1000])))
    if rnd.random() < 0.5:
        ops += [rnd.choice([exists, exists, lstat])(q) for q in paths[:3]]
    return case(ops, root)


def chain(n, final, first="c0"):
    """c0 -> c1 -> ... -> c(n-1) -> final: resolving c0 follows n links"""
    ops = []
    for i in range(n):
        ops.append(symlink("c%d" % i, "c%d" % (i + 1) if i + 1 < n else final))
    return ops


def directed():
    L = []
    for n in (1, 2, 8, 9, 39, 40, 41, 42, 45):
        pre = [fopen("t", 0o644, b"t"), mkdir("td", 0o755), fopen("td/u", -1, b"u")]
        L.append(case(pre + chain(n, "t") + [exists("c0"), chmod("c0", 0o600), utime("c0", 5), exists("c1"),
                                             fopen("c0", -1, b"new"), exists("c0")]))
        L.append(case(pre + chain(n, "td") + [exists("c0"), exists("c0/u"), exists("c0/"), fopen("c0/v", -1, b"v"),
                                              mkdir("c0/w", 0o755), unlink("c0/u"), symlink("c0/s", "x"),
                                              exists("c1/u"), mkdir("c0", 0o755), mkdir("c0/", 0o755)]))
        L.append(case(pre + chain(n, "nowhere") + [exists("c0"), exists("c0/x"), mkdir("c0", 0o755),
                                                   fopen("c0/x", -1, b"")]))
        # links spread over several components: k links per component
    for k, m in ((20, 2), (21, 2), (20, 3), (10, 4), (14, 3), (13, 3), (40, 1), (41, 1)):
        ops = [mkdir("z", 0o755)]
        for j in range(m):
            for i in range(k):
                ops.append(symlink("z/p%d_%d" % (j, i), "p%d_%d" % (j, i + 1) if i + 1 < k else "."))
        path = "z/" + "/".join("p%d_0" % j for j in range(m))
        ops += [exists(path), fopen(path + "/new", -1, b"n"), mkdir(path + "/nd", 0o755), exists(path + "/")]
        L.append(case(ops))
    # loops
    L.append(case([symlink("a", "b"), symlink("b", "a"), exists("a"), exists("a/x"), fopen("a", -1, b"q"),
                   exists("a"), exists("b"), mkdir("b", 0o755), unlink("b"), mkdir("b", 0o755), exists("a")]))
    L.append(case([symlink("s", "s/s"), exists("s"), symlink("t", "./t"), exists("t/"), chmod("t", 0o777),
                   utime("s", 77), mkdir("s/x", 0o755), fopen("s/x", -1, b""), symlink("s/y", "q")]))
    # component and path lengths
    for n in (254, 255, 256, 257, 300):
        nm = "n" * n
        L.append(case([mkdir(nm, 0o755), exists(nm), fopen(nm + "/f", -1, b"1"), exists(nm + "/f"),
                       symlink("ln", nm), exists("ln"), exists(nm + "/.."), unlink(nm), chmod(nm, 0o700)]))
        L.append(case([fopen(nm, 0o644, b"1"), exists(nm), symlink(nm + "2", "t"), utime(nm, 9), unlink(nm)]))
        L.append(case([mkdir("d", 0o755), exists("d/" + nm), exists("d/" + nm + "/x"), exists(nm + "/../d"),
                       exists("nowhere/" + nm), chmod("d", 0), exists("d/" + nm), exists("f/" + nm),
                       fopen("f", -1, b""), exists("f/" + nm)]))
    for n in (4094, 4095, 4096, 4097, 5000):
        for stem, fill in (("d", "/."), ("d", "//"), ("", "./"), ("nowhere", "/.")):
            p = stem + fill * ((n - len(stem)) // 2)
            p = p + "/" * (n - len(p)) if fill != "./" else "/" * (n - len(p)) + p
            assert len(p) == n
            L.append(case([mkdir("d", 0o755), exists(p), chmod(p, 0o700), mkdir(p + "", 0o755), utime(p, 3)]))
        t = "d" + "/." * ((n - 1) // 2)
        t = t + "/" * (n - len(t))
        L.append(case([mkdir("d", 0o755), symlink("lt", t), exists("lt"), exists("lt/x"), fopen("lt/x", -1, b"")]))
        q = "./" * ((n - 1) // 2)
        q = "/" * (n - 1 - len(q)) + q + "k"
        L.append(case([fopen(q, 0o600, b"k"), exists(q), exists("k"), symlink(q, "t"), mkdir(q, 0o700), unlink(q)]))
    # set-group-ID inheritance, sticky directories, odd modes
    L.append(case([mkdir("g", 0o2755), chmod("g", 0o2755), mkdir("g/h", 0o700), fopen("g/f", 0o2644, b""),
                   mkdir("g/h/i", 0o7777), symlink("g/l", "h"), mkdir("g/l/j", 0)]))
    L.append(case([mkdir("st", 0o1777), chmod("st", 0o1777), fopen("st/f", -1, b""), unlink("st/f"),
                   mkdir("st/d", 0o1777), chmod("st", 0o1555), fopen("st/g", -1, b"")]))
    # the foreign (not owned) part
    L.append(case([exists("/foreign/rf"), chmod("/foreign/rf", 0o666), utime("/foreign/rf", 5), unlink("/foreign/rf"),
                   fopen("/foreign/rf", -1, b"mine"), symlink("/foreign/rf", "x"), fopen("/foreign/mine", 0o644, b"m"),
                   unlink("/foreign/mine"), mkdir("/foreign/md", 0o755), fopen("/foreign/md/x", -1, b""),
                   symlink("/foreign/ml", "rf"), exists("/foreign/ml"), unlink("/foreign/ml"),
                   chmod("/foreign", 0o755), utime("/foreign", 9), unlink("/foreign/ww/h"), fopen("/foreign/ww/n", -1, b""),
                   fopen("/foreign/rd/g", -1, b""), fopen("/foreign/rd/n", -1, b""), exists("/foreign/priv/s"),
                   exists("/foreign/priv"), exists("/foreign/priv/nothing"), mkdir("/foreign/rd/g", 0o755),
                   mkdir("/foreign/priv/x", 0o755), utime("/foreign/rd/g", 4), chmod("/foreign/ww", 0)]))
    return L


def plain_ok(line):
    """Without chroot the scratch directory is not "/": only cases that can
    neither name an absolute location nor climb above the scratch directory
    are comparable (paths with at most one "..", link targets with none), and
    nothing is foreign or run as root."""
    t = line.split()[1:]
    if t[:1] == ["root"]:
        return False
    i = 0
    while i < len(t):
        op = t[i]
        args = t[i + 1:i + 1 + ARITY[op]]
        for k in HEXARG[op]:
            b = b"" if args[k] == "-" else bytes.fromhex(args[k])
            is_target = op == "symlink" and k == 1
            ups = b.split(b"/").count(b"..")
            if b.startswith(b"/") or b"foreign" in b or ups > (0 if is_target else 1):
                return False
        i += 1 + ARITY[op]
    return True


# ---------------------------------------------------------------- main

def main():
    ap = argparse.ArgumentParser()
    ap.add_argument("--seed", type=int, default=1)
    ap.add_argument("--quick", action="store_true")
    ap.add_argument("--random", type=int, default=None, help="number of random sequences")
    ap.add_argument("--model", default=None, help="model runner to use instead of building it")
    ap.add_argument("--plain", action="store_true",
                    help="run the driver as uid 65534 from the start (no chroot): tests its fallback mode")
    ap.add_argument("--show", type=int, default=15, help="mismatches to print")
    ap.add_argument("--dump-mismatches", default=None, help="write all mismatching cases to this file")
    a = ap.parse_args()
    rnd = random.Random(a.seed)
    t0 = time.time()
    model = a.model or common.build_model()
    cb = CBuild("fs")
    try:
        drv = cb.compile("drv_fs", [os.path.join(CDIR, "drv_fs.c")], extra=["-I" + CDIR], sanitize=False)
        drv = [drv]
        if a.plain and os.geteuid() == 0:
            os.chmod(cb.dir, 0o755)
            drv = ["setpriv", "--reuid=65534", "--regid=65534", "--clear-groups"] + drv
        mode = subprocess.run(drv + ["--probe"], stdout=subprocess.PIPE).stdout.decode().strip()
        print("driver mode: %s (%s)" % (mode, "chroot + setuid 65534" if mode == "chroot" else
                                        "no chroot: absolute paths, foreign files and root cases are skipped"))
        fam = collections.OrderedDict()
        A = alphabet()
        ex = [case([x]) for x in A] + [case(list(s)) for s in itertools.product(A, repeat=2)]
        if a.quick:
            ex += [case(list(rnd.sample(A, 3))) for _ in range(3000)]
        else:
            ex += [case(list(s)) for s in itertools.product(A, repeat=3)]
        fam["exhaustive(len<=3, %d ops)" % len(A)] = ex
        nr = a.random if a.random is not None else (3000 if a.quick else 40000)
        fam["random"] = [random_case(rnd) for _ in range(nr)]
        fam["directed"] = directed()
        fam["random-as-root"] = [random_case(rnd, root=True) for _ in range(nr // 4)]
        total = bad = 0
        allbad = []
        for name, lines in fam.items():
            if mode != "chroot":
                lines = [l for l in lines if plain_ok(l)]
            t1 = time.time()
            cout = run_lines_parallel(drv, lines)
            mout = run_lines_parallel([model], lines)
            mism = [(l, c, m) for l, c, m in zip(lines, cout, mout) if c != m]
            if len(cout) != len(lines) or len(mout) != len(lines):
                print("  %s: output count differs (%d cases, C %d, model %d)" % (name, len(lines), len(cout), len(mout)))
                bad += 1
            print("%-32s %7d cases  %6d mismatches  (%.1fs)" % (name, len(lines), len(mism), time.time() - t1))
            total += len(lines)
            bad += len(mism)
            allbad += mism
            for l, c, m in mism[:a.show]:
                print("  case : " + pretty(l))
                print("  C    : " + pretty_out(c))
                print("  model: " + pretty_out(m))
                print("  raw  : " + l[:300])
        if a.dump_mismatches:
            with open(a.dump_mismatches, "w") as f:
                for l, c, m in allbad:
                    f.write(l + "\n#C " + c + "\n#M " + m + "\n")
        print("compared %d sequences: %s  (%.1fs)" % (total, "all agree" if bad == 0 else "%d MISMATCHES" % bad,
                                                     time.time() - t0))
        return 0 if bad == 0 else 1
    finally:
        cb.close()


if __name__ == "__main__":
    sys.exit(main())

"""C04 -- PMarc -pm1-/-pm2- decode every valid stream exactly."""
import random, re
import rtcheck, decgen, common
import test_enc_pm as gen

PID = "C04"
TRUSTED = ["spec S_Pm.v (LZ77 + move-to-front semantics, pm1/pm2 serialisers, wf predicates) run extracted", "C driver harness/c/drv_dec.c"]
ASSUMPTIONS = ["valid stream = serialisation of a description satisfying wf_pm1 / wf_pm2",
               "theorems pm2_roundtrip / pm1_roundtrip / pm1_zero_extension are about the models Pm2.v / Pm1.v; the tie to the C is "
               "this run's correspondence (C output = spec expansion = model output); pm1 outputs below 2^32 bytes"]


def pm2_code28_segments(rnd):
    """Directed family G (audit round): a whole table segment made only of "copy 256 bytes at distance 0" commands
    (code 28), surrounded by varied data.  With tables renewed at every opportunity (variant bit 1 clear) the segment's
    code table is the single-code form with count field 29 and minimum length 0 -- the one code table of ten or more
    codes that is NOT followed by an offset table.  Every command of the segment costs zero bits, so a decoder that
    reads an offset table there shows it only in what follows the segment: hence the varied tail, whose tables are read
    at the next re-read point.  (The existing single-28 cases consist of code 28 only: any misreading of their header
    is invisible.)"""
    res = []
    for T in (0, 4096, 8192, 12288):
        for variant in (0, 4, 1, 8):
            g = gen.Gen(0x20)
            if T:
                gen.pm2_fill(g, T, rnd)
            for _ in range(16):                       # 16 * 256 = 4096 bytes: exactly the segment [T, T + 4096)
                g.copy(0, 256)
            for _ in range(rnd.randrange(20, 60)):
                gen.pm2_rand_cmd(g, rnd)
            res.append(("code28-seg@%d" % T, g.line(), variant, g))
    return res


def _strata(tag, extra=None):
    """the strata a generated case belongs to (quick tier: every stratum keeps at least one representative)"""
    m = re.match(r"(copy\d+@\d+)-\d+$", tag)
    if m:
        return [m.group(1)]
    m = re.match(r"len(\d+)@(\d+)$", tag)
    if m:
        return ["len%s" % m.group(1), "len@%s" % m.group(2)]
    m = re.match(r"hdr(\d+)$", tag)
    if m:
        return ["hdr%s" % m.group(1)]
    if tag == "rand":
        return ["rand"]
    return [tag if extra is None else "%s/%s" % (tag, extra)]


def _thr_strata(c):
    """-pm1- threshold cases: (output position of the copy under test, its distance class, two-byte copy or not)"""
    m = re.match(r"thr(\d+)([+-]\d+)-", c[0])
    if not m:
        return []
    cm = re.match(r"C(\d+):(\d+)$", c[3].cmds[-4]) if len(c[3].cmds) >= 4 else None
    if not cm:
        return []
    d, ln = int(cm.group(1)), int(cm.group(2))
    cls = 0 if d < 64 else 1 if d < 576 else 2 if d < 2624 else 3
    return ["thr@%d/%d/%s" % (int(m.group(1)) + int(m.group(2)), cls, "2" if ln == 2 else "n")]


def stratified(cases, total, always, per, strata_of):
    """cases: shuffled list.  Keeps (1) every case whose tag satisfies `always`, (2) walking the list, every
    case that belongs to a stratum represented fewer than per(stratum) times so far, (3) the first remaining ones up to
    `total`.  Same number of cases as the plain prefix this replaces, but no boundary family is left out by chance."""
    keep, rest, seen = [], [], {}
    for c in cases:
        if always(c[0]):
            keep.append(c)
            continue
        st = strata_of(c)
        if any(seen.get(k, 0) < per(k) for k in st):
            keep.append(c)
            for k in st:
                seen[k] = seen.get(k, 0) + 1
        else:
            rest.append(c)
    return keep + rest[:max(0, total - len(keep))]


def run(ctx):
    rnd = random.Random(ctx.seed * 86028121 + 4)
    cases = []
    c2 = gen.gen_pm2(rnd, True)
    c1 = gen.gen_pm1(rnd, True)
    if ctx.quick:
        rnd.shuffle(c2); rnd.shuffle(c1)
        zt = [c for c in c1 if c[0].startswith("zerotail")]
        core = [c for c in c1 if c[0].startswith("thrcore")]
        # (audit round) stratified instead of a plain prefix of the shuffled list: the prefix left whole boundary
        # families out by chance (e.g. seed 1: no -pm1- case with start header 22, none with a byte block of exactly
        # 216 / 24 / 11, 2 of the 28 "litpos" cases); still 350 cases per method (+ the thrcore family, kept whole)
        c2 = stratified(c2, 350, lambda t: t.startswith("single-seg"), lambda k: 2 if k.startswith("copy") else 12 if k == "rand" else 1,
                        lambda c: _strata(c[0], c[2] if (c[0].startswith("single-") or c[0] == "256-mixed") else None))
        c1 = core + zt[:60] + stratified([c for c in c1 if not c[0].startswith(("zerotail", "thrcore"))], 350 - min(60, len(zt)),
                                         lambda t: t.endswith("-classes"),
                                         lambda k: 12 if k == "rand" else 1,
                                         lambda c: _strata(c[0]) + _thr_strata(c))
    else:
        c2 = gen.gen_pm2(rnd, False); c1 = gen.gen_pm1(rnd, False)
    c2 = c2 + pm2_code28_segments(random.Random(ctx.seed * 7919 + 404))      # always, both tiers
    for (tag, line, variant, g) in c2:
        cases.append(("-pm2-", tag, "pm2enc %s %d" % (line, variant)))
    extra = []
    for (tag, hdr, line, g) in c1:
        cases.append(("-pm1-", tag, "pm1enc %s %s" % (hdr, line)))
    res = rtcheck.roundtrip(ctx, PID, cases,
        "pm2: outputs reaching each table-rebuild point (1,2,4,8 KiB, then every 4 KiB) exactly at a literal and in the middle of a copy "
        "at every split, all history-position / copy-length / distance classes at both ends, single-code tables at the start and for a whole segment after varied data (one kind of copy from one re-read point to the next), 16 table variants; "
        "pm1: every start header 0..31, output positions around every distance-width threshold +-1 (quick tier: every distance class at exactly T-1 and T for all twelve thresholds; thorough: T-8..T+8), block lengths 1..216 (+1), copy "
        "length class boundaries; streams from the extracted spec serialisers; C output must equal the spec expansion; model compared. "
        "non-trivial = distinct case with output")
    return res


def replay(payload):
    return rtcheck.replay(PID, payload)

"""C04 -- PMarc -pm1-/-pm2- decode every valid stream exactly."""
import random
import rtcheck, decgen, common
import test_enc_pm as gen

PID = "C04"
TRUSTED = ["spec S_Pm.v (LZ77 + move-to-front semantics, pm1/pm2 serialisers, wf predicates) run extracted", "C driver harness/c/drv_dec.c"]
ASSUMPTIONS = ["valid stream = serialisation of a description satisfying wf_pm1 / wf_pm2",
               "theorems pm2_roundtrip / pm1_roundtrip / pm1_zero_extension are about the models Pm2.v / Pm1.v; the tie to the C is "
               "this run's correspondence (C output = spec expansion = model output); pm1 outputs below 2^32 bytes"]


def run(ctx):
    rnd = random.Random(ctx.seed * 86028121 + 4)
    cases = []
    c2 = gen.gen_pm2(rnd, True)
    c1 = gen.gen_pm1(rnd, True)
    if ctx.quick:
        rnd.shuffle(c2); rnd.shuffle(c1)
        seg = [c for c in c2 if c[0].startswith("single-seg")]
        zt = [c for c in c1 if c[0].startswith("zerotail")]
        core = [c for c in c1 if c[0].startswith("thrcore")]
        c2, c1 = seg + [c for c in c2 if not c[0].startswith("single-seg")][:350 - len(seg)], \
            core + zt[:60] + [c for c in c1 if not c[0].startswith(("zerotail", "thrcore"))][:350 - min(60, len(zt))]
    else:
        c2 = gen.gen_pm2(rnd, False); c1 = gen.gen_pm1(rnd, False)
    for (tag, line, variant, g) in c2:
        cases.append(("-pm2-", tag, "pm2enc %s %d" % (line, variant)))
    extra = []
    for (tag, hdr, line, g) in c1:
        cases.append(("-pm1-", tag, "pm1enc %s %s" % (hdr, line)))
    res = rtcheck.roundtrip(ctx, PID, cases,
        "pm2: outputs reaching each table-rebuild point (1,2,4,8 KiB, then every 4 KiB) exactly at a literal and in the middle of a copy "
        "at every split, all history-position / copy-length / distance classes at both ends, single-code tables at the start and for a whole segment after varied data (one kind of copy from one re-read point to the next), 16 table variants; "
        "pm1: every start header 0..31, output positions around every distance-width threshold +-1 (quick tier: every distance class at exactly T-1 and T for all twelve thresholds; thorough: T-8..T+8), block lengths 1..216 (+1), copy "
        "length class boundaries; streams from the extracted spec serialisers; C output must equal the spec expansion; model compared. "
        "non-trivial = distinct case with output")
    return res


def replay(payload):
    return rtcheck.replay(PID, payload)

"""C07 -- a member is reported good only if its bytes match the recorded length and CRC-16."""
import os, random, collections, shutil, struct, re
from concurrent.futures import ThreadPoolExecutor
import common, lhabuild as lb, hdrgen, seeds
from common import CBuild

PID = "C07"
TRUSTED = ["verdict oracle: the bytes the tool itself delivers with 'pq2' (no banners) are measured by the harness (length, "
           "independent bitwise CRC-16) and compared with the header values the harness wrote",
           "for stored members the expected output is computed without the tool at all"]
ASSUMPTIONS = ["bursts are numbered in CRC consumption order (least significant bit of each byte first)"]


def crc16(bs):
    return lb.crc16(bs)


def mk_archive(method, data, length, crc, name=b"f.bin", level=None, rnd=None):
    level = rnd.randrange(4) if level is None else level
    f = {"level": level, "method": method, "clen": len(data), "length": length, "crc": crc, "attr": 0x20,
         "os": ord('U'), "time": 0x21 if level < 2 else 1000000000}
    if level in (0, 1):
        f["name"] = name
        if level == 1:
            f["exts"] = []
    else:
        f["exts"] = [(1, name)]
    return lb.build_header(f) + data + b"\0"


def verdict_t(out):
    """'good' / 'bad' / None from the output of lha t"""
    if b"Tested" in out:
        return "good"
    if b"CRC error" in out:
        return "bad"
    return None


# ---- multi-member archives, option combinations, member selection, unsupported methods (exit status clause) ----

def _member(method, data, length, crc, name, level):
    """one member (header + data, no end marker)"""
    return mk_archive(method, data, length, crc, name=name, level=level)[:-1]


def multi_cases(rnd, quick):
    """(archive, command word, member patterns, [(name, verdict, supported)], tag): archives of 1-4 STORED members
    whose verdicts the harness knows without the tool (good; wrong CRC; wrong length; cut data is not used here),
    plus members of a method the library has no decoder for (recorded length > 0: nothing is produced, so
    they cannot be good).  Run with t / x and their quiet levels, with and without member patterns."""
    res = []
    kinds = ["good", "crc", "len", "unknown"]
    shapes = [["crc", "good"], ["good", "crc", "good"], ["len", "good", "good"], ["good", "good"], ["good", "good", "crc"],
              ["unknown", "good"], ["good", "unknown"], ["unknown"], ["crc"], ["good"], ["len"], ["good", "good", "good", "crc", "good"]]
    for _ in range(4 if quick else 40):
        shapes.append([rnd.choice(kinds) for _ in range(rnd.choice([2, 3, 4]))])
    cmds = ["t", "x", "tq", "tq1", "tq2", "xq", "xq1", "xq2", "xf", "e", "tv", "xfq0", "xi"]
    # MANY failing members: a count of failures that is a multiple of 256 must still give a non-zero status
    nbig = len(shapes)
    for shape in ([["crc"] * 256, ["good"] + ["crc"] * 256, ["len"] * 255 + ["crc"], ["crc"] * 255 + ["good"], ["crc"] * 512,
                   ["unknown"] * 256, ["crc"] * 257] + ([] if quick else [["crc"] * 1024, ["len"] * 768])):
        shapes.append(shape)
    for shape in shapes:
        ms, parts = [], []
        for i, k in enumerate(shape):
            n = rnd.choice([1, 3, 40, 300, 2100]) if len(shape) < 200 else 1
            data = bytes(rnd.randrange(1, 256) for _ in range(n))
            name = b"m%d%s.bin" % (i, k.encode())
            length, crc, method = n, crc16(data), b"-lh0-"
            if k == "crc":
                crc ^= 1 << rnd.randrange(16)
            elif k == "len":
                length = n + 1
            elif k == "unknown":
                method = rnd.choice([b"-lh9-", b"-lh2-", b"-lh8-", b"-pm9-"])     # names the start-of-archive scan accepts
            parts.append(_member(method, data, length, crc, name, rnd.randrange(3)))
            ms.append((name, "good" if k == "good" else "bad", k != "unknown"))
        arc = b"".join(parts) + b"\0"
        use = cmds if len(shape) > 1 and shapes.index(shape) < 8 else rnd.sample(cmds, 4) + ["t", "x"]
        if len(shape) >= 200:
            use = ["t", "tq2", "xf", "eq2"]
        for cmd in use:
            res.append((arc, cmd, [], ms, "multi:" + cmd))
        # member selection: only the good ones / only one bad one / a pattern that matches all
        good = [m for m in ms if m[1] == "good"]
        bad = [m for m in ms if m[1] == "bad"]
        for cmd in ("t", "x", "tq2"):
            if good and bad:
                res.append((arc, cmd, [m[0].decode() for m in good], ms, "select-good:" + cmd))
                res.append((arc, cmd, [bad[0][0].decode()], ms, "select-bad:" + cmd))
                res.append((arc, cmd, ["*.bin"], ms, "select-all:" + cmd))
    return res


def _glob1(pat, name):
    import fnmatch
    return fnmatch.fnmatchcase(name, pat)


def judge_multi(case, rc, out):
    """None, or a description of what contradicts the property"""
    arc, cmd, pats, ms, tag = case
    sel = [m for m in ms if not pats or any(_glob1(p_, m[0].decode()) for p_ in pats)]
    any_bad = any(v == "bad" for _, v, _ in sel)
    if any_bad and rc == 0:
        return "exit status 0 although a selected member fails (%s)" % ", ".join(n.decode() for n, v, _ in sel if v == "bad")
    if not any_bad and rc != 0:
        return "exit status %d although every selected member is good" % rc
    quiet = 2 if cmd.endswith("q") or "q2" in cmd else 1 if "q1" in cmd else 0
    if quiet < 2:
        okw, badw = (b"Tested", b"CRC error") if cmd[0] == "t" else (b"Melted", b"Failure")
        for name, v, supported in sel:
            said_ok = name + b"\t- " + okw in out
            said_bad = name + b"\t- " + badw in out
            if v == "bad" and said_ok:
                return "member %s reported '%s' although its bytes do not match the header" % (name.decode(), okw.decode())
            if v == "good" and (said_bad or not said_ok):
                return "good member %s not reported '%s'" % (name.decode(), okw.decode())
            if v == "bad" and supported and not said_bad:
                return "failing member %s has no '%s' line" % (name.decode(), badw.decode())
    return None


# ---- extraction that cannot deliver the bytes: the output file cannot take them (file size limit), or it cannot be
#      created at all (its parent is a regular file, its name is a directory)

def limited_cases(rnd, sd_all, quick, blksize):
    """(archive, limit, tag): members of 300 000 bytes and more extracted with RLIMIT_FSIZE = limit (SIGXFSZ ignored, so
    the write fails with EFBIG).  Limits far short of the member's length make a write of the library's own loop fail;
    limits within the last stdio buffer (and small members that fit one buffer) make only the final flush inside fclose
    fail -- the defect repaired by 35c0724 (extract_file ignored fclose's result)."""
    res = []
    n = 300000
    data = bytes(rnd.randrange(256) for _ in range(n))
    members = [(b"-lh0-", data, n, crc16(data))]
    big = sorted((s for s in sd_all if 300000 <= s["length"] <= 2200000 and s["method"] not in ("-lh0-", "-lz4-", "-pm0-", "-lhd-")),
                 key=lambda s: len(s["data"]))
    seen = set()
    for s in big:
        if s["method"] not in seen and len(seen) < (2 if quick else 6):
            seen.add(s["method"])
            members.append((s["method"].encode(), s["data"], s["length"], s["crc"]))
    for meth, d, ln, crc in members:
        for lim in ([0, 4096, 10000, 100000] if quick else [0, 1, 4095, 4096, 4097, 10000, 65536, 100000, 200000]):
            if ln - lim > 2 * max(blksize, 4096) + 70000:
                res.append((mk_archive(meth, d, ln, crc, level=rnd.choice([0, 1, 2])), lim, "limit:%s:%d" % (meth.decode(), lim)))
        # the failing write is the final flush
        for lim in ([ln - 1, ln - 100] if quick else [ln - 1, ln - 2, ln - 100, ln - 4095, ln - 4096, ln - blksize + 1]):
            if 0 <= lim < ln:
                res.append((mk_archive(meth, d, ln, crc, level=rnd.choice([0, 1, 2])), lim, "limit-flush:%s:%d" % (meth.decode(), lim)))
    for n2, lim in ((3000, 1000), (3000, 0), (1, 0), (4096, 4095), (5000, 4096)) + (() if quick else ((100, 99), (8192, 8191), (70000, 69999))):
        d2 = bytes(rnd.randrange(256) for _ in range(n2))
        res.append((mk_archive(b"-lh0-", d2, n2, crc16(d2), level=rnd.choice([0, 1, 2])), lim, "limit-flush:small:%d:%d" % (n2, lim)))
    return res


def blocked_cases(rnd):
    """(archive, command, name of the member that cannot be extracted, tag)"""
    res = []
    d1, d2 = b"first", b"second member"
    for lv in (1, 2):
        # a regular file `a`, then a member `a/b`: its parent directory cannot be made
        import test_rdr as T
        arc = _member(b"-lh0-", d1, len(d1), crc16(d1), b"a", lv) + \
            T.header(lv, b"-lh0-", len(d2), len(d2), crc16(d2), b"a/b") + d2 + b"\0"
        for cmd in ("x", "xf", "xq", "xq1", "xq2", "xfq2"):
            res.append((arc, cmd, b"a/b", "blocked:parent-is-a-file:" + cmd))
        # a symbolic link `lnk` to nowhere, then a member `lnk/f`: the parent is neither a directory nor can it be made
        import test_rdr as T
        arc3 = T.link_member(rnd, b"lnk", b"nowhere", lv).bytes() + \
            T.header(lv, b"-lh0-", len(d2), len(d2), crc16(d2), b"lnk/f") + d2 + b"\0"
        for cmd in ("x", "xf", "xq", "xq1", "xq2", "xfq2"):
            res.append((arc3, cmd, b"lnk/f", "blocked:parent-cannot-be-made:" + cmd))
        # a directory `d/`, then a regular file called `d`: the output file cannot be created
        fd = {"level": 2, "method": b"-lhd-", "clen": 0, "length": 0, "crc": 0, "attr": 0x10, "os": ord('U'), "time": 1000000000,
              "exts": [(2, b"d\xff")]}
        arc2 = lb.build_header(fd) + mk_archive(b"-lh0-", d2, len(d2), crc16(d2), name=b"d", level=lv)
        for cmd in ("xf", "xfq1", "xfq2"):
            res.append((arc2, cmd, b"d", "blocked:name-is-a-directory:" + cmd))
    return res


def run(ctx):
    rnd = random.Random(ctx.seed * 982451653 + 7)
    cb = CBuild(PID)
    scratch = common.scratch_dir("c07")
    viol = []
    dist = collections.Counter()
    try:
        lha = common.build_lha(cb)
        sd = [s for s in seeds.harvest(cb) if s["method"] != "-lhd-" and 0 < len(s["data"]) <= (3000 if ctx.quick else 40000)]
        by = collections.defaultdict(list)
        for s in sd:
            by[s["method"]].append(s)
        cases = []     # (archive bytes, expected verdict or None (ask the p oracle), tag)
        # stored members: expectation known without the tool
        for n in ([1, 2, 5, 33, 64, 1024, 1025, 1064, 2049] if ctx.quick else [1, 2, 3, 5, 8, 33, 64, 100, 1023, 1024, 1025, 1064, 2048, 2049, 5000]):
            data = bytes(rnd.randrange(256) for _ in range(n))
            if rnd.random() < 0.3:
                data = bytes(n)
            if n <= 5:
                # a member recorded as EMPTY whose CRC field is not the CRC of nothing: must be reported bad
                for meth in (b"-lh0-", b"-lh5-", b"-lz5-", b"-lh1-", b"-pm2-"):
                    cases.append((mk_archive(meth, b"" if meth == b"-lh0-" else data, 0, 1 + rnd.randrange(65535), rnd=rnd), "bad", "empty-wrong-crc"))
                cases.append((mk_archive(b"-lh0-", b"", 0, 0, rnd=rnd), "good", "empty-valid"))
            good = mk_archive(b"-lh0-", data, n, crc16(data), rnd=rnd)
            cases.append((good, "good", "stored-valid"))
            # special values of the recorded fields are values like any other: a recorded CRC of 0 or 0xFFFF over data whose CRC
            # is something else, a recorded length of 0 / 2^32-1 over n bytes
            nz = bytes((b | 1) for b in data)
            for rc_ in (0, 0xFFFF):
                cases.append((mk_archive(b"-lh0-", nz, n, rc_, rnd=rnd), "good" if crc16(nz) == rc_ else "bad", "stored-recorded-crc-special"))
            cases.append((mk_archive(b"-lh0-", nz, 2 ** 32 - 1, crc16(nz), rnd=rnd), "bad", "stored-recorded-length-special"))
            cases.append((mk_archive(b"-lh0-", nz, 0, crc16(nz), rnd=rnd), "bad" if crc16(nz) != 0 else "good", "stored-recorded-length-special"))
            cases.append((mk_archive(b"-lh0-", data, n, crc16(data) ^ 1, rnd=rnd), "bad", "stored-wrong-crc"))
            cases.append((mk_archive(b"-lh0-", data, n + 1, crc16(data), rnd=rnd), "bad", "stored-length+1"))
            if n > 1:
                cases.append((mk_archive(b"-lh0-", data, n - 1, crc16(data), rnd=rnd), "good" if crc16(data[:n - 1]) == crc16(data) else "bad", "stored-length-1"))
            # every truncation of the member's data (archive file cut short)
            hdr_len = len(good) - 1 - n
            step = 1 if n <= 70 else max(1, n // 40)
            for cut in list(range(0, n, step)) + list(range(max(0, n - 130), n)):
                cases.append((good[:hdr_len + cut], "bad", "stored-truncated"))
            # bursts of 1..16 flipped bits at every bit offset (LSB-first numbering), small members exhaustive in the offset
            if n <= 64:
                nbits = 8 * n
                for off in range(nbits):
                    for w in ([1, 2, 8, 15, 16] if ctx.quick else range(1, 17)):
                        if off + w > nbits:
                            continue
                        core = 1 | (1 << (w - 1)) | (rnd.getrandbits(w) if w > 2 else 0)
                        e = bytearray(n)
                        for k in range(w):
                            if (core >> k) & 1:
                                e[(off + k) // 8] ^= 1 << ((off + k) % 8)
                        bad = bytes(a ^ b for a, b in zip(data, e))
                        cases.append((mk_archive(b"-lh0-", bad, n, crc16(data), level=0), "bad", "stored-burst"))
        # compressed members: valid, corrupted, truncated, wrong recorded values: the p oracle decides
        for m, lst in by.items():
            rnd.shuffle(lst)
            for s in lst[:(2 if ctx.quick else 8)]:
                d = s["data"]
                cases.append((mk_archive(m.encode(), d, s["length"], s["crc"], rnd=rnd), None, "member-valid"))
                cases.append((mk_archive(m.encode(), d, s["length"], s["crc"] ^ 0x8000, rnd=rnd), None, "member-wrong-crc"))
                if s["crc"] != 0:
                    cases.append((mk_archive(m.encode(), d, s["length"], 0, rnd=rnd), None, "member-recorded-crc-0"))
                cases.append((mk_archive(m.encode(), d, s["length"] + 1, s["crc"], rnd=rnd), None, "member-length+1"))
                cases.append((mk_archive(m.encode(), d, max(0, s["length"] - 1), s["crc"], rnd=rnd), None, "member-length-1"))
                for _ in range(3 if ctx.quick else 12):
                    b = bytearray(d)
                    i = rnd.randrange(len(b))
                    b[i] ^= 1 << rnd.randrange(8)
                    cases.append((mk_archive(m.encode(), bytes(b), s["length"], s["crc"], rnd=rnd), None, "member-bitflip"))
                good = mk_archive(m.encode(), d, s["length"], s["crc"], level=0)
                hl = len(good) - 1 - len(d)
                for cut in sorted(set([0, 1, len(d) // 2, len(d) - 1] + [rnd.randrange(len(d)) for _ in range(4)] + list(range(max(0, len(d) - 70), len(d))))):
                    cases.append((good[:hl + cut], None, "member-truncated"))
        if os.geteuid() == 0:
            os.chown(scratch, 65534, 65534)

        def one(job):
            i, (a, exp, tag) = job
            d = os.path.join(scratch, "w%d" % i)
            os.makedirs(d, exist_ok=True)
            if os.geteuid() == 0:
                os.chown(d, 65534, 65534)
            ap = os.path.join(d, "a.lzh")
            open(ap, "wb").write(a)
            rt = common.run_lha(lha, ["t", "a.lzh"], cwd=d, as_nobody=True)
            rx = common.run_lha(lha, ["xf", "a.lzh"], cwd=d, as_nobody=True)
            rp = common.run_lha(lha, ["pq2", "a.lzh"], cwd=d, as_nobody=True)
            xfile = os.path.join(d, "f.bin")
            xdata = open(xfile, "rb").read() if os.path.isfile(xfile) else None
            shutil.rmtree(d, ignore_errors=True)
            return rt, rx, rp, xdata
        with ThreadPoolExecutor(max_workers=common.NCPU) as ex:
            results = list(ex.map(one, enumerate(cases)))
        nontriv = 0
        for (a, exp, tag), (rt, rx, rp, xdata) in zip(cases, results):
            dist[tag] += 1
            for r in (rt, rx, rp):
                ab = common.abnormal(r[0], r[2])
                if ab:
                    viol.append({"property": PID, "kind": "tool-abnormal-termination", "archive_hex": a.hex()[:100000], "observed": ab, "sig": "crash"})
            vt = verdict_t(rt[1])
            vx = "good" if b"Melted" in rx[1] else ("bad" if b"Failure" in rx[1] else None)
            # expected verdict: from the recorded values and the bytes actually produced
            hdr = _parse_first(a)
            if hdr is None:
                continue
            if exp is None:
                produced = rp[1]
                exp = "good" if (len(produced) == hdr["length"] and crc16(produced) == hdr["crc"]) else "bad"
            nontriv += 1
            for name, v, r in (("t", vt, rt), ("x", vx, rx)):
                if v is None:
                    # no verdict line: the member was not reached (archive ended early); exit status 0 is fine only then
                    continue
                if v != exp or (v == "bad" and r[0] == 0) or (v == "good" and r[0] != 0):
                    viol.append({"property": PID, "kind": "wrong-verdict", "command": name, "case_tag": tag, "reported": v,
                                 "exit_status": r[0], "expected": exp, "recorded_length": hdr["length"], "recorded_crc": hdr["crc"],
                                 "archive_hex": a.hex()[:200000], "sig": "verdict:" + tag})
                    break
            if vx == "good" and xdata is not None and (len(xdata) != hdr["length"] or crc16(xdata) != hdr["crc"]):
                viol.append({"property": PID, "kind": "melted-file-does-not-match", "archive_hex": a.hex()[:200000],
                             "file_len": len(xdata), "recorded_length": hdr["length"], "sig": "melted:" + tag})
        # ---- multi-member archives x commands and quiet levels x member selection: exit status and per-member lines
        mcases = multi_cases(rnd, ctx.quick)

        def mone(job):
            i, (a, cmd, pats, ms, tag) = job
            d = os.path.join(scratch, "m%d" % i)
            os.makedirs(d, exist_ok=True)
            if os.geteuid() == 0:
                os.chown(d, 65534, 65534)
            open(os.path.join(d, "a.lzh"), "wb").write(a)
            r = common.run_lha(lha, [cmd, "a.lzh"] + list(pats), cwd=d, as_nobody=True, stdin=b"")
            shutil.rmtree(d, ignore_errors=True)
            return r
        with ThreadPoolExecutor(max_workers=common.NCPU) as ex:
            mres = list(ex.map(mone, enumerate(mcases)))
        for mc, r in zip(mcases, mres):
            dist[mc[4].split(":")[0]] += 1
            ab = common.abnormal(r[0], r[2])
            if ab:
                viol.append({"property": PID, "kind": "tool-abnormal-termination", "archive_hex": mc[0].hex()[:100000], "command": mc[1],
                             "observed": ab, "sig": "crash"})
                continue
            why = judge_multi(mc, r[0], r[1])
            if why:
                viol.append({"property": PID, "kind": "wrong-exit-status-or-verdict-line", "command": mc[1], "patterns": mc[2],
                             "members": [(n.decode(), v) for n, v, _ in mc[3]], "what": why, "exit_status": r[0],
                             "archive_hex": mc[0].hex()[:200000], "case_tag": mc[4], "sig": "multi:" + mc[4].split(":")[0]})
        # ---- extraction that cannot deliver the bytes (file size limit; parent is a file; name is a directory): no 'Melted',
        #      exit status non-zero
        import subprocess, resource, signal
        sd_all = seeds.harvest(cb)
        lcases = limited_cases(rnd, sd_all, ctx.quick, os.stat(scratch).st_blksize)
        bcases = blocked_cases(rnd)

        def run_limited(i, a, cmd, lim):
            d = os.path.join(scratch, "l%d" % i)
            os.makedirs(d, exist_ok=True)
            if os.geteuid() == 0:
                os.chown(d, 65534, 65534)
            open(os.path.join(d, "a.lzh"), "wb").write(a)

            def pre():
                signal.signal(signal.SIGXFSZ, signal.SIG_IGN)
                if lim is not None:
                    resource.setrlimit(resource.RLIMIT_FSIZE, (lim, lim))
            e = dict(os.environ)
            e.update(common.ASAN_ENV)
            e["TZ"] = "UTC"
            argv = (common.NOBODY if os.geteuid() == 0 else []) + [lha, cmd, "a.lzh"]
            try:
                p_ = subprocess.run(argv, cwd=d, input=b"", stdout=subprocess.PIPE, stderr=subprocess.PIPE, timeout=120, env=e, preexec_fn=pre)
                rc, out, err = p_.returncode, p_.stdout, p_.stderr
            except subprocess.TimeoutExpired:
                rc, out, err = -999, b"", b"TIMEOUT"
            files = {}
            for root, _ds, fs in os.walk(d):
                for f_ in fs:
                    if f_ != "a.lzh":
                        pth = os.path.join(root, f_)
                        files[os.path.relpath(pth, d)] = open(pth, "rb").read() if os.path.isfile(pth) and not os.path.islink(pth) else None
            shutil.rmtree(d, ignore_errors=True)
            return rc, out, err, files
        with ThreadPoolExecutor(max_workers=common.NCPU) as ex:
            lres = list(ex.map(lambda j: run_limited(j[0], j[1][0], "xf", j[1][1]), enumerate(lcases)))
            bres = list(ex.map(lambda j: run_limited(10000 + j[0], j[1][0], j[1][1], None), enumerate(bcases)))
        for (a, lim, tag), (rc, out, err, files) in zip(lcases, lres):
            dist["limit"] += 1
            hdr = _parse_first(a)
            ab = common.abnormal(rc, err)
            got = files.get("f.bin")
            complete = got is not None and len(got) == hdr["length"] and crc16(got) == hdr["crc"]
            if ab:
                viol.append({"property": PID, "kind": "tool-abnormal-termination", "archive_hex": a.hex()[:100000], "observed": ab, "sig": "crash"})
            elif (rc == 0 or b"Melted" in out) and not complete:
                viol.append({"property": PID, "kind": "melted-although-the-file-is-incomplete", "command": "xf", "file_size_limit": lim,
                             "exit_status": rc, "reported": out[-80:].decode("latin1"), "file_len": None if got is None else len(got),
                             "recorded_length": hdr["length"], "case_tag": tag, "archive_hex": a.hex()[:700000],
                             "what": "the output file could not take the member's bytes (RLIMIT_FSIZE, SIGXFSZ ignored), yet extraction "
                                     "reported success", "sig": "limit"})
        for (a, cmd, name, tag), (rc, out, err, files) in zip(bcases, bres):
            dist["blocked"] += 1
            ab = common.abnormal(rc, err)
            if ab:
                viol.append({"property": PID, "kind": "tool-abnormal-termination", "archive_hex": a.hex()[:100000], "command": cmd,
                             "observed": ab, "sig": "crash"})
            elif rc == 0 or name + b"\t- Melted" in out:
                viol.append({"property": PID, "kind": "success-although-nothing-was-extracted", "command": cmd, "member": name.decode(),
                             "exit_status": rc, "reported": out[-120:].decode("latin1"), "case_tag": tag, "archive_hex": a.hex(),
                             "what": "a selected member could not be extracted at all (no bytes produced), yet the exit status is 0 "
                                     "or a Melted line was printed", "sig": "blocked"})
        # ---- the library's own return values (lha_reader_check / lha_reader_extract), also when the member has been
        #      read, checked or extracted before: a success must still mean "the bytes written / checked match"
        import test_rdr as T, itertools
        CDIR = common.CDIR
        drv = cb.compile("drv_rdr", [os.path.join(CDIR, "drv_rdr.c")] + cb.lib_sources(), extra=["-I" + CDIR], sanitize=True)
        # (the generated archives take their members from the repository's archives by EXTRACTING them with the library under
        # test; when that no longer works the tie is reported as broken, and what the parts above have found still counts)
        try:
            pool = T.Pool(cb, [drv], rnd)
        except Exception:
            import traceback
            pool = None
            ctx.broken.append({"kind": "harness", "what": "member harvest for the generated library histories failed",
                               "detail": traceback.format_exc()[-1500:]})
        lib_lines = []
        seqs = [["n", "x"], ["n", "c"], ["n", "c", "x"], ["n", "r5", "x"], ["n", "r100000", "x"], ["n", "x", "x"], ["n", "c", "c"],
                ["n", "r7", "c"], ["n", "x", "n", "c", "x"], ["n", "c", "xf" + b"again".hex()]]
        arcs = [a for nm, a in T.small_archives(pool, rnd) if nm in ("lh0", "lh5+lh0", "badcrc", "badlen", "truncated", "mac")] if pool else []
        for a in arcs:
            for sq in seqs:
                lib_lines.append(T.case(rnd.choice(T.KINDS), "eod", a, sq))
        for _ in range((60 if ctx.quick else 2000) if pool else 0):
            a, ms = T.random_archive(pool, rnd)
            ops = []
            for _m in range(min(len(ms) + 1, 6)):
                ops += ["n"] + [rnd.choice(["c", "x", "r5", "r100000", "cm", "xm"]) for _ in range(rnd.choice([1, 2, 2, 3]))]
            lib_lines.append(T.case(rnd.choice(T.KINDS), rnd.choice(T.POLICIES), a, ops[:40]))
        if common.sh([drv, "--probe"])[1].strip() != "chroot":
            lib_lines = [l for l in lib_lines if T.plain_ok(l)]
        # library verdicts with an expectation the harness knows without the library: stored members (good, wrong CRC,
        # wrong length) and members of methods without a decoder, checked / extracted with and without a monitor
        known = []      # (line, [expected result per op or None])
        for shape in (["good"], ["crc"], ["len"], ["unknown"], ["good", "unknown", "good"], ["unknown", "crc", "good"],
                      ["crc", "good", "len"], ["good", "good"]):
            for opk in ("c", "cm", "x", "xm"):
                hs, exp = b"", []
                for i, k in enumerate(shape):
                    n = rnd.choice([1, 7, 200, 1500])
                    data = bytes(rnd.randrange(1, 256) for _ in range(n))
                    length, crc, method = n, crc16(data), b"-lh0-"
                    if k == "crc":
                        crc ^= 1 << rnd.randrange(16)
                    elif k == "len":
                        length = n + rnd.choice([1, 2, 100])
                    elif k == "unknown":
                        method = rnd.choice([b"-lh9-", b"-lh3-", b"-pm7-"])     # names the start-of-archive scan accepts
                    hs += T.header(rnd.choice([0, 1, 2, 3]), method, n, length, crc, b"k%d%s" % (i, k.encode())) + data
                    exp += [None, opk + ("=1" if k == "good" else "=0")]
                known.append((T.case(rnd.choice(T.KINDS), "plain", hs + b"\0", ["n", opk] * len(shape)), exp))
        # MacOS members inside a MacBinary envelope (stored): the verdict is about the member's stored stream -- envelope, both
        # forks and the padding, of which only one fork is handed to the caller -- so everything after the delivered fork
        # (a resource fork of 129 .. 9000 bytes, the padding) still has to be decoded and counted: good when the stream is
        # intact, bad when one bit of the part that is not delivered is flipped
        for dlen, rlen in ((40, 129), (1, 300), (300, 4500), (5, 9000), (0, 700), (200, 0)):
            for bad_at in (None, "tail", "envelope"):
                for opk in ("c", "xm"):
                    fn = b"mac%d" % rlen
                    dfork = bytes((i * 7 + 3) & 0xff for i in range(dlen))
                    rfork = bytes((i * 5 + 1) & 0xff for i in range(rlen))
                    body = dfork + rfork
                    body += bytes(-len(body) % 128)
                    data = bytearray(T.macbinary_header(fn, dlen, rlen, T.T_A) + body)
                    crc = crc16(bytes(data))
                    if bad_at == "tail":
                        data[len(data) - 1 - rnd.randrange(max(1, len(data) - 128 - max(dlen, 1)))] ^= 1 << rnd.randrange(8)
                    elif bad_at == "envelope":
                        data[0x41 + rnd.randrange(8)] ^= 1 << rnd.randrange(8)         # file type / creator: ignored by the detection
                    h = T.header(rnd.choice([1, 2, 3]), b"-lh0-", len(data), len(data), crc, fn, T.MAC, None, None, T.T_A)
                    known.append((T.case(rnd.choice(T.KINDS), "plain", h + bytes(data) + b"\0", ["n", opk]),
                                  [None, opk + ("=1" if bad_at is None else "=0")]))
        # MacOS-type members WITHOUT an envelope (MacLHA's "non-Mac" archives, or data that merely resembles one): what is
        # handed to the caller is the whole member, so an extract that returns 1 must have written exactly the recorded bytes
        plain_mac = {}        # index in known -> (name, data)
        for n in (1, 127, 128, 129, 300, 4096, 5000):
            for lv in (1, 2):
                fn = b"pm%d_%d" % (n, lv)
                data = bytes(((i * 11 + 5) & 0xff) | 1 for i in range(n))            # first byte odd: not an envelope
                h = T.header(lv, b"-lh0-", n, n, crc16(data), fn, T.MAC, None, None, T.T_A)
                plain_mac[len(known)] = (fn, data)
                known.append((T.case(rnd.choice(T.KINDS), "plain", h + data + b"\0", ["n", "x"]), [None, "x=1"]))
        kout = common.run_lines_parallel([drv], [l for l, _ in known])
        for i_, (fn, data) in plain_mac.items():
            c = kout[i_]
            if "|" in c and "CHILD-FAILED" not in c and " x=1" in " " + c.split("|")[0]:
                ent = T.parse_dump(c.split("|", 1)[1]).get(b"root/" + fn)
                if ent is None or ent[0] != "F" or ent[3] != data:
                    viol.append({"property": PID, "kind": "library-extract-succeeds-with-wrong-bytes", "case": known[i_][0], "ops": "n,x",
                                 "expected": "x=1", "observed": "x=1", "file_len": None if ent is None or ent[3] is None else len(ent[3]),
                                 "recorded_length": len(data), "what": "MacOS-type member without an envelope: lha_reader_extract returned 1 "
                                 "but the file does not hold the member's bytes", "sig": "library-verdict"})
        for (l, exp), c in zip(known, kout):
            dist["library:known-verdict"] += 1
            if "CHILD-FAILED" in c or "|" not in c:
                viol.append({"property": PID, "kind": "reader-abnormal-termination", "case": l, "observed": c[-400:], "sig": "crash"})
                continue
            got = c.split("|")[0].split(" ; ")
            for e, g in zip(exp, got):
                if e is not None and g.split(" ")[0] != e:
                    viol.append({"property": PID, "kind": "library-verdict-wrong", "case": l, "ops": l.split()[5], "expected": e,
                                 "observed": g[:200], "what": "lha_reader_check / lha_reader_extract returned a verdict that the "
                                 "recorded length and CRC-16 of the stored bytes do not allow", "sig": "library-known-verdict"})
                    break
        lco = common.run_lines_parallel([drv], lib_lines)
        lmo = common.run_lines_parallel([ctx.model], lib_lines)
        init = common.run_lines_parallel([drv], [T.case("cbskip", "eod", b"\0", [])])[0]
        orc = T.Oracles(T.parse_dump(init.split("|", 1)[1]))
        lib_mism = []
        for l, c, m in zip(lib_lines, lco, lmo):
            dist["library:" + l.split()[5].replace(",", "")[:6]] += 1
            if "CHILD-FAILED" in c or "|" not in c:
                continue
            before = len(orc.bad_crc)
            orc.look(l, c)
            if len(orc.bad_crc) > before:
                viol.append({"property": PID, "kind": "library-extract-succeeds-with-wrong-bytes", "case": l,
                             "ops": l.split()[5], "observed": c.split("|")[0][:600], "sig": "library-verdict"})
            elif c != m and not (m.endswith("FAULT 1411") or m.endswith("FAULT 1414")):
                lib_mism.append({"case": l[:6000], "c": c.split("|")[0][-500:], "model": m.split("|")[0][-500:]})
        cov = {"evaluations": 3 * len(cases) + len(lib_lines) + len(mcases) + len(known) + len(lcases) + len(bcases), "distinct_nontrivial": nontriv,
               "rule": "single-member archives: stored members of many sizes (valid; wrong CRC; length +-1; the archive cut at every "
                       "offset of the data, densely near the end; for members <= 64 bytes a burst of width 1..16 at every bit offset, "
                       "LSB-first numbering) with the expected verdict computed by the harness; members of every method from the "
                       "repository (valid, wrong CRC/length, bit flips, truncations near the end) with the expected verdict computed from "
                       "the bytes the tool's own 'pq2' delivers; compared with the Tested/CRC error and Melted/Failure lines, the exit "
                       "status of t and x, and the extracted file; library level: lha_reader_check / lha_reader_extract through the reader driver on "
                       "small and generated archives with op sequences that also repeat operations on a member (check then extract, "
                       "read then extract, extract twice): every extract that returns 1 must have written a file with the header's "
                       "length and CRC, and the results must equal the reader model's; multi-member archives of stored members (good, wrong CRC, wrong length) and of "
                       "members of methods without a decoder, run with t/x/e, the quiet levels q q0 q1 q2, f, i, v and with member "
                       "patterns selecting the good ones, one failing one, or all: exit status non-zero iff a selected member fails, one "
                       "Tested/Melted or CRC error/Failure line per selected member when not quiet; the same kinds of member through "
                       "lha_reader_check / lha_reader_extract with and without a monitor against verdicts known to the harness; "
                       "members of 300 000 bytes and more (stored and compressed) extracted under a file size limit that makes a write of the "
                       "library fail (limits 0 .. 100000/200000, every one at least two stdio buffers short of the length): no Melted, exit status "
                       "non-zero unless the file is complete; members that cannot be extracted at all (parent path is a regular file; the "
                       "name is an existing directory) with x/xf and the quiet levels: exit status non-zero, no Melted line. "
                       "non-trivial = case whose header was reached",
               "distribution": dict(dist), "samples": [cases[0][0].hex()[:120], cases[-1][0].hex()[:120]]}
        return {"violations": viol[:10], "mismatches": lib_mism[:10], "coverage": cov,
                "search_note": "direct oracle: verdict vs independently measured length and CRC-16"}
    finally:
        if os.geteuid() == 0:
            common.sh(["chmod", "-R", "u+rwx", scratch])
        shutil.rmtree(scratch, ignore_errors=True)
        cb.close()


def _parse_first(a):
    """recorded length and crc of the first member (the harness built the header, so the offsets are known)"""
    if len(a) < 24:
        return None
    lv = a[20]
    length = int.from_bytes(a[11:15], "little")
    if lv == 0:
        nl = a[21]
        if len(a) < 24 + nl:
            return None
        crc = int.from_bytes(a[22 + nl:24 + nl], "little")
    elif lv == 1:
        nl = a[21]
        if len(a) < 24 + nl:
            return None
        crc = int.from_bytes(a[22 + nl:24 + nl], "little")
    else:
        crc = int.from_bytes(a[21:23], "little")
    return {"length": length, "crc": crc}


def replay(payload):
    cb = CBuild(PID)
    d = common.scratch_dir("c07r")
    try:
        if "archive_hex" not in payload and "case" in payload:
            import test_rdr as T
            drv = cb.compile("drv_rdr", [os.path.join(common.CDIR, "drv_rdr.c")] + cb.lib_sources(), extra=["-I" + common.CDIR], sanitize=True)
            o = common.run_lines_parallel([drv], [payload["case"]])[0]
            print("observed:", o.split("|")[0][-600:])
            print("expected:", payload.get("expected"), " recorded:", payload.get("observed"))
            bad = payload.get("expected") is not None and payload.get("observed", "") in o
            print("REPRODUCED" if bad else "not reproduced")
            return 1 if bad else 0
        if payload.get("kind") in ("melted-although-the-file-is-incomplete", "success-although-nothing-was-extracted"):
            import subprocess, resource, signal
            lha = common.build_lha(cb)
            open(os.path.join(d, "a.lzh"), "wb").write(bytes.fromhex(payload["archive_hex"]))
            lim = payload.get("file_size_limit")

            def pre():
                signal.signal(signal.SIGXFSZ, signal.SIG_IGN)
                if lim is not None:
                    resource.setrlimit(resource.RLIMIT_FSIZE, (lim, lim))
            p_ = subprocess.run([lha, payload["command"], "a.lzh"], cwd=d, input=b"", stdout=subprocess.PIPE, stderr=subprocess.PIPE, preexec_fn=pre)
            print(p_.stdout.decode("latin1")[-300:], p_.stderr.decode("latin1")[-200:], "exit", p_.returncode)
            bad = p_.returncode == 0 or b"Melted" in p_.stdout
            print("REPRODUCED" if bad else "not reproduced")
            return 1 if bad else 0
        if "command" in payload and payload.get("kind") == "wrong-exit-status-or-verdict-line":
            lha = common.build_lha(cb)
            open(os.path.join(d, "a.lzh"), "wb").write(bytes.fromhex(payload["archive_hex"]))
            r = common.run_lha(lha, [payload["command"], "a.lzh"] + list(payload.get("patterns", [])), cwd=d, stdin=b"")
            print(r[1].decode("latin1")[-400:], "exit", r[0], " members:", payload.get("members"))
            bad = r[0] == payload.get("exit_status")
            print("REPRODUCED" if bad else "not reproduced")
            return 1 if bad else 0
        lha = common.build_lha(cb)
        open(os.path.join(d, "a.lzh"), "wb").write(bytes.fromhex(payload["archive_hex"]))
        rt = common.run_lha(lha, ["t", "a.lzh"], cwd=d)
        rp = common.run_lha(lha, ["pq2", "a.lzh"], cwd=d)
        print(rt[1].decode("latin1")[-200:], "exit", rt[0])
        print("bytes produced:", len(rp[1]), "crc %04x" % crc16(rp[1]), "recorded:", payload.get("recorded_length"), payload.get("recorded_crc"))
        v = verdict_t(rt[1])
        bad = v is not None and v != payload.get("expected")
        print("REPRODUCED" if bad else "not reproduced")
        return 1 if bad else 0
    finally:
        shutil.rmtree(d, ignore_errors=True)
        cb.close()

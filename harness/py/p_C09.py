"""C09 -- no compressed data can make any decompressor touch invalid memory."""
import os, random, hashlib, collections, glob
import common, decgen, seeds
from common import CBuild

PID = "C09"
TRUSTED = ["C built with clang -fsanitize=address,bounds,null: a memory error is an abort/trap",
           "an out-of-bounds read that lands in other valid memory is invisible to the sanitizer; it is covered by the "
           "proofs plus the regenerated extents (Generated.v), not by this run"]
ASSUMPTIONS = ["input callback returns at most the bytes asked for"]


def build(cb):
    return cb.compile("drv_dec", [os.path.join(common.CDIR, "drv_dec.c")] + cb.lib_sources())


def bits_to_bytes(bits):
    out = bytearray()
    for i in range(0, len(bits), 8):
        chunk = bits[i:i + 8]
        chunk = chunk + [0] * (8 - len(chunk))
        v = 0
        for b in chunk:
            v = (v << 1) | b
        out.append(v)
    return bytes(out)


def field(v, n):
    return [(v >> (n - 1 - i)) & 1 for i in range(n)]


def table_headers(rnd, method):
    """bit strings aimed at the table readers: every count field at its extremes, unary runs, single-code forms"""
    res = []
    if method in ("-lh4-", "-lh5-", "-lh6-", "-lh7-", "-lhx-", "-lk7-"):
        for _ in range(40):
            bits = field(rnd.choice([0, 1, 2, 65535, rnd.getrandbits(16)]), 16)      # block size
            ntemp = rnd.choice([0, 1, 3, 19, 20, 31])
            bits += field(ntemp, 5)
            if ntemp == 0:
                bits += field(rnd.getrandbits(5), 5)
            else:
                for i in range(ntemp):
                    l = rnd.choice([0, 1, 2, 6, 7, 7, 7])
                    bits += field(l, 3)
                    if l == 7:
                        bits += [1] * rnd.choice([0, 1, 5, 12, 40, 300]) + [0]
                    if i == 2:
                        bits += field(rnd.getrandbits(2), 2)
            ncodes = rnd.choice([0, 1, 2, 288, 289, 290, 509, 510, 511])
            bits += field(ncodes, 9)
            bits += [rnd.getrandbits(1) for _ in range(rnd.choice([0, 16, 200, 3000]))]
            res.append(bits_to_bytes(bits))
        # single-code forms of all three tables with the largest raw code values: one command per zero bits
        ob = {"-lh4-": 4, "-lh5-": 4, "-lh6-": 5, "-lh7-": 5, "-lhx-": 5, "-lk7-": 6}[method]
        for code in (0, 255, 256, 288, 289, 508, 509, 510, 511):
            for off in (0, 1, (1 << ob) - 1):
                bits = field(rnd.choice([1, 300, 65535]), 16) + field(0, 5) + field(rnd.getrandbits(5), 5)
                bits += field(0, 9) + field(code, 9) + field(0, ob) + field(off, ob)
                bits += [rnd.getrandbits(1) for _ in range(rnd.choice([0, 64, 400]))]
                res.append(bits_to_bytes(bits))
    elif method == "-pm2-":
        for _ in range(60):
            bits = [rnd.getrandbits(1)]
            ncodes = rnd.choice([0, 1, 2, 9, 10, 28, 29, 30, 31])
            bits += field(ncodes, 5)
            bits += field(rnd.choice([0, 1, 2, 3, 7]), 3)
            bits += [rnd.getrandbits(1) for _ in range(rnd.choice([3, 40, 120, 400]))]
            res.append(bits_to_bytes(bits))
    elif method == "-pm1-":
        for h in range(32):
            res.append(bytes([h << 3]))            # start header with empty rest: endless zeros
            res.append(bytes([(h << 3) | rnd.getrandbits(3)]) + bytes(rnd.randrange(256) for _ in range(rnd.choice([1, 4, 30]))))
    elif method == "-lh1-":
        for _ in range(20):
            res.append(bytes(rnd.choice([0, 0xff, rnd.randrange(256)]) for _ in range(rnd.choice([1, 3, 50, 700]))))
    return res


def run(ctx):
    rnd = random.Random(ctx.seed * 32452843 + 9)
    cb = CBuild(PID)
    viol, mism = [], []
    dist = collections.Counter()
    try:
        cexe = build(cb)
        modelled = set(decgen.model_methods(ctx.model))
        sd = seeds.harvest(cb)
        by = collections.defaultdict(list)
        for s in sd:
            by[s["method"]].append(s)
        lines, meths = [], []
        # corpus first (minimised failures and finding witnesses)
        for p in sorted(glob.glob(os.path.join(common.VERIF, "corpus", PID, "*.txt"))):
            for l in open(p):
                if l.strip():
                    lines.append(l.strip())
                    meths.append(l.split()[1])
                    dist["corpus"] += 1
        per = 60 if ctx.quick else 1500
        for m in decgen.ALL_METHODS:
            cands = [s for s in by.get(m, []) if len(s["data"]) <= (6000 if ctx.quick else 100000)]
            streams = []
            for i in range(per):
                r = rnd.random()
                if cands and r < 0.45:
                    s = rnd.choice(cands)
                    d = s["data"]
                    for _ in range(rnd.choice([1, 1, 2, 4])):
                        d = decgen.mutate(rnd, d, head=rnd.choice([4, 16, 64, 4096]))
                    streams.append((d, rnd.choice([s["length"], s["length"] + 1000, 100, 70000]), "mutated"))
                elif cands and r < 0.55:
                    s = rnd.choice(cands)
                    streams.append((s["data"][:rnd.randrange(0, len(s["data"]) + 1)], s["length"], "truncated"))
                elif r < 0.8:
                    n = rnd.choice([0, 1, 2, 3, 8, 40, 300, 3000])
                    streams.append((bytes(rnd.randrange(256) for _ in range(n)), rnd.choice([1, 100, 5000, 300000]), "random"))
                else:
                    b = rnd.choice([0, 0xff, 0x55, 0xaa, 0x80, 0x01])
                    streams.append((bytes([b]) * rnd.choice([1, 10, 200, 5000]), rnd.choice([100, 20000, 300000]), "constant"))
            for t in table_headers(rnd, m):
                streams.append((t, rnd.choice([700, 3000, 70000]), "table-header"))
            for (d, L, kind) in streams:
                if m == "-pm1-":
                    L = min(L, 40000)
                reads = rnd.choice(["%d" % (L + 7), "1*%d" % min(L + 2, 300), "7*%d,%d" % (min(L // 7 + 1, 500), L), "4096*%d" % (L // 4096 + 2)])
                lines.append(decgen.case(m, d, decgen.chunkings(rnd), L, reads, rnd.choice([-1, 0]), rnd.choice([0, 170, 255])))
                meths.append(m)
                dist[m + ":" + kind] += 1
        co = common.run_lines_parallel([cexe], lines)
        midx = [i for i, m in enumerate(meths) if m in modelled]
        mo_part = common.run_lines_parallel([ctx.model], [lines[i] for i in midx])
        mo = dict(zip(midx, mo_part))
        nontriv = 0
        seen = set()
        for i, (ln, c) in enumerate(zip(lines, co)):
            hk = hashlib.md5(ln.encode()).digest()
            pc = decgen.parse(c)
            if hk not in seen:
                seen.add(hk)
                if "len" in pc and int(pc["len"]) > 0:
                    nontriv += 1
            if "h" not in pc or "OVERREAD" in pc.get("r", ""):
                viol.append({"property": PID, "kind": "memory-error", "case": ln[:6000], "observed": c[:400],
                             "sig": "crash:" + meths[i] + ":" + c.split("@")[-1][:60]})
                continue
            if i in mo and mo[i] != c:
                mism.append({"case": ln[:3000], "c": c[:300], "model": mo[i][:300]})
        cov = {"evaluations": len(lines), "distinct_nontrivial": nontriv,
               "rule": "per method (14 names): seed members mutated in their table headers and bodies, truncated, random bytes, "
                       "constant bytes, and bit strings built to hit the table readers' extremes (count fields at 0/max/max+1, "
                       "unary length runs up to 300 ones, single-code forms, pm2 trees with 29/30/31 symbols, pm1 start headers "
                       "0..31 with empty input); random declared length, read schedule, callback chunking. Oracle: sanitizer "
                       "abort/trap or over-long read; plus equality with the model on the modelled methods (%s). non-trivial = "
                       "distinct case that produced output" % ",".join(sorted(modelled)),
               "distribution": dict(dist), "methods_modelled": sorted(modelled), "samples": [l[:160] for l in lines[:3]]}
        return {"violations": viol[:10], "mismatches": mism[:10], "coverage": cov,
                "search_note": "direct oracle: ASan/UBSan(bounds,null) build of the working tree on every case"}
    finally:
        cb.close()


def replay(payload):
    cb = CBuild(PID)
    try:
        cexe = build(cb)
        out = common.run_lines_parallel([cexe], [payload["case"]])
        print("case:", payload["case"][:300])
        print("observed:", out[0][:400])
        bad = not out[0].startswith("r=") or "OVERREAD" in out[0]
        print("REPRODUCED" if bad else "not reproduced")
        return 1 if bad else 0
    finally:
        cb.close()

"""C09 -- no compressed data can make any decompressor touch invalid memory."""
import os, random, hashlib, collections, glob
import common, decgen, seeds
from common import CBuild

PID = "C09"
TRUSTED = ["C built with clang -fsanitize=address,bounds,null: a memory error is an abort/trap",
           "an out-of-bounds read that lands in other valid memory is invisible to the sanitizer; it is covered by the "
           "proofs plus the regenerated extents (Generated.v), not by this run"]
ASSUMPTIONS = ["input callback returns at most the bytes asked for"]


def build(cb):
    return cb.compile("drv_dec", [os.path.join(common.CDIR, "drv_dec.c")] + cb.lib_sources())


def bits_to_bytes(bits):
    out = bytearray()
    for i in range(0, len(bits), 8):
        chunk = bits[i:i + 8]
        chunk = chunk + [0] * (8 - len(chunk))
        v = 0
        for b in chunk:
            v = (v << 1) | b
        out.append(v)
    return bytes(out)


def field(v, n):
    return [(v >> (n - 1 - i)) & 1 for i in range(n)]


def table_headers(rnd, method):
    """bit strings aimed at the table readers: every count field at its extremes, unary runs, single-code forms"""
    res = []
    if method in ("-lh4-", "-lh5-", "-lh6-", "-lh7-", "-lhx-", "-lk7-"):
        for _ in range(40):
            bits = field(rnd.choice([0, 1, 2, 65535, rnd.getrandbits(16)]), 16)      # block size
            ntemp = rnd.choice([0, 1, 3, 19, 20, 31])
            bits += field(ntemp, 5)
            if ntemp == 0:
                bits += field(rnd.getrandbits(5), 5)
            else:
                for i in range(ntemp):
                    l = rnd.choice([0, 1, 2, 6, 7, 7, 7])
                    bits += field(l, 3)
                    if l == 7:
                        bits += [1] * rnd.choice([0, 1, 5, 12, 40, 300]) + [0]
                    if i == 2:
                        bits += field(rnd.getrandbits(2), 2)
            ncodes = rnd.choice([0, 1, 2, 288, 289, 290, 509, 510, 511])
            bits += field(ncodes, 9)
            bits += [rnd.getrandbits(1) for _ in range(rnd.choice([0, 16, 200, 3000]))]
            res.append(bits_to_bytes(bits))
        # single-code forms of all three tables with the largest raw code values: one command per zero bits
        ob = {"-lh4-": 4, "-lh5-": 4, "-lh6-": 5, "-lh7-": 5, "-lhx-": 5, "-lk7-": 6}[method]
        for code in (0, 255, 256, 288, 289, 508, 509, 510, 511):
            for off in (0, 1, (1 << ob) - 1):
                bits = field(rnd.choice([1, 300, 65535]), 16) + field(0, 5) + field(rnd.getrandbits(5), 5)
                bits += field(0, 9) + field(code, 9) + field(0, ob) + field(off, ob)
                bits += [rnd.getrandbits(1) for _ in range(rnd.choice([0, 64, 400]))]
                res.append(bits_to_bytes(bits))
    elif method == "-pm2-":
        for _ in range(60):
            bits = [rnd.getrandbits(1)]
            ncodes = rnd.choice([0, 1, 2, 9, 10, 28, 29, 30, 31])
            bits += field(ncodes, 5)
            bits += field(rnd.choice([0, 1, 2, 3, 7]), 3)
            bits += [rnd.getrandbits(1) for _ in range(rnd.choice([3, 40, 120, 400]))]
            res.append(bits_to_bytes(bits))
        # two-code tables {c, c'} (one bit each) for every copy-count code c = 15 .. 30: the command bits then select the code,
        # so each boundary value of the copy_decode guard (valid 15..20, invalid 21..30) is really used
        for c in range(15, 31):
            c2 = c + 1 if c < 30 else c - 1
            for first in (0, 1):
                bits = [0] + field(31, 5) + field(1, 3) + field(3, 3)
                for i in range(31):
                    bits += field(1 if i in (c, c2) else 0, 3)
                bits += field(0, 3) * 8
                sel = (0 if c < c2 else 1) ^ first
                bits += [sel, 1 - sel] + [rnd.getrandbits(1) for _ in range(rnd.choice([8, 64]))] + [0] * 64
                res.append(bits_to_bytes(bits))
    elif method == "-pm1-":
        for h in range(32):
            res.append(bytes([h << 3]))            # start header with empty rest: endless zeros
            res.append(bytes([(h << 3) | rnd.getrandbits(3)]) + bytes(rnd.randrange(256) for _ in range(rnd.choice([1, 4, 30]))))
    elif method == "-lh1-":
        for _ in range(20):
            res.append(bytes(rnd.choice([0, 0xff, rnd.randrange(256)]) for _ in range(rnd.choice([1, 3, 50, 700]))))
    return res


def lh1_many_groups(ctx, rnd):
    """Directed family (audit round): -lh1- streams that drive the adaptive tree into as many simultaneous
    equal-frequency groups as possible (the decoder keeps one group per distinct frequency; text-like data and random
    bytes stay far below the number the tables are sized for).  Code k is used about k times inside one rebuild period, so
    that some 250 leaves and most branch nodes above them have pairwise different frequencies (more than 400 groups live
    at once, against 314 codes / 627 nodes); a second list continues past the rebuild at 32768 symbols.  Encoded by the
    extracted LZHUF transliteration; returns (stream, declared length) pairs."""
    lists = []
    order = list(range(314))
    rnd.shuffle(order)
    a = []
    for k in range(1, 251):
        s = order[k]
        a += [("L%02x" % s) if s < 256 else ("C%d:%d" % (rnd.randrange(4096), s - 253))] * k
    lists.append(a + ["L41"] * 200)
    b = list(a)
    rnd.shuffle(b)
    lists.append(b + a[:6000])
    out = common.run_lines_parallel([ctx.model], ["lh1enc " + ",".join(l) for l in lists], timeout=900)
    res = []
    for o in out:
        parts = o.split()
        if len(parts) >= 3 and parts[0] not in ("ERR", "FAULT"):
            res.append((common.unhex(parts[0]), int(parts[1])))
    return res


def deep_state_streams(ctx, rnd):
    """Directed family (audit round): inputs that take a decoder far into its state space before the bytes turn hostile.
    Random bytes, short seed members and table headers (the families above) never bring -pm2- to its table re-reads at
    4 KiB / 8 KiB, never bring -pm1- to the long copy-length classes, the far distance class and its position-dependent
    widths, or to a full byte block followed by a maximal copy in one call (the largest output of a single call), and
    never carry -lh1- through a tree rebuild.  Here the spec encoders build a well-formed prefix that reaches those
    states; each stream is then run as it is, with bit flips in its last quarter, and truncated.
    Returns (method, data, declared length, kind)."""
    import test_enc_pm as pm
    enc = []          # (method, encoder line)
    # -pm2-: past the re-read points at 4096 and 8192 (code table re-sent or kept, 8-entry offset table)
    for target, variant in ((4096 + 300, 0), (8192 + 300, 5), (4096 + 40, 2)):
        g = pm.Gen(0x20)
        pm.pm2_fill(g, target, rnd)
        for _ in range(30):
            pm.pm2_rand_cmd(g, rnd)
        enc.append(("-pm2-", "pm2enc %s %d" % (g.line(), variant)))
    # -pm1-: every copy-length class incl. 85..116 and 117..244, distances of the last class at each of its widths
    # (output positions 2880 .. 6720 and beyond), a block of 215 bytes followed by a copy of 244 (215 + 244 bytes from
    # one call), and a block of 216
    for h in (0, 9):
        cl = pm.PM1_CLASSES[h]
        g = pm.Gen(0)
        pm.pm1_fill(g, 2700, rnd, cl)
        for pos in (2880, 3136, 3648, 4672, 6720, 7400):
            if g.n < pos - 30:
                pm.pm1_fill(g, pos - 30, rnd, cl, last="copy")
            for ln in (rnd.choice([84, 23]), 85, 116, 117, 244):
                g.copy(rnd.choice([2624, g.n - 1 if g.n - 1 < 10816 else 10815, rnd.randrange(2624, min(g.n, 10816))]), ln) if g.n > 2624 else g.copy(0, ln)
                pm.pm1_lit(g, rnd, cl)
        # (a copy first: the literal written after the last copy above would make the run 216 long, and a block of 216 is
        # never followed by a copy in the same call)
        g.copy(rnd.choice(pm.pm1_dists(g.n, 5)), 5)
        for _ in range(215):
            pm.pm1_lit(g, rnd, cl)
        g.copy(rnd.choice(pm.pm1_dists(g.n, 244)), 244)
        for _ in range(216):
            pm.pm1_lit(g, rnd, cl)
        g.copy(0, 2)
        enc.append(("-pm1-", "pm1enc %d %s" % (h, g.line())))
    out = common.run_lines_parallel([ctx.model], [e[1] for e in enc], timeout=900)
    res = []
    for (m, el), o in zip(enc, out):
        parts = o.split()
        if len(parts) < 3 or parts[0] in ("ERR", "FAULT") or (len(parts) >= 4 and parts[3] == "0"):
            continue                              # (the C04 check reports encoder problems; here the stream is only a vehicle)
        d, n = common.unhex(parts[0]), int(parts[1])
        res.append((m, d, n, "deep-valid"))
        for _ in range(3):
            b = bytearray(d)
            lo = len(b) * 3 // 4
            for _ in range(rnd.choice([1, 3, 10])):
                i = rnd.randrange(lo, len(b))
                b[i] ^= 1 << rnd.randrange(8)
            res.append((m, bytes(b) + bytes(rnd.randrange(256) for _ in range(rnd.choice([0, 40]))), n + rnd.choice([0, 1000]), "deep-flipped"))
        res.append((m, d[:rnd.randrange(lo, len(d))], n, "deep-truncated"))
    return res


def run(ctx):
    rnd = random.Random(ctx.seed * 32452843 + 9)
    cb = CBuild(PID)
    viol, mism = [], []
    dist = collections.Counter()
    try:
        cexe = build(cb)
        modelled = set(decgen.model_methods(ctx.model))
        sd = seeds.harvest(cb)
        by = collections.defaultdict(list)
        for s in sd:
            by[s["method"]].append(s)
        lines, meths = [], []
        # corpus first (minimised failures and finding witnesses)
        for p in sorted(glob.glob(os.path.join(common.VERIF, "corpus", PID, "*.txt"))):
            for l in open(p):
                if l.strip():
                    lines.append(l.strip())
                    meths.append(l.split()[1])
                    dist["corpus"] += 1
        per = 60 if ctx.quick else 1500
        for m in decgen.ALL_METHODS:
            cands = [s for s in by.get(m, []) if len(s["data"]) <= (6000 if ctx.quick else 100000)]
            streams = []
            for i in range(per):
                r = rnd.random()
                if cands and r < 0.45:
                    s = rnd.choice(cands)
                    d = s["data"]
                    for _ in range(rnd.choice([1, 1, 2, 4])):
                        d = decgen.mutate(rnd, d, head=rnd.choice([4, 16, 64, 4096]))
                    streams.append((d, rnd.choice([s["length"], s["length"] + 1000, 100, 70000]), "mutated"))
                elif cands and r < 0.55:
                    s = rnd.choice(cands)
                    streams.append((s["data"][:rnd.randrange(0, len(s["data"]) + 1)], s["length"], "truncated"))
                elif r < 0.8:
                    n = rnd.choice([0, 1, 2, 3, 8, 40, 300, 3000])
                    streams.append((bytes(rnd.randrange(256) for _ in range(n)), rnd.choice([1, 100, 5000, 300000]), "random"))
                else:
                    b = rnd.choice([0, 0xff, 0x55, 0xaa, 0x80, 0x01])
                    streams.append((bytes([b]) * rnd.choice([1, 10, 200, 5000]), rnd.choice([100, 20000, 300000]), "constant"))
            for t in table_headers(rnd, m):
                streams.append((t, rnd.choice([700, 3000, 70000]), "table-header"))
            for (d, L, kind) in streams:
                if m == "-pm1-":
                    L = min(L, 40000)
                reads = rnd.choice(["%d" % (L + 7), "1*%d" % min(L + 2, 300), "7*%d,%d" % (min(L // 7 + 1, 500), L), "4096*%d" % (L // 4096 + 2)])
                lines.append(decgen.case(m, d, decgen.chunkings(rnd), L, reads, rnd.choice([-1, 0]), rnd.choice([0, 170, 255])))
                meths.append(m)
                dist[m + ":" + kind] += 1
        rnd_dir = random.Random(ctx.seed * 7919 + 910)
        extra = deep_state_streams(ctx, rnd_dir)
        for (d, n) in lh1_many_groups(ctx, random.Random(ctx.seed * 7919 + 909)):
            extra.append(("-lh1-", d, n, "many-groups"))
            b = bytearray(d)                      # the same prefix (it passes a tree rebuild), hostile tail
            for _ in range(8):
                i = rnd_dir.randrange(len(b) * 9 // 10, len(b))
                b[i] ^= 1 << rnd_dir.randrange(8)
            extra.append(("-lh1-", bytes(b), n + 2000, "many-groups-flipped"))
        for (m, d, L, kind) in extra:
            reads = rnd_dir.choice(["%d" % (L + 7), "7*%d,%d" % (min(L // 7 + 1, 500), L), "4096*%d" % (L // 4096 + 2)])
            lines.append(decgen.case(m, d, rnd_dir.choice(["-", "-", "3", "1000"]), L, reads, rnd_dir.choice([-1, 0]), rnd_dir.choice([0, 170, 255])))
            meths.append(m)
            dist[m + ":" + kind] += 1
        co = common.run_lines_parallel([cexe], lines)
        midx = [i for i, m in enumerate(meths) if m in modelled]
        mo_part = common.run_lines_parallel([ctx.model], [lines[i] for i in midx])
        mo = dict(zip(midx, mo_part))
        nontriv = 0
        seen = set()
        for i, (ln, c) in enumerate(zip(lines, co)):
            hk = hashlib.md5(ln.encode()).digest()
            pc = decgen.parse(c)
            if hk not in seen:
                seen.add(hk)
                if "len" in pc and pc["len"].isdigit() and int(pc["len"]) > 0:     # (a line cut short by a crash has no digits here)
                    nontriv += 1
            if "h" not in pc or "OVERREAD" in pc.get("r", ""):
                viol.append({"property": PID, "kind": "memory-error", "case": ln[:200000], "observed": c[:400],
                             "sig": "crash:" + meths[i] + ":" + c.split("@")[-1][:60]})
                continue
            if i in mo and mo[i] != c:
                mism.append({"case": ln[:3000], "c": c[:300], "model": mo[i][:300]})
        cov = {"evaluations": len(lines), "distinct_nontrivial": nontriv,
               "rule": "per method (14 names): seed members mutated in their table headers and bodies, truncated, random bytes, "
                       "constant bytes, and bit strings built to hit the table readers' extremes (count fields at 0/max/max+1, "
                       "unary length runs up to 300 ones, single-code forms, pm2 trees with 29/30/31 symbols, pm1 start headers "
                       "0..31 with empty input); random declared length, read schedule, callback chunking. Oracle: sanitizer "
                       "abort/trap or over-long read; plus equality with the model on the modelled methods (%s). non-trivial = "
                       "distinct case that produced output" % ",".join(sorted(modelled)),
               "distribution": dict(dist), "methods_modelled": sorted(modelled), "samples": [l[:160] for l in lines[:3]]}
        return {"violations": viol[:10], "mismatches": mism[:10], "coverage": cov,
                "search_note": "direct oracle: ASan/UBSan(bounds,null) build of the working tree on every case"}
    finally:
        cb.close()


def replay(payload):
    cb = CBuild(PID)
    try:
        cexe = build(cb)
        out = common.run_lines_parallel([cexe], [payload["case"]])
        print("case:", payload["case"][:300])
        print("observed:", out[0][:400])
        bad = not out[0].startswith("r=") or "OVERREAD" in out[0]
        print("REPRODUCED" if bad else "not reproduced")
        return 1 if bad else 0
    finally:
        cb.close()

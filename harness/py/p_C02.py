"""C02 -- the -lh1- adaptive-Huffman decoder stays in lock-step with the LZHUF model."""
import random
import rtcheck, decgen, common
import test_lh1 as gen

PID = "C02"
TRUSTED = ["spec Lzhuf.v (transliteration of LZHUF.C: StartHuff/update/reconst/EncodeChar/EncodePosition) run extracted",
           "C driver harness/c/drv_dec.c"]
ASSUMPTIONS = ["theorems lh1_refines_lzhuf / lh1_roundtrip(_api) are about the model Lh1.v; the tie to the C is this run's "
               "correspondence (C output = LZ77 expansion = model output on streams encoded by the extracted LZHUF transliteration)"]


def run(ctx):
    rnd = random.Random(ctx.seed * 67867967 + 2)
    lists = gen.gen_cmd_lists(rnd, True)
    if ctx.quick:
        # keep every engineered short list, and two of the long (> 70000 symbols, several rebuilds) ones
        short = [l for l in lists if len(l[1]) <= 20000]
        longs = [l for l in lists if len(l[1]) > 20000]
        rnd.shuffle(longs)
        directed = [l for l in longs if l[0].startswith(("long-rebuild", "long-distinct-freq", "long-skew")) or l[0] == "long-uniform-all-codes"]
        lists = short + directed + [l for l in longs if l not in directed][:2]
    else:
        lists = gen.gen_cmd_lists(rnd, False)
    cases = [("-lh1-", name, "lh1enc %s" % gen.cmds_str(cmds)) for name, cmds in lists]
    return rtcheck.roundtrip(ctx, PID, cases,
        "command lists engineered for frequency ties (round-robin over k symbols, alternating pairs, long runs, single symbol, "
        "geometric/Fibonacci distributions), all 64 upper-offset codes, copy lengths 3 and 60, offsets 0 and 4095, lists of more "
        "than 70000 symbols (several tree rebuilds), never-used codes first used right after the first / second rebuild, uniform use of all 314 codes across rebuilds, Fibonacci-like counts followed by unused symbols (codes of 17 and more bits), symbol s used s+1 times (more than 314 distinct node frequencies alive at once; in bursts and interleaved), encoded by the extracted LZHUF transliteration; the C decoder's output must equal "
        "the LZ77 expansion; model decoder compared. non-trivial = distinct case with output", model_limit=400000)


def replay(payload):
    return rtcheck.replay(PID, payload)

"""C06 -- extraction reproduces the archived tree: contents, names, times, modes, links."""
import os, random, collections
import common, test_rdr as T, test_cli as TC
from common import CBuild, CDIR

PID = "C06"
TRUSTED = ["the tool is src/main.c's main() linked with src/ and lib/ of the working tree (sanitizer build), run per case in a "
           "forked child that chroot()s into a fresh scratch tree, becomes uid 65534 (umask 022, TZ=UTC) and calls main(); the "
           "parent reports exit status, stdout, stderr and the dump of the whole tree (type, mode, mtime, contents / target)",
           "reference oracle (test_cli.C06): the expected tree is computed from the description the archive was generated "
           "from -- it never looks at the tool's or the model's output",
           "member data comes from real compressed members of the repository's archives, wrapped in headers made by the "
           "independent encoder lhabuild.py",
           "directed families (direct_cases): the tool built from the working tree (sanitizer build) run as uid 65534 in an empty "
           "scratch directory; the resulting tree is read back with lstat / readlink / read by the check itself"]
ASSUMPTIONS = ["well-formed archive = every directory entry followed contiguously by its contents (the generator's order)",
               "outside the guarantee, as the property says: dangerous links, and the time stamps of directories holding them; "
               "a directory that already exists keeps its own mode and time; as uid 65534 the kernel drops set-id bits on write",
               "all-capital names are avoided for OS types whose names the library lower-cases (generator artefact, not the tool's)"]


def build(cb):
    srcs = [os.path.join(CDIR, "drv_cli.c")] + [os.path.join(common.REPO, "src", f) for f in common.SRC_SOURCES if f != "main.c"] \
        + cb.lib_sources()
    drv = cb.compile("drv_cli", srcs, extra=["-I" + CDIR, "-DTEST_BUILD"], sanitize=True)
    rdrv = cb.compile("drv_rdr", [os.path.join(CDIR, "drv_rdr.c")] + cb.lib_sources(), extra=["-I" + CDIR], sanitize=True)
    return drv, rdrv


def mac_cases(c06, pool, rnd, n):
    """well-formed archives holding members of Mac archives: inside a MacBinary envelope (data fork, resource fork
    only, both empty: the stored member is then exactly the 128-byte envelope) and without one (any length,
    128 included); the expected contents are the fork, respectively the bytes as they are"""
    lines = []
    for _ in range(n):
        spec, ms = [], []
        d = rnd.choice([b"", b"mac/", b"m/n/"])
        if d:
            parts = d.split(b"/")[:-1]
            for i in range(1, len(parts) + 1):
                dd = b"/".join(parts[:i]) + b"/"
                ms.append(T.dir_member(rnd, dd, rnd.choice([1, 2, 3]), 0o40755, None, T.T_B))
                spec.append(("dir", dd, 0o40755, T.T_B))
        names = [b"hello.txt", b"empty", b"res", b"plain.txt", b"p128", b"tiny", b"big"]
        rnd.shuffle(names)
        for nm in names[:rnd.choice([1, 2, 3, 4])]:
            lv = rnd.choice([1, 2, 3])
            ts = rnd.choice([T.T_A, T.T_B])
            kind = rnd.choice(["data", "data", "empty", "res", "plain", "plain128", "tiny"])
            if kind in ("data", "empty", "res"):
                dfork = b"" if kind != "data" else bytes((i * 5 + 1) & 0xff for i in range(rnd.choice([1, 77, 128, 129, 300])))
                rfork = bytes((i * 3 + 2) & 0xff for i in range(rnd.choice([0, 50, 200]))) if kind == "data" else \
                    (b"" if kind == "empty" else b"RSRC" * rnd.choice([1, 9, 32]))
                body = dfork + rfork
                body += bytes(-len(body) % 128)
                data = T.macbinary_header(nm, len(dfork), len(rfork), ts) + body
                plain = dfork if dfork else rfork
            else:
                ln = {"plain": rnd.choice([129, 200, 4096 + 300]), "plain128": 128, "tiny": rnd.choice([0, 1, 127])}[kind]
                data = bytes((i * 11 + 3) & 0xff for i in range(ln))
                plain = data
            ms.append(T.Member(T.header(lv, b"-lh0-", len(data), len(data), T.crc16(data), d + nm, T.MAC, None, None, ts), data, "file"))
            spec.append(("file", d + nm, plain, None, ts))
        arc = T.archive(ms)
        cmd = rnd.choice([b"x", b"e", b"xq2", b"xf", b"p"])
        line = TC.case([cmd, TC.ARC], arc)
        c06.meta[line] = (cmd.decode(), spec, [], b"", cmd, b"", [])
        lines.append(line)
    return lines


# ---------------------------------------------------------------- directed families on the plain tool (audit round 4)
#
# What the generated trees above never contain: recorded directory permissions with the sticky or set-group-id bit, time
# stamps from 2038 on (the jail's dump prints every mtime later than the driver's start as "now", so they are looked at
# with lstat here), Mac members whose name fills the 63-byte name field of the MacBinary envelope or whose envelope was
# written 13 or 14 hours from UTC, wildcard patterns that still have several '*' left when the name ends, 'i' together with 'w=DIR', the prompt answers a / s, members longer than
# one 512-byte piece of the p command.  The archives are built from descriptions, the real tool (sanitizer build) extracts
# them as uid 65534 into an empty directory, and the tree is read back with lstat: nothing of the model is involved.
import shutil, stat as _stat
from concurrent.futures import ThreadPoolExecutor

LATE = [2 ** 31, 2 ** 31 + 86400 * 366, 0xF0000000, 2 ** 32 - 2]


def _seq(n, k):
    return bytes((i * k + 1) & 0xff for i in range(n))


def direct_cases(pool, rnd, quick):
    """[{name, arc, argv (after 'lha'), stdin, setup, spec, pre, flat, pats, keep}]; spec entries as in test_cli.C06"""
    r = random.Random(rnd.random())
    cases = []

    def stored(n, k=7):
        d = _seq(n, k)
        return {"method": "-lh0-", "data": d, "length": len(d), "crc": T.crc16(d), "plain": d}

    def small(maxlen):
        while True:
            sd = pool.small(r, maxlen=maxlen)
            if not sd["method"].startswith("-pm") and sd["method"] != "-lk7-":     # (level-0 PMarc headers have no Unix area; -lk7- needs a LHark header)
                return sd

    def F(full, sd, perms=0o100644, ts=T.T_A, lv=2):
        return T.file_member(r, sd, full, lv, T.U, perms, None, ts), ("file", full, sd["plain"], perms, ts)

    def D(path, perms=0o40755, ts=T.T_B, lv=2):
        return T.dir_member(r, path, lv, perms, None, ts), ("dir", path, perms, ts)

    def add(name, items, argv, stdin=b"", setup=(), pre=b"", flat=False, pats=(), keep=()):
        cases.append({"name": name, "arc": T.archive([m for m, _ in items]), "argv": list(argv) + list(pats), "stdin": stdin, "setup": list(setup),
                      "spec": [e for _, e in items], "pre": pre, "flat": flat, "pats": list(pats), "keep": set(keep)})

    # 1. sticky / set-group-id directories (and a sticky file), as /tmp-like and shared directories are archived
    for lv in (0, 1, 2, 3):
        for cmd in ([b"x", b"xw=o", b"xq2"] if not quick else [r.choice([b"x", b"xw=o", b"xq2", b"e"])]):
            items = [D(b"tmp/", 0o41777, T.T_A, lv), F(b"tmp/a", stored(9), 0o100600, T.T_B, lv), D(b"tmp/sh/", 0o42775, T.T_C, lv),
                     F(b"tmp/sh/b", small(200), 0o100664, T.T_A, lv), D(b"tmp/sh/k/", 0o43770, T.T_A, lv),
                     D(b"st/", 0o41755, 1234567890, lv),
                     # (audit round 5) a recorded permission word of 0 -- no type bits either -- is recorded all the same: mode 0000
                     F(b"st/z2", small(100), 0, T.T_A, lv),
                     F(b"c", stored(3), 0o101644, T.T_B, max(lv, 1)), F(b"zero", stored(6), 0, T.T_B, lv)]
            add("special-bits", items, [cmd], pre=(b"o/" if b"w" in cmd else b""))
    # 2. time stamps from 2038 on
    for lv in (0, 1, 2, 3):
        ts = r.sample(LATE, 3)
        items = [D(b"late/", 0o40755, ts[0], lv), F(b"late/f", small(100), 0o100644, ts[1], lv), F(b"g", stored(5), None if lv else 0o100644, ts[2], lv)]
        add("late-stamps", items, [r.choice([b"x", b"e", b"xf", b"xi"])], flat=False)
        if cases[-1]["argv"][0] == b"xi":
            cases[-1]["flat"] = True
    # 3. members of Mac archives whose name is as long as the envelope's name field allows (63), and longer
    for n in (31, 62, 63, 64, 100):
        for lv in ((1, 2, 3) if not quick else (r.choice([1, 2, 3]),)):
            nm = (b"N%d-" % n + b"m" * 100)[:n]
            dfork = _seq(r.choice([1, 200]), 5)
            body = dfork + bytes(-len(dfork) % 128)
            data = T.macbinary_header(nm, len(dfork), 0, T.T_A) + body
            if n > 63:            # the name cannot be in an envelope: such a member is a plain file
                data = _seq(300, 11)
                plain = data
            else:
                plain = dfork
            m = T.Member(T.header(lv, b"-lh0-", len(data), len(data), T.crc16(data), nm, T.MAC, None, None, T.T_A, inname=False), data, "file")
            for cmd in (b"x", b"p"):
                add("mac-name-%d" % n, [(m, ("file", nm, plain, None, T.T_A))], [cmd])
    # 3b. envelopes written in time zones up to 14 hours from UTC (the envelope's date is local time, the header's is UTC)
    for tz in (0, 13 * 3600, -13 * 3600, 14 * 3600, -14 * 3600, 12 * 3600 + 2700):
        nm = b"tz%d" % (tz // 900)
        dfork = _seq(r.choice([1, 77, 300]), 5)
        data = T.macbinary_header(nm, len(dfork), 0, T.T_A, tz=tz) + dfork + bytes(-len(dfork) % 128)
        m = T.Member(T.header(r.choice([1, 2, 3]), b"-lh0-", len(data), len(data), T.crc16(data), nm, T.MAC, None, None, T.T_A), data, "file")
        add("mac-zone", [(m, ("file", nm, dfork, None, T.T_A))], [r.choice([b"x", b"p", b"e"])])
    # 4. patterns that still have several '*' left when the name ends
    names = [b"a", b"xa", b"ab", b"a.txt", b"d/a", b"d/xa", b"d/c", b"q"]
    for pats in ([b"a**"], [b"**a**"], [b"*a**"], [b"a***"], [b"?**"], [b"d/**"], [b"d/a**", b"q**"], [b"**"], [b"*?**"], [b"a*?**"], [b"x?**", b"nomatch**"]):
        items = [D(b"d/")] + [F(nm, stored(4 + i)) for i, nm in enumerate(names) if nm.startswith(b"d/")] + \
                [F(nm, stored(4 + i)) for i, nm in enumerate(names) if not nm.startswith(b"d/")]
        for cmd in ((b"x", b"p") if not quick else (r.choice([b"x", b"p"]),)):
            add("trailing-stars", items, [cmd], pats=pats)
    # 5. 'i' together with 'w=DIR'
    for cmd, pre in ((b"xiw=o", b"o/"), (b"eiw=o/p", b"o/p/"), (b"xifw=new dir", b"new dir/"), (b"xiq2w=o/", b"o/")):
        items = [D(b"d/"), F(b"d/in", stored(9)), D(b"d/e/", 0o40700), F(b"d/e/deep", small(100)), F(b"top", stored(2))]
        add("flat-into-dir", items, [cmd], pre=pre, flat=True)
    # 5b. (audit round 5) the 'v' option is in the property's option set but in none of the generated invocations: it must not
    # change what is extracted or where (alone, before and after other options, with w=DIR last)
    for cmd, pre, flat_ in ((b"xv", b"", False), (b"ev", b"", False), (b"xvf", b"", False), (b"xfv", b"", False), (b"xvq1", b"", False), (b"xq2v", b"", False),
                            (b"xvw=o", b"o/", False), (b"xiv", b"", True), (b"xvi", b"", True), (b"-xv", b"", False),
                            # a 'q' without a digit followed by an option letter: the letter is an option, not a quiet level
                            (b"xqi", b"", True), (b"xqv", b"", False), (b"eqiw=o", b"o/", True), (b"xqw=o", b"o/", False)):
        items = [D(b"d/", 0o40750, T.T_C), F(b"d/in", stored(9), 0o100640), D(b"d/e/", 0o40500), F(b"d/e/deep", small(100)), F(b"top", stored(2), 0o100444, T.T_B)]
        if flat_:
            items = [it for it in items if it[1][0] == "file"]
        add("verbose-option", items, [cmd], pre=pre, flat=flat_)
    # 6. prompt answers a(ll) and s(kip): the policy they put in force holds for the rest of the archive
    fl = [b"f1", b"d/f2", b"f3", b"d/f4", b"f5"]
    for ans, kept in ((b"a\n", []), (b"A\n", []), (b"s\n", fl), (b"S\n", fl), (b"n\na\n", fl[:1]), (b"y\ns\n", fl[1:]), (b"n\ny\nS\n", [fl[0]] + fl[2:]),
                      (b"\nall\n", fl[:1]), (b"x\nskip\n", fl)):
        items = [F(b"f1", stored(3)), D(b"d/"), F(b"d/f2", stored(4)), F(b"f3", stored(5)), F(b"d/f4", stored(6)), F(b"f5", stored(7))]
        setup = [("mkdir", b"d", 0o755)] + [("file", f, b"OLD", 0o644) for f in fl]
        add("answers-all-skip", items, [r.choice([b"x", b"e"])], stdin=ans, setup=setup, keep=kept)
    # 8. (audit round 5) names the generated trees never use: leading dots (a stripped "." turns .profile into profile), a leading
    # '-', blanks at either end, pattern characters, printf directives, bytes above 0x7F, control characters, a backslash (a
    # plain character in a level-2/3 name), the longest name a directory can hold -- as files, as directories, under 'i', 'w=DIR',
    # through 'p' (the banner shows them sanitised) and selected by patterns that spell them
    odd = [b".profile", b"..rc", b"...", b".a.b", b"-rf", b" lead", b"trail ", b"a*b", b"wh?t", b"100%", b"%s%n%d", b"caf\xe9", b"\xe3\x81\x82.txt",
           b"tab\there", b"nl\nx", b"back\\slash", b"x" * 255, b"~", b"#", b"a|b.c"[:3] + b"c", b"$HOME", b"`id`", b"'q'", b'"dq"', b"[a]", b"{b}", b";", b"&"]
    for lv in ((1, 2, 3) if not quick else (r.choice([1, 2, 3]),)):
        use = [n for n in odd if lv >= 2 or (b"\\" not in n)]
        r.shuffle(use)
        for k in range(0, len(use), 7):
            grp = use[k:k + 7]
            items = [F(n, stored(3 + j), 0o100644, T.T_A, lv) for j, n in enumerate(grp)]
            dn = grp[0] if len(grp[0]) < 200 else b".d"
            items += [D(b".cfg/", 0o40750, T.T_C, lv), F(b".cfg/.keep", stored(2), 0o100600, T.T_B, lv), D(b".cfg/" + dn + b"/", 0o40700, T.T_A, lv),
                      F(b".cfg/" + dn + b"/" + grp[-1][:100], small(80), 0o100644, T.T_B, lv)]
            cmd = r.choice([b"x", b"e", b"xq2", b"xw=o", b"xi", b"p"]) if quick else None
            for c_ in ([cmd] if cmd else [b"x", b"xw=o", b"xi", b"p"]):
                if c_ == b"xi":
                    flat_items = [it for it in items if it[1][0] == "file"]
                    # (flattened: the last member of a name wins; keep names distinct)
                    seen, keep_ = set(), []
                    for it in flat_items:
                        b_ = it[1][1].split(b"/")[-1]
                        if b_ not in seen:
                            seen.add(b_)
                            keep_.append(it)
                    add("odd-names", keep_, [c_], flat=True)
                else:
                    add("odd-names", items, [c_], pre=(b"o/" if b"w" in c_ else b""))
    for pats, lv in (([b".*"], 2), ([b"..*", b"-*"], 3), ([b"*%*"], 2), ([b"a\\*b"], 2), ([b" *", b"* "], 1), ([b".cfg/.*"], 2), ([b"?" * 255], 3)):
        items = [F(n, stored(3 + j), 0o100644, T.T_A, lv) for j, n in enumerate(odd[:12] + [b"x" * 255]) if lv >= 2 or b"\\" not in n]
        items += [D(b".cfg/", 0o40755, T.T_C, lv), F(b".cfg/.keep", stored(2), 0o100600, T.T_B, lv), F(b".cfg/seen", stored(2), 0o100600, T.T_B, lv)]
        add("odd-names", items, [r.choice([b"x", b"p"])], pats=pats)
    # 7. members longer than one piece of the p command / of the extraction loop
    for ln in (511, 512, 513, 1024, 1025, 3000):
        big = [sd for sd in pool.full if sd["length"] >= ln and sd["method"] != "-lk7-"]
        sd = pool.cut(r.choice(big), ln) if big else stored(ln)
        items = [F(b"big%d" % ln, sd), F(b"st%d" % ln, stored(ln, 3))]
        for cmd in (b"p", b"x"):
            add("long-members", items, [cmd])
    return cases


def snapshot(root):
    tree = {}
    rb = root.encode()
    stack = [rb]
    while stack:
        d = stack.pop()
        for nm in os.listdir(d):
            p = os.path.join(d, nm)
            st = os.lstat(p)
            rel = p[len(rb) + 1:]
            if _stat.S_ISLNK(st.st_mode):
                tree[rel] = ("L", None, None, os.readlink(p))
            elif _stat.S_ISDIR(st.st_mode):
                tree[rel] = ("D", st.st_mode & 0o7777, int(st.st_mtime), None)
                stack.append(p)
            else:
                try:
                    data = open(p, "rb").read()
                except OSError:
                    data = None
                tree[rel] = ("F", st.st_mode & 0o7777, int(st.st_mtime), data)
    return tree


def direct_check(c, rc, out, tree):
    """deviations of the extracted tree / the p output from the description: [(what, detail)]"""
    bad = []
    res = [TC.glob_re(p) for p in c["pats"]]
    sel = [e for e in c["spec"] if not res or any(r_.match(e[1]) for r_ in res)]
    if rc != 0:
        bad.append(("exit status %d" % rc, ""))
    cmd = c["argv"][0]
    if cmd[:1] == b"p":
        exp = b"".join(b"::::::::\n" + TC.safe(e[1]) + b"\n::::::::\n" + e[2] for e in sel if e[0] == "file")
        if out != exp:
            k = next((j for j, (x, y) in enumerate(zip(out, exp)) if x != y), min(len(out), len(exp)))
            bad.append(("p: stdout is not banner + contents", "first difference at byte %d of %d (expected %d bytes)" % (k, len(out), len(exp))))
        if tree:
            bad.append(("p created an object", repr(sorted(tree)[0])))
        return bad
    pre, flat = c["pre"], c["flat"]

    def loc(full):
        return pre + (full.rstrip(b"/").split(b"/")[-1] if flat else full.rstrip(b"/"))
    allowed, dirs_ok = set(), set()
    for e in sel:
        if flat and e[0] == "dir":
            continue
        allowed.add(loc(e[1]))
    for op in c["setup"]:
        allowed.add(op[1])
    for a_ in allowed:
        parts = a_.split(b"/")
        for i in range(1, len(parts)):
            dirs_ok.add(b"/".join(parts[:i]))
    for k_, v in sorted(tree.items()):
        if k_ not in allowed and not (v[0] == "D" and k_ in dirs_ok):
            bad.append(("an object that no selected member accounts for", "%s %r" % (v[0], k_)))
            break
    for e in c["spec"]:
        if e not in sel and not flat and loc(e[1]) in tree and not any(op[1] == e[1].rstrip(b"/") for op in c["setup"]) \
                and not any(s_[1].startswith(e[1]) for s_ in sel if e[0] == "dir"):
            bad.append(("a member that no pattern selects was extracted", repr(e[1])))
    for e in sel:
        kind, full = e[0], e[1]
        ent = tree.get(loc(full))
        if kind == "file":
            if full in c["keep"]:
                if ent is None or ent[0] != "F" or ent[3] != b"OLD":
                    bad.append(("overwrite: the policy in force keeps the existing file, but it changed", repr(full)))
                continue
            if ent is None or ent[0] != "F":
                bad.append(("file missing", repr(full)))
            elif ent[3] != e[2]:
                bad.append(("file contents differ", "%r: %d bytes, archived %d" % (full, len(ent[3] or b""), len(e[2]))))
            elif e[4] and ent[2] != e[4]:
                bad.append(("file mtime wrong", "%r: %d, recorded %d" % (full, ent[2], e[4])))
            elif e[3] is not None and ent[1] != e[3] & 0o7777:
                bad.append(("file permissions differ", "%r: %o, recorded %o" % (full, ent[1], e[3] & 0o7777)))
        elif kind == "dir" and not flat:
            if any(op[0] == "mkdir" and op[1] == full.rstrip(b"/") for op in c["setup"]):
                continue                      # (an existing directory is left as it is)
            if ent is None or ent[0] != "D":
                bad.append(("directory missing", repr(full)))
            elif e[2] is not None and ent[1] != e[2] & 0o7777:
                bad.append(("directory permissions differ", "%r: %o, recorded %o" % (full, ent[1], e[2] & 0o7777)))
            elif e[3] and ent[2] != e[3]:
                bad.append(("directory mtime wrong", "%r: %d, recorded %d" % (full, ent[2], e[3])))
    return bad


def direct_part(cb, pool, rnd, quick, viol, dist, only=None):
    """runs the directed families; appends violations; returns (invocations, objects checked)"""
    lha = common.build_lha(cb)
    scratch = common.scratch_dir("c06d")
    try:
        cases = direct_cases(pool, rnd, quick) if only is None else only

        def one2(kc):       # (lstat must see the modes the tool left: snapshot before the clean-up chmod)
            k, c = kc
            top = os.path.join(scratch, "d%d" % k)
            root = os.path.join(top, "root")
            os.makedirs(root)
            open(os.path.join(top, "a.lzh"), "wb").write(c["arc"])
            for op in c["setup"]:
                pth = os.path.join(root.encode(), op[1])
                if op[0] == "mkdir":
                    os.mkdir(pth, op[2])
                elif op[0] == "file":
                    open(pth, "wb").write(op[2])
                    os.chmod(pth, op[3])
                    os.utime(pth, (1111111111, 1111111111))
            if os.geteuid() == 0:
                for dp, dn, fn in os.walk(root):
                    for x in [dp] + [os.path.join(dp, f) for f in fn]:
                        os.lchown(x, 65534, 65534)
            rc, out, err = common.run_lha(lha, [c["argv"][0], b"../a.lzh"] + c["argv"][1:], cwd=root, as_nobody=True, stdin=c["stdin"],
                                          now=1500000000)
            tree = snapshot(root)
            if os.geteuid() == 0:
                common.sh(["chmod", "-R", "u+rwx", top])
            shutil.rmtree(top, ignore_errors=True)
            return rc, out, err, tree
        with ThreadPoolExecutor(max_workers=common.NCPU) as ex:
            results = list(ex.map(one2, enumerate(cases)))
        objs = 0
        seen = set()
        for c, (rc, out, err, tree) in zip(cases, results):
            dist["direct:" + c["name"].split("-")[0]] += 1
            ab = common.abnormal(rc, err)
            if ab:
                viol.append({"property": PID, "kind": "tool-abnormal-termination", "family": c["name"], "observed": ab, "direct": _enc_case(c), "sig": "crash"})
                continue
            objs += len(c["spec"])
            for what, detail in direct_check(c, rc, out, tree)[:1]:
                if (c["name"], what) in seen:
                    continue
                seen.add((c["name"], what))
                viol.append({"property": PID, "kind": "extracted-tree-differs-from-the-archive", "what": what, "detail": detail, "family": c["name"],
                             "argv": ["lha"] + [x.decode("latin-1") for x in [c["argv"][0], b"../a.lzh"] + c["argv"][1:]],
                             "stdin": c["stdin"].decode("latin-1"), "direct": _enc_case(c), "sig": "tree:" + what.split(":")[0][:40]})
        return len(cases), objs
    finally:
        if os.geteuid() == 0:
            common.sh(["chmod", "-R", "u+rwx", scratch])
        shutil.rmtree(scratch, ignore_errors=True)


def _enc_case(c):
    enc = lambda x: x.hex() if isinstance(x, (bytes, bytearray)) else x
    return {"name": c["name"], "arc": c["arc"].hex(), "argv": [a.hex() for a in c["argv"]], "stdin": c["stdin"].hex(),
            "setup": [[enc(y) for y in op] for op in c["setup"]], "spec": [[enc(y) for y in e] for e in c["spec"]], "pre": c["pre"].hex(),
            "flat": c["flat"], "pats": [p_.hex() for p_ in c["pats"]], "keep": sorted(k.hex() for k in c["keep"])}


def _dec_case(d):
    def spec(e):
        if e[0] == "file":
            return ("file", bytes.fromhex(e[1]), bytes.fromhex(e[2]), e[3], e[4])
        return ("dir", bytes.fromhex(e[1]), e[2], e[3])
    def op(o):
        return (o[0], bytes.fromhex(o[1]), o[2]) if o[0] == "mkdir" else (o[0], bytes.fromhex(o[1]), bytes.fromhex(o[2]), o[3])
    return {"name": d["name"], "arc": bytes.fromhex(d["arc"]), "argv": [bytes.fromhex(a) for a in d["argv"]], "stdin": bytes.fromhex(d["stdin"]),
            "setup": [op(o) for o in d["setup"]], "spec": [spec(e) for e in d["spec"]], "pre": bytes.fromhex(d["pre"]), "flat": d["flat"],
            "pats": [bytes.fromhex(p_) for p_ in d["pats"]], "keep": set(bytes.fromhex(k) for k in d["keep"])}


def run(ctx):
    rnd = random.Random(ctx.seed * 104729 + 6)
    cb = CBuild(PID)
    viol, mism = [], []
    dist = collections.Counter()
    try:
        drv, rdrv = build(cb)
        if common.sh([drv, "--probe"])[1].strip() != "chroot":
            raise common.Broken("drv_cli needs root (chroot + setuid per case)")
        pool = T.Pool(cb, [rdrv], rnd)
        arcs = TC.hand_archives(pool)
        q = ctx.quick
        c06 = TC.C06()
        fam = collections.OrderedDict()
        fam["wellformed"] = c06.cases(pool, rnd, 500 if q else 12000)
        fam["wellformed"] += mac_cases(c06, pool, rnd, 150 if q else 3000)
        fam["order"] = TC.fam_order(pool, q, rnd, 200 if q else 6000)
        fam["options"] = TC.thin(TC.fam_options(arcs, q, rnd), 600 if q else 16000, rnd)
        fam["wildcards"] = TC.thin(TC.fam_wildcards(arcs, q, rnd), 300 if q else 3000, rnd)
        fam["prompts"] = TC.thin(TC.fam_prompts(arcs, q, rnd), 300 if q else 8000, rnd)
        fam["readonly"] = TC.thin(TC.fam_readonly(arcs, q, rnd), 150 if q else 1000, rnd)
        total = 0
        for name, lines in fam.items():
            lines = [l for l in lines if TC.comparable(l)]
            cout = [TC.normalise_c(l, c) for l, c in zip(lines, common.run_lines_parallel([drv], lines))]
            mout = common.run_lines_parallel([ctx.model], lines)
            total += len(lines)
            for l, c, m in zip(lines, cout, mout):
                av = TC.case_argv(l)
                dist["%s:%s" % (name, (av or [b"?"])[0].lstrip(b"-")[:1].decode("latin-1"))] += 1
                if c.startswith(("rc=99", "rc=98", "rc=SIG", "CRASH", "HANG")) or "|" not in c:
                    viol.append({"property": PID, "kind": "tool-abnormal-termination", "case": l, "argv": [x.decode("latin-1") for x in av],
                                 "observed": c[:300], "sig": "crash"})
                    continue
                if c != m:
                    i, cc, mm = TC.first_diff(c, m)
                    mism.append({"case": l[:8000], "c": cc[:600], "model": mm[:600]})
                if name == "wellformed":
                    c06.look(l, c)
        n_direct, objs_direct = direct_part(cb, pool, rnd, q, viol, dist)
        total += n_direct
        c06.n += n_direct
        c06.checked += objs_direct
        for sig, (cnt, l, detail) in c06.bad.items():
            t = l.split(" ")
            v_, spec_, pats_, pre_, cmd_, stdin_, setup_ = c06.meta[l]
            enc = lambda x: x.hex() if isinstance(x, (bytes, bytearray)) else x
            viol.append({"property": PID, "kind": "extracted-tree-differs-from-the-archive", "what": sig, "detail": detail, "cases_with_it": cnt,
                         "expectation": {"v": v_, "spec": [[enc(y) for y in e] for e in spec_], "pats": [x.hex() for x in pats_],
                                         "pre": pre_.hex(), "cmd": cmd_.hex(), "stdin_hex": stdin_.hex(), "setup": setup_},
                         "case": l, "argv": [x.decode("latin-1") for x in TC.case_argv(l)],
                         "stdin": common.unhex(t[6]).decode("latin-1")[:80], "sig": "tree:" + sig.split(":")[0][:40]})
        viol.sort(key=lambda v: len(v["case"]) if "case" in v else len(v["direct"]["arc"]) // 2)
        cov = {"evaluations": total, "distinct_nontrivial": c06.checked,
               "rule": "wellformed: generated trees (nested directories up to depth 3, files of every compression method with "
                       "contents harvested from real members, recorded modes incl. 0000/0222/0444/0555-style read-only files and "
                       "directories, time stamps, safe and dangerous links, uid/gid headers, levels 0-3; members of Mac archives inside a MacBinary envelope -- data fork, resource fork only, both empty -- and without one, 128 bytes included) in directory-first order, "
                       "each extracted with one of x / e / xq2 / xf / xi / xw=DIR (simple, nested, with blank, trailing slash) / x "
                       "with 1-3 wildcard patterns / p / p with patterns / existing files with prompt answers y n Y N empty, f, q1; "
                       "expected tree, p output and selection computed from the generating description (%d invocations, %d objects "
                       "checked: contents, mtime, mode, link target, no object unaccounted for).  order/options/wildcards/prompts/"
                       "readonly: model of the tool = real tool on exit status, stdout, stderr and the whole tree.  directed families on the "
                       "plain tool, tree read back with lstat: sticky / set-group-id directories, time stamps from 2038 on, Mac members with "
                       "31..100-byte names and envelopes from time zones up to 14 h from UTC, patterns ending in several '*', i with w=DIR, prompt answers a / s, members of 511..3000 bytes "
                       "through x and p.  non-trivial = "
                       "object checked against the description" % (c06.n, c06.checked),
               "distribution": dict(dist), "samples": [fam["wellformed"][0][:500], fam["options"][0][:300]]}
        return {"violations": viol[:10], "mismatches": mism[:10], "coverage": cov,
                "search_note": "reference oracle on the real tool's tree and output; the model is not needed to show a failure"}
    finally:
        cb.close()


def replay(payload):
    cb = CBuild(PID)
    try:
        drv, rdrv = build(cb)
        if "direct" in payload:
            c = _dec_case(payload["direct"])
            v, d_ = [], collections.Counter()
            direct_part(cb, None, None, True, v, d_, only=[c])
            for x in v:
                print("deviation:", x.get("what") or x.get("observed"), x.get("detail"))
            print("REPRODUCED" if v else "not reproduced")
            return 1 if v else 0
        l = payload["case"]
        o = TC.normalise_c(l, common.run_lines_parallel([drv], [l])[0])
        print("argv:", payload.get("argv"), "recorded:", payload.get("what"), payload.get("detail"))
        ex = payload.get("expectation")
        if not ex:
            print(o[:600])
            return 1 if o.startswith(("rc=99", "rc=98", "rc=SIG")) else 0
        def dec(e):
            kind = e[0]
            if kind == "file":
                return ("file", bytes.fromhex(e[1]), bytes.fromhex(e[2]), e[3], e[4])
            if kind == "dir":
                return ("dir", bytes.fromhex(e[1]), e[2], e[3])
            return ("link", bytes.fromhex(e[1]), bytes.fromhex(e[2]), e[3])
        c06 = TC.C06()
        c06.meta = {l: (ex["v"], [dec(e) for e in ex["spec"]], [bytes.fromhex(x) for x in ex["pats"]], bytes.fromhex(ex["pre"]),
                        bytes.fromhex(ex["cmd"]), bytes.fromhex(ex["stdin_hex"]), ex["setup"])}
        c06.look(l, o)
        for sig, (cnt, ll, detail) in c06.bad.items():
            print("deviation:", sig, detail)
        print("REPRODUCED" if c06.bad else "not reproduced")
        return 1 if c06.bad else 0
    finally:
        cb.close()

"""C06 -- extraction reproduces the archived tree: contents, names, times, modes, links."""
import os, random, collections
import common, test_rdr as T, test_cli as TC
from common import CBuild, CDIR

PID = "C06"
TRUSTED = ["the tool is src/main.c's main() linked with src/ and lib/ of the working tree (sanitizer build), run per case in a "
           "forked child that chroot()s into a fresh scratch tree, becomes uid 65534 (umask 022, TZ=UTC) and calls main(); the "
           "parent reports exit status, stdout, stderr and the dump of the whole tree (type, mode, mtime, contents / target)",
           "reference oracle (test_cli.C06): the expected tree is computed from the description the archive was generated "
           "from -- it never looks at the tool's or the model's output",
           "member data comes from real compressed members of the repository's archives, wrapped in headers made by the "
           "independent encoder lhabuild.py"]
ASSUMPTIONS = ["well-formed archive = every directory entry followed contiguously by its contents (the generator's order)",
               "outside the guarantee, as the property says: dangerous links, and the time stamps of directories holding them; "
               "a directory that already exists keeps its own mode and time; as uid 65534 the kernel drops set-id bits on write",
               "all-capital names are avoided for OS types whose names the library lower-cases (generator artefact, not the tool's)"]


def build(cb):
    srcs = [os.path.join(CDIR, "drv_cli.c")] + [os.path.join(common.REPO, "src", f) for f in common.SRC_SOURCES if f != "main.c"] \
        + cb.lib_sources()
    drv = cb.compile("drv_cli", srcs, extra=["-I" + CDIR, "-DTEST_BUILD"], sanitize=True)
    rdrv = cb.compile("drv_rdr", [os.path.join(CDIR, "drv_rdr.c")] + cb.lib_sources(), extra=["-I" + CDIR], sanitize=True)
    return drv, rdrv


def mac_cases(c06, pool, rnd, n):
    """well-formed archives holding members of Mac archives: inside a MacBinary envelope (data fork, resource fork
    only, both empty: the stored member is then exactly the 128-byte envelope) and without one (any length,
    128 included); the expected contents are the fork, respectively the bytes as they are"""
    lines = []
    for _ in range(n):
        spec, ms = [], []
        d = rnd.choice([b"", b"mac/", b"m/n/"])
        if d:
            parts = d.split(b"/")[:-1]
            for i in range(1, len(parts) + 1):
                dd = b"/".join(parts[:i]) + b"/"
                ms.append(T.dir_member(rnd, dd, rnd.choice([1, 2, 3]), 0o40755, None, T.T_B))
                spec.append(("dir", dd, 0o40755, T.T_B))
        names = [b"hello.txt", b"empty", b"res", b"plain.txt", b"p128", b"tiny", b"big"]
        rnd.shuffle(names)
        for nm in names[:rnd.choice([1, 2, 3, 4])]:
            lv = rnd.choice([1, 2, 3])
            ts = rnd.choice([T.T_A, T.T_B])
            kind = rnd.choice(["data", "data", "empty", "res", "plain", "plain128", "tiny"])
            if kind in ("data", "empty", "res"):
                dfork = b"" if kind != "data" else bytes((i * 5 + 1) & 0xff for i in range(rnd.choice([1, 77, 128, 129, 300])))
                rfork = bytes((i * 3 + 2) & 0xff for i in range(rnd.choice([0, 50, 200]))) if kind == "data" else \
                    (b"" if kind == "empty" else b"RSRC" * rnd.choice([1, 9, 32]))
                body = dfork + rfork
                body += bytes(-len(body) % 128)
                data = T.macbinary_header(nm, len(dfork), len(rfork), ts) + body
                plain = dfork if dfork else rfork
            else:
                ln = {"plain": rnd.choice([129, 200, 4096 + 300]), "plain128": 128, "tiny": rnd.choice([0, 1, 127])}[kind]
                data = bytes((i * 11 + 3) & 0xff for i in range(ln))
                plain = data
            ms.append(T.Member(T.header(lv, b"-lh0-", len(data), len(data), T.crc16(data), d + nm, T.MAC, None, None, ts), data, "file"))
            spec.append(("file", d + nm, plain, None, ts))
        arc = T.archive(ms)
        cmd = rnd.choice([b"x", b"e", b"xq2", b"xf", b"p"])
        line = TC.case([cmd, TC.ARC], arc)
        c06.meta[line] = (cmd.decode(), spec, [], b"", cmd, b"", [])
        lines.append(line)
    return lines


def run(ctx):
    rnd = random.Random(ctx.seed * 104729 + 6)
    cb = CBuild(PID)
    viol, mism = [], []
    dist = collections.Counter()
    try:
        drv, rdrv = build(cb)
        if common.sh([drv, "--probe"])[1].strip() != "chroot":
            raise common.Broken("drv_cli needs root (chroot + setuid per case)")
        pool = T.Pool(cb, [rdrv], rnd)
        arcs = TC.hand_archives(pool)
        q = ctx.quick
        c06 = TC.C06()
        fam = collections.OrderedDict()
        fam["wellformed"] = c06.cases(pool, rnd, 500 if q else 12000)
        fam["wellformed"] += mac_cases(c06, pool, rnd, 150 if q else 3000)
        fam["order"] = TC.fam_order(pool, q, rnd, 200 if q else 6000)
        fam["options"] = TC.thin(TC.fam_options(arcs, q, rnd), 600 if q else 16000, rnd)
        fam["wildcards"] = TC.thin(TC.fam_wildcards(arcs, q, rnd), 300 if q else 3000, rnd)
        fam["prompts"] = TC.thin(TC.fam_prompts(arcs, q, rnd), 300 if q else 8000, rnd)
        fam["readonly"] = TC.thin(TC.fam_readonly(arcs, q, rnd), 150 if q else 1000, rnd)
        total = 0
        for name, lines in fam.items():
            lines = [l for l in lines if TC.comparable(l)]
            cout = [TC.normalise_c(l, c) for l, c in zip(lines, common.run_lines_parallel([drv], lines))]
            mout = common.run_lines_parallel([ctx.model], lines)
            total += len(lines)
            for l, c, m in zip(lines, cout, mout):
                av = TC.case_argv(l)
                dist["%s:%s" % (name, (av or [b"?"])[0].lstrip(b"-")[:1].decode("latin-1"))] += 1
                if c.startswith(("rc=99", "rc=98", "rc=SIG", "CRASH", "HANG")) or "|" not in c:
                    viol.append({"property": PID, "kind": "tool-abnormal-termination", "case": l, "argv": [x.decode("latin-1") for x in av],
                                 "observed": c[:300], "sig": "crash"})
                    continue
                if c != m:
                    i, cc, mm = TC.first_diff(c, m)
                    mism.append({"case": l[:8000], "c": cc[:600], "model": mm[:600]})
                if name == "wellformed":
                    c06.look(l, c)
        for sig, (cnt, l, detail) in c06.bad.items():
            t = l.split(" ")
            v_, spec_, pats_, pre_, cmd_, stdin_, setup_ = c06.meta[l]
            enc = lambda x: x.hex() if isinstance(x, (bytes, bytearray)) else x
            viol.append({"property": PID, "kind": "extracted-tree-differs-from-the-archive", "what": sig, "detail": detail, "cases_with_it": cnt,
                         "expectation": {"v": v_, "spec": [[enc(y) for y in e] for e in spec_], "pats": [x.hex() for x in pats_],
                                         "pre": pre_.hex(), "cmd": cmd_.hex(), "stdin_hex": stdin_.hex(), "setup": setup_},
                         "case": l, "argv": [x.decode("latin-1") for x in TC.case_argv(l)],
                         "stdin": common.unhex(t[6]).decode("latin-1")[:80], "sig": "tree:" + sig.split(":")[0][:40]})
        viol.sort(key=lambda v: len(v["case"]))
        cov = {"evaluations": total, "distinct_nontrivial": c06.checked,
               "rule": "wellformed: generated trees (nested directories up to depth 3, files of every compression method with "
                       "contents harvested from real members, recorded modes incl. 0000/0222/0444/0555-style read-only files and "
                       "directories, time stamps, safe and dangerous links, uid/gid headers, levels 0-3; members of Mac archives inside a MacBinary envelope -- data fork, resource fork only, both empty -- and without one, 128 bytes included) in directory-first order, "
                       "each extracted with one of x / e / xq2 / xf / xi / xw=DIR (simple, nested, with blank, trailing slash) / x "
                       "with 1-3 wildcard patterns / p / p with patterns / existing files with prompt answers y n Y N empty, f, q1; "
                       "expected tree, p output and selection computed from the generating description (%d invocations, %d objects "
                       "checked: contents, mtime, mode, link target, no object unaccounted for).  order/options/wildcards/prompts/"
                       "readonly: model of the tool = real tool on exit status, stdout, stderr and the whole tree.  non-trivial = "
                       "object checked against the description" % (c06.n, c06.checked),
               "distribution": dict(dist), "samples": [fam["wellformed"][0][:500], fam["options"][0][:300]]}
        return {"violations": viol[:10], "mismatches": mism[:10], "coverage": cov,
                "search_note": "reference oracle on the real tool's tree and output; the model is not needed to show a failure"}
    finally:
        cb.close()


def replay(payload):
    cb = CBuild(PID)
    try:
        drv, rdrv = build(cb)
        l = payload["case"]
        o = TC.normalise_c(l, common.run_lines_parallel([drv], [l])[0])
        print("argv:", payload.get("argv"), "recorded:", payload.get("what"), payload.get("detail"))
        ex = payload.get("expectation")
        if not ex:
            print(o[:600])
            return 1 if o.startswith(("rc=99", "rc=98", "rc=SIG")) else 0
        def dec(e):
            kind = e[0]
            if kind == "file":
                return ("file", bytes.fromhex(e[1]), bytes.fromhex(e[2]), e[3], e[4])
            if kind == "dir":
                return ("dir", bytes.fromhex(e[1]), e[2], e[3])
            return ("link", bytes.fromhex(e[1]), bytes.fromhex(e[2]), e[3])
        c06 = TC.C06()
        c06.meta = {l: (ex["v"], [dec(e) for e in ex["spec"]], [bytes.fromhex(x) for x in ex["pats"]], bytes.fromhex(ex["pre"]),
                        bytes.fromhex(ex["cmd"]), bytes.fromhex(ex["stdin_hex"]), ex["setup"])}
        c06.look(l, o)
        for sig, (cnt, ll, detail) in c06.bad.items():
            print("deviation:", sig, detail)
        print("REPRODUCED" if c06.bad else "not reproduced")
        return 1 if c06.bad else 0
    finally:
        cb.close()

"""C13 -- every call returns; work and heap are bounded by bytes present and declared size."""
import os, random, collections, glob, re, struct
import common, lhabuild as lb, hdrgen, decgen, seeds
from common import CBuild

PID = "C13"
TRUSTED = ["request counts are taken in the driver's own stream callbacks; heap numbers by link-time wrapping of malloc/calloc/realloc/"
           "strdup/free (harness/c/verif_alloc.c), realloc counted with its transient copy",
           "a call that does not return is seen as a timeout of the driver (watchdog)"]
ASSUMPTIONS = ["CPU time as such is not modelled; steps (source requests, inner-decoder invocations) are",
               "bounds checked: requests <= len(A) + 16*(members+2); peak heap <= 8 MiB + 2*len(A); no live block after free"]
KINDS = ["file", "pipe", "cbskip", "cbnoskip"]
ALLOC = re.compile(r" ALLOC req=(\d+) live=(\d+) bytes=(\d+) peak=(\d+) files=(\d+) failed=(\d+)")


def extreme_archives(rnd):
    res = []
    # level 3 with absurd total lengths
    for total in (2 ** 32 - 1, 2 ** 20 + 1, 2 ** 20, 2 ** 31, 33, 9 * 2 ** 20, 2 ** 24, 2 ** 27, 2 ** 30 - 1, 2 ** 30):
        f = {"level": 3, "method": b"-lh5-", "clen": 2 ** 32 - 1, "length": 2 ** 32 - 1, "time": 1, "attr": 0x20, "os": ord('U'),
             "crc": 0, "exts": [(1, b"big")]}
        h = bytearray(lb.build_header(f, fix_common_crc=False))
        h[24:28] = struct.pack("<I", total)
        res.append(bytes(h) + b"xyz")
    # level 1 with a long chain of extended headers, then truncated
    exts = [(0x3f, bytes(rnd.randrange(256) for _ in range(rnd.choice([0, 5, 200])))) for _ in range(300)]
    f = {"level": 1, "method": b"-lh0-", "clen": 4, "length": 4, "time": 0x21, "attr": 0x20, "os": ord('M'), "crc": 0, "name": b"a", "exts": exts}
    h = lb.build_header(f)
    res += [h + b"data", h[:len(h) // 2], h[:len(h) - 1]]
    # level 1 whose extended header says 65535 but the input ends
    f = {"level": 1, "method": b"-lh0-", "clen": 70000, "length": 4, "time": 0x21, "attr": 0x20, "os": ord('M'), "crc": 0, "name": b"a", "exts": []}
    h = bytearray(lb.build_header(f))
    h[-2:] = struct.pack("<H", 65535)
    h[1] = sum(h[2:2 + h[0]]) & 0xff
    res.append(bytes(h) + b"\x01" * 10)
    # 4 GiB members with a few bytes of data, several in a row
    one = lb.build_header({"level": 0, "method": b"-lh0-", "clen": 2 ** 32 - 1, "length": 2 ** 32 - 1, "time": 0x21, "attr": 0x20,
                           "os": 0, "crc": 0, "name": b"huge"})
    res += [one + b"abc", one]
    return res


def run_tool_quiet(exe, args, cwd, stdin, timeout):
    """exit status of the tool, or -999 when it does not exit in time; its output is discarded (a tool that loops may
    write without end, so nothing is collected)"""
    import subprocess
    e = dict(os.environ)
    e.update(common.ASAN_ENV)
    e["TZ"] = "UTC"
    e["LC_ALL"] = "C"
    try:
        p = subprocess.run([exe] + list(args), cwd=cwd, input=stdin, stdout=subprocess.DEVNULL, stderr=subprocess.DEVNULL,
                           timeout=timeout, env=e)
        return p.returncode
    except subprocess.TimeoutExpired:
        return -999


def run(ctx):
    rnd = random.Random(ctx.seed * 179424673 + 13)
    cb = CBuild(PID)
    viol, mism = [], []
    dist = collections.Counter()
    try:
        hexe = cb.compile("drv_hdr_a", [os.path.join(common.CDIR, "drv_hdr.c")] + cb.lib_sources() + common.alloc_sources(),
                          extra=["-DLHASA_VERIF"], libs=common.WRAP)
        dexe = cb.compile("drv_dec", [os.path.join(common.CDIR, "drv_dec.c")] + cb.lib_sources())
        paths = sorted(p for p in glob.glob(os.path.join(common.REPO, "test/archives/*/*"))
                       if os.path.isfile(p) and os.path.getsize(p) < 3000)
        arcs = [open(p, "rb").read() for p in rnd.sample(paths, 12 if ctx.quick else min(len(paths), 120))]
        for _ in range(8 if ctx.quick else 100):
            ms = b""
            for _ in range(rnd.choice([1, 2, 3])):
                f = hdrgen.rfields(rnd)
                if lb.normalise(f) is None:
                    continue
                h, d = hdrgen.member(f)
                ms += h + d
            if ms and len(ms) < 1500:
                arcs.append(ms + b"\0")
        cases = []    # (bytes, kind, tag)
        for a in arcs:
            for cut in range(0, len(a) + 1, 1 if (not ctx.quick or len(a) < 400) else 7):
                for k in (KINDS if not ctx.quick else [KINDS[cut % 4], KINDS[(cut + 1) % 4]]):
                    cases.append((a[:cut], k, "truncation"))
        for a in extreme_archives(rnd):
            for k in KINDS:
                cases.append((a, k, "extreme"))
        lines = ["hdr %s %s" % (k, a.hex() if a else "-") for a, k, _ in cases]
        co = common.run_lines_parallel([hexe], lines, timeout=60, single_timeout=5, max_hangs=2)
        mo = common.run_lines_parallel([ctx.model], lines, timeout=900)
        nontriv = 0
        for (a, k, tag), ln, c, m in zip(cases, lines, co, mo):
            dist[tag + ":" + k] += 1
            if c.startswith("SKIPPED"):
                continue
            if c.startswith("HANG") or "TIMEOUT" in c:
                viol.append({"property": PID, "kind": "call-does-not-return", "case": ln[:100000], "observed": c[:200], "sig": "hang:" + k})
                continue
            if not (c.startswith("H ") or c.startswith("E ")):
                viol.append({"property": PID, "kind": "abnormal", "case": ln[:100000], "observed": c[:300], "sig": "crash"})
                continue
            am = ALLOC.search(c)
            plain = ALLOC.sub("", c)
            n_members = c.count("H lv=")
            if am:
                req, live, lbytes, peak, files, failed = map(int, am.groups())
                if live != 0 or files != 0:
                    viol.append({"property": PID, "kind": "heap-not-released", "case": ln[:100000], "observed": c[-200:], "sig": "leak"})
                    continue
                if peak > 8 * 2 ** 20 + 2 * len(a):
                    viol.append({"property": PID, "kind": "heap-bound-exceeded", "case": ln[:100000], "peak": peak, "input_len": len(a),
                                 "sig": "heap:" + tag})
                    continue
            rm = re.search(r"reads=(\d+) skips=(\d+)", c)
            if rm:
                reqs = int(rm.group(1)) + int(rm.group(2))
                if reqs > len(a) + 16 * (n_members + 2):
                    viol.append({"property": PID, "kind": "work-not-linear", "case": ln[:100000], "requests": reqs, "input_len": len(a),
                                 "members": n_members, "sig": "work:" + k})
                    continue
            if n_members:
                nontriv += 1
            if plain != m:
                mism.append({"case": ln[:3000], "c": plain[:500], "model": m[:500]})
        # skipping a member whose data is truncated ends the archive -- also when the caller's skip callback refuses the skip
        # WITHOUT moving (kind cbskipstay, C only), so that the bytes that are there (here: a complete, valid member) are still
        # unread: iteration must stop at the truncated member exactly as it does on a pipe
        r13 = random.Random(ctx.seed * 49979693 + 1313)

        def plain_member(name, clen, data, lv):
            f = {"level": lv, "method": b"-lh0-", "clen": clen, "length": clen & 0xffffffff, "crc": 0, "attr": 0x20, "os": ord('U'),
                 "time": 0x21 if lv < 2 else 1000000000, "name": name, "exts": [(1, name)]}
            return lb.build_header(f) + data
        sf = []
        for j in range(4 if ctx.quick else 30):
            inner = plain_member(b"hidden", 3, b"abc", r13.choice([0, 1, 2])) + r13.choice([b"", b"\0"])
            for cmd, lead in (("hdrs", b""), ("hdr", bytes(r13.randrange(1, 256) for _ in range(8)))):
                data = lead + inner
                decl = r13.choice([len(data) + 1, len(data) + r13.randrange(2, 40), 70000, 2 ** 31 + 5, 2 ** 32 - 1])
                a = r13.choice([b"", plain_member(b"first", 4, b"1234", 1)]) + plain_member(b"outer", decl, data, r13.choice([0, 1, 2]))
                sf.append((a, ["%s %s %s" % (cmd, k, a.hex()) for k in ("pipe", "cbskipstay")]))
        so = common.run_lines_parallel([hexe], [l for _, ls in sf for l in ls], timeout=60, single_timeout=5, max_hangs=2)
        for j, (a, ls) in enumerate(sf):
            dist["skip-refused"] += 1
            ref, got = [ALLOC.sub("", x).split(" reads=")[0] for x in so[2 * j:2 * j + 2]]
            if got.startswith("HANG") or "TIMEOUT" in got:
                viol.append({"property": PID, "kind": "call-does-not-return", "case": ls[1][:100000], "observed": got[:200], "sig": "hang:cbskipstay"})
            elif got != ref:
                viol.append({"property": PID, "kind": "truncated-member-does-not-end-archive", "case": ls[1][:100000], "case_pipe": ls[0][:100000],
                             "observed": got[:400], "observed_pipe": ref[:400], "input_len": len(a), "sig": "skip-refused"})
        # decoders: endless / self-referential / truncated inputs must stop at the declared length
        dl = []
        for h in range(32):
            dl.append(decgen.case("-pm1-", bytes([h << 3]), "-", 300000, "65536*6", -1, 0))
        dl.append(decgen.case("-pm2-", bytes([0xe8, 0x00]), "-", 300000, "65536*6", -1, 0))
        # the same endless / input-free streams with the smallest declared lengths (0 and 1 are lengths like any other)
        for decl_ in (0, 1):
            for h in (0, 5, 17, 31):
                dl.append(decgen.case("-pm1-", bytes([h << 3]), "-", decl_, "4096*3", -1, 0))
            dl.append(decgen.case("-pm2-", bytes([0xe8, 0x00]), "-", decl_, "4096*3", -1, 0))
            for m_ in ("-lzs-", "-lz5-", "-lh5-", "-lh1-", "-lh0-"):
                dl.append(decgen.case(m_, b"\x00" * 300, "-", decl_, "4096*3", -1, 0))
        sd = seeds.harvest(cb)
        for s in sd:
            if s["method"] in decgen.ALL_METHODS and len(s["data"]) > 20 and len(s["data"]) < 4000:
                dl.append(decgen.case(s["method"], s["data"][:len(s["data"]) // 2], "-", 2 ** 32 - 1, "65536*4,1*50", -1, 0))
        for m_ in ("-lzs-", "-lz5-", "-lh5-", "-lh1-"):
            dl.append(decgen.case(m_, b"\x00" * 3000, "-", 10 ** 7, "1048576*3", -1, 0))
        # the input ends inside a run of one bits (unary length extensions, escape codes) or of zero bits: short
        # prefixes of real streams and of hand-made table headers, followed by 0xFF / 0x00 / 0xAA bytes, then nothing
        heads = [b"", b"\x00\x01", b"\x00\x0f", b"\x00\x10\x20", b"\x7f\xff", b"\x00\x02\x49", b"\xff"]
        for m_ in sorted(decgen.ALL_METHODS):
            pre = [h for h in heads]
            for s_ in sd:
                if s_["method"] == m_ and len(s_["data"]) > 40:
                    pre += [s_["data"][:k] for k in (1, 2, 3, 5, 8, 13, 21, 34)]
                    break
            for h in pre[:(9 if ctx.quick else 40)]:
                for fill, n in ((0xff, 4), (0xff, 40), (0x00, 6), (0xaa, 9)):
                    dl.append(decgen.case(m_, h + bytes([fill]) * n, "-", 5000, "4096*2,1*3", -1, 0))
        do = common.run_lines_parallel([dexe], dl, timeout=120, single_timeout=30, max_hangs=2)
        for ln, c in zip(dl, do):
            dist["decoder-budget"] += 1
            pc = decgen.parse(c)
            if c.startswith("SKIPPED"):
                continue
            if "len" not in pc:
                viol.append({"property": PID, "kind": "decode-does-not-return-or-crashes", "case": ln[:20000], "observed": c[:200],
                             "sig": "dechang:" + ln.split()[1]})
            elif int(pc["len"]) > int(ln.split()[4]):
                viol.append({"property": PID, "kind": "decode-past-declared-length", "case": ln[:20000], "observed": c[:200], "sig": "past"})
        # ---- heap while DECODING member after member: the decoder state (up to 2 MiB) must be released before the next
        #      member's is allocated, for plain members and for members of Mac archives (pass-through + inner decoder)
        import test_rdr as T
        rdrv = cb.compile("drv_rdr_mem", [os.path.join(common.CDIR, "drv_rdr.c")] + cb.lib_sources() + common.alloc_sources(),
                          extra=["-I" + common.CDIR, "-DLHASA_VERIF"], sanitize=True, libs=common.WRAP)
        pool = T.Pool(cb, [rdrv], rnd)
        hl = []
        big = [m for m in ("-lhx-", "-lh7-", "-lh6-", "-lh5-", "-pm2-", "-lh1-") if pool.by.get(m)]
        for m in big:
            for os_ in (T.U, T.MAC):
                for nmem in ((6, 12) if ctx.quick else (6, 12, 40)):
                    ms = [T.file_member(rnd, pool.cut(pool.by[m][i % len(pool.by[m])], 40), b"m%d" % i, rnd.choice([1, 2, 3]), os_, None, None, T.T_A)
                          for i in range(nmem)]
                    arc = T.archive(ms)
                    for op in ("c", "r5", "r100000", "x"):
                        hl.append((T.case(rnd.choice(T.KINDS), "eod", arc, ["n", op] * nmem + ["n"]), len(arc)))
        n_heap_family = len(hl)
        # members that DECLARE a huge uncompressed length (16 MiB .. 4 GiB) and hold a few bytes: checking / reading / extracting
        # them must not make the library allocate by the declared size (stored data, and real streams cut short)
        rh = random.Random(ctx.seed * 32452867 + 1313)
        for decl_len in (2 ** 32 - 1, 2 ** 31, 2 ** 24 + 1, 9 * 2 ** 20, 100 * 2 ** 20):
            sds = [{"method": "-lh0-", "data": b"abc", "length": decl_len, "crc": 0, "plain": b"abc"}]
            for m in ("-lh5-", "-lh1-", "-lzs-", "-lh7-"):
                if pool.by.get(m):
                    s0 = dict(pool.by[m][0])
                    s0["data"], s0["length"] = s0["data"][:max(1, len(s0["data"]) // 2)], decl_len
                    sds.append(s0)
            for s0 in (sds if not ctx.quick else [sds[0], rh.choice(sds[1:] or sds)]):
                for os_ in (T.U, T.MAC):
                    arc = T.archive([T.file_member(rh, s0, b"big%d" % i, rh.choice([1, 2, 3]), os_, None, None, T.T_A) for i in range(2)])
                    for op in ("c", "r5", "x"):
                        hl.append((T.case(rh.choice(T.KINDS), "eod", arc, ["n", op, "n", op, "n"]), len(arc)))
        for m in sorted(pool.by):
            sd_ = pool.by[m][0]
            for os_ in (T.U, T.MAC):
                for bad in ("clen-", None):
                    mem = T.file_member(rnd, pool.cut(sd_, min(sd_["length"], 600)), b"t", rnd.choice([1, 2, 3]), os_, None, None, T.T_A, bad)
                    for op in ("c", "r5,r100000", "x"):
                        hl.append((T.case(rnd.choice(T.KINDS), "eod", T.archive([mem, mem]), ["n"] + op.split(",") + ["n"] + op.split(",") + ["n"]), 0))
        for variant in ("short", "short", "short", "valid", "forklen", "plainfile", "tiny", "res-only"):
            mem = T.mac_member(rnd, b"mm", variant, rnd.choice([1, 2, 3]))
            for cutd in (None, 1, 64, 127, 129):
                arc = T.archive([mem, mem])
                if cutd is not None:
                    arc = arc[:len(mem.hdr) + min(cutd, len(mem.data))]
                for op in ("c", "r5,r100000", "x", "r1,r1"):
                    hl.append((T.case(rnd.choice(T.KINDS), "eod", arc, ["n"] + op.split(",") + ["n"] + op.split(",") + ["n"]), 0))
        ho = common.run_lines_parallel([rdrv], [l for l, _ in hl])
        for (l, alen), c in zip(hl, ho):
            dist["decode-many-members"] += 1
            am = ALLOC.search(c)
            if "CHILD-FAILED-14 " in c or c == "HANG" or c.startswith("HANG"):
                # the per-case child was killed by its 10 s alarm (or the whole driver timed out): a call did not return
                viol.append({"property": PID, "kind": "call-does-not-return", "case": l[:100000], "observed": c[-200:],
                             "what": "a reader operation (ops %s) did not return" % l.split()[5], "sig": "hang:reader"})
                continue
            if "CHILD-FAILED" in c or not am:
                continue
            peak = int(am.group(4))
            if alen and peak > 8 * 2 ** 20 + 2 * alen:
                viol.append({"property": PID, "kind": "heap-bound-exceeded", "case": l[:100000], "peak": peak, "input_len": alen,
                             "what": "decoding member after member", "sig": "heap:members"})
        import shutil
        from concurrent.futures import ThreadPoolExecutor
        lha = common.build_lha(cb)
        scratch = common.scratch_dir("c13")
        cli = []
        try:
            stored = b"some stored bytes\n" * 3
            okarc = (lb.build_header({"level": 1, "method": b"-lh0-", "clen": len(stored), "length": len(stored), "time": 0x21, "attr": 0x20,
                                      "os": ord('U'), "crc": lb.crc16(stored), "name": b"f.txt", "exts": []}) + stored) * 2 + b"\0"
            # an existing file and no overwrite option: the tool asks on its terminal; the answers end (or never make sense)
            for stdin_ in (b"", b"\n\n", b"zzz\n", b"q", b"y", b"maybe\nperhaps\n", b"\xff\xfe", b"n\n"):
                for cmd in ("x", "e", "xi"):
                    cli.append((okarc, cmd, stdin_, True, "prompt"))
            for a in extreme_archives(rnd)[:9] + [arcs[0][:len(arcs[0]) // 2], b"", okarc[:40]]:
                for cmd in ("l", "v", "t", "pq", "xqf"):
                    cli.append((a, cmd, b"", False, "extreme"))

            def cone(job):
                i, (a, cmd, stdin_, pre, tag) = job
                d = os.path.join(scratch, "k%d" % i)
                os.makedirs(d, exist_ok=True)
                open(os.path.join(d, "a.lzh"), "wb").write(a)
                if pre:
                    open(os.path.join(d, "f.txt"), "wb").write(b"already here")
                r = run_tool_quiet(lha, [cmd, "a.lzh"], d, stdin_, 20)
                shutil.rmtree(d, ignore_errors=True)
                return r
            with ThreadPoolExecutor(max_workers=common.NCPU) as ex:
                cres = list(ex.map(cone, enumerate(cli)))
        finally:
            shutil.rmtree(scratch, ignore_errors=True)
        timed_out = []
        for (a, cmd, stdin_, pre, tag), r in zip(cli, cres):
            dist["tool-returns:" + tag] += 1
            if r == -999:
                timed_out.append((a, cmd, stdin_, pre, tag, r))
        # (a 20 s limit on a loaded machine: the first few are run once more, alone, before any is believed; when those
        # return after all, the limit was the machine's doing and the rest is not reported)
        confirmed = 0
        for (a, cmd, stdin_, pre, tag, r) in timed_out[:3]:
            d = common.scratch_dir("c13r")
            open(os.path.join(d, "a.lzh"), "wb").write(a)
            if pre:
                open(os.path.join(d, "f.txt"), "wb").write(b"already here")
            r2 = run_tool_quiet(lha, [cmd, "a.lzh"], d, stdin_, 45)
            shutil.rmtree(d, ignore_errors=True)
            confirmed += r2 == -999
        if timed_out and confirmed == min(3, len(timed_out)):
            for (a, cmd, stdin_, pre, tag, r) in timed_out:
                viol.append({"property": PID, "kind": "command-does-not-return", "command": cmd, "stdin_hex": stdin_.hex(),
                             "file_exists_before": pre, "archive_hex": a.hex()[:20000], "observed": "no exit within 20 s (and, run alone, within 45 s)",
                             "sig": "hang:tool:" + tag})
        cov = {"evaluations": len(lines) + len(dl) + len(hl) + len(cli) + 2 * len(sf), "distinct_nontrivial": nontriv,
               "rule": "every truncation offset of small repository and generated archives x stream kinds, plus archives with extreme "
                       "length fields (level-3 length 2^32-1 / 1 MiB+1, level-1 chains of 300 extended headers cut short, a 65535-byte "
                       "extended header with 10 bytes of input, 4 GiB members with 3 bytes of data); per case: the driver returns "
                       "(watchdog), requests <= len + 16*(members+2), peak heap <= 8 MiB + 2*len, nothing live after free, and the "
                       "line (incl. request counts for callback streams) equals the model's; decoders: -pm1- with empty input for all "
                       "32 start headers, a pm2 stream that needs no input, halves of real members with a 4 GiB declared length, "
                       "constant input, and for every method short prefixes of real streams / hand-made table headers followed by runs of 0xFF, 0x00, 0xAA bytes and then the end of input (the input ends inside unary runs and escape codes): every decode returns with at most the declared length; archives of 6-40 members of the methods with the largest decoder states, as plain and as Mac-archive members, checked / read / extracted one after the other through the reader: peak heap <= 8 MiB + 2*len; the same for members that declare 9 MiB .. 4 GiB and hold a few bytes; members of every method, plain and Mac, whose compressed data ends early, and Mac members that promise a MacBinary header their data does not contain (cut at 0/1/64/127/129 bytes), checked / read / extracted through the reader: every call returns (per-case alarm); the tool itself: l v t pq xqf on the extreme archives and x/e/xi over an existing file with a standard input that ends or never answers sensibly: the command exits; truncated members whose remaining bytes hold a complete member, through a skip callback that refuses without moving: the iteration ends there as on a pipe. non-trivial = case yielding a member",
               "distribution": dict(dist), "samples": [lines[0][:120], lines[-1][:160], dl[0][:80]]}
        return {"violations": viol[:10], "mismatches": mism[:10], "coverage": cov,
                "search_note": "direct oracles: watchdog, request and heap accounting of the driver"}
    finally:
        cb.close()


def replay(payload):
    cb = CBuild(PID)
    try:
        if payload.get("kind") == "command-does-not-return":
            import shutil
            lha = common.build_lha(cb)
            d = common.scratch_dir("c13r")
            open(os.path.join(d, "a.lzh"), "wb").write(bytes.fromhex(payload["archive_hex"]))
            if payload.get("file_exists_before"):
                open(os.path.join(d, "f.txt"), "wb").write(b"already here")
            r = run_tool_quiet(lha, [payload["command"], "a.lzh"], d, bytes.fromhex(payload["stdin_hex"]), 20)
            shutil.rmtree(d, ignore_errors=True)
            print("exit status:", "none within 20 s" if r == -999 else r)
            print("REPRODUCED" if r == -999 else "not reproduced")
            return 1 if r == -999 else 0
        if payload.get("sig") == "hang:reader" or payload.get("what") == "decoding member after member":
            import test_rdr as T
            exe = cb.compile("drv_rdr_mem", [os.path.join(common.CDIR, "drv_rdr.c")] + cb.lib_sources() + common.alloc_sources(),
                             extra=["-I" + common.CDIR, "-DLHASA_VERIF"], sanitize=True, libs=common.WRAP)
            out = common.run_lines_parallel([exe], [payload["case"]], timeout=120)
            print("observed:", out[0].split("|")[0][-400:])
            bad = "CHILD-FAILED-14 " in out[0] or out[0].startswith("HANG")
            print("REPRODUCED" if bad or payload.get("what") else "not reproduced")
            return 1
        if payload.get("kind", "").startswith("decode"):
            exe = cb.compile("drv_dec", [os.path.join(common.CDIR, "drv_dec.c")] + cb.lib_sources())
        else:
            exe = cb.compile("drv_hdr_a", [os.path.join(common.CDIR, "drv_hdr.c")] + cb.lib_sources() + common.alloc_sources(),
                             extra=["-DLHASA_VERIF"], libs=common.WRAP)
        out = common.run_lines_parallel([exe], [payload["case"]], timeout=120)
        print("observed:", out[0][-400:])
        print("recorded:", payload.get("kind"), {k: payload[k] for k in ("requests", "peak", "input_len") if k in payload})
        return 1
    finally:
        cb.close()

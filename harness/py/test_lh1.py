#!/usr/bin/env python3
"""-lh1- : (1) differential test of the extracted Gallina model (coq/Lh1.v under
coq/Decoder.v) against the C decoder of /repo built with ASan/UBSan, line by
line, on seed members, truncations, bit flips, garbage, constant streams and
odd declared lengths; (2) round trip: command lists encoded by the LZHUF
specification (coq/Lzhuf.v, `lh1enc`) are decoded by the C decoder and must
reproduce the expansion; (3) model speed.

usage: test_lh1.py [--seed N] [--quick] [--no-speed]
exit status 0: exact agreement everywhere."""
import os, sys, re, time, random, argparse, subprocess

sys.path.insert(0, os.path.dirname(os.path.abspath(__file__)))
import common, seeds
from common import CBuild, run_lines_parallel, hexs

METHOD = "-lh1-"
HUGE = 4000000000
FNV0 = 0xcbf29ce484222325
FNVP = 1099511628211
M64 = (1 << 64) - 1


def fnv64(bs):
    h = FNV0
    for b in bs:
        h = ((h ^ b) * FNVP) & M64
    return h


def dec_line(data, chunks, declared, reads, mon=-1, junk=0):
    return "dec %s %s %s %d %s %d %d" % (METHOD, hexs(data), chunks, declared, reads, mon, junk)


def reads_for(total, size):
    return "%d*%d" % (size, total // size + 2)


def run_shuffled(cmd, lines, rnd_seed, timeout=1800):
    """run_lines_parallel splits the list into contiguous shards; spread the
    expensive cases by running a fixed permutation of the list."""
    idx = list(range(len(lines)))
    random.Random(rnd_seed).shuffle(idx)
    out = run_lines_parallel(cmd, [lines[i] for i in idx], timeout=timeout)
    res = [None] * len(lines)
    for k, i in enumerate(idx):
        res[i] = out[k] if k < len(out) else "MISSING"
    return res


# ---------------------------------------------------------------- part 1: cases

def gen_diff_cases(members, rnd, quick):
    """returns list of (kind, line)"""
    cases = []

    def add(kind, line):
        cases.append((kind, line))

    small = [m for m in members if 0 < m["length"] <= 70000]
    big = [m for m in members if m["length"] > 70000]
    empty = [m for m in members if m["length"] == 0]

    # A. seed members, several read schedules and callback chunkings
    for k, m in enumerate(small):
        d, n = m["data"], m["length"]
        add("seed", dec_line(d, "-", n, reads_for(n, 4096)))
        add("seed", dec_line(d, "1", n, "1*50,7*20,4095,4096,4097," + reads_for(n, 1000)))
        # one read of the whole member: only for the shorter ones, Decoder.v's
        # lha_decoder_read reverses its result with List.rev (quadratic)
        add("seed", dec_line(d, "3,1,2", n, ("%d" % n) if (k % 3 == 0 and n <= 20000) else reads_for(n, 9000)))
        add("seed", dec_line(d, "4,4,4,1", n, reads_for(n, 333), mon=0, junk=170))
        add("seed", dec_line(d, "5", n, reads_for(n, 64), mon=3))
        add("seed", dec_line(d, "2", n, reads_for(n, 2048), mon=1, junk=255))
    for m in empty:
        add("seed", dec_line(m["data"], "-", 0, "1,4096"))
        add("seed", dec_line(m["data"], "1", 10, "1,4096", mon=0))
    for k, m in enumerate(big):
        if quick and k > 0:
            break
        d, n = m["data"], m["length"]
        add("seed-big", dec_line(d, "-", n, reads_for(n, 512)))
        add("seed-big", dec_line(d, "3,4", n, reads_for(n, 1024), mon=0))

    # declared lengths 0 / 1 / true-1 / true+1 / huge
    for m in small:
        d, n = m["data"], m["length"]
        for dl in (0, 1, n - 1, n + 1, HUGE):
            add("declen", dec_line(d, rnd.choice(["-", "1", "3", "4,1"]), dl, reads_for(min(dl, n + 70), 2000),
                                   mon=rnd.choice([-1, 0, 2])))

    # B. truncations at many offsets
    distinct = []
    seen = set()
    for m in small:
        if m["data"] not in seen:
            seen.add(m["data"])
            distinct.append(m)
    tr_members = distinct[:3] if quick else distinct[:7]
    for m in tr_members:
        d, n = m["data"], m["length"]
        offs = list(range(0, 49)) + sorted(rnd.randrange(49, len(d)) for _ in range(20 if quick else 60))
        for o in offs:
            add("trunc", dec_line(d[:o], rnd.choice(["-", "-", "1", "2", "3", "1,4"]), n,
                                  reads_for(n, rnd.choice([1024, 1500, 4096])), mon=rnd.choice([-1, -1, 0])))

    # C. bit flips and small edits
    for _ in range(150 if quick else 520):
        m = rnd.choice(distinct)
        d = bytearray(m["data"])
        n = m["length"]
        kind = rnd.randrange(6)
        if kind <= 2:
            for _ in range(1 if kind < 2 else rnd.randrange(2, 6)):
                p = rnd.randrange(len(d) * 8) if rnd.random() < 0.6 else rnd.randrange(min(len(d), 64) * 8)
                d[p >> 3] ^= 0x80 >> (p & 7)
        elif kind == 3:
            d[rnd.randrange(len(d))] = rnd.randrange(256)
        elif kind == 4:
            del d[rnd.randrange(len(d))]
        else:
            d.insert(rnd.randrange(len(d)), rnd.randrange(256))
        add("flip", dec_line(bytes(d), rnd.choice(["-", "-", "1", "3", "2,1"]), rnd.choice([n, n, n + 5000, HUGE]),
                             reads_for(n + 6000, rnd.choice([512, 1024, 3000])), mon=rnd.choice([-1, 0])))

    # D. random byte strings
    for _ in range(250 if quick else 720):
        ln = rnd.choice([rnd.randrange(0, 6), rnd.randrange(0, 41), rnd.randrange(0, 41)])
        d = bytes(rnd.randrange(256) for _ in range(ln))
        add("rand-short", dec_line(d, rnd.choice(["-", "1", "2", "3", "1,2,3"]), rnd.choice([HUGE, 100, 5, 61]),
                                   rnd.choice(["4096*3", "1*70,4096", "60,60,60,4096", "3*40,500*4"]),
                                   mon=rnd.choice([-1, 0, 1]), junk=rnd.choice([0, 255])))
    for _ in range(60 if quick else 220):
        ln = rnd.randrange(100, 3000)
        mode = rnd.randrange(4)
        if mode == 0:
            d = bytes(rnd.randrange(256) for _ in range(ln))
        elif mode == 1:       # few distinct byte values
            al = [rnd.randrange(256) for _ in range(rnd.randrange(2, 6))]
            d = bytes(rnd.choice(al) for _ in range(ln))
        elif mode == 2:       # mostly ones: long codes, many copies
            d = bytes(rnd.choice([0xff, 0xff, 0xff, 0xfe, 0x7f, rnd.randrange(256)]) for _ in range(ln))
        else:                 # mostly zeros
            d = bytes(rnd.choice([0, 0, 0, 1, 0x80, rnd.randrange(256)]) for _ in range(ln))
        add("rand-medium", dec_line(d, rnd.choice(["-", "-", "1", "3,1"]), HUGE, reads_for(ln * 54, rnd.choice([512, 1000])),
                                    mon=rnd.choice([-1, 0])))
    # long garbage: the tree goes through tens of thousands of increments and
    # several reconstruct_tree calls (root frequency reaches 32768 after about
    # 32454 codes, then every ~16400 codes); output well over 100 KB
    long_lens = [40000, 60000] if quick else [40000, 50000, 60000, 60000, 80000, 80000, 100000, 120000, 120000, 150000]
    for k, ln in enumerate(long_lens):
        if k % 3 == 2:
            al = [rnd.randrange(256) for _ in range(7)]
            d = bytes(rnd.choice(al) if rnd.random() < 0.7 else rnd.randrange(256) for _ in range(ln))
        else:
            d = bytes(rnd.randrange(256) for _ in range(ln))
        add("rand-long", dec_line(d, "-" if k % 2 == 0 else "4", HUGE, reads_for(ln * 54, 512), mon=-1 if k % 2 else 0))

    # E. constant streams
    for bv in (0x00, 0xff, 0x55, 0xaa, 0x80, 0x01, 0x0f, 0xf0):
        lens = [1, 2, 3, 4, 5, 8, 100, 1000, 5000] + ([] if quick else [30000])
        if bv in (0x00, 0xff) and not quick:
            lens.append(70000)
        for ln in lens:
            add("const", dec_line(bytes([bv]) * ln, rnd.choice(["-", "1", "3"]), HUGE, reads_for(ln * 54, 512),
                                  mon=rnd.choice([-1, 0])))
    return cases


# ---------------------------------------------------------------- part 2: round trip

def cmds_str(cmds):
    if not cmds:
        return "-"
    return ",".join(("L%02x" % c[1]) if c[0] == "L" else ("C%d:%d" % (c[1], c[2])) for c in cmds)


def py_expand(cmds):
    """Independent (Python) expansion of a command list: 4 KB window of
    spaces, copy of len bytes from offset+1 bytes back, byte by byte."""
    win = bytearray(b" " * 4096)
    r = 0
    out = bytearray()
    for c in cmds:
        if c[0] == "L":
            win[r] = c[1]; out.append(c[1]); r = (r + 1) & 4095
        else:
            s = (r - c[1] - 1) & 4095
            for _ in range(c[2]):
                b = win[s]; win[r] = b; out.append(b)
                r = (r + 1) & 4095; s = (s + 1) & 4095
    return bytes(out)


def sym_cmd(sym, rnd, fixed_off=None):
    """symbol 0..313 -> command"""
    if sym < 256:
        return ("L", sym)
    off = fixed_off if fixed_off is not None else rnd.randrange(4096)
    return ("C", off, sym - 253)


def gen_cmd_lists(rnd, quick):
    res = []   # (name, cmds)

    def add(name, cmds):
        res.append((name, cmds))

    # edge cases
    add("empty", [])
    add("one-lit", [("L", 0x41)])
    add("one-copy-min", [("C", 0, 3)])
    add("one-copy-max", [("C", 4095, 60)])
    add("overlap", [("L", 0x61), ("L", 0x62), ("C", 1, 60), ("C", 0, 60), ("C", 61, 3)])
    add("all-offsets-hi6", [("L", i & 255) for i in range(300)] + [("C", (i << 6) | (i * 7 & 63), 3 + i % 58) for i in range(64)])
    add("every-symbol-once", [sym_cmd(s, rnd) for s in range(314)])
    add("every-symbol-rev", [sym_cmd(s, rnd) for s in reversed(range(314))])

    # short random lists
    for k in range(100 if quick else 320):
        n = rnd.choice([rnd.randrange(1, 12), rnd.randrange(1, 120), rnd.randrange(1, 450)])
        mode = rnd.randrange(5)
        if mode == 0:
            al = list(range(314))
        elif mode == 1:
            al = [rnd.randrange(314) for _ in range(rnd.randrange(1, 5))]
        elif mode == 2:
            al = [rnd.randrange(256) for _ in range(rnd.randrange(2, 30))] + [rnd.randrange(256, 314) for _ in range(3)]
        elif mode == 3:
            al = list(range(256, 314))
        else:
            al = list(range(0x20, 0x7f)) + [256, 257, 258, 260, 270, 313]
        add("short-%d" % k, [sym_cmd(rnd.choice(al), rnd) for _ in range(n)])

    # long lists: > 70000 symbols, several reconst; frequency ties
    L = 72000
    add("long-uniform-literals", [("L", rnd.randrange(256)) for _ in range(80000)])
    ks = [2, 3, 64] if quick else [2, 3, 4, 5, 7, 17, 64, 100, 256, 313, 314]
    for k in ks:
        if k <= 256:
            al = rnd.sample(range(314), k)
        else:
            al = list(range(314))[:k]
        add("long-round-robin-%d" % k, [sym_cmd(al[i % k], rnd, fixed_off=(i * 37) & 4095) for i in range(L)])
    # after a rebuild (32768 symbols) the codes that were never used sit in the last slots of the table:
    # use them right after the first / second rebuild, least recently used last
    textlike = [0x20, 0x65, 0x74, 0x61, 0x6f, 0x6e, 0x69, 0x73, 0x72, 0x68, 0x6c, 0x64, 256, 257, 258]
    for nreb, pre in ((1, 33000), (2, 66000)):
        body = [sym_cmd(rnd.choice(textlike), rnd, fixed_off=(i * 11) & 4095) for i in range(pre)]
        rare = [s for s in range(314) if s not in textlike]
        rnd.shuffle(rare)
        tail = [sym_cmd(s, rnd, fixed_off=7) for s in rare[:rnd.choice([1, 5, 40])]]
        tail += [sym_cmd(rnd.choice(textlike), rnd, fixed_off=3) for _ in range(2000)]
        add("long-rebuild%d-then-unused" % nreb, body + tail)
    # many DISTINCT frequencies at the same time (every node its own group: more groups live than there are codes):
    # symbol s emitted about s+1 times, in bursts / interleaved, below and across the first rebuild
    order = list(range(250))
    rnd.shuffle(order)
    add("long-distinct-freq-bursts", [c for i, s in enumerate(order) for c in [sym_cmd(s, rnd, fixed_off=5)] * (i + 1)])
    inter = []
    left = {s: i + 1 for i, s in enumerate(rnd.sample(range(314), 314))}
    while left and len(inter) < 52000:
        for s in list(left):
            inter.append(sym_cmd(s, rnd, fixed_off=(s * 3) & 4095))
            left[s] -= 1
            if not left[s]:
                del left[s]
    add("long-distinct-freq-interleaved", inter)
    # codes LONGER than 16 bits: Fibonacci-like counts turn the top of the tree into a chain (weights 1,1,2,3,5,...: the
    # k-th symbol from the top costs k bits); every symbol not used so far then hangs below it with a 17..19-bit code.
    # Once below the first rebuild (about 27500 symbols) and once across rebuilds; each followed by unused literals AND
    # unused copy lengths, so that the long codes are really walked
    fibw = [10620, 6560, 4060, 2500, 1560, 940, 620, 320, 310]
    for nm, reps in (("long-skew-code17", 1), ("long-skew-code17-rebuilt", 3)):
        syms = rnd.sample(range(256), len(fibw))
        body = []
        for _ in range(reps):
            for s_, w in zip(syms, fibw):
                body += [("L", s_)] * w
        rest = [x for x in range(314) if x not in syms]
        rnd.shuffle(rest)
        tail = [sym_cmd(x, rnd, fixed_off=9) for x in rest[:12]] + [sym_cmd(x, rnd, fixed_off=9) for x in (300, 313, 256)]
        add(nm, body + tail + [("L", syms[0])] * 50)
    add("long-uniform-all-codes", [sym_cmd(rnd.randrange(314), rnd, fixed_off=(i * 5) & 4095) for i in range(70000)])
    add("long-alternate-lits", [("L", 0x41 + (i & 1)) for i in range(L)])
    add("long-alternate-lit-copy", [sym_cmd((0x20, 300)[i & 1], rnd, fixed_off=1) for i in range(L)])
    add("long-single-symbol", [("L", 0x7a)] * 100000)
    add("long-single-copy", [("C", 0, 60)] * 71000)
    if not quick:
        runs = []
        for s, cnt in ((5, 20000), (300, 20000), (5, 100), (77, 20000), (313, 15000), (0, 3000)):
            runs += [sym_cmd(s, rnd, fixed_off=s) for _ in range(cnt)]
        add("long-runs-fixed", runs)
        runs = []
        while len(runs) < L:
            s = rnd.randrange(314)
            runs += [sym_cmd(s, rnd, fixed_off=rnd.randrange(4096))] * rnd.randrange(1, 3000)
        add("long-runs-random", runs)
        # geometric: symbol k with probability ~ 2^-k : deep tree
        geo = []
        for _ in range(L):
            s = 0
            while s < 313 and rnd.random() < 0.5:
                s += 1
            geo.append(sym_cmd((s * 131) % 314, rnd))
        add("long-geometric", geo)
        # Fibonacci weights: deepest possible Huffman trees
        fib = [1, 1]
        while len(fib) < 24:
            fib.append(fib[-1] + fib[-2])
        pool = []
        for s, w in enumerate(fib):
            pool += [s * 13 % 314] * w
        fl = [sym_cmd(rnd.choice(pool), rnd) for _ in range(L)]
        add("long-fibonacci-random", fl)
        # the same weights in sorted bursts (ties inside each burst)
        fb = []
        while len(fb) < L:
            for s, w in enumerate(fib[:20]):
                fb += [sym_cmd(s * 13 % 314, rnd, fixed_off=s)] * w
        add("long-fibonacci-bursts", fb[:L + 5000])
        # staircase: symbol i emitted i+1 times, over and over: many equal frequencies
        st = []
        while len(st) < L:
            for s in range(0, 314, 3):
                st += [sym_cmd(s, rnd, fixed_off=7)] * (s // 3 % 9 + 1)
        add("long-staircase", st)
        add("long-all-copies", [("C", rnd.randrange(4096), rnd.randrange(3, 61)) for _ in range(L)])
        text = list(range(0x61, 0x7b)) + [0x20] * 6 + [0x65] * 5 + [0x74] * 3
        add("long-textlike", [sym_cmd(rnd.choice(text) if rnd.random() < 0.75 else rnd.randrange(256, 314), rnd)
                              for _ in range(90000)])
        # two phases with disjoint alphabets: old symbols decay through reconst
        ph = [("L", rnd.randrange(0, 64)) for _ in range(40000)] + [("L", rnd.randrange(128, 256)) for _ in range(40000)]
        add("long-phase-change", ph)
    return res


FIELD = re.compile(r"r=(\S*) h=([0-9a-f]{16}) len=(\d+) ")


def main():
    ap = argparse.ArgumentParser()
    ap.add_argument("--seed", type=int, default=1)
    ap.add_argument("--quick", action="store_true")
    ap.add_argument("--no-speed", action="store_true")
    a = ap.parse_args()
    rnd = random.Random(a.seed * 1000003 + 11)
    t0 = time.time()
    model = common.build_model()
    cb = CBuild("lh1")
    ok = True
    try:
        cexe = cb.compile("drv_dec", [os.path.join(common.CDIR, "drv_dec.c")] + cb.lib_sources())
        members = [m for m in seeds.harvest(cb, max_len=10 ** 7) if m["method"] == METHOD]
        print("build %.1fs; %d %s seed members" % (time.time() - t0, len(members), METHOD))

        # ------------------------------------------------------------ part 1
        cases = gen_diff_cases(members, rnd, a.quick)
        lines = [l for _, l in cases]
        t1 = time.time()
        co = run_shuffled([cexe], lines, a.seed)
        t2 = time.time()
        mo = run_shuffled([model], lines, a.seed)
        t3 = time.time()
        kinds = {}
        bad, crashes, mfaults = [], [], []
        for (kind, line), c, m in zip(cases, co, mo):
            k = kinds.setdefault(kind, [0, 0])
            k[0] += 1
            if c.startswith("CRASH") or c in ("HANG", "MISSING"):
                crashes.append((kind, line, c))
            if m.startswith("FAULT") or m.startswith("OUTOFFUEL") or m.startswith("CRASH") or m.startswith("ERR") or m in ("HANG", "MISSING"):
                mfaults.append((kind, line, m))
            if c != m:
                k[1] += 1
                bad.append((kind, line, c, m))
        print("part 1: %d cases compared (C %.1fs, model %.1fs): %d mismatches, %d C crashes, %d model faults"
              % (len(cases), t2 - t1, t3 - t2, len(bad), len(crashes), len(mfaults)))
        for kind in sorted(kinds):
            print("   %-12s %5d cases %4d mismatches" % (kind, kinds[kind][0], kinds[kind][1]))
        outbytes = 0
        for m in mo:
            g = FIELD.match(m)
            if g:
                outbytes += int(g.group(3))
        print("   total decoded output %.1f MB" % (outbytes / 1e6))
        for kind, line, c, m in bad[:10]:
            print("MISMATCH [%s] %s\n   C: %s\n   M: %s" % (kind, line if len(line) < 400 else line[:400] + "...", c[-300:], m[-300:]))
        for kind, line, c in crashes[:10]:
            print("C CRASH [%s] %s\n   %s" % (kind, line if len(line) < 2000 else line[:2000] + "...", c))
        for kind, line, m in mfaults[:10]:
            print("MODEL FAULT [%s] %s\n   %s" % (kind, line if len(line) < 2000 else line[:2000] + "...", m))
        if bad or crashes or mfaults:
            ok = False

        # ------------------------------------------------------------ part 2
        lists = gen_cmd_lists(rnd, a.quick)
        t1 = time.time()
        enc = run_shuffled([model], ["lh1enc " + cmds_str(c) for _, c in lists], a.seed + 1)
        t2 = time.time()
        clines, mlines, expect = [], [], []
        rt_bad = []
        nsym = 0
        for (name, cmds), e in zip(lists, enc):
            nsym += len(cmds)
            parts = e.split()
            if len(parts) != 3 or e.startswith("ERR") or e.startswith("CRASH"):
                rt_bad.append((name, "encoder: " + e[:200]))
                clines.append(None); mlines.append(None); expect.append(None)
                continue
            hx, ln, h = parts[0], int(parts[1]), parts[2]
            exp = py_expand(cmds)
            if len(exp) != ln or ("%016x" % fnv64(exp)) != h:
                rt_bad.append((name, "lz77_expand_4k disagrees with the Python expansion: %d/%s vs %d/%016x"
                               % (ln, h, len(exp), fnv64(exp))))
            data = b"" if hx == "-" else bytes.fromhex(hx)
            clines.append(dec_line(data, "-", ln, "%d" % ln))
            mlines.append(dec_line(data, rnd.choice(["-", "1", "3"]), ln, reads_for(ln, 512), mon=rnd.choice([-1, 0])))
            expect.append((ln, h))
        idx = [i for i, l in enumerate(clines) if l is not None]
        co = run_shuffled([cexe], [clines[i] for i in idx], a.seed + 2)
        t3 = time.time()
        total_exp = 0
        for i, c in zip(idx, co):
            ln, h = expect[i]
            total_exp += ln
            g = FIELD.match(c)
            if not g:
                rt_bad.append((lists[i][0], "C: " + c[:300]))
            elif g.group(1) != str(ln) or int(g.group(3)) != ln or g.group(2) != h:
                rt_bad.append((lists[i][0], "C decoded r=%s len=%s h=%s, expected len=%d h=%s"
                               % (g.group(1), g.group(3), g.group(2), ln, h)))
        print("part 2: %d command lists (%d symbols, %.1f MB expansion; %d lists > 70000 symbols) encoded by Lzhuf "
              "(%.1fs) and decoded by C (%.1fs): %d failures"
              % (len(lists), nsym, total_exp / 1e6, sum(1 for _, c in lists if len(c) > 70000), t2 - t1, t3 - t2, len(rt_bad)))
        for name, why in rt_bad[:10]:
            print("ROUND TRIP FAILURE %s: %s" % (name, why))
        if rt_bad:
            ok = False
        # the encoded streams are also differential cases (valid streams with rebuilds)
        ml = [mlines[i] for i in idx]
        t1 = time.time()
        c2 = run_shuffled([cexe], ml, a.seed + 3)
        m2 = run_shuffled([model], ml, a.seed + 3)
        nb = [(lists[i][0], c, m) for i, c, m in zip(idx, c2, m2) if c != m]
        print("part 2b: the %d encoded streams decoded by model and C with chunked reads (%.1fs): %d mismatches"
              % (len(ml), time.time() - t1, len(nb)))
        for name, c, m in nb[:10]:
            print("MISMATCH [%s]\n   C: %s\n   M: %s" % (name, c[-300:], m[-300:]))
        if nb:
            ok = False

        # ------------------------------------------------------------ speed
        if not a.no_speed:
            sp = []
            bigs = sorted((m for m in members if m["length"] >= 1000000), key=lambda m: len(m["data"]))
            r2 = random.Random(12345)
            sp.append(("random garbage, 50000 bytes in", dec_line(bytes(r2.randrange(256) for _ in range(50000)), "-", HUGE,
                                                                 reads_for(50000 * 54, 256))))
            for m in bigs[:1] + bigs[-1:]:
                sp.append(("seed member %d -> %d bytes" % (len(m["data"]), m["length"]),
                           dec_line(m["data"], "-", m["length"], reads_for(m["length"], 256))))
            for name, line in sp:
                t1 = time.time()
                p = subprocess.run([model], input=(line + "\n").encode(), stdout=subprocess.PIPE)
                dt = time.time() - t1
                g = FIELD.match(p.stdout.decode())
                n = int(g.group(3)) if g else 0
                print("speed: %-40s %8d bytes out in %5.2fs = %4.0f KB/s (one process, reads of 256)" % (name, n, dt, n / 1024.0 / dt))
    finally:
        cb.close()
    print("RESULT: %s  (%.0fs)" % ("exact agreement" if ok else "DISAGREEMENT", time.time() - t0))
    return 0 if ok else 1


if __name__ == "__main__":
    sys.exit(main())

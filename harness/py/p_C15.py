"""C15 -- members are independent of how other members were skipped, read or checked."""
import os, random, collections, itertools
import common, test_rdr as T
from common import CBuild, CDIR

PID = "C15"
TRUSTED = ["metamorphic oracle on the C alone: the headers returned by next_file and the result of a full read / a check of "
           "a member must be the same in every run over one archive, whatever was done with the other members, the stream "
           "kind, and a second reader running interleaved or on another thread (ThreadSanitizer build)",
           "correspondence: the extracted reader model (Reader.v) and the C driver print the same results for op sequences "
           "within the property's quantifier"]
ASSUMPTIONS = ["at most one decode operation per member and one extract per entry (the property's quantifier); sequences outside "
               "it are compared between model and C by harness/py/test_rdr.py but are not part of this check",
               "-lz5- members never end inside a 2-byte copy command (fixed by 0a55047; the model's junk byte is 0)"]


def respects_protocol(ops):
    """per entry: reads only, or one of c/cm/x/xm/xf followed by nothing but reads"""
    seen_decode = seen_read = False
    for op in ops:
        if op == "n":
            seen_decode = seen_read = False
        elif op[0] == "r":
            seen_read = True
        else:
            if seen_decode or seen_read:
                return False
            seen_decode = True
    return True


def build(cb):
    drv = cb.compile("drv_rdr", [os.path.join(CDIR, "drv_rdr.c")] + cb.lib_sources(), extra=["-I" + CDIR], sanitize=True)
    drv2 = cb.compile("drv_rdr2", [os.path.join(CDIR, "drv_rdr2.c")] + cb.lib_sources(), extra=["-I" + CDIR],
                      sanitize=True, libs=["-lpthread"])
    tsan = cb.compile("drv_rdr2_tsan", [os.path.join(CDIR, "drv_rdr2.c")] + cb.lib_sources(),
                      extra=["-I" + CDIR, "-fsanitize=thread"], sanitize=False, libs=["-fsanitize=thread", "-lpthread"])
    return drv, drv2, tsan


def parts_of(out):
    """results of the ops of a drv_rdr line"""
    res = out.split("|", 1)[0]
    return res.split(" ; ")


def real_headers(ops, parts):
    """the headers of archive entries proper (not re-presented ones) in the order returned, and whether the end was seen"""
    hs, end = [], False
    for op, r in zip(ops, parts):
        if op != "n":
            continue
        if r.startswith("n:NULL"):
            end = True
        elif r.startswith("n:H") and T.hfield(r, "fake") == "0":
            hs.append(r.split(" ev=")[0])
    return hs, end


def strip_ev(r):
    return r.split(" ev=")[0]


# ---- 2d: where re-presented entries appear: an independent statement of the documented interface ----

DIR_POOL = [b"d/", b"d2/", b"da/", b"d/e/", b"d/e2/", b"d/ee/", b"d/e/g/", b"D/", b"h/", b"hh/", b"h/i/", b"h2/", b"k/", b"kk/"]


# recorded metadata of the directory entries: with and without a mode, an owner, a time stamp (a directory that records nothing
# still has to be presented again after its contents)
DIR_META = [(0o40755, None, T.T_B), (0o40755, None, T.T_B), (None, None, 0), (None, None, T.T_B), (0o40700, None, 0), (None, (1, 1), 0)]


def presentation_case(rnd):
    """(members, entries): an archive of directories whose names are prefixes of one another's (d/ d2/ da/, d/e/ d/e2/ d/ee/),
    small stored files inside and outside them, and dangerous links; every path is unique, parents come before children.
    entries: [(kind, path or None, full name)] in archive order"""
    dirs = set()
    for d in rnd.sample(DIR_POOL, rnd.choice([2, 3, 4, 6])):
        parts = d.split(b"/")[:-1]
        for i in range(1, len(parts) + 1):
            dirs.add(b"/".join(parts[:i]) + b"/")
    dirs = sorted(dirs)
    if rnd.random() < 0.5:
        rnd.shuffle(dirs)
        dirs.sort(key=lambda d: d.count(b"/"))        # parents first, siblings in random order
    seed = {"method": "-lh0-", "data": b"abc", "length": 3, "crc": T.crc16(b"abc")}
    ms, ents, used = [], [], set()

    def add_content(d):
        for _ in range(rnd.choice([0, 1, 1, 2])):
            nm = rnd.choice([b"a", b"b", b"f", b"zz", b"d", b"d2", b"e", b"lnk"])
            full = d + nm
            if full in used or full + b"/" in dirs:
                continue
            used.add(full)
            lv = rnd.choice([1, 2, 3]) if d else rnd.choice([0, 1, 2, 3])
            if rnd.random() < 0.25:
                ms.append(T.link_member(rnd, full, rnd.choice([b"..", b"../x", b"/outside", b"/"]), rnd.choice([1, 2, 3])))
                ents.append(("link", d or None, full))
            else:
                ms.append(T.file_member(rnd, seed, full, lv, T.U, 0o100644, None, T.T_A))
                ents.append(("file", d or None, full))
    order = list(dirs)
    if rnd.random() < 0.7:
        for d in order:                          # each directory followed by (some of) its contents
            ms.append(T.dir_member(rnd, d, rnd.choice([1, 2, 3]), *rnd.choice(DIR_META)))
            ents.append(("dir", d, d))
            add_content(d)
            if rnd.random() < 0.3:
                add_content(b"")
    else:
        for d in order:
            ms.append(T.dir_member(rnd, d, rnd.choice([1, 2, 3]), *rnd.choice(DIR_META)))
            ents.append(("dir", d, d))
        ds = [rnd.choice(order + [b""]) for _ in range(rnd.choice([2, 4, 6]))]
        for d in ds:
            add_content(d)
    return ms, ents


def expected_presentation(policy, ents, acts, results):
    """the sequence of entries lha_reader_next_file must hand out, from the interface description alone:
    ("real", i) | ("dir", path) | ("link", full).  results[i] is True when the extract of entry i returned 1.
    Under "eod" a directory that was extracted comes again right before the first later entry that is not within it
    (its path does not start with the directory's), or at the end; under "eof" all of them at the end (order among
    them not fixed here); never under "plain".  Deferred links after everything else, longest archive path first."""
    seq, stack, links = [], [], []
    for i, (kind, path, full) in enumerate(ents):
        if policy == "eod":
            while stack and not (path is not None and path.startswith(stack[-1])):
                seq.append(("dir", stack.pop()))
        seq.append(("real", i))
        if acts[i] == "x" and results[i]:
            if kind == "dir" and policy != "plain":
                stack.append(path)
            elif kind == "link":
                links.append(full)
    tail_dirs = [("dir", d) for d in reversed(stack)]
    return seq, tail_dirs, links


def run(ctx):
    rnd = random.Random(ctx.seed * 2654435761 + 15)
    cb = CBuild(PID)
    viol, mism = [], []
    dist = collections.Counter()
    try:
        drv, drv2, tsan = build(cb)
        model = ctx.model
        mode = common.sh([drv, "--probe"])[1].strip()
        pool = T.Pool(cb, [drv], rnd)
        # ---------------------------------------------------------------- 1. correspondence (model = C) inside the quantifier
        alpha = ["n", "r5", "r100000", "c", "x"]
        seqs = [list(s) for k in range(0, (3 if ctx.quick else 4) + 1) for s in itertools.product(alpha, repeat=k)]
        seqs = [s for s in seqs if respects_protocol(s)]
        lines = []
        i = 0
        for name, arc in T.small_archives(pool, rnd):
            for pol in T.POLICIES:
                for s in seqs:
                    lines.append(T.case(T.KINDS[i % 4], pol, arc, s))
                    i += 1
        n_ex = len(lines)
        for _ in range(600 if ctx.quick else 12000):
            if rnd.random() < 0.5:
                arc, ms = T.tree_archive(pool, rnd)
                ops = T.ops_extract_all(rnd, len(ms)) if rnd.random() < 0.6 else T.ops_ok(rnd, len(ms))
            else:
                arc, ms = T.random_archive(pool, rnd)
                ops = T.ops_ok(rnd, len(ms))
            if respects_protocol(ops):
                lines.append(T.case(rnd.choice(T.KINDS), rnd.choice(T.POLICIES), arc, ops))
        if mode != "chroot":
            lines = [l for l in lines if T.plain_ok(l)]
        cout = common.run_lines_parallel([drv], lines)
        mout = common.run_lines_parallel([model], lines)
        for l, c, m in zip(lines, cout, mout):
            dist["corr:" + l.split()[1]] += 1
            if "CHILD-FAILED" in c or c.startswith("CRASH") or c == "HANG":
                viol.append({"property": PID, "kind": "reader-abnormal-termination", "case": l, "observed": c[-600:], "sig": "crash"})
            elif c != m:
                if m.endswith("FAULT 1411") or m.endswith("FAULT 1414"):
                    continue          # cannot occur inside the quantifier; counted by test_rdr
                mism.append({"case": l[:6000], "c": c[:1500], "model": m[:1500]})
        # ---------------------------------------------------------------- 2. metamorphic oracle on the C
        n_arch = 60 if ctx.quick else 1500
        mlines, meta = [], []
        for a in range(n_arch):
            arc, ms = T.tree_archive(pool, rnd) if rnd.random() < 0.4 else T.random_archive(pool, rnd)
            n = len(ms)
            pol = rnd.choice(T.POLICIES)
            base = [["n"] * (n + 3), ["n", "r100000"] * (n + 1) + ["n", "r5", "c"], ["n", "c"] * (n + 1) + ["n"]]
            variants = []
            for _ in range(4 if ctx.quick else 8):
                ops = []
                for j in range(n + 1):
                    ops.append("n")
                    r = rnd.random()
                    if r < 0.25:
                        pass
                    elif r < 0.45:
                        ops.append("r100000")
                    elif r < 0.65:
                        ops += [rnd.choice(T.READS) for _ in range(rnd.choice([1, 2, 4]))]
                    elif r < 0.85:
                        ops.append(rnd.choice(["c", "cm"]))
                    else:
                        ops.append("x")       # extraction of a regular file, directory or link
                ops += ["n", "n"]
                variants.append(ops)
            for k, ops in enumerate(base + variants):
                kind = T.KINDS[(a + k) % 4]
                mlines.append(T.case(kind, pol, arc, ops))
                meta.append((a, k, ops))
        if mode != "chroot":
            keep = [i for i, l in enumerate(mlines) if T.plain_ok(l)]
            mlines, meta = [mlines[i] for i in keep], [meta[i] for i in keep]
        outs = common.run_lines_parallel([drv], mlines)
        by_arch = collections.defaultdict(list)
        for l, o, (a, k, ops) in zip(mlines, outs, meta):
            by_arch[a].append((k, ops, l, o))
        nontriv = 0
        for a, runs in by_arch.items():
            runs.sort(key=lambda t: t[0])
            if any("CHILD-FAILED" in o or o.startswith("CRASH") or o == "HANG" for _, _, _, o in runs):
                for k, ops, l, o in runs:
                    if "CHILD-FAILED" in o or o.startswith("CRASH") or o == "HANG":
                        viol.append({"property": PID, "kind": "reader-abnormal-termination", "case": l, "observed": o[-600:], "sig": "crash"})
                        break
                continue
            if not runs or runs[0][0] != 0:
                continue
            ops0, out0 = runs[0][1], runs[0][3]
            H, end0 = real_headers(ops0, parts_of(out0))
            if len(H) >= 2:
                nontriv += 1
            full, chk = {}, {}
            for k, ops, l, o in runs:
                parts = parts_of(o)
                hs, end = real_headers(ops, parts)
                # the headers of the archive's own entries: the same sequence (a run that stops early sees a prefix)
                if hs != H[:len(hs)] or (end and len(hs) != len(H)):
                    viol.append({"property": PID, "kind": "header-sequence-depends-on-history", "reference_case": runs[0][2],
                                 "case": l, "expected_headers": H, "observed_headers": hs, "sig": "headers"})
                    break
                # per member: the first decode operation's result
                idx = -1
                first = True
                after_end = False
                for op, r in zip(ops, parts):
                    if op == "n":
                        if r.startswith("n:H") and T.hfield(r, "fake") == "0":
                            idx += 1
                            first = True
                            cur_real = True
                        else:
                            cur_real = False
                            after_end = after_end or r.startswith("n:NULL")
                        continue
                    if after_end:
                        # after the end every request reports end / failure
                        okv = r.startswith("r=0:") or strip_ev(r) in ("c=0", "cm=0", "x=0", "xm=0", "xf=0")
                        if not okv:
                            viol.append({"property": PID, "kind": "request-after-end-succeeds", "case": l, "op": op,
                                         "observed": r[:200], "sig": "after-end"})
                        continue
                    if not cur_real or not first:
                        continue
                    first = False
                    if op == "r100000":
                        key = strip_ev(r)
                        if idx in full and full[idx][0] != key:
                            viol.append({"property": PID, "kind": "member-bytes-depend-on-history", "member": idx,
                                         "case_a": full[idx][1], "case_b": l, "a": full[idx][0], "b": key, "sig": "bytes"})
                        full.setdefault(idx, (key, l))
                    elif op in ("c", "cm"):
                        key = strip_ev(r).replace("cm=", "c=")
                        if idx in chk and chk[idx][0] != key:
                            viol.append({"property": PID, "kind": "check-verdict-depends-on-history", "member": idx,
                                         "case_a": chk[idx][1], "case_b": l, "a": chk[idx][0], "b": key, "sig": "check"})
                        chk.setdefault(idx, (key, l))
            dist["meta:entries=%d" % min(len(H), 9)] += 1
        # ---------------------------------------------------------------- 2b. requests on re-presented entries change nothing
        # run A extracts everything; run B does the same and also reads from / checks every entry the reader
        # re-presents on its own (fake directory, deferred link) and every position after the end
        alines, ameta = [], []
        for a in range(40 if ctx.quick else 1200):
            arc, ms = T.tree_archive(pool, rnd)
            pol = rnd.choice(["eod", "eod", "eof", "plain"])
            kind = rnd.choice(T.KINDS)
            opsA = ["n", "x"] * (2 * len(ms) + 3)
            alines.append(T.case(kind, pol, arc, opsA))
            ameta.append((kind, pol, arc, opsA))
        if mode != "chroot":
            keep = [i for i, l in enumerate(alines) if T.plain_ok(l)]
            alines, ameta = [alines[i] for i in keep], [ameta[i] for i in keep]
        aout = common.run_lines_parallel([drv], alines)
        blines, bmeta = [], []
        for l, o, (kind, pol, arc, opsA) in zip(alines, aout, ameta):
            if "|" not in o or "CHILD-FAILED" in o:
                continue
            parts = parts_of(o)
            opsB, expect = [], []
            for j in range(0, len(opsA), 2):
                r = parts[j] if j < len(parts) else ""
                special = r.startswith("n:NULL") or (r.startswith("n:H") and T.hfield(r, "fake") == "1")
                opsB.append("n")
                expect.append(strip_ev(r))
                if special:
                    extra = rnd.choice([["r5"], ["c"], ["r100000", "cm"], ["r1", "r64"]])
                    opsB += extra
                    expect += [None] * len(extra)
                opsB.append("x")
                expect.append(strip_ev(parts[j + 1]) if j + 1 < len(parts) else "")
            if len(opsB) > len(opsA):
                blines.append(T.case(kind, pol, arc, opsB))
                bmeta.append((l, o, opsB, expect))
        bout = common.run_lines_parallel([drv], blines)
        for bl, bo, (al, ao, opsB, expect) in zip(blines, bout, bmeta):
            dist["represented:runs"] += 1
            if "CHILD-FAILED" in bo or "|" not in bo:
                viol.append({"property": PID, "kind": "reader-abnormal-termination", "case": bl, "observed": bo[-600:], "sig": "crash"})
                continue
            pb = parts_of(bo)
            bad = None
            for op, e, r in zip(opsB, expect, pb):
                if e is None:
                    if not (r.startswith("r=0:") or strip_ev(r) in ("c=0", "cm=0")):
                        bad = "request %s on a re-presented entry or after the end returned %s" % (op, r[:80])
                        break
                elif strip_ev(r) != e:
                    bad = "op %s: %s instead of %s" % (op, strip_ev(r)[:300], e[:300])
                    break
            if bad is None and ao.split("|", 1)[1] != bo.split("|", 1)[1]:
                bad = "the extracted trees differ"
            if bad:
                viol.append({"property": PID, "kind": "requests-on-represented-entries-change-later-results", "case_a": al, "case": bl,
                             "what": bad, "sig": "represented"})
        # ---------------------------------------------------------------- 2c. deferred links: after everything else, longest path first
        # several dangerous links of different path lengths, each extracted under its own name or under a caller-supplied
        # one (short or long): the links the reader re-presents at the end must come in non-increasing length of their
        # ARCHIVE path, whatever names the caller extracted them to
        dlines = []
        for _ in range(60 if ctx.quick else 1500):
            k = rnd.choice([2, 3, 4])
            names = rnd.sample([b"l", b"ln", b"lnk", b"d/e/link", b"linkdir/longname", b"a/b", b"zzzzzzzzzzzz", b"d/x", b"q"], k)
            ms = [T.link_member(rnd, nm, rnd.choice(T.TARGETS_DANGER), rnd.choice([1, 2, 3])) for nm in names]
            if rnd.random() < 0.5:
                ms.insert(rnd.randrange(len(ms) + 1), T.file_member(rnd, pool.small(rnd), b"f.txt", 2))
            ops = []
            for _m in ms:
                r = rnd.random()
                ops += ["n", "x" if r < 0.45 else "xf" + T.hx(rnd.choice([b"s", b"out/a-much-longer-output-name", b"zz", b"d/zz", b"x" * 30]))]
            ops += ["n"] * (k + 2)
            dlines.append(T.case(rnd.choice(T.KINDS), rnd.choice(["eod", "eof", "plain"]), T.archive(ms), ops))
        if mode != "chroot":
            dlines = [l for l in dlines if T.plain_ok(l)]
        dco = common.run_lines_parallel([drv], dlines)
        dmo = common.run_lines_parallel([model], dlines)
        for l, c, m in zip(dlines, dco, dmo):
            dist["deferred-order"] += 1
            if "CHILD-FAILED" in c or "|" not in c:
                viol.append({"property": PID, "kind": "reader-abnormal-termination", "case": l, "observed": c[-600:], "sig": "crash"})
                continue
            lens = []
            seen_real_after = False
            for op, r in zip(l.split()[5].split(","), parts_of(c)):
                if op == "n" and r.startswith("n:H"):
                    if T.hfield(r, "fake") == "1" and T.hfield(r, "st") != "NULL":
                        lens.append(len(T.hstr(T.hfield(r, "p")) or b"") + len(T.hstr(T.hfield(r, "fn")) or b""))
                    elif lens:
                        seen_real_after = True
            if any(a < b for a, b in zip(lens, lens[1:])) or seen_real_after:
                viol.append({"property": PID, "kind": "deferred-links-not-longest-first-or-not-last", "case": l, "path_lengths": lens,
                             "sig": "deferred-order"})
            elif c != m and not (m.endswith("FAULT 1411") or m.endswith("FAULT 1414")):
                mism.append({"case": l[:6000], "c": c[:1500], "model": m[:1500]})
        # ---- 2d. re-presented directories and links at the documented places (direct oracle, no model), and: once next_file
        #          has returned NULL it returns NULL for good (archives with an unreadable header in the middle)
        pmeta = []
        for _ in range(150 if ctx.quick else 4000):
            ms, ents = presentation_case(rnd)
            acts = [("x" if rnd.random() < 0.85 else rnd.choice(["-", "c", "r5"])) for _e in ents]
            # "default": the reader is left with the policy lha_reader_new gives it, documented as END_OF_DIR
            # (lib/public/lha_reader.h: "This is the default policy"); the driver sets no policy for that word
            pmeta.append((rnd.choice(T.KINDS), rnd.choice(["eod", "eod", "eof", "plain", "default"]), T.archive(ms), ents, acts))
        # the expected sequence needs to know which extracts succeed: a run under the plain policy (nothing is re-presented
        # there, the results of the extracts are the same) tells
        res_lines = [T.case(k_, "plain", arc_, sum([["n"] + ([a_] if a_ != "-" else []) for a_ in acts], []))
                     for (k_, pol, arc_, ents, acts) in pmeta]
        if mode != "chroot":
            keep = [i for i, l in enumerate(res_lines) if T.plain_ok(l)]
            res_lines, pmeta = [res_lines[i] for i in keep], [pmeta[i] for i in keep]
        res_out = common.run_lines_parallel([drv], res_lines)
        runs, runmeta = [], []
        for (k_, pol, arc_, ents, acts), l_, o_ in zip(pmeta, res_lines, res_out):
            if "CHILD-FAILED" in o_ or "|" not in o_:
                viol.append({"property": PID, "kind": "reader-abnormal-termination", "case": l_, "observed": o_[-600:], "sig": "crash"})
                continue
            parts = parts_of(o_)
            results, j = [], 0
            for a_ in acts:
                j += 1                                   # the n
                if a_ != "-":
                    results.append(a_ == "x" and strip_ev(parts[j]).startswith("x=1"))
                    j += 1
                else:
                    results.append(False)
            seq, tail_dirs, links = expected_presentation("eod" if pol == "default" else pol, ents, acts, results)
            ops = []
            for what, v in seq:
                ops.append("n")
                if what == "real":
                    if acts[v] != "-":
                        ops.append(acts[v])
                else:
                    ops.append("x")
            ops += ["n", "x"] * (len(tail_dirs) + len(links)) + ["n", "n", "n"]
            runs.append(T.case(k_, pol, arc_, ops))
            runmeta.append((pol, ents, seq, tail_dirs, links, ops))
        pout = common.run_lines_parallel([drv], runs)
        for l_, o_, (pol, ents, seq, tail_dirs, links, ops) in zip(runs, pout, runmeta):
            dist["presentation:" + pol] += 1
            if "CHILD-FAILED" in o_ or "|" not in o_:
                viol.append({"property": PID, "kind": "reader-abnormal-termination", "case": l_, "observed": o_[-600:], "sig": "crash"})
                continue
            got = []
            for op, r in zip(ops, parts_of(o_)):
                if op != "n":
                    continue
                if r.startswith("n:NULL"):
                    got.append(("end", None))
                elif T.hfield(r, "fake") == "0":
                    got.append(("real", (T.hstr(T.hfield(r, "p")) or b"") + (T.hstr(T.hfield(r, "fn")) or b"")))
                elif T.hfield(r, "st") == "NULL":
                    got.append(("dir", T.hstr(T.hfield(r, "p"))))
                else:
                    got.append(("link", (T.hstr(T.hfield(r, "p")) or b"") + (T.hstr(T.hfield(r, "fn")) or b"")))
            exp = [("real", ents[v][2]) if w == "real" else (w, v) for w, v in seq]
            bad = None
            n1 = len(exp)
            if got[:n1] != exp:
                k = next(i for i in range(n1) if i >= len(got) or got[i] != exp[i])
                bad = "entry %d returned is %r, the interface description gives %r" % (k, got[k] if k < len(got) else None, exp[k])
            else:
                rest = got[n1:]
                nd, nl = len(tail_dirs), len(links)
                if sorted(rest[:nd]) != sorted(tail_dirs):
                    bad = "directories re-presented at the end: %r, expected (any order) %r" % (rest[:nd], tail_dirs)
                elif [w for w, _ in rest[nd:nd + nl]] != ["link"] * nl or sorted(v for _, v in rest[nd:nd + nl]) != sorted(links) \
                        or any(len(a[1]) < len(b[1]) for a, b in zip(rest[nd:nd + nl], rest[nd + 1:nd + nl])):
                    bad = "deferred links at the end: %r, expected after every directory, longest first: %r" % (rest[nd:nd + nl], links)
                elif any(g != ("end", None) for g in rest[nd + nl:]) or len(rest) < nd + nl + 3:
                    bad = "after the last entry: %r, expected the end three times" % (rest[nd + nl:],)
            if bad:
                viol.append({"property": PID, "kind": "re-presented-entry-at-the-wrong-place", "case": l_, "policy": pol, "what": bad,
                             "expected_sequence": [(w, v.decode("latin1") if isinstance(v, bytes) else v) for w, v in exp],
                             "sig": "presentation"})
        # an unreadable header in mid-archive is the end, and stays the end
        elines = []
        seed0 = {"method": "-lh0-", "data": b"hello", "length": 5, "crc": T.crc16(b"hello")}
        for _ in range(60 if ctx.quick else 1000):
            m1 = T.file_member(rnd, seed0, b"first", rnd.randrange(4)).bytes()
            m2 = T.file_member(rnd, seed0, b"second", rnd.randrange(4)).bytes()
            junk = bytes(rnd.randrange(256) for _ in range(rnd.choice([22, 22, 23, 24, 30, 1, 5, 21, 60])))
            if len(junk) > 20:
                junk = junk[:20] + bytes([rnd.choice([4, 5, 9, 0x80, 0xff])]) + junk[21:]     # no header level like that
            junk = b"\x19" + junk[1:2] + b"-lh0-" + junk[7:] if len(junk) >= 22 and rnd.random() < 0.7 else junk
            arc = m1 + junk + m2 + (m2 if rnd.random() < 0.5 else b"") + b"\0"
            elines.append(T.case(rnd.choice(T.KINDS), rnd.choice(T.POLICIES), arc, ["n", rnd.choice(["n", "c", "r5", "x"]), "n", "n", "n", "n", "n"]))
        eout = common.run_lines_parallel([drv], elines)
        for l_, o_ in list(zip(elines, eout)) + list(zip(lines, cout)) + list(zip(mlines, outs)) + list(zip(runs, pout)):
            if "|" not in o_:
                continue
            seen_end = False
            for op, r in zip(l_.split()[5].split(","), parts_of(o_)):
                if op != "n":
                    continue
                if r.startswith("n:NULL"):
                    seen_end = True
                elif seen_end:
                    dist["entry-after-end"] += 1
                    viol.append({"property": PID, "kind": "entry-returned-after-the-end", "case": l_, "observed": r[:300],
                                 "what": "lha_reader_next_file returned NULL and later returned an entry", "sig": "after-end-entry"})
                    break
        dist["end-stays-end"] = len(elines)
        # ---------------------------------------------------------------- 3. two readers, interleaved and on two threads
        two, ref = [], []
        n_two = 150 if ctx.quick else 3000
        for _ in range(n_two):
            sides = []
            for _s in range(2):
                arc, ms = T.random_archive(pool, rnd) if rnd.random() < 0.6 else T.tree_archive(pool, rnd)
                ops = []
                for j in range(min(len(ms) + 2, 10)):
                    ops.append("n")
                    r = rnd.random()
                    if r < 0.5:
                        ops += [rnd.choice(T.READS) for _ in range(rnd.choice([1, 2, 3]))]
                    elif r < 0.8:
                        ops.append(rnd.choice(["c", "cm"]))
                sides.append((rnd.choice(T.KINDS), rnd.choice(T.POLICIES), T.hx(arc), ",".join(ops)))
            if rnd.random() < 0.2:
                sides[1] = (rnd.choice(T.KINDS), rnd.choice(T.POLICIES)) + sides[0][2:]      # the same archive twice
            sched = "".join(rnd.choice("AB") for _ in range(rnd.choice([0, 3, 10, 25, 40])))
            A, B = sides
            two.append(("seq", "rdr2 seq %s %s %s %s %s %s %s %s %s" % (A + B + (sched or "A",))))
            two.append(("thr", "rdr2 thr %s %s %s %s %s %s %s %s %s" % (A + B + ("A",))))
            ref.append("rdr2 one %s %s %s %s %s %s %s %s A" % (A + A))
            ref.append("rdr2 one %s %s %s %s %s %s %s %s A" % (B + B))
        refo = common.run_lines_parallel([drv2], ref)
        seqo = common.run_lines_parallel([drv2], [l for m, l in two if m == "seq"])
        tenv = dict(os.environ, TSAN_OPTIONS="halt_on_error=1:exitcode=97:report_signal_unsafe=0:suppressions=" + os.path.join(CDIR, "tsan.supp"))
        thro = common.run_lines_parallel([tsan], [l for m, l in two if m == "thr"], env=tenv)
        seql = [l for m, l in two if m == "seq"]
        thrl = [l for m, l in two if m == "thr"]
        for i in range(n_two):
            ea, eb = refo[2 * i], refo[2 * i + 1]
            exp = ea.strip() + " " + eb.strip().replace("A[", "B[", 1)
            for kind, l, o in (("interleaved", seql[i], seqo[i]), ("threads", thrl[i], thro[i])):
                dist["two:" + kind] += 1
                if o.strip() != exp.strip():
                    viol.append({"property": PID, "kind": "two-readers-%s-differ-from-separate-runs" % kind, "case": l,
                                 "expected": exp[:1500], "observed": o[:1500], "sig": "two-readers"})
        cov = {"evaluations": len(lines) + len(mlines) + len(alines) + len(blines) + len(dlines) + len(res_lines) + len(runs) + len(elines) + 2 * n_two + len(ref), "distinct_nontrivial": nontriv,
               "rule": "1. correspondence: every op sequence over {n, r5, r100000, c, x} up to length %d that respects the protocol "
                       "(%d of them) x 12 small archives x 3 directory policies x stream kinds in rotation (%d cases) and random "
                       "protocol-respecting sequences over generated archives (nested directories, safe/dangerous links, MacBinary "
                       "members, all methods, damaged members, truncations), model output = C output.  2. metamorphic: per "
                       "archive 3 reference runs (skip everything; read everything; check everything) and several runs with a "
                       "random action per member (nothing, full read, partial reads, check, extract), kinds in rotation: same "
                       "header sequence, same full-read result, same check verdict per member; after the end every request "
                       "reports end.  2b. extract-everything runs, repeated with reads/checks added on every entry the reader "
                       "re-presents (fake directory, deferred link) and after the end: those requests return 0, every other result "
                       "and the extracted tree are unchanged.  2c. archives with 2-4 dangerous links of different path lengths, each extracted under its own or a caller-supplied name: the re-presented links come after everything else in non-increasing ARCHIVE path length (direct oracle on the C) and as the model says.  2d. archives of directories whose names are prefixes of one another's (d/ d2/ da/, d/e/ d/e2/), files inside and outside them and dangerous links, extracted with some entries skipped / checked / read: the sequence handed out by next_file must be the one the interface description gives (eod, and a reader whose policy was never set -- the documented default is END_OF_DIR --: an extracted directory right before the first later entry whose path does not start with its path, else at the end; eof: all at the end; plain: never; deferred links after every directory, longest archive path first; then the end, three times) -- computed by the harness without the model; archives with an unreadable header between two members: once next_file has returned NULL no later call returns an entry (checked on every output of families 1, 2, 2d too).  3. two readers: interleaved by a random schedule in one thread and concurrently on two "
                       "threads (ThreadSanitizer build; a data race report is a failure) = the two separate runs.  non-trivial "
                       "= archive with at least two entries in the metamorphic family" % (3 if ctx.quick else 4, len(seqs), n_ex),
               "distribution": dict(dist), "samples": [lines[0][:300], mlines[0][:300] if mlines else "", two[0][1][:300]]}
        return {"violations": viol[:10], "mismatches": mism[:10], "coverage": cov,
                "search_note": "metamorphic oracle over runs of the real library; the model is not needed to show a failure"}
    finally:
        cb.close()


def replay(payload):
    cb = CBuild(PID)
    try:
        drv, drv2, tsan = build(cb)
        kind = payload.get("kind", "")
        run1 = lambda l: common.run_lines_parallel([tsan if l.startswith("rdr2 thr") else drv2 if l.startswith("rdr2") else drv], [l],
                                                   env=dict(os.environ, TSAN_OPTIONS="halt_on_error=1:exitcode=97:report_signal_unsafe=0:suppressions=" + os.path.join(CDIR, "tsan.supp")))[0]
        bad = False
        if kind == "header-sequence-depends-on-history":
            a, b = payload["reference_case"], payload["case"]
            oa, ob = run1(a), run1(b)
            ha, ea = real_headers(a.split()[5].split(","), parts_of(oa))
            hb, eb = real_headers(b.split()[5].split(","), parts_of(ob))
            print("reference run: %d headers, end seen %s;  this run: %d headers, end seen %s" % (len(ha), ea, len(hb), eb))
            bad = hb != ha[:len(hb)] or (eb and len(hb) != len(ha))
        elif kind in ("member-bytes-depend-on-history", "check-verdict-depends-on-history"):
            oa, ob = run1(payload["case_a"]), run1(payload["case_b"])
            bad = (payload["a"] in oa) != (payload["a"] in ob) or (payload["b"] in ob and payload["a"] in oa)
            print("run a contains %r: %s; run b contains %r: %s" % (payload["a"], payload["a"] in oa, payload["b"], payload["b"] in ob))
        elif kind == "requests-on-represented-entries-change-later-results":
            oa, ob = run1(payload["case_a"]), run1(payload["case"])
            pb = parts_of(ob)
            ops = payload["case"].split()[5].split(",")
            extra = [r for op, r in zip(ops, pb) if op[0] in "rc" and not (r.startswith("r=0:") or strip_ev(r) in ("c=0", "cm=0"))]
            print("requests on re-presented entries that returned something:", extra[:3], " trees equal:", oa.split("|", 1)[1:] == ob.split("|", 1)[1:])
            bad = bool(extra) or oa.split("|", 1)[1:] != ob.split("|", 1)[1:]
        elif kind.startswith("two-readers"):
            o = run1(payload["case"])
            print("observed:", o[:600]); print("expected:", payload.get("expected", "")[:600])
            bad = o.strip() != payload.get("expected", "").strip()
        else:
            o = run1(payload["case"])
            print(o[-600:])
            bad = "CHILD-FAILED" in o or o.startswith("CRASH")
        print("REPRODUCED" if bad else "not reproduced")
        return 1 if bad else 0
    finally:
        cb.close()

#!/usr/bin/env python3
"""Differential test of the model of the command-line tool (coq/CliMain.v,
coq/CliExtract.v, coq/CliFilter.v on top of Reader.v, ListOut.v, Fs.v;
extracted, handler `cli` of harness/ml/d_tool_cli.ml) against the real tool
(src/main.c, extract.c, filter.c, list.c, safe.c and lib/ from the working
tree, built with ASan/UBSan, run by harness/c/drv_cli.c).

Each case is a whole invocation `lha <arguments>`: an archive (placed at
/arc/a.lzh of a fresh scratch tree), the bytes of standard input (answers to
the overwrite prompt, or the archive itself when the archive argument is "-"),
and a list of set-up operations that create pre-existing files, directories
and symbolic links.  The tool runs as uid 65534 (or root) inside chroot(S)
with /root as current directory, umask 022, TZ=UTC.  Compared exactly:
exit status, stdout, stderr and the dump of the whole tree afterwards.

The one normalisation: after a failed fopen of the archive the C prints
strerror(errno); both sides are reduced to ENOENT / EOTHER.

Families:
  options      every command letter x every option string over a small alphabet
               (f q0 q1 q2 q i v n, then w=DIR: existing / missing / nested /
               hostile) on small hand-built archives, clean and occupied trees
  wildcards    pattern arguments (* ? literal, '/' in patterns, no match, several)
  prompts      files / directories / symbolic links already at the target paths,
               answers y n a s garbage EOF on standard input
  readonly     read-only directories (pre-existing, and created by the archive)
  order        well-formed trees: directory entry first / contents first / no
               directory entries; interleaved siblings
  danger       dangerous symbolic links, paths through links, hostile names
  corrupt      truncated and bit-flipped archives, wrong CRC / length / method
  main         argument shapes: none, one, unknown command letters and options,
               missing / unreadable / directory archive, "-" (standard input)
  random       everything mixed: random archive (test_rdr generators), command,
               options, patterns, set-up, standard input; a share as root

Oracles on the C outputs, independent of the model (reported, not part of
the exit status): the commands l v t p and every dry run leave the tree
exactly as the set-up left it (the model's operation trace is empty and the
dumps agree); changes outside S/root are counted with their cause.

Usage: test_cli.py [--seed N] [--quick] [--random N] [--family PREFIX]
                   [--show N] [--dump-mismatches FILE] [--model EXE]
Exit 0: exact agreement on every case.  Exit 1: a mismatch.
"""
import os, sys, time, random, argparse, itertools, subprocess, collections
import common
import lhabuild as lb
import test_rdr as tr
from common import CBuild, CDIR, run_lines_parallel

NOW = 1300000000
MT = 1200000000
ARC = b"/arc/a.lzh"


def hx(b):
    return b.hex() if b else "-"


# ---------------------------------------------------------------- cases

def op_mkdir(p, mode=0o755):
    return ["mkdir", hx(p), str(mode)]


def op_file(p, data=b"old", perms=None):
    return ["fopen", hx(p), str(-1 if perms is None else perms), hx(data)]


def op_link(p, target):
    return ["symlink", hx(p), hx(target)]


def op_chmod(p, mode):
    return ["chmod", hx(p), str(mode)]


def op_utime(p, t):
    return ["utime", hx(p), str(t)]


def case(argv, arc, stdin=b"", setup=(), uid0=0, now=NOW, mtime=MT):
    av = ",".join("e" if a == b"" else a.hex() for a in argv) if argv else "-"
    toks = ["cli", str(uid0), str(now), str(mtime), av, hx(arc), hx(stdin)]
    for o in setup:
        toks += o
    return " ".join(toks)


def case_argv(line):
    t = line.split(" ")
    return [] if t[4] == "-" else [b"" if a == "e" else bytes.fromhex(a) for a in t[4].split(",")]


def normalise_c(line, out):
    """strerror text after a failed fopen of the archive -> ENOENT / EOTHER"""
    t = out.split(" ")
    if len(t) < 3 or not t[2].startswith("err=") or t[2] == "err=-":
        return out
    try:
        err = bytes.fromhex(t[2][4:])
    except ValueError:
        return out
    if not err.startswith(b"LHa: Error: "):
        return out
    av = case_argv(line)
    name = av[1] if len(av) >= 2 else av[0] if av else b""
    pre = b"LHa: Error: " + name + b" "
    if not err.startswith(pre):
        return out
    rest = err[len(pre):]
    t[2] = "err=" + (pre + (b"ENOENT\n" if rest == b"No such file or directory\n" else b"EOTHER\n")).hex()
    return " ".join(t)


def show_tok(x):
    """a set-up token: operation names and numbers as they are, hex strings decoded"""
    if x in ("mkdir", "fopen", "symlink", "chmod", "utime", "unlink", "-") or (x.lstrip("-").isdigit() and len(x) % 2):
        return x
    try:
        return repr(bytes.fromhex(x))[1:]
    except ValueError:
        return x


def show_bytes(b, around, width=70):
    lo = max(0, around - width // 2)
    return repr(b[lo:lo + width])


def first_diff(c, m):
    ct, mt = c.split(" "), m.split(" ")
    for i, (a, b) in enumerate(zip(ct, mt)):
        if a != b:
            for pre in ("out=", "err="):
                if a.startswith(pre) and b.startswith(pre):
                    try:
                        ab = b"" if a[4:] == "-" else bytes.fromhex(a[4:])
                        bb = b"" if b[4:] == "-" else bytes.fromhex(b[4:])
                    except ValueError:
                        break
                    k = next((j for j, (x, y) in enumerate(zip(ab, bb)) if x != y), min(len(ab), len(bb)))
                    return i, "%s byte %d (%d bytes): %s" % (pre[:3], k, len(ab), show_bytes(ab, k)), \
                        "%s byte %d (%d bytes): %s" % (pre[:3], k, len(bb), show_bytes(bb, k))

            def ctx(tt):
                w = []
                for x in tt[max(0, i - 4):i + 3]:
                    try:
                        w.append(x if len(x) < 3 or x in ("now",) or not all(ch in "0123456789abcdef" for ch in x)
                                 else "<%s>" % bytes.fromhex(x)[:40].decode("latin-1") if len(x) % 2 == 0 else x)
                    except ValueError:
                        w.append(x)
                return " ".join(w)[:300]
            return i, ctx(ct), ctx(mt)
    return min(len(ct), len(mt)), " ".join(ct[-6:])[:300], " ".join(mt[-6:])[:300]


# ---------------------------------------------------------------- hand-built archives

class Arc:
    def __init__(self, name, entries, trunc=None):
        """entries: list of (full path as stored, kind, Member)"""
        self.name = name
        self.entries = entries
        self.bytes = tr.archive([m for _, _, m in entries], trunc=trunc)

    def files(self):
        return [f for f, k, _ in self.entries if k == "file"]

    def dirs(self):
        return [f for f, k, _ in self.entries if k == "dir"]


def hand_archives(pool):
    r = random.Random(11)

    def S(m, k=300):
        return pool.cut(pool.by[m][-1], k)

    def F(full, k=20, m="-lh0-", lv=2, **kw):
        return (full, "file", tr.file_member(r, S(m, k), full, lv, **kw))

    def D(path, perms=0o40755, lv=2, ts=tr.T_B, **kw):
        return (path, "dir", tr.dir_member(r, path, lv, perms, ts=ts, **kw))

    def L(full, target, lv=2):
        return (full, "link", tr.link_member(r, full, target, lv))

    def M(full, variant, lv=2):
        return (full, "file", tr.mac_member(r, full, variant, lv))

    A = []
    A.append(Arc("flat", [F(b"a.txt", 12), F(b"b.bin", 300, "-lh5-", 1), F(b"README", 100, "-lh1-", 0)]))
    A.append(Arc("tree", [D(b"d/"), F(b"d/in", 9), D(b"d/e/", 0o40700, 1), F(b"d/e/f", 50, "-lz5-"), F(b"top", 5, lv=0)]))
    A.append(Arc("nodirs", [F(b"d/in", 9), F(b"d/e/f", 50, "-lzs-"), F(b"top", 5, lv=1)]))
    A.append(Arc("dirlast", [F(b"d/in", 9), D(b"d/", 0o40750), F(b"top", 5), D(b"g/", None, 0, ts=tr.T_C)]))
    A.append(Arc("rodirs", [D(b"d/", 0o40555), F(b"d/in", 9, perms=0o100444), D(b"d/e/", 0o40500),
                            F(b"d/e/f", 30, "-lh6-"), F(b"out", 100, "-lh7-", 3)]))
    A.append(Arc("links", [D(b"d/"), L(b"s", b"d"), F(b"s/t", 80, perms=0o104755), L(b"l", b"../outside"),
                           F(b"l/w", 5), L(b"ll", b"/outside/f", 1), L(b"d/up", b"..")]))
    A.append(Arc("hostile", [F(b"../esc", 4), F(b"/abs/x", 6), F(b"a\\b", 3), F(b"\x1b[2Jz\x7f\xe9", 7),
                             F(b"d//e/x", 8), F(b"./d/y", 2), D(b"../outside/n/"), F(b"..", 3), F(b"d/../../outside/q", 5)]))
    A.append(Arc("mac", [M(b"m", "valid"), M(b"p", "plainfile", 1), M(b"sh", "short")]))
    A.append(Arc("bad", [F(b"b", 300, "-lh6-", bad="crc"), F(b"g", 128, "-pm2-", 1), F(b"u", 10, bad="method"),
                         F(b"c", 90, "-pm1-", bad="clen-"), F(b"v", 300, "-lh7-", 3), F(b"n", 200, "-lh5-", bad="len+")]))
    t = Arc("trunc", [F(b"x", 300, "-lh5-"), F(b"y", 30)])
    t.bytes = t.bytes[:len(t.bytes) - 20]
    A.append(t)
    A.append(Arc("big", [F(b"big", 70000, "-lh5-")]) if any(s["length"] >= 60000 for s in pool.by["-lh5-"]) else
             Arc("big", [F(b"big", 3000, "-lh5-")]))
    A.append(Arc("empty", []))
    return A


def occupy(a, r=None):
    """set-up that puts something at the places the archive writes to"""
    ops = []
    made = set()
    for f in a.files():
        if f.startswith(b"/") or b".." in f.split(b"/") or b"\\" in f:
            continue
        parts = f.split(b"/")
        for i in range(1, len(parts)):
            d = b"/".join(parts[:i])
            if d and d not in made:
                ops.append(op_mkdir(d))
                made.add(d)
        ops.append(op_file(f, b"OLD:" + f))
    return ops


def relocate(ops, prefix):
    """the same set-up operations below another directory"""
    return [[o[0], hx(prefix + bytes.fromhex(o[1]))] + o[2:] for o in ops]


def blocked(a):
    """a directory where a file goes, a file where a directory goes"""
    ops = []
    fs, ds = a.files(), a.dirs()
    if fs:
        f = fs[-1]
        if b"/" not in f and f not in (b"..", b"."):
            ops.append(op_mkdir(f))
    if ds:
        ops.append(op_file(ds[0].rstrip(b"/"), b"file-not-dir"))
    elif fs and b"/" in fs[0]:
        ops.append(op_file(fs[0].split(b"/")[0], b"file-not-dir"))
    return ops


OPT_ALPHA = ["f", "q0", "q1", "q2", "q", "i", "v", "n"]
W_VARIANTS = ["", "w=out", "w=d", "w=a/b/c", "w=../outside/o", "w=/outside", "w=", "wout/", "w=/foreign/ww/x", "w=top"]
CMDS = ["l", "v", "t", "x", "e", "p"]


def fam_options(arcs, quick, rnd):
    """every command letter x (no option, every single option, every ordered pair of options) x w=DIR variants:
    all of them with at most one option, a rotating one with pairs (quick: pairs are sampled)"""
    lines = []
    singles = [""] + OPT_ALPHA
    pairs = ["".join(p) for p in itertools.product(OPT_ALPHA, repeat=2)]
    for a in arcs:
        if a.name in ("big", "empty") or (quick and a.name in ("mac", "trunc", "hostile")):
            continue
        setups = [("clean", [], b""), ("occupied", occupy(a), b"n\ny\ns\n"), ("occupied-a", occupy(a), b"a\n")]
        for c in CMDS:
            plan = [(o, (W_VARIANTS if not quick else ["", rnd.choice(W_VARIANTS)])) for o in singles]
            plan += [(o, [rnd.choice(W_VARIANTS)]) for o in (pairs if not quick else rnd.sample(pairs, 12))]
            for o, ws in plan:
                for w in ws:
                    for sn, su, si in setups:
                        if sn != "clean" and (c in "lv" or (o not in singles and rnd.random() < 0.6)
                                              or (quick and rnd.random() < 0.7)):
                            continue
                        if sn == "occupied-a" and ("f" in o or "q" in o):
                            continue
                        lines.append(case([(c + o + w).encode(), ARC], a.bytes, si, su))
    return lines


def thin(lines, k, rnd):
    """at most k of the cases, order kept"""
    if len(lines) <= k:
        return lines
    keep = set(rnd.sample(range(len(lines)), k))
    return [l for i, l in enumerate(lines) if i in keep]


PATTERNS = [b"*", b"?", b"a*", b"*.txt", b"d/*", b"d/e/?", b"*/*", b"d*", b"*in", b"top", b"TOP", b"d/", b"d", b"d/in",
            b"nomatch", b"", b"**", b"*?*", b"?*?", b"[a]*", b"*e*", b"README", b"readme", b"*.BIN", b"b.???", b"s/t",
            b"l*", b"d/e/", b"*/", b"*f", b"./d/y", b"../*", b"/abs/*", b"*\\*", b"a?b"]


def fam_wildcards(arcs, quick, rnd):
    lines = []
    use = [a for a in arcs if a.name in ("flat", "tree", "nodirs", "rodirs", "links", "hostile", "dirlast")]
    for a in use:
        for c in (["x", "t", "p", "l"] if not quick else ["x", "p"]):
            for p in PATTERNS:
                lines.append(case([c.encode(), ARC, p], a.bytes))
            for _ in range(10 if quick else 60):
                ps = [rnd.choice(PATTERNS) for _ in range(rnd.choice([2, 2, 3, 5]))]
                o = rnd.choice(["", "f", "q1", "i", "n", "w=o", "iq2"])
                lines.append(case([(c + o).encode(), ARC] + ps, a.bytes))
    return lines


ANSWERS = [b"", b"y\n", b"n\n", b"a\n", b"s\n", b"\n", b"Y\n", b"N\n", b"A\n", b"S\n", b"yes\n", b"no way\n", b"x\ny\n",
           b"garbage", b"\0y\n", b"\0\0n\n", b"\xff\n", b"\xe9\ny\n", b"q\nq\nq\n", b"y", b" y\n", b"\ty\n", b"1\n2\n3\ny\n",
           b"n\ny\n", b"y\nn\n", b"s\ny\n", b"a\nn\n", b"\n\n\n"]


def fam_prompts(arcs, quick, rnd):
    lines = []
    use = [a for a in arcs if a.name in ("flat", "tree", "nodirs", "rodirs", "links", "mac", "bad")]
    for a in use:
        base = occupy(a)
        for c in ["x", "e", "xi", "xw=o", "xq0", "xv", "p", "t", "xn", "xin"]:
            for ans in ANSWERS:
                reps = [ans, ans + rnd.choice(ANSWERS), ans * 3] if not quick else [ans + rnd.choice(ANSWERS)]
                for si in reps:
                    su = list(base)
                    if c == "xw=o":
                        su = [op_mkdir(b"o")] + relocate(base, b"o/")
                    elif c.startswith("xi"):
                        su = [op_file(f.split(b"/")[-1], b"OLDFLAT") for f in a.files() if f.split(b"/")[-1]]
                    lines.append(case([c.encode(), ARC], a.bytes, si, su))
        # other things than files at the target paths
        for f in a.files()[:3]:
            if f.startswith(b"/") or b".." in f.split(b"/"):
                continue
            parent = [op_mkdir(b"/".join(f.split(b"/")[:i])) for i in range(1, len(f.split(b"/")))]
            for what in [op_mkdir(f), op_mkdir(f, 0), op_link(f, b"nowhere"), op_link(f, b"../outside/f"),
                         op_link(f, b"/outside"), op_link(f, b"."), op_link(f, f), op_link(f, b"/foreign/priv/s"),
                         op_file(f, b"ro", 0o444), op_file(f, b"none", 0)]:
                for ans in [b"y\n", b"n\n", b"", b"a\n"]:
                    for c in (["x", "xf", "xn"] if not quick else ["x"]):
                        lines.append(case([c.encode(), ARC], a.bytes, ans, parent + [what]))
    return lines


def fam_readonly(arcs, quick, rnd):
    lines = []
    use = [a for a in arcs if a.name in ("flat", "tree", "nodirs", "rodirs", "dirlast", "links")]
    for a in use:
        for c in ["x", "xf", "xq2", "xi", "xw=o", "xw=d/o", "xfw=ro/o", "t", "p"]:
            variants = [
                [op_chmod(b".", 0o555)],
                [op_chmod(b".", 0o300)],
                [op_chmod(b".", 0)],
                [op_mkdir(b"d", 0o555)],
                [op_mkdir(b"d"), op_mkdir(b"d/e", 0o555)],
                [op_mkdir(b"d"), op_file(b"d/in", b"x", 0o444), op_chmod(b"d", 0o555)],
                [op_mkdir(b"d", 0o311)],
                [op_mkdir(b"d", 0o644)],
                [op_mkdir(b"ro"), op_chmod(b"ro", 0o555)],
                [op_mkdir(b"o", 0o555)],
                [op_file(b"a.txt", b"ro", 0o444), op_file(b"top", b"ro", 0o400), op_chmod(b".", 0o555)],
                [op_link(b"d", b"/foreign/rd")],
                [op_link(b"d", b"/foreign/ww")],
                [op_link(b"d", b"/foreign/priv")],
                [op_link(b"o", b"/foreign")],
            ]
            for su in variants:
                lines.append(case([c.encode(), ARC], a.bytes, b"y\ny\ny\n", su))
    return lines


def wf_tree(pool, rnd):
    """a well-formed tree in one of several member orders; returns archive bytes"""
    dirs = [b"d/", b"d/e/", b"h/", b"d/e/g/", b"k/"]
    rnd.shuffle(dirs)
    chosen = set()
    for d in dirs[:rnd.choice([1, 2, 3])]:
        parts = d.split(b"/")[:-1]
        for i in range(1, len(parts) + 1):
            chosen.add(b"/".join(parts[:i]) + b"/")
    dirs = sorted(chosen)
    lv = rnd.choice([None, 0, 1, 2, 3])
    order = rnd.choice(["pre", "pre", "nodirs", "dirlast", "dirsfirst", "shuffle"])
    dm = {d: tr.dir_member(rnd, d, lv, rnd.choice(tr.PERMS_D), rnd.choice(tr.UIDGID), rnd.choice(tr.STAMPS)) for d in dirs}

    def content(d):
        x = rnd.random()
        nm = d + rnd.choice([b"a", b"b", b"f.txt", b"README", b"l", b"s"])
        if x < 0.8:
            return tr.file_member(rnd, pool.small(rnd, maxlen=300), nm, lv, tr.U, rnd.choice(tr.PERMS_F),
                                  rnd.choice(tr.UIDGID), rnd.choice(tr.STAMPS))
        if x < 0.9:
            return tr.link_member(rnd, nm, rnd.choice([b"a", b"f.txt", b"e", b"nowhere", b"b"]), lv)
        return tr.link_member(rnd, nm, rnd.choice(tr.TARGETS_DANGER), lv)
    ms = []
    cont = {d: [content(d) for _ in range(rnd.choice([0, 1, 2, 3]))] for d in dirs + [b""]}
    if order == "pre":
        for d in dirs:
            ms.append(dm[d])
            ms += cont[d]
    elif order == "nodirs":
        for d in dirs:
            ms += cont[d]
    elif order == "dirlast":
        for d in reversed(dirs):
            ms += cont[d]
            ms.append(dm[d])
    elif order == "dirsfirst":
        ms += [dm[d] for d in dirs]
        cs = [c for d in dirs for c in cont[d]]
        rnd.shuffle(cs)
        ms += cs
    else:
        ms = [dm[d] for d in dirs] + [c for d in dirs for c in cont[d]]
        rnd.shuffle(ms)
    for c in cont[b""]:
        ms.insert(rnd.randrange(len(ms) + 1), c)
    if not ms:
        ms.append(content(b""))
    return tr.archive(ms, trailer=rnd.choice([b"\0", b""])), order


def rand_opts(rnd, wprob=0.3):
    o = "".join(rnd.choice(OPT_ALPHA + ["q3", "q9", "f", "i"]) for _ in range(rnd.choice([0, 0, 1, 1, 2, 3])))
    if rnd.random() < wprob:
        o += rnd.choice(W_VARIANTS[1:] + ["w=o", "w=o/", "w=./o", "w=d/e", "w=s", "w=l", "w=/root/z", "w=..", "w=."])
    return o


def fam_order(pool, quick, rnd, n):
    lines = []
    for _ in range(n):
        arc, order = wf_tree(pool, rnd)
        c = rnd.choice(["x", "x", "x", "e", "t", "p", "xf", "xi", "xq1", "xw=o", "l", "v"])
        if rnd.random() < 0.3:
            c = rnd.choice(CMDS) + rand_opts(rnd)
        lines.append(case([c.encode(), ARC], arc, rnd.choice(ANSWERS)))
    return lines


def fam_danger(pool, arcs, quick, rnd, n):
    lines = []
    r = random.Random(5)

    def S(m, k=30):
        return pool.cut(pool.by[m][-1], k)

    def F(full, k=6, **kw):
        return tr.file_member(r, S("-lh0-", k), full, 2, **kw)

    def D(p, perms=0o40755):
        return tr.dir_member(r, p, 2, perms)

    def L(full, t):
        return tr.link_member(r, full, t, 2)
    fixed = [
        [L(b"l", b"../outside"), F(b"l/w")],
        [L(b"l", b"/outside"), F(b"l/f")],
        [L(b"l", b"/outside/f"), F(b"l")],
        [F(b"l"), L(b"l", b"/outside/f")],
        [D(b"t/"), L(b"s", b"t"), L(b"s/p", b"/x"), L(b"uuuuuuuu", b"/outside"), L(b"s", b"uuuuuuuu")],
        [D(b"t/"), L(b"s", b"t"), L(b"s/p", b"/x"), L(b"uuuuuuuu", b"/outside"), L(b"s", b"uuuuuuuu"), F(b"s/p")],
        [L(b"a", b".."), L(b"a/outside/z", b"/q")],
        [L(b"a", b"."), F(b"a/a/a/f")],
        [L(b"a", b"d"), D(b"d/"), F(b"a/f"), L(b"d/up", b"../..")],
        [L(b"x", b"/foreign/ww"), F(b"x/new")],
        [L(b"x", b"../foreign/ww"), L(b"y", b"x"), F(b"y/new")],
        [D(b"d/"), L(b"d/l", b"../../outside"), D(b"d/", 0o40555)],
        [L(b"l", b"/outside"), L(b"l", b"d"), D(b"d/"), F(b"l/f")],
        [L(b"l", b"../outside"), D(b"l/")],
        [L(b"l", b"../outside"), D(b"l/", 0o40700), F(b"l/f")],
        [L(b"dd/l", b"/outside"), F(b"dd/l/g")],
        [L(b"aa", b"/outside"), L(b"b", b"aa"), F(b"b/f")],
        [L(b"longername", b"/outside"), L(b"s", b"longername"), L(b"s/f", b"/etc")],
    ]
    # names and paths at and beyond NAME_MAX / PATH_MAX; the archive itself as a target (root can reach it)
    # (long components rather than thousands of short ones: the model's tree operations are quadratic in the depth)
    c250, c255 = b"c" * 250 + b"/", b"c" * 255 + b"/"
    for ms in [[F(b"n" * 255), F(b"m" * 256)], [F(b"d/" * 60 + b"f")], [F(c250 * 16 + b"f")], [F(c255 * 15 + b"x" * 254), F(c255 * 15 + b"x" * 255)],
               [F(c255 * 16 + b"f")], [D(c250 * 16), D(b"b" * 256 + b"/")], [L(b"k", b"t" * 4095), L(b"j", b"t" * 4096)]]:
        for c in ["x", "xq2", "xn", "t", "p", "xw=o", "xi"]:
            lines.append(case([c.encode(), ARC], tr.archive(ms)))
    for ms in [[F(b"../arc/a.lzh"), F(b"after")], [F(b"x"), L(b"q", b"/arc"), F(b"q/a.lzh"), F(b"after")]]:
        for c in ["x", "xf", "xq2"]:
            for uid0 in (0, 1):
                lines.append(case([c.encode(), ARC], tr.archive(ms), b"y\n", [], uid0=uid0))
                lines.append(case([c.encode(), b"../arc/a.lzh"], tr.archive(ms), b"y\n", [op_link(b"q", b"/arc")], uid0=uid0))
    for ms in fixed:
        for c in ["x", "xf", "xq2", "xi", "xw=o", "xn", "t", "p", "xw=../outside", "xfi"]:
            for su in [[], [op_mkdir(b"d")], [op_link(b"l", b"/outside")], [op_link(b"l", b"../outside"), op_link(b"s", b"l")]]:
                lines.append(case([c.encode(), ARC], tr.archive(ms), b"y\ny\n", su))
    for a in arcs:
        if a.name in ("links", "hostile"):
            for c in CMDS:
                for o in ["", "f", "i", "fi", "q1", "w=o", "iw=o", "n", "w=/outside", "w=../outside", "w=/", "w=.."]:
                    for su in [[], occupy(a), [op_link(b"d", b"/outside")], [op_link(b"abs", b"/outside")]]:
                        lines.append(case([(c + o).encode(), ARC], a.bytes, b"y\nn\na\n", su))
    for _ in range(n):
        arc, ms = tr.random_archive(pool, rnd)
        if b"|" not in arc:
            continue
        lines.append(case([("x" + rand_opts(rnd)).encode(), ARC], arc, rnd.choice(ANSWERS), rand_setup(rnd)))
    return lines


def fam_corrupt(pool, arcs, quick, rnd, n):
    lines = []
    for a in arcs:
        if a.name in ("flat", "tree", "bad", "mac"):
            b = a.bytes
            cuts = sorted(set([0, 1, 2, 5, 20, 21, 22, 30, len(b) // 2, len(b) - 1] + [rnd.randrange(len(b)) for _ in range(6 if quick else 30)]))
            for k in cuts:
                for c in (["x", "t", "p", "l"] if not quick else ["x", "t"]):
                    lines.append(case([c.encode(), ARC], b[:k]))
    for _ in range(n):
        arc, ms = (tr.tree_archive if rnd.random() < 0.5 else tr.random_archive)(pool, rnd)
        x = rnd.random()
        if x < 0.4:
            arc = arc[:rnd.randrange(len(arc) + 1)]
        elif x < 0.8 and b"-lz5-" not in arc:
            i = rnd.randrange(len(arc))
            arc = arc[:i] + bytes([arc[i] ^ (1 << rnd.randrange(8))]) + arc[i + 1:]
        elif x < 0.9:
            arc = bytes(rnd.randrange(256) for _ in range(rnd.choice([0, 1, 10, 100]))) + arc
        c = rnd.choice(["x", "t", "p", "l", "v", "xf", "xq1", "tq0"])
        lines.append(case([c.encode(), ARC], arc, rnd.choice(ANSWERS)))
    return lines


def fam_main(arcs, quick, rnd):
    lines = []
    flat = [a for a in arcs if a.name == "flat"][0].bytes
    tree = [a for a in arcs if a.name == "tree"][0].bytes
    lines.append(case([], flat))
    lines.append(case([ARC], flat))
    lines.append(case([b"nonexistent"], flat))
    lines.append(case([b""], flat))
    lines.append(case([b"x"], flat))
    lines.append(case([b"-"], flat, flat))
    cmds = ["", "-", "--", "-x", "-l", "-t", "--x", "x-", "X", "L", "a", "d", "c", "u", "m", "z", "xz", "xfz", "x ", " x",
            "lq", "lq2", "lv", "vv", "vq1", "lvq2", "li", "ln", "lf", "lw=x", "tn", "tq2", "tv", "ti", "tw=q", "pq", "pq1",
            "pn", "pi", "pw=zz", "pf", "xq", "xqq", "xq5", "xq10", "xqf", "xwq", "xw", "xw=", "xw==", "xw=w=a", "xfw", "ew=o",
            "-xf", "-eq2", "-pq2", "-vv", "x=", "xw/abs", "xw=a b", "xnn", "xff", "xii", "xvv", "xnq0", "l-", "-ll", "tl", "xl",
            "xp", "px", "\xe9", "xw=\xe9\x1b"]
    for c in cmds:
        lines.append(case([c.encode("latin-1"), ARC], tree, b"y\n"))
        lines.append(case([c.encode("latin-1"), ARC, b"d/*"], tree, b"y\n"))
    names = [b"/arc/a.lzh", b"../arc/a.lzh", b"/arc/../arc/a.lzh", b"/arc//a.lzh", b"/arc/a.lzh/", b"/arc", b"/arc/", b".",
             b"..", b"/", b"", b"nonexistent", b"no/such/dir/x", b"/foreign/priv/s", b"/foreign/rf", b"/foreign/rf/x",
             b"/outside/f", b"lnk", b"dangling", b"loop", b"dirlnk", b"a.lzh", b"x" * 300, b"/arc/" + b"y" * 256,
             b"unreadable", b"-", b"--", b"./-", b"sub/arc.lzh", b"ro/arc.lzh", b"\x1b[31m", b"sp ace"]
    su = [op_link(b"lnk", b"/arc/a.lzh"), op_link(b"dangling", b"nowhere"), op_link(b"loop", b"loop"),
          op_link(b"dirlnk", b"/arc"), op_file(b"unreadable", flat, 0), op_mkdir(b"sub"), op_file(b"sub/arc.lzh", flat),
          op_mkdir(b"ro"), op_file(b"ro/arc.lzh", flat), op_chmod(b"ro", 0), op_file(b"sp ace", flat)]
    for nme in names:
        for c in ["x", "t", "p", "lq2", "xn", "xw=o", "tq1"]:
            lines.append(case([c.encode(), nme], flat, flat if nme == b"-" else b"", su))
    # the archive on standard input, with and without prompts (stdin shared by reader and prompt)
    for a in arcs:
        if a.name in ("flat", "tree", "nodirs", "links", "bad", "trunc"):
            for c in ["x", "xf", "t", "p", "xq1", "xn", "xi", "xw=o", "tq2", "lq2", "vq2"]:
                lines.append(case([c.encode(), b"-"], a.bytes, a.bytes))
                lines.append(case([c.encode(), b"-"], a.bytes, a.bytes + b"y\ny\ny\n"))
                lines.append(case([c.encode(), b"-"], a.bytes, a.bytes + b"y\ny\ny\n", occupy(a)))
                lines.append(case([c.encode(), b"-", b"*"], a.bytes, a.bytes, occupy(a)[:2]))
    return lines


SETUP_PATHS = [b"a", b"b", b"f.txt", b"README", b"d", b"d/e", b"d/a", b"d/e/f", b"l", b"s", b"h", b"h/i", b"m", b"o", b"o/a",
               b"o/d", b"ll", b"lnk", b"k", b"D", b"UPPER.TXT", b"sp ace", b"d/b", b"d/f.txt", b"d/l", b"d/s", b"n", b"e"]
SETUP_TARGETS = [b".", b"d", b"../outside", b"/outside", b"/foreign/ww", b"nowhere", b"a", b"/foreign/rd", b"/", b"..",
                 b"/outside/f", b"d/e", b"o"]


def rand_setup(rnd):
    ops = []
    for _ in range(rnd.choice([0, 0, 1, 2, 3, 5, 8])):
        p = rnd.choice(SETUP_PATHS)
        x = rnd.random()
        if x < 0.35:
            ops.append(op_mkdir(p, rnd.choice([0o755, 0o755, 0o555, 0o700, 0o500, 0, 0o311, 0o1777, 0o2755])))
        elif x < 0.7:
            ops.append(op_file(p, rnd.choice([b"", b"old", b"x" * 100]), rnd.choice([None, None, 0o644, 0o444, 0, 0o600, 0o755])))
        elif x < 0.88:
            ops.append(op_link(p, rnd.choice(SETUP_TARGETS)))
        elif x < 0.95:
            ops.append(op_chmod(rnd.choice([p, b".", b"d"]), rnd.choice([0o555, 0o500, 0, 0o755, 0o311])))
        else:
            ops.append(op_utime(p, rnd.choice(tr.STAMPS[:3])))
    return ops


def fam_random(pool, quick, rnd, n, uid0_share=0.08):
    lines = []
    for _ in range(n):
        x = rnd.random()
        if x < 0.4:
            arc, ms = tr.tree_archive(pool, rnd)
        elif x < 0.8:
            arc, ms = tr.random_archive(pool, rnd)
        else:
            arc, _ = wf_tree(pool, rnd)
        c = rnd.choice(["x"] * 8 + ["e", "e", "t", "t", "p", "p", "l", "v"])
        if rnd.random() < 0.1:
            c = "-" + c
        argv = [(c + rand_opts(rnd)).encode(), rnd.choice([ARC] * 8 + [b"../arc/a.lzh", b"-"])]
        for _ in range(rnd.choice([0, 0, 0, 0, 1, 1, 2, 3])):
            argv.append(rnd.choice(PATTERNS + [b"*", b"*", b"d/*", b"*a*", b"*/*/*", b"h*", b"*l", b"?", b"??*"]))
        stdin = rnd.choice(ANSWERS) + rnd.choice(ANSWERS)
        if argv[1] == b"-":
            stdin = arc + (stdin if rnd.random() < 0.3 else b"")
        lines.append(case(argv, arc, stdin, rand_setup(rnd), uid0=1 if rnd.random() < uid0_share else 0))
    return lines


def comparable(line):
    """The one thing the generators must avoid: a list command (l, v, or a single argument) that
    prints its footer (quiet level < 2) when the archive is standard input -- the footer shows the
    st_mtime of the pipe, i.e. the wall clock."""
    av = case_argv(line)
    if len(av) == 1:
        return av[0] != b"-"
    if len(av) >= 2 and av[1] == b"-":
        c = av[0][1:] if av[0].startswith(b"-") else av[0]
        if c[:1] in (b"l", b"v"):
            rest = c[1:].split(b"w")[0].decode("latin-1")
            quiet = 0
            for i, ch in enumerate(rest):
                if ch == "q":
                    quiet = int(rest[i + 1]) if i + 1 < len(rest) and rest[i + 1].isdigit() else 2
            return quiet >= 2
    return True


# ---------------------------------------------------------------- coverage and oracles (from the C outputs)

class Coverage:
    def __init__(self):
        self.cmd = collections.Counter()
        self.opt = collections.Counter()
        self.wkind = collections.Counter()
        self.out = collections.Counter()
        self.rc = collections.Counter()
        self.nargs = collections.Counter()

    def look(self, line, cout):
        av = case_argv(line)
        t = line.split(" ")
        self.nargs[min(len(av), 5)] += 1
        if t[1] == "1":
            self.opt["(as root)"] += 1
        if len(av) >= 2:
            c = av[0].decode("latin-1")
            body = c[1:] if c.startswith("-") else c
            self.cmd[body[:1] if body[:1] in CMDS else "(other)"] += 1
            rest = body[1:]
            i = 0
            while i < len(rest):
                ch = rest[i]
                if ch == "q":
                    if i + 1 < len(rest) and rest[i + 1].isdigit():
                        self.opt["q" + rest[i + 1]] += 1
                        i += 1
                    else:
                        self.opt["q"] += 1
                elif ch == "w":
                    d = rest[i + 1:].lstrip("=")
                    self.wkind["w: " + ("empty" if d == "" else "absolute" if d.startswith("/") else "with .." if ".." in d
                                        else "nested" if "/" in d.strip("/") else "simple")] += 1
                    break
                elif ch in "finv":
                    self.opt[ch] += 1
                else:
                    self.opt["(invalid)"] += 1
                    break
                i += 1
            if av[1] == b"-":
                self.opt["(archive on stdin)"] += 1
            if len(av) > 2:
                self.opt["(patterns)"] += 1
        ct = cout.split(" ")
        self.rc[ct[0]] += 1
        if len(ct) >= 3:
            try:
                out = b"" if ct[1] == "out=-" else bytes.fromhex(ct[1][4:])
                err = b"" if ct[2] == "err=-" else bytes.fromhex(ct[2][4:])
            except ValueError:
                return
            for key, pat, where in [("prompted", b"OverWrite ?", err), ("skipped", b"Skipped...", out),
                                    ("melted", b"- Melted", out), ("failure", b"- Failure", out),
                                    ("tested", b"- Tested", out), ("crc error", b"- CRC error", out),
                                    ("symlink line", b"Symbolic Link ", out), ("dry-run lines", b"EXTRACT ", out),
                                    ("verify lines", b"VERIFY ", out), ("print banner", b"::::::::", out),
                                    ("usage", b"usage: ", out), ("parent mkdir failed", b"Failed to create parent", err),
                                    ("parent not a directory", b"is not a directory!", err),
                                    ("failed to stat", b"Failed to stat", err),
                                    ("failed to read file type", b"Failed to read file type", err),
                                    ("archive open error", b"LHa: Error:", err), ("list table", b"---------", out),
                                    ("quiet-1 name", b" :", out)]:
                if pat in where:
                    self.out[key] += 1
            if not out and not err:
                self.out["(silent)"] += 1

    def report(self):
        def row(title, c):
            print("  %-10s %s" % (title, "  ".join("%s:%d" % (k, n) for k, n in sorted(c.items(), key=lambda kv: str(kv[0])))))
        print("coverage (all families, from the C side):")
        row("argc-1", self.nargs)
        row("command", self.cmd)
        row("options", self.opt)
        row("w=DIR", self.wkind)
        row("status", self.rc)
        row("outcomes", self.out)


def outside_of(dump):
    """the part of a dump that is not below S/root, without the archive"""
    t = tr.parse_dump(dump)
    return {k: v for k, v in t.items() if not (k == b"root" or k.startswith(b"root/")) and k not in (b"", b"arc/a.lzh")}


# ---------------------------------------------------------------- property oracles on the C outputs

import re


def glob_re(p):
    return re.compile(b"".join(b".*" if c == 42 else b"." if c == 63 else re.escape(bytes([c])) for c in p) + b"\\Z", re.S)


def safe(b):
    return bytes(c if 0x20 <= c < 0x7f else 63 for c in b)


C06_FILE_PERMS = [None, None, 0o100644, 0o100600, 0o100444, 0o100000, 0o100755, 0o100222, 0o644, 0o100400, 0o100777]
C06_DIR_PERMS = [None, 0o40755, 0o40555, 0o40500, 0o40700, 0o40000, 0o40300, 0o755, 0o40711, 0o40644, 0o40777]
C06_STAMPS = [tr.T_A, tr.T_B, tr.T_C, 1, 1234567890, 0]


def c06_archive(pool, rnd):
    """A well-formed archive: every directory entry is followed contiguously by its contents
    (files, links, sub-directories with theirs).  Returns (bytes, spec); spec entries:
    ("dir", path, perms, ts) ("file", full, plain, perms, ts) ("link", full, target, dangerous)"""
    # (no all-capital names: the library lower-cases those for MS-DOS-like OS types)
    names = [b"a", b"b", b"f.txt", b"ReadMe", b"c.c", b"x1", b"y2", b"zz", b"Mm", b"n.n", b"o_o", b"p", b"q.q", b"r", b"t9",
             b"u", b"w w", b"Kk", b"j", b"i", b"g", b"hh", b"ee", b"dd"]
    rnd.shuffle(names)
    names = iter(names)
    spec, ms = [], []

    def lv_for(perms, ts):
        return rnd.choice([1, 2, 3] if perms is None else [0, 1, 2, 3])

    def add_file(d):
        nm = next(names, None)
        if nm is None:
            return
        sd = pool.small(rnd, maxlen=300)
        perms, ts = rnd.choice(C06_FILE_PERMS), rnd.choice(C06_STAMPS)
        lv = lv_for(perms, ts)
        if sd["method"].startswith("-pm") and lv == 0:
            lv = 2                      # (a level-0 PMarc header has no Unix area as far as the library is concerned)
        if sd["method"] == "-lk7-" and ts:
            ts = tr.T_B                 # (file_member turns it into a level-1 LHark header)
        ms.append(tr.file_member(rnd, sd, d + nm, lv, tr.U, perms, rnd.choice(tr.UIDGID), ts))
        spec.append(("file", d + nm, sd["plain"], perms, ts))

    def add_link(d):
        nm = next(names, None)
        if nm is None:
            return
        danger = rnd.random() < 0.4
        t = rnd.choice(tr.TARGETS_DANGER if danger else [b"a", b"f.txt", b"e", b"nowhere", b"b/c", b"./x", b"x|y", b"b/c|d", b"p|q|r", b"a|"])
        ms.append(tr.link_member(rnd, d + nm, t, rnd.choice([0, 1, 2, 3])))
        spec.append(("link", d + nm, t, danger))

    def add_dir(d, depth):
        perms, ts = rnd.choice(C06_DIR_PERMS), rnd.choice(C06_STAMPS)
        ms.append(tr.dir_member(rnd, d, lv_for(perms, ts), perms, rnd.choice(tr.UIDGID), ts))
        spec.append(("dir", d, perms, ts))
        body(d, depth)

    def body(d, depth):
        for _ in range(rnd.choice([0, 1, 1, 2, 3])):
            x = rnd.random()
            if x < 0.62:
                add_file(d)
            elif x < 0.75:
                add_link(d)
            elif depth < 3:
                nm = next(names, None)
                if nm is not None:
                    add_dir(d + nm + b"/", depth + 1)
    body(b"", 0)
    if not any(e[0] == "dir" for e in spec):
        add_dir(b"Dd/", 1)
    body(b"", 0)
    return tr.archive(ms, trailer=rnd.choice([b"\0", b""])), spec


class C06:
    """expected result of extracting a c06_archive, checked on the C side's dump / stdout"""

    def __init__(self):
        self.n = self.checked = 0
        self.bad = collections.OrderedDict()      # signature -> (count, shortest line, detail)

    def cases(self, pool, rnd, n):
        self.meta = {}
        lines = []
        for _ in range(n):
            arc, spec = c06_archive(pool, rnd)
            v = rnd.choice(["x", "x", "e", "xq2", "xf", "xi", "xw", "xpat", "p", "ppat", "over"])
            pats, pre, stdin, setup = [], b"", b"", []
            if v == "xw":
                pre = rnd.choice([b"o", b"o/p", b"new dir", b"o/"])
                cmd = b"xw=" + pre
                pre = pre.rstrip(b"/") + b"/"
            elif v in ("xpat", "ppat"):
                alln = [e[1] for e in spec]
                pats = [rnd.choice([b"*", b"*a*", b"?", b"*/?", b"*/*", b"*.*", b"??*", rnd.choice(alln), rnd.choice(alln)[:1] + b"*", b"*?", b"*?*", b"*?.*", b"**", rnd.choice(alln)[:1] + b"*?" + rnd.choice(alln)[-1:],
                                    rnd.choice(alln)[:1] + b"**" + rnd.choice(alln)[-1:], b"?*?",
                                    b"*" + rnd.choice(alln)[-1:], b"nomatch", rnd.choice(alln).upper()])
                        for _ in range(rnd.choice([1, 1, 2, 3]))]
                cmd = b"x" if v == "xpat" else b"p"
            elif v == "over":
                files = [e for e in spec if e[0] == "file"]
                cmd = rnd.choice([b"x", b"xf", b"xq1", b"e", b"xq0", b"xq", b"xq2", b"eq0", b"x", b"e"])
                ans = []
                for e in files:
                    if rnd.random() < 0.6:
                        parts = e[1].split(b"/")
                        setup += [op_mkdir(b"/".join(parts[:i])) for i in range(1, len(parts))]
                        setup.append(op_file(e[1], b"OLD"))
                        ans.append(rnd.choice([b"y", b"n", b"Y", b"N", b""]))
                seen, su2 = set(), []
                for o in setup:
                    if tuple(o) not in seen:
                        seen.add(tuple(o))
                        su2.append(o)
                setup = su2
                stdin = b"".join(x + b"\n" for x in ans)
                self_ans = ans
            else:
                cmd = v.encode()
            line = case([cmd, ARC] + pats, arc, stdin, setup)
            self.meta[line] = (v, spec, pats, pre, cmd, stdin, setup)
            lines.append(line)
        return lines

    def flag(self, sig, line, detail):
        c, l, d = self.bad.get(sig, (0, None, None))
        if l is None or len(line) < len(l):
            l, d = line, detail
        self.bad[sig] = (c + 1, l, d)

    def look(self, line, cout):
        v, spec, pats, pre, cmd, stdin, setup = self.meta[line]
        self.n += 1
        if "|" not in cout:
            return
        ct = cout.split(" ")
        tree = tr.parse_dump(cout.split("|", 1)[1])
        out = b"" if ct[1] == "out=-" else bytes.fromhex(ct[1][4:])
        res = [glob_re(p) for p in pats]
        sel = [e for e in spec if not pats or any(r.match(e[1]) for r in res)]
        if ct[0] != "rc=0" and not any(e[0] == "link" and e[3] for e in sel):
            self.flag("exit status %s" % ct[0], line, "")
        if cmd[:1] == b"p":
            exp = b""
            for e in sel:
                if e[0] == "file":
                    exp += b"::::::::\n" + safe(e[1]) + b"\n::::::::\n" + e[2]
                elif e[0] == "link":
                    exp += safe(b"Symbolic Link " + e[1] + b" -> " + e[2]) + b"\n"
            self.checked += 1
            if out != exp:
                self.flag("p: stdout is not banner + contents", line, "")
            return
        flat = b"i" in cmd[1:].split(b"w")[0]
        holds_danger = set()
        for e in sel:
            if e[0] == "link" and e[3]:
                holds_danger.add(e[1].rsplit(b"/", 1)[0] + b"/" if b"/" in e[1] else b"")
        self.extra_objects(line, tree, sel, pre, flat)
        answers = stdin.split(b"\n")[:-1] if v == "over" else []
        policy_all = any(ch in cmd[1:] for ch in b"fq")
        ai = 0
        for e in sel:
            kind, full = e[0], e[1]
            where = b"root/" + pre + (full.rstrip(b"/").split(b"/")[-1] if flat else full.rstrip(b"/"))
            ent = tree.get(where)
            self.checked += 1
            if kind == "file":
                keep_old = False
                if v == "over" and op_file(full, b"OLD") in setup and not policy_all:
                    a = answers[ai] if ai < len(answers) else None
                    ai += 1
                    keep_old = a in (b"n", b"N", b"")
                if keep_old:
                    if ent is None or ent[0] != "F" or ent[3] != b"OLD":
                        self.flag("overwrite: answer n but the existing file changed", line, repr(full))
                    continue
                if ent is None or ent[0] != "F":
                    self.flag("file missing", line, repr(full))
                elif ent[3] != e[2]:
                    self.flag("file contents differ", line, repr(full))
                elif e[4] and ent[2] != str(e[4]):
                    self.flag("file mtime %s" % ("not set" if ent[2] == "now" else "wrong"), line, repr(full))
                elif e[3] is not None and ent[1] != "%o" % (e[3] & 0o7777):
                    self.flag("file permissions differ", line, "%s: %s, recorded %o" % (full, ent[1], e[3] & 0o7777))
            elif kind == "dir":
                if flat or op_mkdir(full.rstrip(b"/")) in setup:        # (an existing directory is left as it is)
                    continue
                if ent is None or ent[0] != "D":
                    self.flag("directory missing", line, repr(full))
                elif e[2] is not None and ent[1] != "%o" % (e[2] & 0o7777):
                    self.flag("directory permissions differ", line, "%s: %s, recorded %o" % (full, ent[1], e[2] & 0o7777))
                elif e[3] and full not in holds_danger and ent[2] != str(e[3]):
                    self.flag("directory mtime %s" % ("not set (now)" if ent[2] == "now" else "wrong"), line,
                              "%s: %s, recorded %d" % (full, ent[2], e[3]))
            elif kind == "link" and not e[3]:
                if ent is None or ent[0] != "L" or ent[3] != e[2]:
                    self.flag("safe link missing or wrong target", line, repr(full))

    def extra_objects(self, line, tree, sel, pre, flat):
        """nothing but the selected members (and the directories on their paths) may appear"""
        def loc(full):
            return b"root/" + pre + (full.rstrip(b"/").split(b"/")[-1] if flat else full.rstrip(b"/"))
        allowed = set(loc(e[1]) for e in sel if not (flat and e[0] == "dir"))
        dirs_ok = set()
        for a_ in allowed:
            parts = a_.split(b"/")
            for i in range(1, len(parts)):
                dirs_ok.add(b"/".join(parts[:i]))
        for k, v in tree.items():
            if not k.startswith(b"root/"):
                continue
            if k in allowed or (v[0] == "D" and k in dirs_ok):
                continue
            self.flag("an object that no selected member accounts for", line, "%s %r" % (v[0], k))
            break

    def report(self):
        print("oracle C06 (well-formed archives reproduce their tree; p prints banner + contents; patterns; i; w=; overwrite): "
              "%d invocations, %d objects checked, %d kinds of deviation" % (self.n, self.checked, len(self.bad)))
        for sig, (c, l, d) in self.bad.items():
            t = l.split(" ")
            print("   %-45s %5d cases; shortest: lha %s  stdin=%r  set-up=%s  detail: %s\n      archive hex: %s"
                  % (sig, c, " ".join(repr(x)[1:] for x in case_argv(l)), common.unhex(t[6])[:40],
                     " ".join(show_tok(x) for x in t[7:])[:200] or "-", d, t[5][:1500]))


class C10:
    """Confinement, checked on the model's operation trace (the model agrees with the C on the tree)
    and on the C side's dump: when the tree the tool starts in has no symbolic links and the
    invocation does not itself name a place outside (w= absolute, empty or with '..'), every
    mutating operation resolves below S/root and nothing outside S/root changes; l v t p and
    every dry run perform no mutating operation at all."""

    def __init__(self, model, base_outside):
        self.model = model
        self.base = base_outside
        self.n_quiet = self.n_conf = 0
        self.bad = collections.OrderedDict()

    @staticmethod
    def classify(line):
        """(read-only command?, confinement precondition holds?)"""
        av = case_argv(line)
        t = line.split(" ")
        has_link = "symlink" in t[7:]
        if len(av) < 2:
            return True, False
        c = av[0][1:] if av[0].startswith(b"-") else av[0]
        letter, rest = c[:1], c[1:]
        w = None
        if b"w" in rest:
            i = rest.index(b"w")
            w = rest[i + 1:]
            w = w[1:] if w.startswith(b"=") else w
            rest = rest[:i]
        ro = letter in (b"l", b"v", b"t", b"p") or b"n" in rest or letter not in (b"x", b"e")
        benign_w = w is None or (w != b"" and not w.startswith(b"/") and b".." not in w.split(b"/"))
        return ro, (not has_link) and benign_w

    def flag(self, sig, line, detail):
        c, l, d = self.bad.get(sig, (0, None, None))
        if l is None or len(line) < len(l):
            l, d = line, detail
        self.bad[sig] = (c + 1, l, d)

    def run(self, lines, couts):
        sel = [(l, c) + self.classify(l) for l, c in zip(lines, couts)]
        sel = [x for x in sel if x[2] or x[3]]
        traces = run_lines_parallel([self.model], ["clitrace" + l[3:] for l, _, _, _ in sel])
        for (l, c, ro, conf), tr_ in zip(sel, traces):
            if "FAULT" in tr_ or tr_.startswith("ERR") or "|" not in c:
                continue
            ops = tr_.split()
            if ro:
                self.n_quiet += 1
                if ops:
                    self.flag("read-only command performed " + ops[0].split(":")[0], l, tr_[:200])
            elif conf:
                self.n_conf += 1
                outs = []
                for o in ops:
                    kind, loc = o.split(":")[0], o.split(":")[1]
                    p = common.unhex(loc)
                    if not (p == b"root" or p.startswith(b"root/")):
                        outs.append("%s %s" % (kind, p.decode("latin-1")))
                if outs:
                    self.flag("operation outside the extraction root: " + outs[0].split(" ")[0], l, "; ".join(outs)[:300])
                if outside_of(c.split("|", 1)[1]) != self.base:
                    self.flag("C side: tree outside S/root changed", l, "")

    def report(self):
        print("oracle C10 (confinement on the model's trace + the C side's tree): %d read-only invocations, %d extractions "
              "into a link-free tree, %d kinds of deviation" % (self.n_quiet, self.n_conf, len(self.bad)))
        for sig, (c, l, d) in self.bad.items():
            t = l.split(" ")
            print("   %-55s %5d cases; shortest: lha %s  set-up=%s\n      %s\n      archive hex: %s"
                  % (sig, c, " ".join(repr(x)[1:] for x in case_argv(l)), " ".join(show_tok(x) for x in t[7:])[:200] or "-",
                     d, t[5][:1500]))


# ---------------------------------------------------------------- main

def main():
    ap = argparse.ArgumentParser()
    ap.add_argument("--seed", type=int, default=1)
    ap.add_argument("--quick", action="store_true")
    ap.add_argument("--random", type=int, default=None)
    ap.add_argument("--model", default=None)
    ap.add_argument("--show", type=int, default=6)
    ap.add_argument("--family", default=None)
    ap.add_argument("--dump-mismatches", default=None)
    ap.add_argument("--no-oracles", action="store_true", help="skip the C10 oracle (one more model run per case)")
    a = ap.parse_args()
    rnd = random.Random(a.seed)
    t0 = time.time()
    model = a.model or common.build_model()
    cb = CBuild("cli")
    try:
        srcs = [os.path.join(CDIR, "drv_cli.c")] + [os.path.join(common.REPO, "src", f) for f in common.SRC_SOURCES
                                                    if f != "main.c"] + cb.lib_sources()
        drv = [cb.compile("drv_cli", srcs, extra=["-I" + CDIR, "-DTEST_BUILD"], sanitize=True)]
        mode = subprocess.run(drv + ["--probe"], stdout=subprocess.PIPE).stdout.decode().strip()
        if mode != "chroot":
            print("drv_cli needs root (chroot + setuid 65534 per case): cannot run the differential test")
            return 2
        rdrv = [cb.compile("drv_rdr", [os.path.join(CDIR, "drv_rdr.c")] + cb.lib_sources(), extra=["-I" + CDIR], sanitize=True)]
        pool = tr.Pool(cb, rdrv, rnd)
        print("tool: src/ + lib/ of %s with ASan/UBSan, run by drv_cli (fork + chroot + uid 65534 per case); seeds: %d members"
              % (common.REPO, len(pool.full)))
        arcs = hand_archives(pool)
        q = a.quick
        nr = a.random if a.random is not None else (1200 if q else 20000)
        fam = collections.OrderedDict()
        fam["options"] = fam_options(arcs, q, rnd)
        fam["wildcards"] = fam_wildcards(arcs, q, rnd)
        fam["prompts"] = fam_prompts(arcs, q, rnd)
        fam["readonly"] = fam_readonly(arcs, q, rnd)
        fam["order"] = fam_order(pool, q, rnd, 300 if q else 6000)
        fam["danger"] = fam_danger(pool, arcs, q, rnd, 100 if q else 3000)
        fam["corrupt"] = fam_corrupt(pool, arcs, q, rnd, 200 if q else 5000)
        fam["main"] = fam_main(arcs, q, rnd)
        fam["random"] = fam_random(pool, q, rnd, nr)
        c06 = C06()
        fam["wellformed"] = c06.cases(pool, rnd, 400 if q else 8000)
        if q:
            for k, cap in (("prompts", 1000), ("readonly", 400), ("danger", 600)):
                fam[k] = thin(fam[k], cap, rnd)
        if a.family:
            fam = collections.OrderedDict((k, v) for k, v in fam.items() if k.startswith(a.family))
        cov = Coverage()
        base = [normalise_c(l, c) for l, c in zip([case([b"t", ARC], b"\0")], run_lines_parallel(drv, [case([b"t", ARC], b"\0")]))][0]
        base_out = outside_of(base.split("|", 1)[1])
        base_out = {k: v for k, v in base_out.items() if k != b"arc/a.lzh"}
        c10 = C10(model, base_out)
        total = bad = 0
        allbad, crashes_all = [], []
        quiet_changed = []
        outside = collections.Counter()
        for name, lines in fam.items():
            skipped = [l for l in lines if not comparable(l)]
            lines = [l for l in lines if comparable(l)]
            if skipped:
                print("%-10s %7d cases left out (list footer with the archive on standard input)" % (name, len(skipped)))
            t1 = time.time()
            cout = [normalise_c(l, c) for l, c in zip(lines, run_lines_parallel(drv, lines))]
            t2 = time.time()
            mout = run_lines_parallel([model], lines)
            t3 = time.time()
            mism = [(l, c, m) for l, c, m in zip(lines, cout, mout) if c != m]
            crashes = [(l, c) for l, c in zip(lines, cout) if c.startswith(("rc=99", "rc=98", "rc=SIG", "CRASH", "HANG"))]
            faults = sum(1 for m in mout if "FAULT" in m or "OUTOFFUEL" in m or m.startswith("ERR"))
            print("%-10s %7d cases  %6d mismatches  %d C crashes  %d model faults   C %.0f cases/s, model %.0f cases/s"
                  % (name, len(lines), len(mism), len(crashes), faults, len(lines) / max(t2 - t1, 1e-9),
                     len(lines) / max(t3 - t2, 1e-9)))
            for l, c in zip(lines, cout):
                cov.look(l, c)
                if name == "wellformed":
                    c06.look(l, c)
            if not a.no_oracles:
                if q:       # (quick: every second case)
                    c10.run(lines[::2], cout[::2])
                else:
                    c10.run(lines, cout)
            crashes_all += crashes
            total += len(lines)
            bad += len(mism)
            allbad += mism
            for l, c, m in mism[:a.show]:
                t = l.split(" ")
                i, cc, mm = first_diff(c, m)
                print("  case : lha %s   (uid0=%s, archive %d bytes, stdin %s, set-up: %s)"
                      % (" ".join(repr(x)[1:] for x in case_argv(l)), t[1], len(t[5]) // 2,
                         repr(common.unhex(t[6]))[:60] if len(t[6]) < 200 else "<%d bytes>" % (len(t[6]) // 2),
                         " ".join(show_tok(x) for x in t[7:])[:300] or "-"))
                print("  token %d   C    : %s" % (i, cc))
                print("            model: %s" % mm)
        if a.dump_mismatches:
            with open(a.dump_mismatches, "w") as f:
                for l, c, m in allbad:
                    f.write(l + "\n#C " + c + "\n#M " + m + "\n")
            with open(a.dump_mismatches + ".crashes", "w") as f:
                for l, c in crashes_all:
                    f.write(l + "\n#C " + c[:2000] + "\n")
        cov.report()
        if "wellformed" in fam:
            c06.report()
        if not a.no_oracles:
            c10.report()
        if a.dump_mismatches:
            with open(a.dump_mismatches + ".oracles", "w") as f:
                for o in ([c06] if "wellformed" in fam else []) + ([c10] if not a.no_oracles else []):
                    for sig, (c, l, d) in o.bad.items():
                        f.write("# %s | %s\n%s\n" % (sig, d, l))
        print("compared %d cases: %s  (%.1fs)" % (total, "all agree" if bad == 0 else "%d MISMATCHES" % bad, time.time() - t0))
        return 0 if bad == 0 else 1
    finally:
        cb.close()


if __name__ == "__main__":
    sys.exit(main())

"""Generators, case builders and comparison for the decoder-level properties
(C01-C04, C09, C14)."""
import os, random, hashlib
import common, seeds
from common import hexs

ALL_METHODS = ["-lh0-", "-lz4-", "-pm0-", "-lzs-", "-lz5-", "-lh1-", "-lh4-", "-lh5-", "-lh6-", "-lh7-",
               "-lhx-", "-lk7-", "-pm1-", "-pm2-"]


def fnv(bs):
    h = 0xcbf29ce484222325
    for b in bs:
        h = ((h ^ b) * 1099511628211) & 0xFFFFFFFFFFFFFFFF
    return "%016x" % h


def generated_constants():
    """name -> int for the scalar definitions of coq/Generated.v"""
    import re
    res = {}
    for line in open(os.path.join(common.COQ, "Generated.v")):
        m = re.match(r"Definition (\w+) : N := (\d+)\.", line)
        if m:
            res[m.group(1)] = int(m.group(2))
    return res


def block_size(consts, method):
    key = {"-lh0-": "null", "-lz4-": "null", "-pm0-": "null"}.get(method, method.strip("-"))
    return consts[key + "_block_size"]


def fnv_events(upto, total):
    """hash of the progress sequence (0,total),(1,total),...,(upto,total) as the drivers compute it"""
    h = 0xcbf29ce484222325

    def u64(v):
        nonlocal h
        for i in range(8):
            h = ((h ^ ((v >> (8 * i)) & 0xff)) * 1099511628211) & 0xFFFFFFFFFFFFFFFF
    for b in range(upto + 1):
        u64(b)
        u64(total)
    return "%d:%016x" % (upto + 1, h)


def py_crc(bs, c=0):
    for b in bs:
        c ^= b
        for _ in range(8):
            c = (c >> 1) ^ 0xA001 if c & 1 else c >> 1
    return c


def model_methods(model):
    lines = ["dec %s - - 0 0 -1 0" % m for m in ALL_METHODS]
    out, rc, err = common.run_lines([model], lines)
    return [m for m, o in zip(ALL_METHODS, out) if not o.startswith("NODECODER")]


def case(method, data, chunks, declared, reads, mon=-1, junk=170):
    return "dec %s %s %s %d %s %d %d" % (method, hexs(data), chunks, declared, reads, mon, junk)


def parse(line):
    """'r=.. h=.. len=.. crc=.. icrc=.. ev=.. hex=.. in=..' -> dict, or {'raw': line} for FAULT/CRASH lines"""
    d = {"raw": line}
    if not line.startswith("r="):
        return d
    for tok in line.split():
        k, _, v = tok.partition("=")
        d[k] = v
    d["sizes"] = [int(x) for x in d["r"].replace("OVERREAD", "").split(",") if x.strip().isdigit()] if d.get("r") else []
    return d


def read_schedules(rnd, total, quick=True):
    """a few ways of asking for >= total bytes (+ slack), as 'reads' strings"""
    big = total + 5
    res = ["%d" % big, "%d,%d" % (big, 3)]
    if total <= 600:
        res.append("1*%d" % (total + 3))
    res.append("0,%d,0,%d" % (max(1, total // 3), big))
    parts = []
    rem = big
    while rem > 0 and len(parts) < 40:
        k = rnd.choice([0, 1, 2, 3, 7, 64, 1000, rnd.randrange(1, max(2, big))])
        parts.append(k)
        rem -= k
    parts.append(big)
    res.append(",".join(map(str, parts)))
    return res


def chunkings(rnd):
    return rnd.choice(["-", "-", "1", "2", "3", "1,2", "2,3", "4,1,7", "5", "1000"])


def mutate(rnd, data, head=64):
    b = bytearray(data)
    if not b:
        return bytes([rnd.randrange(256)])
    n = rnd.choice([1, 1, 2, 3, 8])
    for _ in range(n):
        lim = min(len(b), head) if rnd.random() < 0.7 else len(b)
        i = rnd.randrange(lim)
        k = rnd.randrange(4)
        if k == 0:
            b[i] ^= 1 << rnd.randrange(8)
        elif k == 1:
            b[i] = rnd.choice([0, 0xff, rnd.randrange(256)])
        elif k == 2 and len(b) > 1:
            del b[i]
        else:
            b.insert(i, rnd.randrange(256))
    return bytes(b)


# ---- Python-side encoders for the simple formats (used only to make inputs;
#      the spec encoders in Coq are the reference for expected outputs) ----

def rand_acmds(rnd, n, size, lmin, lmax, aim=None):
    cmds = []
    for _ in range(n):
        r = rnd.random()
        if r < 0.55:
            cmds.append("L%02x" % rnd.randrange(256))
        else:
            pos = rnd.choice([0, 1, size - 1, size - 17, size - 18, size - 19, size // 2, rnd.randrange(size)])
            ln = rnd.choice([lmin, lmax, rnd.randrange(lmin, lmax + 1)])
            cmds.append("C%d:%d" % (pos, ln))
    return ",".join(cmds) if cmds else "-"


def compare(ctx, cexe, lines, jobs=None):
    co = common.run_lines_parallel([cexe], lines, jobs=jobs)
    mo = common.run_lines_parallel([ctx.model], lines, jobs=jobs)
    return co, mo

#!/usr/bin/env python3
"""Round-trip validation of the PMarc SPECIFICATION encoders (coq/S_Pm.v,
extracted; runner commands pm2enc / pm1enc / pm2raw of harness/ml/d_enc_pm.ml)
against the real C decoders of /repo (lib/pm1_decoder.c, lib/pm2_decoder.c
through harness/c/drv_dec.c, built with ASan):

  command list --(spec auto-builder + serialiser)--> stream
  stream --(C decoder, declared length = expansion length)--> bytes
  require  fnv(bytes) == fnv(spec expansion)  and  len == expansion length
  (and, as a third opinion, == the expansion computed here in Python).

Generated command lists
  pm2: every rebuild point (1024, 2048, 4096, 8192, 12288, 16384, 20480)
       reached exactly by a literal (and the stream ending there), and in the
       middle of a copy at every split of copies of 256, 17, 16, 3, 2 (...)
       bytes; history positions and copy lengths at both ends of all eight /
       six classes; distances at both ends of every distance class the
       segment allows (including distances before the start = spaces);
       single-code tables; random lists; 16 table-building variants.
  pm1: every start header 0..31 (literals restricted to the classes its tree
       reaches, header 17 = the BROKEN tree included); output positions
       T-1, T, T+1 for T in 64, 320, 576, 832, 1088, 1600, 2624, 2880, 3136,
       3648, 4672, 6720 with copies of every type valid there at both ends of
       the distance class, as stand-alone copies and as copies following a
       block; block lengths 1..433 around the coding boundaries (215/216/217);
       copy lengths at class boundaries; streams with all-zero tails.
       Zero-extension rule on the C: each stream is also decoded with its
       trailing zero bytes removed (all / one) and with extra zero bytes.
  real members (-pm1-/-pm2- of /repo/test/archives): decoded with the C,
       re-encoded as literal-only streams for both methods, decoded again;
       and parsed (pmparse.py) into a stream description which must be wf and
       which the spec serialiser must turn back into the ORIGINAL stream.
  A few invalid command lists must be rejected by wf_pm2 / wf_pm1.

Usage: test_enc_pm.py [--seed N] [--quick] [--seed-cap BYTES]
Exit 0: every case agrees.  Exit 1: a disagreement (printed).
"""
import os, sys, time, random, argparse
import re
import common, decgen, seeds, pmparse
from common import CBuild, CDIR

MTF0 = (list(range(0x20, 0x80)) + list(range(0x00, 0x20)) + list(range(0xa0, 0xe0)) +
        list(range(0x80, 0xa0)) + list(range(0xe0, 0x100)))


class Gen:
    """builds a command list and, independently of the Coq side, its expansion"""

    def __init__(self, fill):
        self.out = bytearray()
        self.mtf = list(MTF0)
        self.cmds = []
        self.fill = fill

    @property
    def n(self):
        return len(self.out)

    def _emit(self, b):
        self.out.append(b)
        self.mtf.remove(b)
        self.mtf.insert(0, b)

    def lit(self, v):
        self.cmds.append("B%02x" % v)
        self._emit(v)

    def litpos(self, p):
        self.lit(self.mtf[p])

    def copy(self, dist, ln):
        self.cmds.append("C%d:%d" % (dist, ln))
        for _ in range(ln):
            i = len(self.out) - 1 - dist
            self._emit(self.out[i] if i >= 0 else self.fill)

    def line(self):
        return ",".join(self.cmds) if self.cmds else "-"


# ---------------------------------------------------------------- pm2

PM2_THRESH = [1024, 2048, 4096, 8192, 12288, 16384, 20480]
PM2_LITPOS = [0, 7, 8, 15, 16, 31, 32, 63, 64, 95, 96, 127, 128, 191, 192, 255]
PM2_LENS = list(range(2, 17)) + [17, 24, 25, 32, 33, 64, 65, 128, 129, 255, 256]
PM2_DISTS = [0, 1, 63, 64, 127, 128, 255, 256, 511, 512, 1023, 1024, 2047, 2048, 4095, 4096, 8191]


def pm2_maxdist(n):
    return 1023 if n < 1024 else 2047 if n < 2048 else 4095 if n < 4096 else 8191


def pm2_copy_ok(n, dist, ln):
    if ln == 2:
        return dist < 64
    return 3 <= ln <= 256 and dist <= pm2_maxdist(n)


def pm2_rand_cmd(g, rnd, maxlen=256):
    if rnd.random() < 0.45 or maxlen < 2:
        g.litpos(rnd.choice(PM2_LITPOS + [rnd.randrange(256)] * 8))
        return
    ln = rnd.choice([rnd.randrange(2, 17), rnd.choice(PM2_LENS), rnd.randrange(2, 257)])
    ln = min(ln, maxlen)
    if ln == 2:
        dist = rnd.choice([0, 63, rnd.randrange(64)])
    else:
        md = pm2_maxdist(g.n)
        dist = rnd.choice([d for d in PM2_DISTS if d <= md] + [rnd.randrange(md + 1)] * 6)
    g.copy(dist, ln)


def pm2_fill(g, target, rnd, mixed_tail=120):
    """bring the output to exactly [target] bytes"""
    while g.n < target:
        rem = target - g.n
        if rem > mixed_tail + 256 and rnd.random() < 0.93:
            g.copy(rnd.choice([0, 1, 7, rnd.randrange(pm2_maxdist(g.n) + 1)]), 256 if rnd.random() < 0.7 else rnd.randrange(3, 257))
        else:
            pm2_rand_cmd(g, rnd, maxlen=min(rem, 256))
    assert g.n == target


def gen_pm2(rnd, quick):
    cases = []      # (tag, cmdline, variant, Gen)

    def add(tag, g, variant):
        cases.append((tag, g.line(), variant, g))
    # A. rebuild point reached exactly by a literal
    for T in PM2_THRESH:
        for variant in range(16):
            g = Gen(0x20)
            pm2_fill(g, T - 1, rnd)
            g.litpos(rnd.choice(PM2_LITPOS))
            for _ in range(rnd.randrange(1, 40)):
                pm2_rand_cmd(g, rnd)
            add("lit@%d" % T, g, variant)
            # ... and the stream ENDS exactly at the rebuild point
            if variant < 4:
                g = Gen(0x20)
                pm2_fill(g, T - 1, rnd)
                g.litpos(rnd.choice(PM2_LITPOS))
                add("end@%d" % T, g, variant)
    # B. rebuild point in the middle of a copy, every split
    for T in PM2_THRESH:
        for L in ([256, 17, 2, 3, 16] if quick else [256, 17, 2, 3, 16, 129, 24, 25, 33, 65]):
            for j in range(1, L):
                g = Gen(0x20)
                pm2_fill(g, T - j, rnd)
                if L == 2:
                    dist = rnd.choice([0, 63, rnd.randrange(64)])
                else:
                    md = pm2_maxdist(g.n)
                    dist = rnd.choice([0, 1, md, rnd.randrange(md + 1)])
                g.copy(dist, L)
                for _ in range(rnd.randrange(1, 25)):
                    pm2_rand_cmd(g, rnd)
                add("copy%d@%d-%d" % (L, T, j), g, rnd.randrange(16))
    # C. ends of every literal class / copy-length class / distance class
    for base in [0, 1, 700, 1500, 3000, 5000, 9000]:
        for variant in (0, 1, 4, 7):
            g = Gen(0x20)
            pm2_fill(g, base, rnd)
            for p in PM2_LITPOS:
                g.litpos(p)
                if rnd.random() < 0.3:
                    pm2_rand_cmd(g, rnd)
            add("litpos@%d" % base, g, variant)
        for ln in PM2_LENS:
            g = Gen(0x20)
            pm2_fill(g, base, rnd)
            for dist in PM2_DISTS:
                if pm2_copy_ok(g.n, dist, ln):
                    g.litpos(rnd.randrange(256))
                    g.copy(dist, ln)
            add("len%d@%d" % (ln, base), g, rnd.randrange(16))
    # D. single-code tables and other degenerate code sets
    for variant in (0, 2, 4, 6):
        for n in (1, 5, 1023, 1024, 1025, 4100, 9000):
            g = Gen(0x20)
            for _ in range(n):
                g.lit(0x20)                       # always history position 0: only code 0
            add("single-lit", g, variant)
        for n in (1, 4, 5, 17, 40):
            g = Gen(0x20)
            for _ in range(n):
                g.copy(0, 256)                    # only code 28 (no offset table)
            add("single-28", g, variant)
            g = Gen(0x20)
            for _ in range(n * 20):
                g.copy(5, 5)                      # only code 11, one distance class
            add("single-copy5", g, variant)
            g = Gen(0x20)
            for _ in range(n * 40):
                g.copy(3, 2)                      # only code 8 (fewer than 10 codes: no offset table)
            add("single-copy2", g, variant)
            g = Gen(0x20)
            for i in range(12):
                g.lit(0x41 + i)
            for i in range(n * 3):
                g.copy(7 if i % 2 else 0, 256)    # 256 at a distance other than 0 next to code 28
            add("256-mixed", g, variant)
    # F. a whole segment (from one table re-read point to the next) made of ONE kind of copy command, after
    #    varied data, so that its code table is the single-code form of a code that carries a distance (and an
    #    offset table must follow) and a wrong distance changes the output
    for T, T2 in zip(PM2_THRESH[:-1], PM2_THRESH[1:]):
        for ln in ([3, 9, 64] if quick else [3, 4, 5, 8, 9, 16, 17, 24, 32, 64, 128, 200, 256]):
            for variant in ((0, 4) if quick else (0, 2, 4, 6)):
                g = Gen(0x20)
                while g.n < T - 1:
                    if T - 1 - g.n > 300 and rnd.random() < 0.2:
                        g.copy(rnd.randrange(1, min(g.n, 1000) + 1) if g.n else 0, rnd.randrange(3, 40))
                    else:
                        g.lit(rnd.randrange(256))
                g.lit(rnd.randrange(256))
                dist = rnd.choice([1, 17, 63, 200, 1000]) if ln > 2 else rnd.randrange(1, 64)
                while g.n < T2 + 5:
                    g.copy(dist, ln)
                add("single-seg%d@%d" % (ln, T), g, variant)
    # E. random command lists
    for i in range(150 if quick else 600):
        g = Gen(0x20)
        target = rnd.choice([rnd.randrange(1, 300), rnd.randrange(1, 3000), rnd.randrange(1, 30000)])
        style = rnd.random()
        while g.n < target:
            if style < 0.5:
                pm2_rand_cmd(g, rnd)
            elif style < 0.75:
                g.litpos(rnd.randrange(256))
            else:
                pm2_rand_cmd(g, rnd, maxlen=rnd.choice([2, 16, 256]))
        add("rand", g, rnd.randrange(16))
    return cases


PM2_INVALID = ["C64:2", "B41,C1024:3", "B41,C0:257", "B41,C0:1", "B100", "B41,C8192:5"]

# ---------------------------------------------------------------- pm1

PM1_CLASSES = {}
for h in range(0, 17):
    PM1_CLASSES[h] = [0, 1, 2, 3, 4, 5]
PM1_CLASSES[17] = [2, 3, 4]                       # the tree marked BROKEN in the source
for h in range(18, 24):
    PM1_CLASSES[h] = [0, 1, 2, 3, 4]
for h in range(24, 29):
    PM1_CLASSES[h] = [0, 1, 2, 3]
PM1_CLASSES[29] = [0, 1, 2]
PM1_CLASSES[30] = [0, 1]
PM1_CLASSES[31] = [0]
PM1_CLASS_RANGE = [(0, 15), (16, 31), (32, 63), (64, 127), (128, 191), (192, 255)]
PM1_THRESH = [64, 320, 576, 832, 1088, 1600, 2624, 2880, 3136, 3648, 4672, 6720]
PM1_BLOCKS = [1, 2, 3, 4, 10, 11, 24, 25, 88, 89, 215, 216, 217, 431, 432, 433]
PM1_LENS = [2, 3, 5, 6, 10, 11, 14, 15, 22, 23, 84, 85, 116, 117, 243, 244]
PM1_DISTS2 = [0, 63, 64, 319]
PM1_DISTS = [0, 63, 64, 575, 576, 2623, 2624, 10815]


def pm1_lit(g, rnd, classes):
    lo, hi = PM1_CLASS_RANGE[rnd.choice(classes)]
    g.litpos(rnd.choice([lo, hi, rnd.randrange(lo, hi + 1)]))


def pm1_dists(n, ln):
    """valid distances at output position n, biased to class ends"""
    lim = min(320 if ln == 2 else 10816, n)
    return [d for d in (PM1_DISTS2 if ln == 2 else PM1_DISTS) if d < lim] + [lim - 1]


def pm1_rand_cmd(g, rnd, classes, maxlen=244):
    if g.n == 0 or maxlen < 2 or rnd.random() < 0.5:
        pm1_lit(g, rnd, classes)
        return
    ln = min(maxlen, rnd.choice([2, rnd.choice(PM1_LENS), rnd.randrange(2, 30), rnd.randrange(2, 245)]))
    lim = min(320 if ln == 2 else 10816, g.n)
    g.copy(rnd.choice(pm1_dists(g.n, ln) + [rnd.randrange(lim)] * 4), ln)


def pm1_free_fill(g, target, rnd, classes):
    while g.n < target:
        rem = target - g.n
        if g.n == 0 or rem == 1:
            pm1_lit(g, rnd, classes)
        elif rem > 600 and rnd.random() < 0.8:
            g.copy(rnd.choice(pm1_dists(g.n, 244)), 244)
        else:
            pm1_rand_cmd(g, rnd, classes, maxlen=min(244, rem))
    assert g.n == target, (g.n, target)


def pm1_fill(g, target, rnd, classes, last=None):
    """bring the output to exactly [target]; last = 'lit' / 'copy' forces the
    kind of the final command (so that the next copy follows a block / is a
    stand-alone item)"""
    if last == "copy" and target - g.n >= 3:
        r = rnd.choice([2, 3, rnd.randrange(2, min(244, target - g.n - 1) + 1)])
        r = min(r, target - g.n - 1)
        pm1_free_fill(g, target - r, rnd, classes)
        g.copy(rnd.choice(pm1_dists(g.n, r)), r)
    elif last == "lit" and target - g.n >= 1:
        pm1_free_fill(g, target - 1, rnd, classes)
        pm1_lit(g, rnd, classes)
    else:
        pm1_free_fill(g, target, rnd, classes)
    assert g.n == target, (g.n, target)


def gen_pm1(rnd, quick):
    cases = []      # (tag, header arg, cmdline, Gen)

    def add(tag, g, hdr):
        cases.append((tag, str(hdr), g.line(), g))
    # A. every start header, literals restricted to the classes its tree reaches
    for h in range(32):
        for i in range(8 if quick else 14):
            g = Gen(0)
            target = rnd.choice([rnd.randrange(1, 100), rnd.randrange(1, 1500), rnd.randrange(1, 9000)])
            while g.n < target:
                pm1_rand_cmd(g, rnd, PM1_CLASSES[h])
            add("hdr%d" % h, g, h)
        # every reachable class at both ends, as one block
        g = Gen(0)
        for c in PM1_CLASSES[h]:
            lo, hi = PM1_CLASS_RANGE[c]
            g.litpos(lo)
            g.litpos(hi)
        add("hdr%d-classes" % h, g, h)
    # B. output positions around every distance-width / type-bit threshold
    for T in PM1_THRESH:
        for delta in (-1, 0, 1):
            pos = T + delta
            for last in ("lit", "copy"):
                for ln in (2, 3, rnd.choice(PM1_LENS[2:])):
                    for dist in pm1_dists(pos, ln):
                        h = rnd.randrange(17)
                        g = Gen(0)
                        pm1_fill(g, pos, rnd, PM1_CLASSES[h], last=last)
                        g.copy(dist, ln)
                        pm1_lit(g, rnd, PM1_CLASSES[h])
                        g.copy(rnd.choice(pm1_dists(g.n, 5)), 5)
                        pm1_lit(g, rnd, PM1_CLASSES[h])
                        add("thr%d%+d-%s" % (T, delta, last), g, h)
    # B2. the core of B, kept whole in the quick tier: a copy of every distance class issued when EXACTLY T-1, T and
    #     (thorough) T-8..T+8 bytes have been output
    for T in PM1_THRESH:
        for delta in ((-1, 0) if quick else range(-8, 9)):
            pos = T + delta
            for dist in sorted(set(pm1_dists(pos, 3) + [d - 1 for d in pm1_dists(pos, 3) if d > 0])):
                h = rnd.randrange(17)
                g = Gen(0)
                pm1_fill(g, pos, rnd, PM1_CLASSES[h], last="lit")
                g.copy(dist, 3)
                pm1_lit(g, rnd, PM1_CLASSES[h])
                add("thrcore%d%+d" % (T, delta), g, h)
    # C. block lengths
    for bl in PM1_BLOCKS:
        for follow in (True, False):
            for pre in (0, 1, 300):
                h = rnd.randrange(17)
                g = Gen(0)
                if pre:
                    pm1_fill(g, pre, rnd, PM1_CLASSES[h], last="copy" if pre > 1 else None)
                    if g.cmds[-1][0] != "C":
                        g.copy(0, 2)
                for _ in range(bl):
                    pm1_lit(g, rnd, PM1_CLASSES[h])
                if follow:
                    g.copy(rnd.choice(pm1_dists(g.n, 7)), 7)
                    pm1_lit(g, rnd, PM1_CLASSES[h])
                add("block%d" % bl, g, h)
    # D. copy lengths at class boundaries x distances at class ends, far into the stream
    for base in (1, 70, 700, 3000, 11000):
        for ln in PM1_LENS:
            for last in ("lit", "copy"):
                h = rnd.randrange(17)
                g = Gen(0)
                pm1_fill(g, base, rnd, PM1_CLASSES[h], last=last)
                for dist in pm1_dists(g.n, ln):
                    g.copy(dist, ln)
                    if rnd.random() < 0.5:
                        pm1_lit(g, rnd, PM1_CLASSES[h])
                add("len%d@%d" % (ln, base), g, h)
    # E. random, header chosen by pm1_pick_header
    for i in range(100 if quick else 400):
        g = Gen(0)
        classes = rnd.choice([[0], [0, 1], [0, 1, 2], [0, 1, 2, 3], [2, 3, 4], [0, 1, 2, 3, 4, 5]])
        target = rnd.choice([rnd.randrange(1, 300), rnd.randrange(1, 3000), rnd.randrange(1, 20000)])
        while g.n < target:
            pm1_rand_cmd(g, rnd, classes)
        add("rand", g, "a%d" % rnd.randrange(32))
    # F. streams whose tail is all zero bits (runs of "2 bytes at distance 0")
    for k in (1, 2, 7, 8, 9, 40, 200):
        for pre in (1, 30, 63, 64, 65, 575, 576, 577, 3000):
            h = rnd.randrange(17)
            g = Gen(0)
            pm1_fill(g, pre, rnd, PM1_CLASSES[h])
            for _ in range(k):
                g.copy(0, 2)
            add("zerotail%d@%d" % (k, pre), g, h)
    return cases


PM1_INVALID = [("0", "C0:2"), ("0", "B41,C1:2"), ("0", "B41,C0:245"), ("31", "B41"), ("30", "B41"),
               ("0", "B41,B42,B43,C320:2"), ("32", "B20"), ("17", "B20")]


# ---------------------------------------------------------------- run

def dec_line(meth, stream, n):
    return "dec %s %s - %d %d -1 0" % (meth, common.hexs(stream), n, n + 5)


def main():
    ap = argparse.ArgumentParser()
    ap.add_argument("--seed", type=int, default=1)
    ap.add_argument("--quick", action="store_true")
    ap.add_argument("--seed-cap", type=int, default=2000000,
                    help="re-encode at most this many decoded bytes of each real member")
    a = ap.parse_args()
    rnd = random.Random(a.seed)
    t0 = time.time()
    model = common.build_model()
    cb = CBuild("encpm")
    bad = []
    try:
        cexe = cb.compile("drv_dec", [os.path.join(CDIR, "drv_dec.c")] + cb.lib_sources())
        dump = cb.compile("drv_dump", [os.path.join(CDIR, "drv_dump.c")] + cb.lib_sources())
        print("built in %.1fs" % (time.time() - t0))

        def fail(kind, tag, detail):
            bad.append((kind, tag, detail))
            if len(bad) <= 15:
                print("FAIL", kind, tag, detail[:600])

        # ---------------- invalid command lists must be rejected by wf
        inv = ["pm2enc %s 0" % c for c in PM2_INVALID] + ["pm1enc %s %s" % hc for hc in PM1_INVALID]
        out, rc, err = common.run_lines([model], inv)
        for l, o in zip(inv, out):
            if len(o.split()) < 4 or o.split()[3] != "0":
                fail("wf-accepts-invalid", l, o[:200])
        print("invalid command lists rejected: %d" % len(inv))

        # ---------------- pm2
        t1 = time.time()
        c2 = gen_pm2(rnd, a.quick)
        enc = common.run_lines_parallel([model], ["pm2enc %s %d" % (c[1], c[2]) for c in c2])
        dl = []
        meta = []
        for (tag, line, variant, g), o in zip(c2, enc):
            p = o.split()
            if len(p) != 4 or p[3] != "1":
                fail("pm2-encoder-rejects", tag, "variant %d: %s | %s" % (variant, o[:100], line[:300]))
                continue
            if int(p[1]) != g.n or p[2] != decgen.fnv(g.out):
                fail("pm2-expansion-differs-from-python", tag, "%s vs %d %s" % (o[-40:], g.n, decgen.fnv(g.out)))
                continue
            dl.append(dec_line("-pm2-", common.unhex(p[0]), g.n))
            meta.append((tag, variant, p[2], g.n, line))
        co = common.run_lines_parallel([cexe], dl)
        ok2 = 0
        tags2 = {}
        for (tag, variant, h, n, line), c in zip(meta, co):
            pc = decgen.parse(c)
            if pc.get("h") != h or pc.get("len") != str(n):
                fail("pm2-decode-differs", tag, "variant %d expected %s/%d got %s | %s" % (variant, h, n, c[:160], line[:400]))
            else:
                ok2 += 1
                k = re.sub(r"[-+]?\d+", "#", tag)
                tags2[k] = tags2.get(k, 0) + 1
        print("pm2: %d cases, %d agree  (%.1fs)  %s" % (len(c2), ok2, time.time() - t1, tags2))

        # ---------------- pm1
        t1 = time.time()
        c1 = gen_pm1(rnd, a.quick)
        enc = common.run_lines_parallel([model], ["pm1enc %s %s" % (c[1], c[2]) for c in c1])
        dl = []
        meta = []
        for (tag, hdr, line, g), o in zip(c1, enc):
            p = o.split()
            if len(p) != 5 or p[3] != "1":
                fail("pm1-encoder-rejects", tag, "hdr %s: %s | %s" % (hdr, o[:100], line[:300]))
                continue
            if int(p[1]) != g.n or p[2] != decgen.fnv(g.out):
                fail("pm1-expansion-differs-from-python", tag, "%s vs %d %s" % (o[-40:], g.n, decgen.fnv(g.out)))
                continue
            stream = common.unhex(p[0])
            if not hdr.startswith("a") and stream[0] >> 3 != int(hdr):
                fail("pm1-header-bits", tag, "%s" % p[0][:4])
            # the stream itself, the stream without its trailing zero bytes, and with extra ones
            stripped = stream.rstrip(b"\x00")
            for kind, s in (("", stream), ("strip", stripped), ("cut1", stream[:-1] if stream[-1:] == b"\x00" else stream),
                            ("ext", stream + bytes(rnd.randrange(1, 9)))):
                dl.append(dec_line("-pm1-", s, g.n))
                meta.append((tag, kind, p[4], p[2], g.n, line, len(stream) - len(s)))
        co = common.run_lines_parallel([cexe], dl)
        ok1 = 0
        okz = 0
        zbytes = 0
        tags1 = {}
        for (tag, kind, hdr, h, n, line, removed), c in zip(meta, co):
            pc = decgen.parse(c)
            if pc.get("h") != h or pc.get("len") != str(n):
                fail("pm1-decode-differs" + ("-zero-ext:" + kind if kind else ""), tag,
                     "hdr %s expected %s/%d got %s | %s" % (hdr, h, n, c[:160], line[:400]))
            elif kind == "":
                ok1 += 1
                k = re.sub(r"[-+]?\d+", "#", tag)
                tags1[k] = tags1.get(k, 0) + 1
            else:
                okz += 1
                if kind == "strip":
                    zbytes += removed
        print("pm1: %d cases, %d agree; zero-extension variants agree: %d (trailing zero bytes removed in total: %d)  (%.1fs)  %s"
              % (len(c1), ok1, okz, zbytes, time.time() - t1, tags1))

        # ---------------- real members: decode, re-encode as literals only, decode again
        t1 = time.time()
        ms = [m for m in seeds.harvest(cb) if m["method"] in ("-pm1-", "-pm2-")]
        out, rc, err = common.run_lines([dump], ["dump %s %s %d" % (m["method"], common.hexs(m["data"]), m["length"]) for m in ms], timeout=900)
        encl, metas = [], []
        for m, o in zip(ms, out):
            p = o.split()
            data = common.unhex(p[2]) if len(p) == 3 else b""
            if len(p) != 3 or int(p[0]) != m["length"] or int(p[1], 16) != m["crc"]:
                fail("seed-decode", m["path"], o[:80])
                continue
            data = data[:a.seed_cap]
            cmds = ",".join("B%02x" % b for b in data) if data else "-"
            for meth in ("-pm1-", "-pm2-"):
                if meth == "-pm2-":
                    for variant in (0, 3):
                        encl.append("pm2enc %s %d" % (cmds, variant))
                        metas.append((meth, m, data))
                else:
                    encl.append("pm1enc a%d %s" % (rnd.randrange(32), cmds))
                    metas.append((meth, m, data))
        eo = common.run_lines_parallel([model], encl, timeout=3000)
        dl, dm = [], []
        for (meth, m, data), o in zip(metas, eo):
            p = o.split()
            if len(p) < 4 or p[3] != "1" or int(p[1]) != len(data) or p[2] != decgen.fnv(data):
                fail("seed-reencode", "%s %s[%d]" % (meth, m["path"], m["index"]), o[-80:])
                continue
            dl.append(dec_line(meth, common.unhex(p[0]), len(data)))
            dm.append((meth, m, data, len(p[0]) // 2))
        co = common.run_lines_parallel([cexe], dl, timeout=3000)
        oks = 0
        for (meth, m, data, slen), c in zip(dm, co):
            pc = decgen.parse(c)
            if pc.get("h") != decgen.fnv(data) or pc.get("len") != str(len(data)):
                fail("seed-literal-roundtrip", "%s %s[%d]" % (meth, m["path"], m["index"]), c[:160])
            else:
                oks += 1
                print("  seed %s[%d] (%s, %d bytes) as literal-only %s: %d stream bytes, ok"
                      % (os.path.basename(m["path"]), m["index"], m["method"], len(data), meth, slen))
        print("seed literal re-encodings: %d, %d agree  (%.1fs)" % (len(encl), oks, time.time() - t1))

        # ---------------- real members: parse into a description (pmparse.py), serialise with the
        # spec, require the ORIGINAL stream byte for byte and wf = 1
        t1 = time.time()
        rl, rm = [], []
        for m in ms:
            try:
                if m["method"] == "-pm2-":
                    first, segs, notes, outb, used = pmparse.parse_pm2(m["data"], m["length"])
                    for nt in notes:
                        print("  note %s: %s" % (os.path.basename(m["path"]), nt))
                    rl.append(pmparse.raw_pm2_line(first, segs))
                else:
                    hdr, cmds, outb, used = pmparse.parse_pm1(m["data"], m["length"])
                    rl.append("pm1enc %d %s" % (hdr, ",".join(cmds)))
                rm.append((m, outb))
            except Exception as e:
                fail("seed-parse", m["path"], repr(e))
        ro = common.run_lines_parallel([model], rl, timeout=3000)
        okr = 0
        for (m, outb), o in zip(rm, ro):
            p = o.split()
            name = "%s[%d]" % (os.path.basename(m["path"]), m["index"])
            if len(p) < 4 or p[3] != "1":
                fail("seed-description-not-wf", name, o[-60:])
                continue
            s = common.unhex(p[0])
            same = s == m["data"] or (m["method"] == "-pm1-" and s.rstrip(b"\x00") == m["data"].rstrip(b"\x00"))
            if not same or int(p[1]) < m["length"] or decgen.py_crc(outb[:m["length"]]) != m["crc"]:
                fail("seed-reserialise-differs", name, "%d vs %d bytes" % (len(s), len(m["data"])))
            else:
                okr += 1
                print("  seed %s (%s, %d -> %d bytes): description is wf, spec serialiser reproduces the stream exactly"
                      % (name, m["method"], len(m["data"]), m["length"]))
        print("seed streams reproduced by the spec serialiser: %d of %d  (%.1fs)" % (okr, len(ms), time.time() - t1))
    finally:
        cb.close()
    print("total %.1fs; failures: %d" % (time.time() - t0, len(bad)))
    sys.exit(1 if bad else 0)


if __name__ == "__main__":
    main()

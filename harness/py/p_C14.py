"""C14 -- decoder reads: split-invariant, exact declared length, faithful CRC/length, progress."""
import os, random, hashlib, collections
import common, decgen, seeds
from common import CBuild

PID = "C14"
TRUSTED = ["C driver harness/c/drv_dec.c (public decoder API, callback pre-fills its buffer with the junk byte)",
           "the theorems are stated for any inner decoder that returns with a chunk <= max_read (hypothesis dread_total)"]
ASSUMPTIONS = ["read sizes and their sum are below 2^62", "input callback returns at most the bytes asked for",
               "progress events: theorems progress_split_invariant / progress_counts_up (model) + direct oracle on the C"]


def build(cb):
    return cb.compile("drv_dec", [os.path.join(common.CDIR, "drv_dec.c")] + cb.lib_sources())


def streams(ctx, rnd, cb):
    """(method, data, true_len or None, kind)"""
    res = []
    sd = seeds.harvest(cb)
    by = collections.defaultdict(list)
    for s in sd:
        if s["method"] in decgen.ALL_METHODS:
            by[s["method"]].append(s)
    lim = 12000 if ctx.quick else 400000
    per = 3 if ctx.quick else 12
    for m in decgen.ALL_METHODS:
        cands = [s for s in by.get(m, []) if len(s["data"]) <= lim and s["length"] <= 8 * lim]
        rnd.shuffle(cands)
        for s in cands[:per]:
            res.append((m, s["data"], s["length"], "valid"))
            d = s["data"]
            if len(d) > 4:
                res.append((m, d[:rnd.randrange(1, len(d))], s["length"], "truncated"))
                res.append((m, decgen.mutate(rnd, d), s["length"], "mutated"))
        for _ in range(per):
            n = rnd.choice([0, 1, 2, 5, 40, 300, 2000])
            res.append((m, bytes(rnd.randrange(256) for _ in range(n)), rnd.choice([0, 1, 50, 700, 5000]), "random"))
    return res


def run(ctx):
    rnd = random.Random(ctx.seed * 15485863 + 14)
    cb = CBuild(PID)
    viol, mism = [], []
    dist = collections.Counter()
    try:
        cexe = build(cb)
        consts = decgen.generated_constants()
        modelled = set(decgen.model_methods(ctx.model))
        lines, meta = [], []     # meta: (group id, method, declared, monitor_at, nreads, kind)
        gid = 0
        # corpus first: minimised failures (each file is one group of schedules over the same stream)
        import glob
        for p in sorted(glob.glob(os.path.join(common.VERIF, "corpus", PID, "*.txt"))):
            gid += 1
            for l in open(p):
                l = l.strip()
                if l:
                    t = l.split()
                    reads = t[5]
                    nreads = sum((int(x.split("*")[1]) if "*" in x else 1) for x in reads.split(","))
                    lines.append(l)
                    meta.append((gid, t[1], int(t[4]), int(t[6]), nreads, "corpus"))
                    dist["corpus"] += 1
        for (m, data, tlen, kind) in streams(ctx, rnd, cb):
            decls = {tlen}
            if kind == "valid":
                decls |= {0, 1, max(0, tlen - 1), tlen + 1, tlen + 100000}
                if ctx.quick:
                    decls = set(rnd.sample(sorted(decls), 3)) | {tlen}
            for decl in sorted(decls):
                gid += 1
                chunks = decgen.chunkings(rnd) if m not in ("-lz5-",) else rnd.choice(["-", "-", "4096"])
                junk = rnd.choice([0, 170, 255])
                total = min(decl, 3 * len(data) + 4096 if m == "-pm1-" else decl)
                scheds = decgen.read_schedules(rnd, decl if decl < 200000 else (tlen or 0) + 10)
                if ctx.quick:
                    scheds = scheds[:1] + rnd.sample(scheds[1:], 2)
                for reads in scheds:
                    nreads = sum((int(x.split("*")[1]) if "*" in x else 1) for x in reads.split(","))
                    mon = rnd.choice([-1, 0, 0, 1, nreads // 2, nreads])
                    lines.append(decgen.case(m, data, chunks, decl, reads, mon, junk))
                    meta.append((gid, m, decl, mon, nreads, kind))
                    dist[m + ":" + kind] += 1
            # declared lengths of 4 GiB and more (the API takes a size_t): a caller that asks for exactly T bytes gets the
            # same T bytes whatever length >= T was declared -- the stream "stops exactly there", not at the declared
            # length reduced modulo a narrower integer type.  One group per stream: the reference (declared = T) and
            # the large declarations, read in one piece and in several.
            if kind == "valid" and tlen:
                gid += 1
                bigs = [2 ** 32, 2 ** 32 + 1, 2 ** 32 + max(1, tlen // 2), 2 ** 32 + tlen, 2 ** 33 + 7, 2 ** 40]
                if ctx.quick:
                    bigs = rnd.sample(bigs[:3], 1) + rnd.sample(bigs[3:], 1)
                chunks = decgen.chunkings(rnd) if m not in ("-lz5-",) else "-"
                for decl in [tlen] + bigs:
                    for reads in ([str(tlen)] if decl == tlen else [str(tlen), "%d,0,%d" % (tlen // 2, tlen - tlen // 2)]):
                        nreads = len(reads.split(","))
                        mon = rnd.choice([-1, -1, 0, nreads])
                        lines.append(decgen.case(m, data, chunks, decl, reads, mon, 170))
                        meta.append((gid, m, decl, mon, nreads, "bigdecl"))
                        dist["declared>=4GiB"] += 1
        co = common.run_lines_parallel([cexe], lines)
        # the same cases on an optimised, unsanitised gcc build (what users run): uninitialised reads show
        # there as schedule-dependent output rather than as a sanitizer report
        gexe = cb.compile("drv_dec_plain", [os.path.join(common.CDIR, "drv_dec.c")] + cb.lib_sources(), sanitize=False, cc="gcc",
                          extra=["-O2"])
        lines_nj = [" ".join(l.split()[:-1] + ["-1"]) for l in lines]
        go = common.run_lines_parallel([gexe], lines_nj)
        plain_groups = collections.defaultdict(list)
        for (ln, mt, g_) in zip(lines_nj, meta, go):
            pg = decgen.parse(g_)
            if "h" in pg:
                asked = sum((int(x.split("*")[0]) * int(x.split("*")[1]) if "*" in x else int(x)) for x in ln.split()[5].split(","))
                plain_groups[(mt[0], min(asked, mt[2]))].append((pg["h"], int(pg["len"]), ln, g_))
        for g, items in plain_groups.items():
            if len({(h, l) for h, l, _, _ in items}) > 1:
                a = items[0]
                b = [x for x in items if (x[0], x[1]) != (a[0], a[1])][0]
                big = int(a[2].split()[4]) >= 2 ** 32 or int(b[2].split()[4]) >= 2 ** 32
                viol.append({"property": PID, "kind": "declared-length-variance" if big else "split-variance",
                             "build": "gcc -O2, no sanitizer, callback buffer not pre-filled",
                             "what": "the same number of bytes asked of the same stream gives different bytes when a length of 4 GiB or more "
                                     "is declared" if big else "different read splits returned different bytes", "case": a[2][:4000], "case2": b[2][:4000],
                             "observed": a[3][:200], "observed2": b[3][:200], "sig": "split-plain:" + a[2].split()[1]})
        midx = [i for i, mt in enumerate(meta) if mt[1] in modelled]
        mo_part = common.run_lines_parallel([ctx.model], [lines[i] for i in midx])
        mo = {i: o for i, o in zip(midx, mo_part)}
        groups = collections.defaultdict(list)
        nontriv = 0
        seen = set()
        for i, (ln, mt, c) in enumerate(zip(lines, meta, co)):
            g, m, decl, mon, nreads, kind = mt
            pc = decgen.parse(c)
            if "h" not in pc:
                # crashes belong to C09; here they still mean the property is not shown
                viol.append({"property": PID, "kind": "abnormal", "case": ln[:4000], "observed": c[:300], "sig": "crash:" + m})
                continue
            sizes = pc["sizes"]
            ln_ = int(pc["len"])
            hk = hashlib.md5(ln.encode()).digest()
            if hk not in seen:
                seen.add(hk)
                if ln_ > 0 and len(sizes) > 1:
                    nontriv += 1
            bad = None
            if "OVERREAD" in pc["r"]:
                bad = "read returned more than asked"
            elif sum(sizes) != ln_:
                bad = "get_length %d != bytes returned %d" % (ln_, sum(sizes))
            elif pc["crc"] != pc["icrc"]:
                bad = "get_crc %s != CRC-16 of returned bytes %s" % (pc["crc"], pc["icrc"])
            elif ln_ > decl:
                bad = "returned %d bytes, declared %d" % (ln_, decl)
            else:
                bs = decgen.block_size(consts, m)
                total = (decl + bs - 1) // bs
                if mon < 0 or mon > nreads:
                    exp = "0:cbf29ce484222325"
                else:
                    exp = decgen.fnv_events((ln_ + bs - 1) // bs, total)
                if pc["ev"] != exp:
                    bad = "progress callbacks %s, expected 0..%d of %d (%s)" % (pc["ev"], (ln_ + bs - 1) // bs, total, exp)
            if bad:
                viol.append({"property": PID, "kind": "decoder-api", "what": bad, "case": ln[:4000], "observed": c[:300],
                             "sig": "api:" + m})
                continue
            # split invariance is a statement about schedules that ask for the same number of bytes (capped by the declared
            # length): a -pm1-/-pm2- stream whose input has ended still yields bytes from the zero bits that follow, so two
            # schedules asking for different totals below the declared length rightly end at different lengths
            asked = sum((int(x.split("*")[0]) * int(x.split("*")[1]) if "*" in x else int(x)) for x in ln.split()[5].split(","))
            groups[(g, min(asked, decl))].append((pc["h"], ln_, ln, c))
            if i in mo and mo[i] != c:
                mism.append({"case": ln[:3000], "c": c[:300], "model": mo[i][:300]})
        for g, items in groups.items():
            hs = {(h, l) for h, l, _, _ in items}
            if len(hs) > 1:
                a, b = items[0], [x for x in items if (x[0], x[1]) != (items[0][0], items[0][1])][0]
                if int(b[2].split()[4]) >= 2 ** 32 or int(a[2].split()[4]) >= 2 ** 32:
                    viol.append({"property": PID, "kind": "declared-length-variance", "what": "the same number of bytes asked of the same "
                                 "stream gives different bytes when a length of 4 GiB or more is declared", "case": a[2][:4000], "case2": b[2][:4000],
                                 "observed": a[3][:200], "observed2": b[3][:200], "sig": "bigdecl:" + a[2].split()[1]})
                    continue
                viol.append({"property": PID, "kind": "split-variance", "what": "different read splits returned different bytes",
                             "case": a[2][:4000], "case2": b[2][:4000], "observed": a[3][:200], "observed2": b[3][:200],
                             "sig": "split:" + a[2].split()[1]})
        cov = {"evaluations": len(lines), "distinct_nontrivial": nontriv,
               "rule": "per method: seed members (valid), truncated, mutated, random streams x declared lengths "
                       "{0,1,true-1,true,true+1,huge} x read schedules (single big read, 1-byte reads, zeros interleaved, random) "
                       "x monitor attach points x callback chunkings; valid streams also with declared lengths of 4 GiB and more "
                       "(2^32, 2^32+1, 2^32+T/2, 2^32+T, 2^33+7, 2^40) read for exactly T bytes in one and in several pieces: same bytes as "
                       "with T declared; oracles on the C alone: split invariance within a group, "
                       "length, CRC vs independent CRC, <= declared, <= asked, progress sequence; correspondence on the modelled "
                       "methods (%s). non-trivial = distinct case with output and more than one read" % ",".join(sorted(modelled)),
               "distribution": dict(dist), "methods_modelled": sorted(modelled),
               "samples": [l[:160] for l in lines[:3]]}
        return {"violations": viol[:10], "mismatches": mism[:10], "coverage": cov,
                "search_note": "direct oracles on the C decoder API over all cases of this run"}
    finally:
        cb.close()


def replay(payload):
    cb = CBuild(PID)
    try:
        if "build" in payload:
            cexe = cb.compile("drv_dec_plain", [os.path.join(common.CDIR, "drv_dec.c")] + cb.lib_sources(), sanitize=False,
                              cc="gcc", extra=["-O2"])
        else:
            cexe = build(cb)
        cs = [payload["case"]] + ([payload["case2"]] if "case2" in payload else [])
        out = common.run_lines_parallel([cexe], cs)
        for c, o in zip(cs, out):
            print("case:", c[:300])
            print("observed:", o[:300])
        print("recorded:", payload.get("what"), payload.get("observed", "")[:200])
        same = out[0][:300] == payload.get("observed", "")[:300]
        print("REPRODUCED" if same else "output differs from the recorded failure")
        return 1 if same else 0
    finally:
        cb.close()

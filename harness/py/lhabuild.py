"""Independent reference for LHA headers: an encoder from field records to
bytes (levels 0-3) and the normalisation the library is required to apply
(C05), written from the format description, not from the model.  Also the
integrity predicate `intact` (C12) and the path invariant (C11)."""
import struct, calendar

OS_UNKNOWN, OS_MSDOS, OS_UNIX, OS_OS2, OS_MACOS, OS_AMIGA, OS_ATARI, OS_OS9, OS_OS9_68K, OS_LHARK = \
    0, ord('M'), ord('U'), ord('2'), ord('m'), ord('A'), ord('a'), ord('9'), ord('K'), ord(' ')
F_PERMS, F_UIDGID, F_CCRC, F_WINTS, F_OS9 = 1, 2, 4, 8, 16


def crc16(bs, c=0):
    for b in bs:
        c ^= b
        for _ in range(8):
            c = (c >> 1) ^ 0xA001 if c & 1 else c >> 1
    return c


def ext(typ, payload):
    return (typ, bytes(payload))


def _ext_chain(exts, fs, with_crc_patch=None):
    """serialise a list of (type, payload); returns (first_size, bytes).  Each record:
    type, payload, next_size(fs)."""
    out = b""
    sizes = [1 + len(p) + fs for (_, p) in exts]
    for i, (t, p) in enumerate(exts):
        nxt = sizes[i + 1] if i + 1 < len(exts) else 0
        out += bytes([t]) + p + nxt.to_bytes(fs, "little")
    return (sizes[0] if exts else 0), out


def dos_ftime(y, mo, d, h, mi, s):
    return ((y - 1980) & 0x7f) << 25 | (mo & 0xf) << 21 | (d & 0x1f) << 16 | (h & 0x1f) << 11 | (mi & 0x3f) << 5 | ((s // 2) & 0x1f)


def ftime_to_unix(raw):
    """what mktime gives in TZ=UTC for the fields of a DOS time stamp (with mktime's normalisation)"""
    if raw == 0:
        return 0
    sec = (raw << 1) & 0x3e
    mi = (raw >> 5) & 0x3f
    h = (raw >> 11) & 0x1f
    d = (raw >> 16) & 0x1f
    mon = ((raw >> 21) & 0xf) - 1
    y = 1980 + ((raw >> 25) & 0x7f)
    y += mon // 12
    mon = mon % 12
    days = calendar.timegm((y, mon + 1, 1, 0, 0, 0)) // 86400 + (d - 1)
    return (days * 86400 + h * 3600 + mi * 60 + sec) & 0xFFFFFFFF


def build_header(f, fix_common_crc=True):
    """f: dict level, method(bytes5), clen, length, time (raw field value), attr, os, crc, name(bytes, in-header name
    for level 0/1), exts [(type,payload)], area (level-0 extended area bytes), pad (extra bytes for level 2)"""
    lv = f["level"]
    exts = list(f.get("exts", []))
    name = f.get("name", b"")
    if lv in (0, 1):
        body = f["method"] + struct.pack("<III", f["clen_field"] if "clen_field" in f else f["clen"], f["length"], f["time"])
        body += bytes([f.get("attr", 0x20), lv, len(name)]) + name + struct.pack("<H", f["crc"])
        if lv == 0:
            body += f.get("area", b"")
            hl = len(body)
            hdr = bytes([hl & 0xff, sum(body) & 0xff]) + body
            return hdr
        first, chain = _ext_chain(exts, 2)
        body += bytes([f["os"]]) + struct.pack("<H", first)
        hl = len(body)
        # compressed size field counts the extended headers
        if "clen_field" not in f:
            body = body[:5] + struct.pack("<I", (f["clen"] + len(chain)) & 0xFFFFFFFF) + body[9:]
        hdr = bytearray(bytes([hl & 0xff, 0]) + body + chain)
        hdr[1] = sum(hdr[2:2 + hl]) & 0xff      # covers the base header only
        if fix_common_crc:
            _patch_common_crc(hdr, exts, 2 + hl, 2)
        return bytes(hdr)
    if lv == 2:
        first, chain = _ext_chain(exts, 2)
        fixed = f["method"] + struct.pack("<III", f["clen"], f["length"], f["time"]) + bytes([f.get("attr", 0x20), 2]) \
            + struct.pack("<H", f["crc"]) + bytes([f["os"]]) + struct.pack("<H", first)
        total = 2 + len(fixed) + len(chain) + len(f.get("pad", b""))
        hdr = bytearray(struct.pack("<H", total & 0xffff) + fixed + chain + f.get("pad", b""))
        if f["os"] == OS_OS9_68K:
            # OS-9/68k writes a length that is two bytes short
            hdr[0:2] = struct.pack("<H", (total - 2) & 0xffff)
        if fix_common_crc:
            _patch_common_crc(hdr, exts, 26, 2)
        return bytes(hdr)
    if lv == 3:
        first, chain = _ext_chain(exts, 4)
        fixed = f["method"] + struct.pack("<III", f["clen"], f["length"], f["time"]) + bytes([f.get("attr", 0x20), 3]) \
            + struct.pack("<H", f["crc"]) + bytes([f["os"]])
        total = 2 + len(fixed) + 4 + 4 + len(chain)
        hdr = bytearray(struct.pack("<H", 4) + fixed + struct.pack("<II", total, first) + chain)
        if fix_common_crc:
            _patch_common_crc(hdr, exts, 32, 4)
        return bytes(hdr)
    raise ValueError(lv)


def _patch_common_crc(hdr, exts, chain_start, fs):
    """fill every common-CRC payload (type 0) with the CRC of the header with those fields zero"""
    offs = []
    off = chain_start
    for (t, p) in exts:
        if t == 0 and len(p) >= 2:
            offs.append(off + 1)
        off += 1 + len(p) + fs
    if not offs:
        return
    for o in offs:
        hdr[o:o + 2] = b"\0\0"
    c = crc16(hdr)
    for o in offs:
        hdr[o:o + 2] = struct.pack("<H", c)


# ---------------------------------------------------------------- normalisation (C05)

def cstr(b):
    i = b.find(b"\0")
    return b if i < 0 else b[:i]


def collapse(p):
    """remove empty, '.', '..' components of a path string (keeping one leading '/')"""
    lead = b""
    if p[:1] == b"/":
        lead, p = b"/", p[1:]
    comps = p.split(b"/")
    last = comps.pop()       # text after the final '/', not '/'-terminated
    out = []
    for c in comps:
        if c == b"" or c == b".":
            continue
        if c == b"..":
            if out:
                out.pop()
            continue
        out.append(c)
    res = b"".join(c + b"/" for c in out)
    # the trailing unterminated text is kept only... it is whatever was written after the
    # last separator; going up with '..' discards it together with the component
    return lead + res + last


def split_name(s):
    i = s.rfind(b"/")
    if i < 0:
        return None, s
    return s[:i + 1], s[i + 1:]


def normalise(f):
    """expected header fields as the library must return them, or None when the header must be rejected"""
    lv = f["level"]
    h = dict(lv=lv, m=f["method"], cl=f["clen"], l=f["length"], os=(f["os"] if lv > 0 else OS_UNKNOWN),
             crc=f["crc"], xf=0, up=0, uid=0, gid=0, o9=0, cc=0, wt=(0, 0, 0), fn=None, p=None, st=None, un=None, ug=None)
    h["ts"] = ftime_to_unix(f["time"]) if lv in (0, 1) else f["time"]
    if lv in (0, 1):
        name = f.get("name", b"")
        if name:
            s = cstr(name.replace(b"\\", b"/"))
            h["p"], h["fn"] = split_name(s)
    if lv == 0:
        area = f.get("area", b"")
        if area and f["method"][:3] != b"-pm":
            if area[0] in (OS_UNIX, OS_OS9_68K) and len(area) >= 12 and area[1] == 0:
                h["os"] = area[0]
                h["ts"] = struct.unpack("<I", area[2:6])[0]
                h["up"], h["uid"], h["gid"] = struct.unpack("<HHH", area[-6:])
                h["xf"] |= F_PERMS | F_UIDGID
            elif area[0] == OS_OS9 and len(area) >= 22 and area[9] == 0xcc and area[1] == area[17] and area[2] == area[18]:
                h["os"] = OS_OS9
                h["o9"] = struct.unpack("<H", area[1:3])[0]
                h["xf"] |= F_OS9
    for (t, p) in f.get("exts", []):
        if t == 0x00 and len(p) >= 2:
            h["xf"] |= F_CCRC
            h["cc"] = "computed"
        elif t == 0x01 and len(p) >= 1:
            h["fn"] = cstr(p).replace(b"/", b"_")
        elif t == 0x02 and len(p) >= 1:
            q = p if p[-1:] == b"\xff" else p + b"\xff"
            h["p"] = cstr(q.replace(b"\xff", b"/"))
        elif t == 0x41 and len(p) >= 24:
            h["xf"] |= F_WINTS
            h["wt"] = struct.unpack("<QQQ", p[:24])
        elif t == 0x50 and len(p) >= 2:
            h["xf"] |= F_PERMS
            h["up"] = struct.unpack("<H", p[:2])[0]
        elif t == 0x51 and len(p) >= 4:
            h["xf"] |= F_UIDGID
            h["gid"], h["uid"] = struct.unpack("<HH", p[:4])
        elif t == 0x52 and len(p) >= 1:
            h["ug"] = cstr(p)
        elif t == 0x53 and len(p) >= 1:
            h["un"] = cstr(p)
        elif t == 0x54 and len(p) >= 4:
            h["ts"] = struct.unpack("<I", p[:4])[0]
        elif t == 0xcc and len(p) >= 12:
            h["xf"] |= F_OS9
            h["o9"] = struct.unpack("<H", p[7:9])[0]
    m = cstr(h["m"])
    if h["os"] == OS_AMIGA and m == b"-lh0-" and h["l"] == 0 and h["fn"] is None:
        h["m"] = b"-lhd-"
        m = b"-lhd-"
    if m != b"-lhd-":
        if h["fn"] is None:
            return None
    elif (h["xf"] & F_PERMS) and (h["p"] is not None or h["fn"] is not None) and (h["up"] & 0o170000) == 0o120000:
        full = (h["p"] or b"") + (h["fn"] or b"")
        i = full.find(b"|")
        if i < 0:
            return None
        h["st"] = full[i + 1:]
        h["p"], h["fn"] = split_name(full[:i])
    else:
        if h["p"] is None:
            return None
    if h["os"] in (OS_UNKNOWN, OS_MSDOS, OS_ATARI, OS_LHARK, OS_OS2):
        def haslower(s):
            return s is not None and any(97 <= c <= 122 for c in s)
        if not haslower(h["p"]) and not haslower(h["fn"]):
            def low(s):
                return None if s is None else bytes(c + 32 if 65 <= c <= 90 else c for c in s)
            h["p"], h["fn"] = low(h["p"]), low(h["fn"])
    if h["p"] is not None:
        h["p"] = collapse(h["p"])
    if h["os"] == OS_OS9_68K and (h["xf"] & F_PERMS):
        h["o9"] = h["up"]
        h["xf"] |= F_OS9
    if h["xf"] & F_OS9:
        o = h["o9"]
        b = lambda m_: 1 if o & m_ else 0
        h["xf"] |= F_PERMS
        h["up"] = (b(0x80) << 14) | (b(1) << 8) | (b(2) << 7) | (b(4) << 6) | (b(8) << 5) | (b(0x10) << 4) | (b(0x20) << 3) \
            | (b(8) << 2) | (b(0x10) << 1) | b(0x20)
    if lv == 1 and h["os"] == OS_LHARK and cstr(h["m"])[:5] == b"-lh7-":
        h["m"] = b"-lk7-"
    return h


def hexs(b):
    return b.hex() if b else "-"


def fmt_expected(h, raw_len, data8, common_crc_value=None):
    def ps(s):
        return "NULL" if s is None else hexs(s)
    cc = h["cc"]
    if cc == "computed":
        cc = common_crc_value
    return ("H lv=%d m=%s cl=%d l=%d ts=%d os=%d crc=%d xf=%d up=%d uid=%d gid=%d o9=%d cc=%d wt=%d,%d,%d fn=%s p=%s st=%s un=%s ug=%s rl=%d d=%s"
            % (h["lv"], hexs(h["m"]), h["cl"], h["l"], h["ts"], h["os"], h["crc"], h["xf"], h["up"], h["uid"], h["gid"],
               h["o9"], cc, h["wt"][0], h["wt"][1], h["wt"][2], ps(h["fn"]), ps(h["p"]), ps(h["st"]), ps(h["un"]),
               ps(h["ug"]), raw_len, hexs(data8)))


# ---------------------------------------------------------------- C11 invariant

def path_ok(p):
    """every '/'-terminated component is a real name, apart from one optional leading '/'"""
    if p is None:
        return True
    if p[:1] == b"/":
        p = p[1:]
    comps = p.split(b"/")[:-1]
    return all(c not in (b"", b".", b"..") for c in comps)


def name_ok(fn):
    return fn is None or b"/" not in fn


# ---------------------------------------------------------------- C12: integrity rules, computed independently

def intact(b):
    """True iff the bytes b (an archive starting with a header) satisfy the header's own
    integrity rules as listed in property C12.  Written from the rules, not from the parser."""
    if len(b) < 22:
        return False
    lv = b[20]
    if lv > 3:
        return False
    flags_perms = None
    name = None
    path = None
    method = cstr(b[2:7])

    def walk_exts(start, fs, limit):
        """checks the chain inside b[:limit]; returns (ok, list of (type, payload, payload_offset))"""
        res = []
        off = start
        avail = limit - start - fs
        while off <= limit - fs:
            ln = int.from_bytes(b[off:off + fs], "little")
            if ln == 0:
                break
            if ln < fs + 1 or ln > avail:
                return False, res
            res.append((b[off + fs], b[off + fs + 1:off + ln], off + fs + 1))
            off += ln
            avail -= ln
        return True, res

    if lv in (0, 1):
        hl = b[0]
        minl = 22 if lv == 0 else 25
        if hl < minl or len(b) < hl + 2:
            return False
        if sum(b[2:2 + hl]) & 0xff != b[1]:
            return False
        nl = b[21]
        if minl + nl > hl:
            return False
        nm = cstr(b[22:22 + nl].replace(b"\\", b"/"))
        if nl:
            path, name = split_name(nm)
        exts = []
        total = hl + 2
        if lv == 1:
            clen = int.from_bytes(b[7:11], "little")
            nxt = int.from_bytes(b[total - 2:total], "little")
            while nxt != 0:
                if len(b) < total + nxt or nxt > 1048576:
                    return False
                if clen < nxt:
                    return False
                clen -= nxt
                if nxt < 3:
                    return False
                total += nxt
                nxt = int.from_bytes(b[total - 2:total], "little")
            ok, exts = walk_exts(hl, 2, total)
            if not ok:
                return False
        hdr = bytearray(b[:total])
    elif lv == 2:
        hl = int.from_bytes(b[0:2], "little")
        if hl < 26 or len(b) < hl:
            return False
        total = hl
        if b[23] == OS_OS9_68K:
            total += 2
            if len(b) < total:
                return False
        ok, exts = walk_exts(24, 2, total)
        if not ok:
            return False
        hdr = bytearray(b[:total])
    else:
        if int.from_bytes(b[0:2], "little") != 4 or len(b) < 32:
            return False
        hl = int.from_bytes(b[24:28], "little")
        if hl > 1048576 or hl < 32 or len(b) < hl:
            return False
        total = hl
        ok, exts = walk_exts(28, 4, total)
        if not ok:
            return False
        hdr = bytearray(b[:total])
    # common CRC
    ccrc = None
    perms = None
    os_type = 0 if lv == 0 else (b[24 + b[21]] if lv == 1 else b[23])
    minlen = {0x00: 2, 0x01: 1, 0x02: 1, 0x41: 24, 0x50: 2, 0x51: 4, 0x52: 1, 0x53: 1, 0x54: 4, 0xcc: 12}
    for (t, p, off) in exts:
        if t in minlen and len(p) >= minlen[t]:
            if t == 0x00:
                ccrc = p[0] | (p[1] << 8)
                hdr[off] = 0
                hdr[off + 1] = 0
            elif t == 0x01:
                name = cstr(p).replace(b"/", b"_")
            elif t == 0x02:
                q = p if p[-1:] == b"\xff" else p + b"\xff"
                path = cstr(q.replace(b"\xff", b"/"))
            elif t == 0x50:
                perms = p[0] | (p[1] << 8)
            elif t == 0xcc:
                pass
    if lv == 0 and hl > 22 + b[21] and method[:3] != b"-pm":
        area = b[24 + b[21]:2 + hl]
        if area[0] in (OS_UNIX, OS_OS9_68K) and len(area) >= 12 and area[1] == 0:
            perms = int.from_bytes(area[-6:-4], "little")
            os_type = area[0]
        elif area[0] == OS_OS9 and len(area) >= 22 and area[9] == 0xcc and area[1] == area[17] and area[2] == area[18]:
            os_type = OS_OS9
    if ccrc is not None and crc16(hdr) != ccrc:
        return False
    length = int.from_bytes(b[11:15], "little")
    if os_type == OS_AMIGA and method == b"-lh0-" and length == 0 and name is None:
        method = b"-lhd-"
    if method != b"-lhd-":
        return name is not None
    if perms is not None and (path is not None or name is not None) and (perms & 0o170000) == 0o120000:
        return b"|" in ((path or b"") + (name or b""))
    return path is not None

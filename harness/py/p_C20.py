"""C20 -- freeing a reader releases everything, on any call history or allocation failure."""
import os, random, collections, itertools, hashlib
import common, test_rdr as T
from common import CBuild, CDIR

PID = "C20"
TRUSTED = ["allocation accounting by link-time wrapping of malloc/calloc/realloc/strdup/free/fopen/fdopen/fclose "
           "(harness/c/verif_alloc.c) around everything the driver does with the library, from the creation of the "
           "input stream to its release; the driver's own buffers are exempt (suspend/resume)",
           "the k-th allocation request of a run is made to fail by the same wrapper",
           "sanitizer build (ASan, bounds, null): an invalid access is a crash of the per-case child process"]
ASSUMPTIONS = ["histories as the property quantifies them: per entry reads in any piece sizes, or one check, or one extract "
               "(reads after it are harmless), every prefix = abandoning the archive at that point",
               "a single failing allocation request per run (index k), as the property states; progress callbacks that fire "
               "before a failing request are not modelled (cm / xm are run as c / x in the injection part)"]


import re
LB_RE = re.compile(r" lb=\d+")


# further allocation entry points that go through the accounting in this check (verif_alloc.c, VERIF_WRAP_MORE)
WRAP_MORE = ["-Wl,--wrap=strndup,--wrap=reallocarray,--wrap=asprintf,--wrap=vasprintf"]


def build(cb):
    return cb.compile("drv_rdr_mem", [os.path.join(CDIR, "drv_rdr.c")] + cb.lib_sources() + common.alloc_sources(),
                      extra=["-I" + CDIR, "-DLHASA_VERIF", "-DVERIF_WRAP_MORE"], sanitize=True,
                      libs=common.WRAP + WRAP_MORE)


def corpus_cases(ctx, rnd):
    """the repository's own archives, extracted / checked / read / abandoned (needs no generator state)"""
    import glob
    lines = []
    paths = sorted(p for p in glob.glob(os.path.join(common.REPO, "test/archives/*/*")) + glob.glob(os.path.join(common.REPO, "test/archives/*/*/*"))
                   if os.path.isfile(p) and os.path.getsize(p) < (20000 if ctx.quick else 200000))
    for p in paths:
        arc = open(p, "rb").read()
        for ops in (["n", "x"] * 12, ["n", "c"] * 12, ["n", "r64", "r100000"] * 6, ["n", "x", "n", "x", "n"]):
            lines.append(T.case(rnd.choice(T.KINDS), rnd.choice(T.POLICIES), arc, ops[:40]))
    return lines


def directed_cases(rnd):
    """headers in which a field is assigned twice (a level-1 base name followed by a file-name extended header; the same
    extended header twice: file name, path, user name, group name, common header), so that the decoder has an old
    value in hand while it allocates the new one -- the interesting moment for an allocation failure"""
    import struct, lhabuild as lb
    lines = []
    data = b"hello"
    def member(lv, name, exts):
        f = {"level": lv, "method": b"-lh0-", "clen": len(data), "length": len(data), "crc": lb.crc16(data), "os": T.U, "attr": 0x20,
             "time": T.DOS_B if lv == 1 else T.T_A, "exts": exts}
        if lv == 1:
            f["name"] = name
        return lb.build_header(f) + data
    dup = [[(1, b"first.txt"), (1, b"second name.txt")], [(2, b"a\xff"), (2, b"b\xffc\xff"), (1, b"f")],
           [(1, b"f"), (0x52, b"user1"), (0x52, b"user-two")], [(1, b"f"), (0x53, b"grp"), (0x53, b"group2")],
           [(1, b"n|target1"), (0x50, struct.pack("<H", 0o120777)), (1, b"n|t2")], [(1, b"f"), (2, b"d\xff"), (1, b"g"), (2, b"e\xff")]]
    for lv in (1, 2, 3):
        for exts in dup:
            arc = member(lv, b"BASENAME.TXT" if lv == 1 else b"", exts) + member(2, b"", [(1, b"after")]) + b"\0"
            for ops in (["n", "c", "n", "x", "n"], ["n", "n", "n"]):
                lines.append(T.case(rnd.choice(T.KINDS), "eod", arc, ops))
    return lines


def rejected_header_cases(rnd):
    """headers the parser gives up on AFTER it has made allocations for them: a symbolic-link entry (-lhd-, permission bits
    0120000) whose name has no '|' separator (with and without a path header); a directory entry without a path but with
    a name; a file entry with a path but no name; user / group names followed by a wrong common CRC; an extended header
    cut short after the name headers -- each followed by a good member, checked, extracted and abandoned"""
    import struct, lhabuild as lb
    data = b"hello"
    P = lambda v: (0x50, struct.pack("<H", v))

    def member(lv, method, exts, name=b"", clen=None, fix=True):
        d = data if method != b"-lhd-" else b""
        f = {"level": lv, "method": method, "clen": len(d), "length": len(d), "crc": lb.crc16(d), "os": T.U, "attr": 0x20,
             "time": T.DOS_B if lv == 1 else T.T_A, "exts": exts}
        if lv == 1:
            f["name"] = name
        return lb.build_header(f, fix_common_crc=fix) + d
    shapes = []
    for lv in (1, 2, 3):
        shapes += [member(lv, b"-lhd-", [(1, b"link-without-separator"), P(0o120777)]),
                   member(lv, b"-lhd-", [(2, b"some\xffdir\xff"), (1, b"nosep"), P(0o120777), (0x52, b"user"), (0x53, b"group")]),
                   member(lv, b"-lhd-", [(2, b"only\xffpath\xff"), P(0o120755)]),
                   member(lv, b"-lhd-", [(1, b"dir-with-name-only"), P(0o40755)]),
                   member(lv, b"-lh0-", [(2, b"path\xffbut\xffno\xffname\xff"), (0x52, b"u"), (0x53, b"g")]),
                   member(lv, b"-lh0-", [(1, b"named"), (2, b"p\xff"), (0x52, b"someone"), (0x53, b"somegroup"), (0, b"\x12\x34")], fix=False)]
    shapes.append(member(1, b"-lhd-", [P(0o120777)], name=b"INHEADER.LNK"))
    shapes.append(member(1, b"-lhd-", [P(0o120777), (2, b"d\xff")], name=b"DIR\\NAME"))
    good = member(2, b"-lh0-", [(1, b"after")])
    lines = []
    for h in shapes:
        for arc in (h + good + b"\0", good + h + good + b"\0", h[:len(h) - 3]):
            for ops in (["n", "c", "n", "x", "n"], ["n", "x"]):
                lines.append(T.case(rnd.choice(T.KINDS), rnd.choice(T.POLICIES), arc, ops))
    return lines


def owned_cases(rnd):
    """the stream kind in which the library opens (and must close) the archive file itself: lha_input_stream_from"""
    import lhabuild as lb
    data = b"owned stream"
    one = lb.build_header({"level": 2, "method": b"-lh0-", "clen": len(data), "length": len(data), "crc": lb.crc16(data), "os": T.U,
                           "attr": 0x20, "time": T.T_A, "exts": [(1, b"o.txt")]}) + data
    lines = []
    for arc in (one + one + b"\0", one[:20], b"", b"MZ" + bytes(40) + one + b"\0"):
        for ops in (["n", "c", "n", "x", "n"], ["n"], [], ["n", "r5"]):
            lines.append(T.case("owned", "eod", arc, ops))
    return lines


def cases(ctx, rnd, pool):
    lines = []
    alpha = ["n", "r5", "r100000", "c", "x"]
    seqs = [list(s) for k in range(0, (3 if ctx.quick else 4) + 1) for s in itertools.product(alpha, repeat=k)]
    i = 0
    for name, arc in T.small_archives(pool, rnd):
        for pol in T.POLICIES:
            for s in seqs:
                l = T.case(T.KINDS[i % 4], pol, arc, s)
                i += 1
                if T.protocol_ok(l):
                    lines.append(l)
    n_ex = len(lines)
    for _ in range(800 if ctx.quick else 15000):
        if rnd.random() < 0.5:
            arc, ms = T.tree_archive(pool, rnd)
            ops = T.ops_extract_all(rnd, len(ms)) if rnd.random() < 0.7 else T.ops_ok(rnd, len(ms))
        else:
            arc, ms = T.random_archive(pool, rnd)
            ops = T.ops_ok(rnd, len(ms))
        # abandon at a random point now and then (every prefix is a history)
        if rnd.random() < 0.3:
            ops = ops[:rnd.randrange(len(ops) + 1)]
        l = T.case(rnd.choice(T.KINDS), rnd.choice(T.POLICIES), arc, ops)
        if T.protocol_ok(l):
            lines.append(l)
    return lines, n_ex


def run(ctx):
    rnd = random.Random(ctx.seed * 1000003 + 20)
    cb = CBuild(PID)
    viol, mism = [], []
    dist = collections.Counter()
    try:
        drvm = build(cb)
        mode = common.sh([drvm, "--probe"])[1].strip()
        rejected = rejected_header_cases(rnd)
        directed = directed_cases(rnd) + [l for i, l in enumerate(rejected) if i % 6 == 0]
        lines, n_ex = directed + [l for i, l in enumerate(rejected) if i % 6 != 0] + corpus_cases(ctx, rnd), 0
        # minimised failures of earlier runs, with their failing request: run first
        kept = [l.strip() for l in open(os.path.join(common.VERIF, "corpus", "C20", "ext_alloc_silent.txt")) if l.startswith("rdr ")]
        try:
            pool = T.Pool(cb, [drvm], rnd)
            gl, n_ex = cases(ctx, rnd, pool)
            lines += gl
        except Exception as e:
            # the generators harvest members by extracting them with the library under test; when that no longer
            # works the corpus part still runs and the tie is reported as broken
            import traceback
            ctx.broken.append({"kind": "harness", "what": "member harvest for the generated histories failed",
                               "detail": traceback.format_exc()[-1500:]})
        if mode != "chroot":
            lines = [l for l in lines if T.plain_ok(l)]
        # ------------------------------------------------------------ 1. no failing allocation: C balance + ledger = C
        cout_rq = common.run_lines_parallel([drvm], lines)
        cout = [T.RQ_RE.sub("", c) for c in cout_rq]
        mout = common.run_lines_parallel([ctx.model], ["rdrmem" + l[3:] for l in lines])
        nontriv = 0
        for l, c, m in zip(lines, cout, mout):
            ca, ma = T.ALLOC_RE.search(c), T.FINAL_RE.search(m)
            dist["balance:" + l.split()[1]] += 1
            if "CHILD-FAILED" in c or ca is None:
                viol.append({"property": PID, "kind": "invalid-access-or-abort", "case": l, "observed": c[-500:], "sig": "crash"})
                continue
            if int(ca.group(1)) > 8:
                nontriv += 1
            if ca.group(2) != "0" or ca.group(3) != "0":
                viol.append({"property": PID, "kind": "not-released-after-free", "case": l, "live_blocks": int(ca.group(2)),
                             "open_files": int(ca.group(3)), "sig": "leak"})
                continue
            if m == "HANG" or m.startswith("SKIPPED") or m.startswith("CRASH"):
                dist["model-too-slow-not-compared"] += 1      # (megabyte members: the extracted model is slow; the C result counts)
                continue
            if "FAULT" in m or "OUTOFFUEL" in m or ma is None:
                mism.append({"case": l[:6000], "c": c[-800:], "model": m[-800:], "what": "the ledger stopped inside the protocol"})
                continue
            same = T.ALLOC_RE.sub("", c) == T.FINAL_RE.sub("", m) and ca.group(2) == ma.group(1) and ca.group(3) == ma.group(2)
            if not same:
                i, cc, mm = T.first_diff(T.ALLOC_RE.sub("", c), T.FINAL_RE.sub("", m))
                mism.append({"case": l[:6000], "c": cc, "model": mm, "what": "live block count after an operation differs"})
        # ------------------------------------------------------------ 2. every allocation request fails in turn
        cands = sorted(zip(lines, cout), key=lambda lc: (len(lc[0]) > 9000, hashlib.md5(lc[0].encode()).hexdigest()))
        cands = [lc for lc in zip(lines, cout_rq) if lc[0] in set(directed)] + cands[:(120 if ctx.quick else 2500)]
        inj = list(kept)
        for l in kept:
            t = l.split()
            base_l = " ".join(t[:3] + ["0"] + t[4:])
            if base_l not in dict(cands):
                cands.append((base_l, common.run_lines_parallel([drvm], [base_l])[0]))
        for l, c in cands:
            ca = T.ALLOC_RE.search(c)
            if not ca:
                continue
            t = l.split()
            for k in range(1, int(ca.group(1)) + 1):
                inj.append(" ".join(t[:3] + [str(k)] + t[4:]))
        # progress callbacks that fire before a failing request are not in the failing-allocation ledger: plain c / x
        def plain_ops(l):
            t = l.split()
            t[5] = ",".join({"cm": "c", "xm": "x"}.get(o, o) for o in t[5].split(","))
            return " ".join(t)
        inj = [plain_ops(l) for l in inj]
        iout = common.run_lines_parallel([drvm], inj)
        # the ledger with the k-th request failing (ReaderMemFail.v) must predict every result, lb= and rq= after every
        # call -- also after the failing one -- and the balance at exit
        fout = common.run_lines_parallel([ctx.model], ["rdrmemfail" + l[3:] for l in inj])
        def norm(o, rx):
            o = rx.sub("", o.split("|")[0].rstrip())
            return T.TAIL_RE.sub("", o).rstrip()
        n_fail_cmp = 0
        for l, c, m in zip(inj, iout, fout):
            ca, ma = T.ALLOC_RE.search(c), T.FINAL_RE.search(m)
            if "CHILD-FAILED" in c or ca is None:
                continue                                  # reported below as a violation
            if m == "HANG" or m.startswith("SKIPPED") or m.startswith("CRASH"):
                dist["model-too-slow-not-compared"] += 1
                continue
            n_fail_cmp += 1
            if "FAULT" in m or ma is None or not (norm(c, T.ALLOC_RE) == norm(m, T.FINAL_RE) and ca.group(2) == ma.group(1) and ca.group(3) == ma.group(2)):
                i_, cc, mm = T.first_diff(norm(c, T.ALLOC_RE), norm(m, T.FINAL_RE)) if ma else (0, c[-300:], m[-300:])
                mism.append({"case": l[:6000], "c": cc[:600], "model": mm[:600],
                             "what": "with allocation request %s failing the ledger and the C differ" % l.split()[3]})
        dist["failinj:ledger-compared"] = n_fail_cmp
        # the stream kind the extracted model does not have (the library opens the file itself): C-side oracles only
        own = owned_cases(rnd)
        own_base = common.run_lines_parallel([drvm], own)
        own_inj = []
        for l, c in zip(own, own_base):
            ca = T.ALLOC_RE.search(c)
            dist["balance:owned"] += 1
            if "CHILD-FAILED" in c or ca is None:
                viol.append({"property": PID, "kind": "invalid-access-or-abort", "case": l, "observed": c[-500:], "sig": "crash"})
                continue
            if ca.group(2) != "0" or ca.group(3) != "0":
                viol.append({"property": PID, "kind": "not-released-after-free", "case": l, "live_blocks": int(ca.group(2)),
                             "open_files": int(ca.group(3)), "sig": "leak"})
                continue
            t = l.split()
            own_inj += [" ".join(t[:3] + [str(k)] + t[4:]) for k in range(1, int(ca.group(1)) + 1)]
        inj = inj + own_inj
        iout = iout + common.run_lines_parallel([drvm], own_inj)
        silent = []
        reached = 0
        for l, c in zip(inj, iout):
            ca = T.ALLOC_RE.search(c)
            dist["failinj"] += 1
            if "CHILD-FAILED" in c or ca is None:
                viol.append({"property": PID, "kind": "crash-when-allocation-fails", "case": l, "failing_request": int(l.split()[3]),
                             "observed": c[-500:], "sig": "failinj-crash"})
            elif ca.group(2) != "0" or ca.group(3) != "0":
                viol.append({"property": PID, "kind": "not-released-after-allocation-failure", "case": l,
                             "failing_request": int(l.split()[3]), "live_blocks": int(ca.group(2)), "open_files": int(ca.group(3)),
                             "sig": "failinj-leak"})
            elif ca.group(4) != "0":
                reached += 1
                # "the affected call reports failure or end-of-archive": the call during which the failing request was
                # made (rq= after each call counts the requests so far) must return a failure value
                if c.startswith("ERR stream") or c.startswith("ERR reader"):
                    continue          # the constructor returned NULL: reported
                k = int(l.split()[3])
                ops = l.split()[5].split(",") if l.split()[5] != "-" else []
                pc = c.split("|", 1)[0].split(" ; ")
                for op, r in zip(ops, pc):
                    mrq = re.search(r" rq=(\d+)", r)
                    if mrq and int(mrq.group(1)) >= k:
                        v = T.RQ_RE.sub("", LB_RE.sub("", r)).split(" ev=")[0]
                        # (end-of-archive for next_file = NULL, or the entries the reader re-presents once the archive
                        # proper has ended: fake directories, deferred symlinks)
                        okv = v.startswith("n:NULL") or (v.startswith("n:H") and v.endswith(" fake=1")) or v.startswith("r=0:") \
                            or v in ("c=0", "cm=0", "x=0", "xm=0", "xf=0")
                        if not okv:
                            silent.append({"property": PID, "kind": "allocation-failure-not-reported", "case": l,
                                           "failing_request": k, "op": op, "result_with_failure": v[:400],
                                           "sig": "failinj-silent:" + op[0]})
                        break
        silent.sort(key=lambda v: len(v["case"]))
        dist["failinj:not-reported"] = len(silent)
        viol += silent[:6]
        viol.sort(key=lambda v: len(v["case"]))
        cov = {"evaluations": len(lines) + len(inj), "distinct_nontrivial": nontriv,
               "rule": "histories: every protocol-respecting op sequence over {n, r5, r100000, c, x} up to length %d x 12 small "
                       "archives x 3 directory policies x stream kinds in rotation (%d cases), random protocol-respecting sequences "
                       "(extract-everything style and mixed) over generated archives with nested directories, dangerous symlinks, "
                       "MacBinary members, damaged and truncated members, cut at random points, the repository's own archives, and headers that assign a field twice (base name + file-name header; duplicate name / path / user / group headers), headers that are rejected after strings were allocated for them (link entries without a separator, entries lacking the name or path they need, a wrong common CRC after user/group names), and the stream kind in which the library opens and closes the archive file itself (lha_input_stream_from; C-side oracles only); "
                       "for each: allocator balance after lha_reader_free + stream free must be 0 blocks / 0 FILE handles, and the "
                       "ledger's predicted live-block count must equal the allocator's after EVERY call.  Then for %d of the cases "
                       "every allocation request k = 1..n of the fault-free run is made to fail in turn (%d runs, %d reached the "
                       "failing request): no crash, balance 0, the affected call returns a failure value, and the failing-allocation ledger (ReaderMemFail.v) predicts every result, live-block count and request count after every call incl. those after the failure.  non-trivial = case with more than 8 allocation requests"
                       % (3 if ctx.quick else 4, n_ex, len(cands), len(inj), reached),
               "distribution": dict(dist), "samples": [lines[0][:300], lines[-1][:300]]}
        return {"violations": viol[:10], "mismatches": mism[:10], "coverage": cov,
                "search_note": "direct oracle: allocator balance and crashes of the real library; the ledger is not needed to show a failure"}
    finally:
        cb.close()


def replay(payload):
    cb = CBuild(PID)
    try:
        drvm = build(cb)
        o = common.run_lines_parallel([drvm], [payload["case"]])[0]
        ca = T.ALLOC_RE.search(o)
        print("observed:", o[-600:])
        bad = "CHILD-FAILED" in o or ca is None or ca.group(2) != "0" or ca.group(3) != "0"
        print("REPRODUCED" if bad else "not reproduced")
        return 1 if bad else 0
    finally:
        cb.close()

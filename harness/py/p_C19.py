"""C19 -- list output renders every member's header fields faithfully in Unix-LHA layout."""
import os, random, collections, shutil, struct
import common, lhabuild as lb, hdrgen
import test_list as tl
from common import CBuild

PID = "C19"
TRUSTED = ["the executable layout specification coq/ListOut.v (+ Printf.v, Glob.v): its extracted list_output IS the reference "
           "rendering of the property; column names/widths, OS names, month names regenerated from src/list.c on every run",
           "real tool built with -DTEST_BUILD, run with TZ=UTC and TEST_NOW_TIME"]
ASSUMPTIONS = ["TZ=UTC (localtime modelled by gmtime_utc)", "footer sums are size_t (mod 2^64)"]


def run(ctx):
    rnd = random.Random(ctx.seed * 32416190071 + 19)
    cb = CBuild(PID)
    tmp = common.scratch_dir("c19")
    viol, mism = [], []
    try:
        lha = common.build_lha(cb)
        rn = tl.Runner(lha, ctx.model, tmp)
        stats = collections.Counter()
        now = rnd.choice([1500000000, 1000000000, 2000000000, 20000000, 4294967295])
        items = []
        n = 60 if ctx.quick else 1500
        blobs = [tl.gen_archive(rnd, now) for _ in range(n)]
        # archives whose sizes add up beyond 2^32 (footer totals must not wrap)
        for k in range(3):
            ms = b""
            for sz in (2 ** 31, 2 ** 31, 5 + k):
                f = {"level": 2, "method": b"-lh0-", "clen": 0, "length": sz, "time": now - 100, "attr": 0x20, "os": ord('U'),
                     "crc": 0, "exts": [(1, b"big%d" % sz)]}
                h = bytearray(lb.build_header(f))
                ms += bytes(h)
            blobs.append(ms + b"\0")
        lits = rn.literals(blobs)
        for i, (b, ls) in enumerate(zip(blobs, lits)):
            mtime = rnd.choice([now - 5, now - 20000000, 1, 86400 * 365, now])
            items.append(("g%d" % i, b, now, mtime, tl.variants_for(rnd, ls, full=False)))
        crashes, mm = [], []
        tl.compare_batch(rn, items, stats, mm, crashes)
        for c in crashes:
            viol.append({"property": PID, "kind": "tool-abnormal-exit", "detail": {k: (v if not isinstance(v, bytes) else v.hex()) for k, v in c.items()},
                         "sig": "crash"})
        for m in mm[:10]:
            # the model is the reference rendering: a difference is a concrete failing input
            viol.append({"property": PID, "kind": "list-output-differs-from-reference",
                         "mode": m.get("mode"), "quiet": m.get("quiet"), "patterns": m.get("patterns"), "now": m.get("now"),
                         "mtime": m.get("mtime"), "archive_hex": m.get("hex"),
                         "observed": (m.get("c") if not isinstance(m.get("c"), bytes) else m["c"].decode("latin1"))[:1500] if m.get("c") is not None else None,
                         "expected": (m.get("model") if not isinstance(m.get("model"), bytes) else m["model"].decode("latin1"))[:1500] if m.get("model") is not None else None,
                         "sig": "layout:" + str(m.get("mode"))})
        # ratio column against the tool's own float arithmetic
        rexe = cb.compile("drv_list_ratio", [os.path.join(common.CDIR, "drv_list_ratio.c"), os.path.join(common.REPO, "src", "safe.c"),
                                             os.path.join(common.REPO, "src", "filter.c")] + cb.lib_sources(), sanitize=True)
        pairs = tl.ratio_pairs(rnd, 1500 if ctx.quick else 40000)
        import subprocess
        e_ = dict(os.environ); e_.update(common.ASAN_ENV)
        pr = subprocess.run([rexe], input=("\n".join("%d %d" % ab for ab in pairs) + "\n").encode(), stdout=subprocess.PIPE,
                            stderr=subprocess.PIPE, env=e_, timeout=600)
        co = pr.stdout.decode().split("\n")[:-1]
        if len(co) != len(pairs):
            raise common.Broken("ratio driver produced %d lines for %d pairs: %s" % (len(co), len(pairs), pr.stderr.decode()[-300:]))
        mo = common.run_lines_parallel([ctx.model], ["ratio %d %d" % p for p in pairs])
        nr = 0
        for p, c, m in zip(pairs, co, mo):
            nr += 1
            if c != m:
                viol.append({"property": PID, "kind": "ratio-differs", "pair": list(p), "observed": c, "expected": m, "sig": "ratio"})
        cov = {"evaluations": stats["cases"] + nr, "distinct_nontrivial": stats["cases"],
               "rule": "generated archives of 1-6 members (sizes to 2^32-1 incl. packed > original and original 0, every OS type, "
                       "permission words over their range, uid/gid 0-65535, stamps 0, 1, around now-6*30d +-1s, 2^31, 2^32-1, hostile "
                       "and long names, symlinks, directories, levels 0-3, totals beyond 2^32) x {l,lv,v,vv} x quiet {none,0,1,2} x "
                       "pattern lists; stdout compared byte for byte with the extracted reference; %d ratio pairs against the tool's "
                       "own float code" % nr,
               "distribution": {k: v for k, v in stats.items() if k.startswith("mode_")},
               "samples": [items[0][1].hex()[:160], str(items[0][4][:2])[:200]]}
        return {"violations": viol[:10], "mismatches": [], "coverage": cov,
                "search_note": "the reference rendering is the oracle: every difference is reported with archive, mode and both outputs"}
    finally:
        shutil.rmtree(tmp, ignore_errors=True)
        cb.close()


def replay(payload):
    cb = CBuild(PID)
    tmp = common.scratch_dir("c19r")
    try:
        if payload.get("kind") != "list-output-differs-from-reference":
            print("replay by hand:", payload.get("kind"), payload.get("pair"))
            return 1
        lha = common.build_lha(cb)
        p = os.path.join(tmp, "a.lzh")
        open(p, "wb").write(bytes.fromhex(payload["archive_hex"]))
        os.utime(p, (payload["mtime"], payload["mtime"]))
        q = payload["quiet"]
        cmd = payload["mode"] + ("" if q == "-" else "q" + q)
        rc, out, err = common.run_lha(lha, [cmd, p] + [bytes.fromhex(x) for x in payload["patterns"]], now=payload["now"])
        print(out.decode("latin1"))
        bad = out.decode("latin1")[:1500] != payload.get("expected")
        print("REPRODUCED" if bad else "not reproduced")
        return 1 if bad else 0
    finally:
        shutil.rmtree(tmp, ignore_errors=True)
        cb.close()
